"""C22 - EC part node order visits every node once and spreads parts.

1. TLC exhaustive on spec/NodeSeq.tla: the code-shaped two-loop definition satisfies the declarative
   property (permutation; n >= t => part p starts at node p, distinct starts) for EVERY triple of the
   quantifier's range (parts 1..32, nodes 0..128, every part index); thorough: parts..40, nodes..160.
2. C->M record validation: the REAL iec.NodeSequenceForPart is run over the same full range; TLC evaluates
   the property on the recorded sequences (PropOnRecords) and checks records = spec function (CodeIsSpec).
   Verdict comes from PropOnRecords only; CodeIsSpec failing alone = model out of date (exit 2).
3. The USERS of the order: the real policer recreateECPart (node list of the replication task of a recreated part)
   and the real PUT ecNodesForPart are run for every part of many (parts, nodes) pairs; the applied orders are
   validated the same way (spec/TraceNodeUsers.tla).
The general (unbounded) statement is NOT claimed (see notes/ec.md)."""
import json, os, re
import vkit

LEVEL = "exploration"


def last_l(r):
    ms = re.findall(r"/\\ l = (\d+)", r.out)
    return int(ms[-1]) if ms else None


def diagnose(rec):
    t, n = rec["t"], rec["n"]
    for p, s in enumerate(rec["seqs"]):
        if sorted(s) != list(range(n)):
            return "part %d/%d over %d nodes: yielded %s is not a permutation of 0..%d" % (p, t, n, s[:40], n - 1)
        if n >= t and (not s or s[0] != p):
            return "part %d/%d over %d nodes starts at node %s, not at its own index" % (p, t, n, s[:1])
    return "property invariant false on record t=%d n=%d" % (t, n)


def run(ck):
    thorough = ck.tier == "thorough"
    maxT, maxN = (40, 160) if thorough else (32, 128)
    ck.tlc_model("NodeSeq", "NodeSeq_thorough.cfg" if thorough else "NodeSeq_quick.cfg", timeout=1200)
    ck.setcov("exhaustive", True)
    ck.setcov("constants", "MaxParts=%d MaxNodes=%d, every part index" % (maxT, maxN))
    binp = ck.gobuild("ec")
    recs = os.path.join(ck.tmp, "nodeseq.ndjson")
    args = ["nodeseq", maxT, maxN, recs]
    if ck.replay:
        rp = json.load(open(ck.replay))["replay"]
        args += [rp["t"], rp["n"]]
    ck.harness(binp, args)
    data = vkit.read_ndjson(recs)
    if not data:
        raise vkit.Infra("harness produced no records")
    triples = sum(r["t"] for r in data)
    ck.setcov("evaluations", triples)
    ck.setcov("records", len(data))
    ck.setcov("traces_validated_against_impl", triples)
    ck.setcov("distinct_nontrivial", sum(r["t"] for r in data if r["n"] >= 2 and r["t"] >= 2))
    ck.setcov("classes", {"n<t": sum(1 for r in data if r["n"] < r["t"]), "n=t": sum(1 for r in data if r["n"] == r["t"]),
                          "n>t,t|n": sum(1 for r in data if r["n"] > r["t"] and r["n"] % r["t"] == 0),
                          "n>t,other": sum(1 for r in data if r["n"] > r["t"] and r["n"] % r["t"] != 0)})
    ck.setcov("rule", "TraceNodeSeq.tla: PropOnRecords (permutation of 0..n-1; n>=t => head = part index, distinct heads) "
                      "evaluated by TLC on every recorded real sequence; CodeIsSpec: record = NodeSeq(p,t,n)")
    for r in data:
        if r["t"] == 5 and r["n"] in (3, 12):
            ck.sample({"t": r["t"], "n": r["n"], "seqs": r["seqs"]})
    if not ck.cov.get("samples"):
        ck.sample(data[0])
    v = ck.tlc_validate("TraceNodeSeq", "TraceNodeSeq.cfg", recs, timeout=1500, heap="6g")
    if not v.ok:
        pos = last_l(v) or 1
        if v.name == "CodeIsSpec":
            ms = re.findall(r"/\\ drift = (\d+)", v.out)
            pos = int(ms[-1]) if ms else pos
        rec = data[min(pos, len(data)) - 1]
        if v.kind == "invariant" and v.name == "PropOnRecords":
            ck.violation("real NodeSequenceForPart breaks C22 on record %d: %s" % (pos, diagnose(rec)),
                         {"t": rec["t"], "n": rec["n"], "seqs": rec["seqs"], "invariant": v.name})
        elif v.kind == "invariant" and v.name == "CodeIsSpec":
            raise vkit.Infra("real iterator differs from spec function NodeSeq on t=%d n=%d while the property holds on "
                             "the record: the model is out of date, not a verdict" % (rec["t"], rec["n"]))
        else:
            raise vkit.Infra("record validation failed: %s %s at record %d" % (v.kind, v.name, pos))
    # the USERS of the order (policer recreation of a lost part, PUT placement list) must apply exactly this order
    if not ck.replay:
        users = os.path.join(ck.tmp, "nodeusers.ndjson")
        ck.harness(binp, ["nodeusers", 20 if thorough else 12, 64 if thorough else 40, users])
        ud = vkit.read_ndjson(users)
        if len(ud) < 1000 or {r["user"] for r in ud} != {"policer-recreate", "put-nodes"}:
            raise vkit.Infra("vacuous users run: %d records" % len(ud))
        ck.setcov("user_orders_validated", len(ud))
        ck.add("traces_validated_against_impl", len(ud))
        uv = ck.tlc_validate("TraceNodeUsers", "TraceNodeUsers.cfg", users, timeout=900)
        if not uv.ok:
            pos = last_l(uv) or 1
            if uv.name == "CodeIsSpec":
                ms = re.findall(r"/\\ drift = (\d+)", uv.out)
                pos = int(ms[-1]) if ms else pos
            rec = ud[min(pos, len(ud)) - 1]
            if uv.kind == "invariant" and uv.name == "PropOnRecords":
                ck.violation("%s applies a node order that breaks C22 for part %d of %d over %d nodes: %s" % (
                    rec["user"], rec["p"], rec["t"], rec["n"], rec["seq"][:40]), {"t": rec["t"], "n": rec["n"], "user_record": rec})
            elif uv.kind == "invariant" and uv.name == "CodeIsSpec":
                raise vkit.Infra("%s applies an order different from NodeSequenceForPart (t=%d n=%d p=%d) while the property holds: "
                                 "model out of date, not a verdict" % (rec["user"], rec["t"], rec["n"], rec["p"]))
            else:
                raise vkit.Infra("users validation failed: %s %s" % (uv.kind, uv.name))
    if thorough and not ck.replay:
        # optional: arithmetic lemmas towards the unbounded statement (Apalache, unbounded integers). Evidence only.
        res = {}
        for inv in ("ShiftLemma", "InnerLoopLemma"):
            try:
                ok, bad, _ = ck.apalache("NodeSeqLemmas", ["--init=Init", "--next=Next", "--inv=" + inv, "--length=0"], timeout=600)
                res[inv] = "proved" if ok else ("REFUTED" if bad else "not closed")
            except Exception as e:  # noqa
                res[inv] = "not run (%s)" % str(e)[:80]
        ck.setcov("unbounded_arithmetic_lemmas_apalache", res)
        ck.notes.append("general statement NOT claimed: only the two arithmetic lemmas are machine-checked, their composition is a paper argument")
    ck.assumptions.append("Go range-over-func delivers the yielded values in order; sequences are compared as lists of ints")
    ck.assumptions.append("only the bounded universe is decided (parts<=%d, nodes<=%d); the unbounded statement is not claimed" % (maxT, maxN))
