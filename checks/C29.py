"""C29 - every object RPC verifies signatures, tokens and access rules before any read / write / forward
effect; a failing request gets an error status and causes no effect; no object data is sent before the
extended ACL has been evaluated against the object's header.

1. TLC explores spec/ObjectRPC.tla exhaustively (pipeline model, Strict = TRUE) and proves the four C29
   invariants for every request class and every admissible order of events.
2. The Go harness (cmd rpc) builds a REAL objectsvc.Server on the real get / put / delete / ACL services whose
   leaves are recording fakes (blobstor decorator, local-store writer, client constructor, fake peer node,
   gRPC send interceptor), enumerates the RPCs of ObjectServiceServer by reflection and calls every one of
   them with requests of every class: valid (control), unsigned, wrongly signed (Put: also a bad 2nd chunk),
   missing / malformed body, expired / tampered / wrong-verb session token, expired / tampered bearer token,
   denied by basic ACL, denied by eACL on the request, denied by eACL at header time (local copy that shows
   up after the request-time evaluation, copy fetched from another container node) crossed with every request
   flag that changes the reply shape (GET payload_only / raw / range / extended range and combinations, HEAD raw /
   main_only, RANGE raw), maintenance on; signature classes also depend on the transport: a second front of the
   same server reports the peer as TLS-authenticated (what pkg/network/peerauth leaves after mTLS): unsigned TTL=1
   is the documented exemption (control, must be served), a present-but-invalid verification header with TTL=1, and
   an unsigned TTL>1 request must be refused with no effect.
3. TLC judges the recorded events with the C29 invariants (Strict = FALSE: a false invariant on a recorded
   trace is a VIOLATION) and checks that the trace is a behaviour of the pipeline model (Strict = TRUE; a
   rejection there alone = model drift, exit 2)."""
import json
import os

import rpc_util
import vkit

LEVEL = "exploration"
CLS_FIELDS = ["sig", "maint", "body", "tok", "basic", "ereq", "ehdr", "cnr", "obj", "ttl", "as", "flags", "peer", "maint_at"]
CLIENT_OPS = {"Get", "Head", "GetRange", "Put", "Delete", "SearchV2"}


def category(c):
    k = c["cls"]
    if k["maint"] or k.get("maint_at"):
        return "maintenance"
    if k["sig"] != "ok":
        return "signature:" + k["sig"]
    if k["body"] != "ok":
        return "body:" + k["body"]
    if k["tok"] not in ("none", "ok", "bearer_ok"):
        return "token:" + k["tok"]
    if not k["basic"]:
        return "basic_acl"
    if k["ereq"] == "deny":
        return "eacl_request"
    if k["ereq"] == "nm" and k["ehdr"] == "deny" and c["m"] in ("Get", "Head"):
        return "eacl_header"
    return "valid"


def run(ck):
    ck.tlc_model("ObjectRPC", "ObjectRPC_model.cfg" if ck.tier == "thorough" else "ObjectRPC_quick.cfg", timeout=1200, workers=4)
    binp = ck.gobuild("rpc")
    trace, callsp = os.path.join(ck.tmp, "obj-trace.ndjson"), os.path.join(ck.tmp, "obj-calls.ndjson")
    if ck.replay:
        p = ck.harness(binp, ["obj-replay", os.path.abspath(ck.replay), trace, callsp])
    else:
        p = ck.harness(binp, ["obj", "c29", trace, callsp], timeout=1500)
    summ = json.loads(p.stdout.strip().splitlines()[-1])
    calls = rpc_util.load_calls(callsp, trace)
    ck.setcov("rpc_methods", summ.get("methods"))
    unmodelled = sorted(m for m, s in (summ.get("methods") or {}).items() if s == "unmodelled")
    if unmodelled:
        ck.notes.append("unmodelled RPCs of ObjectServiceServer (no driver, NOT checked): %s" % ", ".join(unmodelled))
    ck.setcov("unmodelled", unmodelled)

    cats = {}
    for c in calls:
        cats.setdefault(c["m"], {}).setdefault(category(c), 0)
        cats[c["m"]][category(c)] += 1
    ck.setcov("calls_per_method_and_category", cats)
    findings = rpc_util.judge(ck, "TraceObjectRPC", "TraceObjectRPC_c29.cfg", "TraceObjectRPC_strict.cfg", calls, tag="c29")
    for f in findings:
        c = f["call"]
        ck.violation("C29: %s request of class [%s]: invariant %s false after event #%d %s; call events: %s" % (
            c["m"], category(c), f["invariant"], f["event_index"], json.dumps(f["event"]), json.dumps(c["events"])),
            {"calls": [{"m": c["m"], "cls": c["cls"]}], "events": c["events"], "raw": c.get("raw"), "invariant": f["invariant"], "tlc": f["tlc"]})

    if not ck.replay and not findings:
        # anti-vacuity (exit 2, never a verdict); after the judgement: a change that breaks the property must not be masked by it
        need = {"valid", "signature:none", "signature:bad", "signature:forged", "body:missing", "token:expired", "token:badsig", "token:bearer_expired",
                "basic_acl", "eacl_request", "maintenance"}
        for m in CLIENT_OPS:
            miss = need - set(cats.get(m, {}))
            if m in ("Get", "Head") and "eacl_header" not in cats.get(m, {}):
                miss.add("eacl_header")
            if miss:
                raise vkit.Infra("request classes %s were not produced for %s" % (sorted(miss), m))
        for c in calls:
            if category(c) == "valid" and c["m"] in CLIENT_OPS:
                rep = c["events"][-1]
                degenerate = any(f in c["cls"].get("flags", "") for f in ("q_notpresent", "q_numgt"))   # answered without any lookup
                if (not degenerate and not any(e["ev"] == "Eff" for e in c["events"])) or rep["code"] >= 1024 or rep["grpc"]:
                    raise vkit.Infra("valid control call is not served: %s -> %s" % (json.dumps({"m": c["m"], "cls": c["cls"]}), json.dumps(c["events"])))
        hdr_deny = [c for c in calls if category(c) == "eacl_header" and any(e["ev"] == "EACL" and e["a"] == "hdr" and e["res"] == "deny" for e in c["events"])]
        hdr_allow = [c for c in calls if c["cls"]["ereq"] == "nm" and c["cls"]["ehdr"] == "allow" and not c["cls"]["maint"] and c["m"] == "Get"
                     and any(e["ev"] == "Data" and e["a"] == "chunk" for e in c["events"])]
        if not hdr_deny or not hdr_allow:
            raise vkit.Infra("header-time eACL stage is not exercised (deny=%d allow-with-payload=%d)" % (len(hdr_deny), len(hdr_allow)))
        ck.setcov("header_time_denials", len(hdr_deny))
        # transport-dependent signature classes and reply-shape flags (anti-vacuity)
        for m in CLIENT_OPS:
            if not any(c["m"] == m and c["cls"]["peer"] == "mtls" and c["cls"]["sig"] == "forged" and c["cls"]["ttl"] == 1 for c in calls):
                raise vkit.Infra("class authenticated peer x TTL=1 x present-but-invalid verification header missing for %s" % m)
        exempt = [c for c in calls if c["cls"]["sig"] == "exempt" and c["cls"]["basic"] and not c["cls"]["maint"]]
        if not exempt or any(c["events"][-1]["code"] >= 1024 or not any(e["ev"] == "Eff" for e in c["events"]) for c in exempt):
            raise vkit.Infra("the fake mTLS transport is not recognised as an authenticated peer (unsigned TTL=1 request of a container node is not served)")
        shapes = {}
        for c in [c for c in calls if category(c) == "eacl_header"]:
            shapes.setdefault(c["m"], set()).add((c["cls"]["flags"], c["cls"]["obj"]))
        ck.setcov("header_time_denial_shapes", {m: sorted("%s@%s" % (f or "plain", o) for f, o in v) for m, v in shapes.items()})
        for f in ("payload_only", "raw", "range", "xrange", "payload_only+range"):
            for o in ("remote", "late"):
                if (f, o) not in shapes.get("Get", ()):
                    raise vkit.Infra("header-time denial not exercised for GET flags=%s object=%s" % (f, o))

    ck.setcov("traces_validated_against_impl", len(calls))
    ck.setcov("evaluations", len(calls))
    ck.setcov("distinct_nontrivial", len({rpc_util.abstract_class(c, CLS_FIELDS) for c in calls}))
    ck.setcov("rule", "ObjectRPC!C29_NoEffectForFailingRequest, C29_ChecksPrecedeEffects, C29_HeaderEACLBeforeData, C29_ErrorStatusForFailingRequest "
                      "evaluated by TLC in every state of the recorded trace of every call; the trace must also be a behaviour of the pipeline model (Strict)")
    ck.setcov("trace_events", sum(len(c["events"]) for c in calls))
    by = {}
    for c in calls:
        by.setdefault(category(c), c)
    for k in ("eacl_header", "signature:bad", "valid"):
        if k in by:
            ck.sample({"m": by[k]["m"], "cls": by[k]["cls"], "events": by[k]["events"]})
    ck.assumptions.append("request class (cls) is the harness's ground truth about how the request was built (which key signed, what was changed after signing, "
                          "which container / eACL table / role); cryptography is trusted")
    ck.assumptions.append("Head and SearchV2 are wired to HeadBuffered / SearchV2Buffered as in cmd/neofs-node/object.go (the bare methods panic by design)")
    ck.assumptions.append("effects are observed at the leaves: blobstor decorator, putsvc ObjectStorage, objectsvc.Storage, ClientConstructor, fake peer node, gRPC send interceptor; "
                          "metabase-only reads and FS-chain reads (container, netmap) are not counted as object-data effects")
    ck.assumptions.append("forwarding by a node that is NOT in the container (request relayed as is, ACL decided by the container node) is outside the enumerated world")
    ck.assumptions.append("static half (dominance of the checks over the effects for all programs / future handlers) is not decided: RPCs are enumerated by reflection, "
                          "a new RPC is reported as unmodelled")
