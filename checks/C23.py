"""C23 - reading a split or erasure-coded object returns exactly its original bytes.

1. TLC exhaustive, spec/AssembleMC.tla: the implementation-shaped range arithmetic of every assembly path
   (v1 initFromChild/buildChainInReverse, v2 link requiredChildren, v2 walk-back, EC part ranges) equals the
   declarative reference for EVERY range of EVERY mode over all small layouts (repaired model, all deviation
   switches FALSE); the as-is model (switches TRUE) deviates exactly in the four known-finding classes.
2. M->C: TLC -simulate (AssembleGen) picks layouts + ranges; the harness builds them with the real SDK slicer /
   real EC encoder (sizes x1 KiB), stores them in a real single-shard StorageEngine and reads through the real
   getsvc.Service (Get with every range mode, GetRange).
3. C->M: seeded boundary-directed real-size cases (payload <= 64 KiB, limits 1..4 KiB, EC rules with random
   missing parts <= parity) produced and executed by the harness.
   All reads become records validated by TLC against spec/TraceAssemble.tla.
Known findings (see known_findings.d/ec.json, fixes/C23-*.diff): validation starts in the repaired world; a
rejection whose input lies in a known class switches that class to its as-is model (which must then match
EXACTLY) and reports it through the known-findings protocol; anything else is a VIOLATION."""
import json, os
import vkit
import ec_util

LEVEL = "model_checking"

SWITCHES = ["BugV1NoLinkExtra", "BugV2NoLinkEmpty", "BugECFirstPart", "BugECNoDataHeader"]
SIG = {"BugV1NoLinkExtra": "C23-v1-nolink-range-appends-last-child",
       "BugV2NoLinkEmpty": "C23-v2-nolink-range-empty",
       "BugECFirstPart": "C23-ec-range-first-part-missing",
       "BugECNoDataHeader": "C23-ec-get-all-data-parts-missing"}


def known_class(i):
    """Deviation switch whose class contains this input (decided from the input only), or None."""
    if i["mode"] == "none":
        if i["layout"] == "ec" and set(range(1, i["k"] + 1)) <= set(i["miss"]):
            return "BugECNoDataHeader"
        return None
    if i["layout"] == "v1nolink":
        return "BugV1NoLinkExtra"
    if i["layout"] == "v2nolink":
        return "BugV2NoLinkEmpty"
    if i["layout"] == "ec" and 1 in i["miss"]:
        return "BugECFirstPart"
    return None


def cfg_text(on):
    return ("SPECIFICATION TraceSpec\nCONSTANTS\n" +
            "".join("  %s = %s\n" % (s, "TRUE" if s in on else "FALSE") for s in SWITCHES) +
            "INVARIANTS RecWellFormed RecOK\nCHECK_DEADLOCK FALSE\n")


def run(ck):
    thorough = ck.tier == "thorough"
    ck.tlc_model("AssembleMC", "AssembleMC_thorough.cfg" if thorough else "AssembleMC_quick.cfg", timeout=2400)
    ck.tlc_model("AssembleMC", "AssembleMC_asis.cfg", timeout=1200)
    ck.setcov("exhaustive", True)
    ck.setcov("constants", "L<=%d, S<=4, 7 EC rules with every missing set <= parity, every range of every mode with values 0..L+1; "
                           "as-is model L<=7 S<=3" % (12 if thorough else 9))
    binp = ck.gobuild("ec")
    cases = os.path.join(ck.tmp, "cases.ndjson")
    if ck.replay:
        rp = json.load(open(ck.replay))["replay"]
        vkit.write_ndjson(cases, [rp["case"]])
        n_model = n_real = 0
    else:
        model_cases = []
        for s in range(3 if thorough else 1):
            model_cases += ck.tlc_scripts("AssembleGen", "AssembleGen.cfg", num=400 if thorough else 60, depth=12,
                                          seed=ck.seed * 10 + s)
        for c in model_cases:
            c["unit"] = 1024
            c["miss"] = sorted(c["miss"])
        real = os.path.join(ck.tmp, "real.ndjson")
        ck.harness(binp, ["assemble-gen", 1500 if thorough else 90, 14 if thorough else 10, real])
        real_cases = vkit.read_ndjson(real)
        n_model, n_real = len(model_cases), len(real_cases)
        vkit.write_ndjson(cases, model_cases + real_cases)
    recs = os.path.join(ck.tmp, "reads.ndjson")
    ck.harness(binp, ["assemble", cases, recs], timeout=3000)
    data = vkit.read_ndjson(recs)
    if not data:
        raise vkit.Infra("no reads recorded")
    all_cases = vkit.read_ndjson(cases)
    ck.setcov("cases_from_model", n_model)
    ck.setcov("cases_real_size", n_real)
    ck.setcov("traces_validated_against_impl", len(all_cases))
    ck.setcov("reads_validated", len(data))
    by = {}
    for r in data:
        k = "%s/%s/%s" % (r["in"]["layout"], r["in"]["mode"], r["out"]["st"])
        by[k] = by.get(k, 0) + 1
    ck.setcov("reads_by_layout_mode_status", by)
    ck.setcov("distinct_nontrivial", len(by))
    for want in ("v2", "ec", "v1nolink"):
        for r in data:
            if r["in"]["layout"] == want and r["in"]["mode"] != "none" and r["out"]["st"] == "ok" and r["out"]["n"] > 0:
                ck.sample({k: v for k, v in r.items() if k != "msg"})
                break
    if not ck.replay:
        lay = {r["in"]["layout"] for r in data}
        if lay != {"whole", "v1", "v1nolink", "v2", "v2nolink", "ec"} or not any(r["in"]["miss"] for r in data):
            raise vkit.Infra("vacuous run: layouts %s" % sorted(lay))

    on = []
    while True:
        bad = ec_util.validate_chunks(ck, "TraceAssemble", "TraceAssemble.cfg", recs, chunk=60000,
                                      files={"TraceAssemble.cfg": cfg_text(on)})
        if not bad:
            break
        idx, line, v = bad
        rec = json.loads(line)
        if not (v.kind == "invariant" and v.name == "RecOK"):
            raise vkit.Infra("record validation failed: %s %s at record %d: %s" % (v.kind, v.name, idx + 1, line[:400]))
        sw = known_class(rec["in"])
        # find the case the record belongs to (for the replay file)
        case, seen = None, 0
        for c in all_cases:
            seen += len(c["reads"])
            if idx < seen:
                case = dict(c)
                break
        what = "read through the real getsvc.Service differs from the original bytes: in=%s out=%s %s" % (
            json.dumps(rec["in"]), json.dumps(rec["out"]), rec.get("msg", ""))
        if sw is None or sw in on:
            # outside every known class, or inside one but not the exact as-is behaviour of that finding
            ck.violation(what, {"case": case, "record": rec, "switches_on": on})
            break
        on.append(sw)
        ck.report(SIG[sw], what, {"case": case, "record": rec})
        if ck.violations:
            break
    ck.setcov("deviation_switches_needed", on)
    ck.assumptions.append("objects are built by the harness: v2 splits by the real SDK slicer, v1 (legacy split-ID) chains by hand "
                          "following the layout the metabase recognises, EC parts by the real encoder + iec.FormObjectForECPart; "
                          "remote nodes do not exist (every container node is the local node; missing EC parts are simply not stored)")
    ck.assumptions.append("received bytes are compared with the payload by the harness at candidate offsets; the spec decides which "
                          "offset and length are right")
    ck.assumptions.append("size-split objects inside EC containers (copySplitECObject*) and multi-rule EC fallbacks are not exercised")
