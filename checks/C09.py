"""C09 - a removed (tombstoned / dropped) object never becomes readable again without a new upload.

1. TLC exhaustive on spec/Shard.tla (micro-step level: put / delete / GC / flush / epoch / mark / resync / crash at
   every step boundary, with and without write-cache): invariant C09ModKF = "a removed object is readable again only
   through an orphan blob left by an interrupted (or failed) blob deletion and re-indexed by a resync" (as-is model,
   hypothesis H9).  Thorough: additionally the repaired model (BugH9 = FALSE) satisfies the strict property.
2. TLC (breadth-first on spec/ShardGen.tla) produces a shortest operation-level counterexample of the STRICT property
   on the as-is model; it is replayed on the real shard together with hand-chosen crash-point scripts (tombstone
   expiry + resync variants) and TLC -simulate behaviours (random crash points, blobstor faults).
3. Every behaviour runs on a REAL shard.Shard (FSTree + bbolt + optional write-cache, temp dirs); the recorded
   trace (one event per step boundary with the projected real state) is validated by spec/TraceShard.tla:
   rejected event => VIOLATION (real code left the model); C09ModKF false on a recorded state => VIOLATION;
   strict property false with a known-finding cause => KNOWN-FINDING (signature orphan-blob:<cause>+resync)."""
import json
import os

import vkit
import sharda_util as su

LEVEL = "model_checking"

SIG = {"crashdel": "orphan-blob:crash-between-meta-and-blob-step-of-deleteObjs+resync",
       "delfail": "orphan-blob:ignored-blob-delete-error+resync",
       "flushrace": "orphan-blob:flush-vs-delete-race+resync"}


def P(a, crash=0):
    return {"op": "Put", "a": a, "c": 0, "ids": [], "crash": crash, "fail": 0}


def GC(crash=0, fail=0):
    return {"op": "GC", "a": 0, "c": 0, "ids": [], "crash": crash, "fail": fail}


def D(c, ids, crash=0, fail=0):
    return {"op": "Delete", "a": 0, "c": c, "ids": ids, "crash": crash, "fail": fail}


FL = {"op": "Flush", "a": 0, "c": 0, "ids": [], "crash": 0, "fail": 0}
EP = {"op": "Epoch"}
RS = {"op": "Resync"}
FR = {"op": "FlushRelease"}


def FH(a):
    return {"op": "FlushHold", "a": a}
RT = {"op": "Restart"}


def M(c, ids, mk="def"):
    return {"op": "Mark", "c": c, "ids": ids, "mk": mk}


def deliberate():
    """hand-chosen crash points (H9 and its neighbours) and positive controls"""
    out = []
    for wc in (False, True):
        fl = [FL] if wc else []
        # H9 as hypothesised: tombstoned object, crash between metadata and blob step, tombstone expires and is
        # collected, resync
        out.append({"wc": wc, "batch": 2, "steps": [P(1), P(3)] + fl + [GC(crash=2), EP, EP, EP, GC(), GC(), RS, RT]})
        # dropped (garbage-marked) object, same crash point, resync at once
        out.append({"wc": wc, "batch": 2, "steps": [P(1)] + fl + [M(1, [1]), GC(crash=2), RS]})
        # blob deletion error (ignored by deleteObjs) instead of a crash
        out.append({"wc": wc, "batch": 2, "steps": [P(1)] + fl + [M(1, [1]), GC(fail=1), RS, GC(), RS]})
        # controls: no crash => nothing comes back, whatever the order of resyncs / restarts / expiry
        out.append({"wc": wc, "batch": 1, "steps": [P(1), P(3), RS] + fl + [GC(), GC(), RT, EP, EP, EP, GC(), GC(), RS, RS]})
        out.append({"wc": wc, "batch": 2, "steps": [P(1), P(3), GC(crash=1), RS, GC(), EP, EP, EP, GC(), RS]})
        # crash after the blob step: clean
        out.append({"wc": wc, "batch": 2, "steps": [P(1)] + fl + [M(1, [1]), GC(crash=3), RS]})
        if wc:
            # flush-versus-delete schedules: the flush has read object 1 from the cache, the object is removed
            # (dropped / tombstoned + GC), then the flush writes the stale bytes into the blobstor
            out.append({"wc": True, "batch": 2, "steps": [P(1), P(2), FH(1), M(1, [1]), GC(), FR, RS]})
            out.append({"wc": True, "batch": 2, "steps": [P(1), P(3), FH(1), GC(), FR, EP, EP, EP, GC(), GC(), RS]})
            out.append({"wc": True, "batch": 2, "steps": [P(1), P(3), FH(3), GC(), FR, EP, EP, EP, GC(), GC(), RS, RS]})   # control: the tombstone is flushed late
            out.append({"wc": True, "batch": 2, "steps": [P(1), FH(1), D(1, [1], crash=2), P(1), FL, M(1, [1]), GC(), RS]})
        # crash inside the put of the tombstone, then the rest
        out.append({"wc": wc, "batch": 2, "steps": [P(1), P(3, crash=1), RS, P(3), GC(), EP, EP, EP, GC(), RS]})
    return out


def run(ck):
    thorough = ck.tier == "thorough"
    binp = ck.gobuild("sharda")
    world = su.detect_world(ck, binp)
    if not ck.replay and not os.environ.get("VERIF_SKIP_MODEL"):     # (dev aid for mutation runs: the model check does not depend on the tree)
        ck.tlc_model("Shard", "Shard_C09.cfg", timeout=1200, files=su.cfg_files(world, "Shard_C09.cfg"))
        ck.setcov("exhaustive", True)
        ck.setcov("constants", "Objs={1 REG, 3 TS->1 exp 2} wc in {off,on} batch=2 epochs 0..3; ops Put GC Flush Epoch MarkDef Resync + crash at every micro-step")
        if thorough:
            ck.tlc_model("Shard", "Shard_C09t.cfg", timeout=2400, files=su.cfg_files(world, "Shard_C09t.cfg"))
            ck.tlc_model("Shard", "Shard_C09fixed.cfg", timeout=1200, files=su.cfg_files(world, "Shard_C09fixed.cfg"))
            ck.tlc_model("Shard", "Shard_C09race.cfg", timeout=2400, files=su.cfg_files(world, "Shard_C09race.cfg"))     # + flush-versus-delete schedules
            ck.setcov("repaired_model_strict_property", True)
    if ck.replay:
        scripts = [json.load(open(ck.replay))["replay"]["script"]]
        ncex = 0
    else:
        # shortest counterexample of the strict property on the as-is model (model-only: not a verdict)
        cexcfg = "ShardGen_C09cext.cfg" if thorough else "ShardGen_C09cex.cfg"
        r = ck.tlc("ShardGen", cexcfg, timeout=900, deadlock=False, count=False, files=su.cfg_files(world, cexcfg))
        cex = []
        for ln in r.out.splitlines():
            if ln.startswith('<<"BEH", '):
                cex.append(json.loads(json.loads(ln[len('<<"BEH", '):].rstrip()[:-2])))
        cex = cex[:1]
        ncex = len(cex)
        ck.log("model counterexample of the strict property: %s" % (json.dumps(cex[0]["steps"]) if cex else "none (%s)" % r.kind))
        scripts = cex + deliberate()
        for s in range(3 if thorough else 1):
            scripts += ck.tlc_scripts("ShardGen", "ShardGen_C09.cfg", files=su.cfg_files(world, "ShardGen_C09.cfg"), num=1200 if thorough else 80, depth=12,
                                      seed=ck.seed * 10 + s, timeout=900)
    tp, info = su.run_scripts(ck, binp, scripts)
    ck.log("harness: %s" % info)
    if info.get("scripts", 0) - info.get("skipped", 0) < max(1, len(scripts) // 2):
        raise vkit.Infra("too many behaviours discarded: %s" % info)
    v = su.validate(ck, "TraceShard_C09.cfg", tp, world=world)
    if not v.r.ok and v.stuck and v.events[v.stuck[0] - 1]["ev"] == "Crash" and v.stuck[1] and \
            all(m[0] == "blob" and m[2] == "TRUE" and m[3] == "FALSE" for m in v.stuck[1]):
        # the tree does not leave the orphan blob any more (H9 repaired): judge with the repaired model
        ck.log("as-is model rejected at a crash without orphan blob: validating against the repaired model")
        v = su.validate(ck, "TraceShard_C09fixed.cfg", tp, world=world)
    su.judge(ck, "C09", v, scripts, "C09",
             lambda cause: SIG.get(cause, "unlisted-cause:" + cause),
             lambda cause: "removed object readable again after metabase resync (orphan blob cause: %s)" % cause)
    ev = v.events
    ck.setcov("traces_validated_against_impl", info.get("scripts", 0) - info.get("skipped", 0))
    ck.setcov("trace_events", len(ev))
    ck.setcov("model_counterexamples_replayed", ncex)
    ck.setcov("deliberate_crash_scripts", len(deliberate()))
    ck.setcov("crash_events", sum(1 for e in ev if e["ev"] == "Crash"))
    ck.setcov("resync_events", sum(1 for e in ev if e["ev"] == "Do" and e["op"] == "Resync"))
    ck.setcov("distinct_step_kinds", sorted({e.get("k") or e.get("op") or e["ev"] for e in ev}))
    if info["panics"]:
        ck.setcov("real_panics_treated_as_crash", info["panics"])
    ck.sample({"script": scripts[0], "trace_head": [su.strip_st(e) for e in ev[:12]]})
    ck.sample({"projected_state_example": ev[min(3, len(ev) - 1)].get("st")})
    ck.assumptions += [
        "crash = panic at a verifhook point / blobstor decorator call, then Shard.Close + reopen on the same files "
        "(process crash: bbolt commits and FSTree files stay as written; power-loss reordering is out of scope)",
        "resync = what `neofs-lancet meta resync` does (meta.DB.ResyncFromBlobstor on the closed shard's files)",
        "expired-objects callback = single-shard equivalent of engine.processExpiredObjects",
        "background flush scheduler of the write-cache is gated (hook writecache.sched.round); flushes happen when "
        "the script says (Shard.FlushWriteCache); flush-versus-delete: an explicit flush is paused (blobstor decorator) between "
        "reading an object from the cache and writing it, other requests run meanwhile; worker/scheduler races are C16 (shardb)",
        "readable = Shard.Get(addr, skipMeta=false) returns the stored bytes; ReviveObject (explicit operator undo) excluded",
    ]
