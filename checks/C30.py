"""C30 - session and bearer tokens are honoured only when valid for the request.

1. TLC exhaustive on spec/Tokens.tla: `Honoured` (implementation-shaped: decode, signature by scheme,
   lifetime in epochs / rounded chain time, container / object / verb table, V2 contexts and delegation
   chain) implies the property (`PHonouredOnlyIf`), any signed-field change rejects, nothing is honoured
   outside [nbf, exp]; the assertVerb relaxation table equals "own verb + read-only helpers" (ASSUME).
2. Go harness: real V1 / V2 session tokens and bearer tokens, all ECDSA schemes + N3 witnesses (fake
   chain), all 27 lifetimes around several epochs (incl. 0) / 15 chain times x 27 second-claims, the full
   V1 verb x verb x object x container table, V2 context lists and delegation chains with one defect, every
   signed field changed after signing, signature/key/scheme substitutions, structural defects, and one
   bit flipped at every byte offset of the signed body; verdicts of the real
   acl/v2.Service.Verify*TokenMessage.
3. TLC (TraceTokens): ok = Honoured(abstract input) for every record."""
import json
import os

import acl_util
import vkit

LEVEL = "exploration"


def sgn(a, b):
    return (a > b) - (a < b)


def klass(i):
    k = i["kind"]
    auth = (i["wf"], i["scheme"], i["sig"], i["n3ok"] if i["scheme"] == "n3" else None)
    if k == "v2":
        t = (i["nowMs"] + 500) // 1000
        life = (sgn(i["iat"], t), sgn(i["nbf"], t), sgn(i["exp"], t), i["nowMs"] % 1000)
        rel = (tuple((c["c"], tuple(c["verbs"])) for c in i["ctxs"]), i["rv"],
               tuple((c["sig"], c["subj"], c["narrow"], c["verbs"], c["final"]) for c in i["chain"]))
    else:
        life = (sgn(i["iat"], i["cur"]), sgn(i["nbf"], i["cur"]), sgn(i["exp"], i["cur"]), i["cur"] == 0)
        rel = (i["cnr"], i["obj"], i["objZero"], i["tv"], i["rv"]) if k == "v1" else None
    return (k, auth, life, rel)


def run(ck):
    thorough = ck.tier == "thorough"
    if not os.environ.get("VERIF_ACL_SKIP_MODEL"):   # mutation-testing convenience only
        ck.tlc_model("Tokens", "Tokens_thorough.cfg" if thorough else "Tokens_quick.cfg", timeout=1500)
    ck.setcov("exhaustive", True)
    ck.setcov("constants", "Epochs {0,1,7,1000,2147483000}, full verb/relation product per auth class" if thorough
              else "Epochs {0,1,7}, verb/relation product for the good auth class")
    binp = ck.gobuild("acl")
    recs_path = os.path.join(ck.tmp, "c30.ndjson")
    if ck.replay:
        doc = json.load(open(ck.replay))
        ck.seed = doc.get("seed", ck.seed)
        ck.tier = doc.get("tier", ck.tier)
        ck.harness(binp, ["c30replay", recs_path, doc["replay"]["idx"]])
    else:
        ck.harness(binp, ["c30", recs_path], timeout=1500)
    recs, bad = acl_util.validate(ck, "TraceTokens", "TraceTokens.cfg", recs_path)
    ck.setcov("traces_validated_against_impl", len(recs))
    ck.setcov("rule", "Tokens!Admissible(abstract input, ok of real Service.Verify*TokenMessage): ok = Honoured(in), either neighbouring whole second admitted for a sub-second V2 chain time")
    ck.setcov("distinct_nontrivial", len({klass(r["in"]) for r in recs}))
    by = {}
    for r in recs:
        by.setdefault(r["in"]["kind"], {}).setdefault(r["out"]["ok"], 0)
        by[r["in"]["kind"]][r["out"]["ok"]] += 1
    ck.setcov("verdicts_by_kind", {k: {str(o): n for o, n in v.items()} for k, v in by.items()})
    hows = {}
    for r in recs:
        h = r["desc"]["how"].split(":")[0]
        h = "bit flip of the signed body" if h.startswith("bit ") else h
        hows[h] = hows.get(h, 0) + 1
    ck.setcov("mutation_classes", hows)
    ck.sample(recs[0])
    for r in recs:
        if r["desc"]["how"].startswith("bit "):
            ck.sample(r)
            break
    for r in recs:
        if r["in"]["kind"] == "v2" and r["in"]["chain"] and not r["out"]["ok"]:
            ck.sample(r)
            break
    if not ck.replay:
        for k in ("v1", "v2", "bearer"):
            if set(by.get(k, {})) != {True, False}:
                raise vkit.Infra("vacuous: kind %s verdicts %s" % (k, by.get(k)))
        for rv in range(1, 8):
            for k in ("v1", "v2"):
                vs = {r["out"]["ok"] for r in recs if r["in"]["kind"] == k and r["in"]["rv"] == rv}
                if vs != {True, False} and not (k == "v2" and rv == 7 and vs == {False}):
                    raise vkit.Infra("vacuous: %s request verb %d verdicts %s" % (k, rv, vs))
        if hows.get("bit flip of the signed body", 0) < 100:
            raise vkit.Infra("vacuous: too few body bit flips")
    for k in bad[:5]:
        r = recs[k]
        ck.violation("real token verification %s a %s token the spec says must be %s (record %d, %s; service said: %r): %s"
                     % ("honoured" if r["out"]["ok"] else "rejected", r["in"]["kind"],
                        "rejected" if r["out"]["ok"] else "honoured", k, r["desc"]["how"], r["desc"].get("err"), json.dumps(r["in"])),
                     {"idx": r["idx"], "record": r, "bad_records_total": len(bad)})
    ck.assumptions += [
        "sig = ok iff the attached signature was produced by the issuer's key over exactly the body now carried (tracked by construction; cryptography trusted)",
        "lifetime, container, object list, verb and contexts of the abstract input are read back from the final proto message by the harness (absV1 / absV2)",
        "N3 witnesses are judged by a fake FS chain (verifies iff registered good AND the signer account is the hash of the verification script)",
        "token check caches are purged on every epoch / time change before the next verification (cmd/neofs-node wires this with new-epoch handlers)",
        "how a sub-second V2 chain time is rounded to whole seconds is not pinned (either neighbouring second admitted); epochs above 2^31 are not representable in TLC",
    ]
