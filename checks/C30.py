"""C30 - session and bearer tokens are honoured only when valid for the request.

1. TLC exhaustive on spec/Tokens.tla: `Honoured` (implementation-shaped: decode, signature by scheme,
   lifetime in epochs / rounded chain time, container / object / verb table, V2 contexts and delegation
   chain) implies the property (`PHonouredOnlyIf`), any signed-field change rejects, nothing is honoured
   outside [nbf, exp]; the assertVerb relaxation table equals "own verb + read-only helpers" (ASSUME).
2. Go harness: real V1 / V2 session tokens and bearer tokens, all ECDSA schemes + N3 witnesses (fake
   chain), all 27 lifetimes around several epochs (incl. 0) / 15 chain times x 27 second-claims, the full
   V1 verb x verb x object x container table, V2 context lists and delegation chains with one defect, every
   signed field changed after signing, signature/key/scheme substitutions, structural defects, and one
   bit flipped at every byte offset of the signed body; verdicts of the real
   acl/v2.Service.Verify*TokenMessage.
3. TLC (TraceTokens): ok = Honoured(abstract input) for every record.
4. Cache half (spec/TokenCache.tla): the memoisation of the common token check is modelled explicitly
   (purged at new-epoch events only); TLC proves it is transparent (every verification = cache-less
   evaluation at the current chain time / epoch). TLC-simulated and seeded random histories
   Verify / Tick (chain time advances, no purge) / Epoch (epoch++ and purge, as the node does) are
   executed on ONE real Service re-verifying the SAME token bytes, and the recorded trace is validated
   by TraceTokenCache (same result at every step, CacheTransparent at every step)."""
import json
import os

import acl_util
import vkit

LEVEL = "exploration"


def sgn(a, b):
    return (a > b) - (a < b)


def klass(i):
    k = i["kind"]
    auth = (i["wf"], i["scheme"], i["sig"], i["n3ok"] if i["scheme"] == "n3" else None)
    if k == "v2":
        t = (i["nowMs"] + 500) // 1000
        life = (sgn(i["iat"], t), sgn(i["nbf"], t), sgn(i["exp"], t), i["nowMs"] % 1000)
        rel = (tuple((c["c"], tuple(c["verbs"])) for c in i["ctxs"]), i["rv"],
               tuple((c["sig"], c["subj"], c["narrow"], c["verbs"], c["final"]) for c in i["chain"]))
    else:
        life = (sgn(i["iat"], i["cur"]), sgn(i["nbf"], i["cur"]), sgn(i["exp"], i["cur"]), i["cur"] == 0)
        rel = (i["cnr"], i["obj"], i["objZero"], i["tv"], i["rv"]) if k == "v1" else None
    return (k, auth, life, rel)


def cache_half(ck, binp, thorough, only_script=None):
    """M->C + C->M for the verification caches. Returns number of histories run."""
    import random
    if only_script is not None:
        scripts = [only_script]
    else:
        scripts = []
        for s in range(3 if thorough else 1):
            scripts += ck.tlc_scripts("TokenCacheGen", "TokenCacheGen.cfg", num=60 if thorough else 15, depth=10, seed=ck.seed * 10 + s)
        cat = scripts[0]["cat"]
        rnd = random.Random(ck.seed * 7919 + 30)
        for _ in range(3000 if thorough else 300):   # seeded random histories, longer than the model's bounds
            steps = []
            for _ in range(rnd.randint(6, 16)):
                x = rnd.random()
                if x < 0.6:
                    steps.append({"ev": "Verify", "k": rnd.randint(1, len(cat))})
                elif x < 0.88:
                    steps.append({"ev": "Tick"})
                else:
                    steps.append({"ev": "Epoch"})
            scripts.append({"cat": cat, "steps": steps})
    sp = os.path.join(ck.tmp, "cache-scripts.ndjson")
    tp = os.path.join(ck.tmp, "cache-trace.ndjson")
    vkit.write_ndjson(sp, scripts)
    ck.harness(binp, ["c30cache", sp, tp], timeout=1500)
    v = ck.tlc_validate("TraceTokenCache", "TraceTokenCache.cfg", tp, timeout=1500, heap="6g")
    ev = vkit.read_ndjson(tp)
    ck.setcov("cache_histories", len(scripts))
    ck.setcov("cache_trace_events", len(ev))
    n_after = 0   # verifications of a token already verified earlier in the same epoch with chain time moved since
    for sc in scripts:
        seen, t = {}, 0
        for st in sc["steps"]:
            if st["ev"] == "Tick":
                t += 1
            elif st["ev"] == "Epoch":
                seen = {}
            elif st["k"] in seen and seen[st["k"]] != t:
                n_after += 1
            else:
                seen.setdefault(st["k"], t)
    ck.setcov("cache_reverifications_after_time_moved", n_after)
    if only_script is None and n_after < 50:
        raise vkit.Infra("vacuous: only %d re-verifications after a chain time change" % n_after)
    ck.sample({"cache_script": scripts[0], "trace_head": ev[:8]})
    if not v.ok:
        import re
        ls = re.findall(r"/\\ l = (\d+)", v.out)
        pos = int(ls[-1]) if ls else 1
        idx = -1
        for e in ev[:pos]:
            if e["ev"] == "Init":
                idx += 1
        start = max(i for i, e in enumerate(ev[:pos]) if e["ev"] == "Init")
        ck.violation("real token verification trace rejected by TokenCache (%s %s) at event %d: %s; history so far: %s"
                     % (v.kind, v.name, pos, json.dumps(ev[pos - 1]), json.dumps(ev[start:pos])),
                     {"cache_script": scripts[max(idx, 0)], "rejected_event": ev[pos - 1], "trace": ev[start:pos]})
    return len(scripts)


def run(ck):
    thorough = ck.tier == "thorough"
    if not os.environ.get("VERIF_ACL_SKIP_MODEL"):   # mutation-testing convenience only
        ck.tlc_model("Tokens", "Tokens_thorough.cfg" if thorough else "Tokens_quick.cfg", timeout=1500)
        ck.tlc_model("TokenCache", "TokenCache_quick.cfg", timeout=600)
    ck.setcov("exhaustive", True)
    ck.setcov("constants", "Epochs {0,1,7,1000,2147483000}, full verb/relation product per auth class" if thorough
              else "Epochs {0,1,7}, verb/relation product for the good auth class")
    binp = ck.gobuild("acl")
    recs_path = os.path.join(ck.tmp, "c30.ndjson")
    if ck.replay and "cache_script" in json.load(open(ck.replay))["replay"]:
        n = cache_half(ck, binp, thorough, only_script=json.load(open(ck.replay))["replay"]["cache_script"])
        ck.setcov("traces_validated_against_impl", n)
        return
    if ck.replay:
        doc = json.load(open(ck.replay))
        ck.seed = doc.get("seed", ck.seed)
        ck.tier = doc.get("tier", ck.tier)
        ck.harness(binp, ["c30replay", recs_path, doc["replay"]["idx"]])
    else:
        ck.harness(binp, ["c30", recs_path], timeout=1500)
    recs, bad = acl_util.validate(ck, "TraceTokens", "TraceTokens.cfg", recs_path)
    n_hist = 0 if ck.replay else cache_half(ck, binp, thorough)
    ck.setcov("traces_validated_against_impl", len(recs) + n_hist)
    ck.setcov("rule", "Tokens!Admissible(abstract input, ok of real Service.Verify*TokenMessage): ok = Honoured(in), either neighbouring whole second admitted for a sub-second V2 chain time")
    ck.setcov("distinct_nontrivial", len({klass(r["in"]) for r in recs}))
    by = {}
    for r in recs:
        by.setdefault(r["in"]["kind"], {}).setdefault(r["out"]["ok"], 0)
        by[r["in"]["kind"]][r["out"]["ok"]] += 1
    ck.setcov("verdicts_by_kind", {k: {str(o): n for o, n in v.items()} for k, v in by.items()})
    hows = {}
    for r in recs:
        h = r["desc"]["how"].split(":")[0]
        h = "bit flip of the signed body" if h.startswith("bit ") else h
        hows[h] = hows.get(h, 0) + 1
    ck.setcov("mutation_classes", hows)
    ck.sample(recs[0])
    for r in recs:
        if r["desc"]["how"].startswith("bit "):
            ck.sample(r)
            break
    for r in recs:
        if r["in"]["kind"] == "v2" and r["in"]["chain"] and not r["out"]["ok"]:
            ck.sample(r)
            break
    if not ck.replay:
        for k in ("v1", "v2", "bearer"):
            if set(by.get(k, {})) != {True, False}:
                raise vkit.Infra("vacuous: kind %s verdicts %s" % (k, by.get(k)))
        for rv in range(1, 8):
            for k in ("v1", "v2"):
                vs = {r["out"]["ok"] for r in recs if r["in"]["kind"] == k and r["in"]["rv"] == rv}
                if vs != {True, False} and not (k == "v2" and rv == 7 and vs == {False}):
                    raise vkit.Infra("vacuous: %s request verb %d verdicts %s" % (k, rv, vs))
        if hows.get("bit flip of the signed body", 0) < 100:
            raise vkit.Infra("vacuous: too few body bit flips")
    for k in bad[:5]:
        r = recs[k]
        ck.violation("real token verification %s a %s token the spec says must be %s (record %d, %s; service said: %r): %s"
                     % ("honoured" if r["out"]["ok"] else "rejected", r["in"]["kind"],
                        "rejected" if r["out"]["ok"] else "honoured", k, r["desc"]["how"], r["desc"].get("err"), json.dumps(r["in"])),
                     {"idx": r["idx"], "record": r, "bad_records_total": len(bad)})
    ck.assumptions += [
        "sig = ok iff the attached signature was produced by the issuer's key over exactly the body now carried (tracked by construction; cryptography trusted)",
        "lifetime, container, object list, verb and contexts of the abstract input are read back from the final proto message by the harness (absV1 / absV2)",
        "N3 witnesses are judged by a fake FS chain (verifies iff registered good AND the signer account is the hash of the verification script)",
        "record half: caches purged before every single verification; cache half: caches purged only at Epoch events, exactly where cmd/neofs-node purges them (new-epoch handlers); the window between an epoch tick and the asynchronous purge, and LRU eviction, are not modelled",
        "how a sub-second V2 chain time is rounded to whole seconds is not pinned (either neighbouring second admitted); epochs above 2^31 are not representable in TLC",
    ]
