"""C43 - after any sequence of mode changes, including ones where a component fails to switch, the operations a shard
accepts / rejects match the mode it REPORTS; returning to read-write restores full service with all objects.

Spec (spec/Shard.tla): SetMode switches metabase / blobstor / write-cache one after another (order by target mode),
the first failing component stops the sequence and the reported mode stays; component state = (wcMode, blobRO,
metaMode, metaOpen).  Property, declaratively: every probe (result of Put / Delete / MarkGarbage, Exists and Get of
every object) equals the probe in the state where all components really are in the reported mode (Matches).
 * C43AfterOK: holds whenever the last SetMode did not fail (a failed switch may leave components behind - documented
   in docs/shard-modes.md - but re-issuing the switch must repair it: "all mode changing operations are idempotent").
 * C43Keeps: a mode change never loses data or metadata.
1. TLC exhaustive: the REPAIRED model (BugH10 = FALSE, BugMetaStale = FALSE) satisfies C43AfterOK and C43Keeps over all
   sequences of mode changes x failure points x probes (no length bound needed: the state space is finite).
2. TLC breadth-first on the AS-IS model gives a shortest counterexample (H10); it, hand-chosen scripts and TLC -simulate
   sequences (<= 4 mode changes x {no fault, wc, blob, meta} interleaved with puts / deletes / marks / flush / GC) run on
   a REAL shard.Shard; faults without hooks: write-cache dir replaced by a file, bbolt file replaced by a directory,
   blobstor decorator failing Close.  Every behaviour ends with two SetMode(RW) and a put + full read-back.
3. Trace validation (spec/TraceShard.tla): first against the repaired model; if the tree does not follow it, against the
   as-is model.  Deviations are classified by (component, outcome of the last SetMode) into listed known findings."""
import json
import os

import vkit
import sharda_util as su

LEVEL = "model_checking"


def sig(component, last):
    if last == "err":
        return "non-atomic-switch:%s-differs-from-reported-mode-after-FAILED-SetMode" % component
    if last == "ok" and component == "blob":
        return "H10:blobstor-mode-stuck-after-SUCCESSFUL-SetMode(setModeStorage short-circuit on reported mode)"
    if last == "ok" and component == "meta":
        return "metabase-unusable-after-SUCCESSFUL-SetMode(stale db.mode over nil bolt)"
    return "unlisted:%s/%s" % (component, last)


def P(a):
    return {"op": "Put", "a": a, "c": 0, "ids": [], "crash": 0, "fail": 0}


def D(c, ids):
    return {"op": "Delete", "a": 0, "c": c, "ids": ids, "crash": 0, "fail": 0}


GC = {"op": "GC", "a": 0, "c": 0, "ids": [], "crash": 0, "fail": 0}
FL = {"op": "Flush", "a": 0, "c": 0, "ids": [], "crash": 0, "fail": 0}


def S(m, fault="none"):
    return {"op": "SetMode", "m": m, "fault": fault}


def M(c, ids, mk="def"):
    return {"op": "Mark", "c": c, "ids": ids, "mk": mk}


FINAL = [S("RW"), S("RW"), P(5), P(1)]


def deliberate():
    out = []
    for wc in (False, True):
        # H10: blobstor switched, metabase fails; re-issued RW does not touch the blobstor
        out.append({"wc": wc, "batch": 2, "steps": [P(1), S("RO", "meta"), P(2), S("RW"), P(2), S("RO"), S("RW"), P(2)]})
        # metabase fails while returning to RW; re-issuing RO is a no-op on a closed database
        out.append({"wc": wc, "batch": 2, "steps": [P(1), S("RO"), S("RW", "meta"), S("RO"), S("DEGRO"), S("RW")]})
        # every transition with every failure point, repaired by re-issuing
        for (a, b) in (("RW", "RO"), ("RO", "RW"), ("RW", "DEGRO"), ("DEGRO", "RW"), ("RO", "DEGRO"), ("DEGRO", "RO")):
            for f in ("blob", "meta", "wc"):
                if f in ("wc", "meta") and b == "DEGRO":
                    continue
                if f == "wc" and not wc:
                    continue
                pre = [] if a == "RW" else [S(a)]
                out.append({"wc": wc, "batch": 2, "steps": [P(1), P(2)] + ([FL] if a == "DEGRO" or b == "DEGRO" else []) + pre +
                            [S(b, f), P(3), D(1, [2]), S(b), P(3), M(1, [1])]})
        # plain tour with data in the cache
        out.append({"wc": wc, "batch": 2, "steps": [P(1), P(2), S("RO"), P(3), S("DEGRO"), S("RO"), S("RW"), GC, S("DEGRO"), P(3), S("RW"), FL]})
    return out


def run(ck):
    thorough = ck.tier == "thorough"
    binp = ck.gobuild("sharda")
    world = {k: v for k, v in su.detect_world(ck, binp).items() if k == "BugH11"}   # H10 / MetaStale: explicit two-world logic below
    if not ck.replay and not os.environ.get("VERIF_SKIP_MODEL"):   # (dev aid for mutation runs: the model check does not depend on the tree)
        ck.tlc_model("Shard", "Shard_C43t.cfg" if thorough else "Shard_C43.cfg", timeout=3000, files=su.cfg_files(world, "Shard_C43t.cfg" if thorough else "Shard_C43.cfg"))
        ck.setcov("exhaustive", True)
        ck.setcov("constants", "repaired model; modes RW/RO/DEGRO x faults {none,wc,blob,meta}; wc in {off,on}; Objs=%s; probes Put/Delete/Mark/Exists/Get; unbounded sequence length"
                  % ("{1,2} + Delete MarkDef GC" if thorough else "{1} + Put Flush"))
    ncex = 0
    if ck.replay:
        scripts = [json.load(open(ck.replay))["replay"]["script"]]
    else:
        r = ck.tlc("ShardGen", "ShardGen_C43cex.cfg", timeout=900, deadlock=False, count=False, files=su.cfg_files(world, "ShardGen_C43cex.cfg"))
        cex = []
        for ln in r.out.splitlines():
            if ln.startswith('<<"BEH", '):
                cex.append(json.loads(json.loads(ln[len('<<"BEH", '):].rstrip()[:-2])))
        cex = cex[:1]
        ncex = len(cex)
        ck.log("as-is model counterexample of C43AfterOK: %s" % (json.dumps(cex[0]["steps"]) if cex else "none (%s)" % r.kind))
        for c in cex:
            c["steps"] = c["steps"] + [P(1)]
        scripts = cex + deliberate()
        seen = set()
        for s in range(3 if thorough else 1):
            for b in ck.tlc_scripts("ShardGen", "ShardGen_C43.cfg", files=su.cfg_files(world, "ShardGen_C43.cfg"), num=1500 if thorough else 100, depth=9, seed=ck.seed * 10 + s, timeout=900):
                k = json.dumps(b, sort_keys=True)
                if k not in seen and any(st["op"] == "SetMode" for st in b["steps"]):
                    seen.add(k)
                    scripts.append(b)
        for sc in scripts:
            sc["steps"] = list(sc["steps"]) + FINAL
    tp, info = su.run_scripts(ck, binp, scripts)
    ck.log("harness: %s" % info)
    v = su.validate(ck, "TraceShard_C43fixed.cfg", tp, world=world)
    behaves = "repaired"
    if not v.r.ok:
        first = v
        ck.log("repaired model does not describe this tree (%s %s at event %s: %s); validating against the as-is model"
               % (v.r.kind, v.r.name, v.stuck[0] if v.stuck else "?", v.stuck[1][:3] if v.stuck else ""))
        v = su.validate(ck, "TraceShard_C43.cfg", tp, world=world)
        behaves = "as-is"
        if not v.r.ok:
            # neither model describes the tree: report the rejection of the model that followed it further
            if (first.stuck[0] if first.stuck else 0) > (v.stuck[0] if v.stuck else 0):
                v = first
            ck.log("as-is model rejects as well")
            behaves = "neither"
    ck.setcov("tree_behaves_as", behaves)
    ev = v.events
    if not v.r.ok:
        su.judge(ck, "C43", v, scripts, "C43", lambda c: c, lambda c: c)
    else:
        seen = set()
        for (p, pos, devs) in v.kf:
            if p != "C43":
                continue
            idx, sev = su.script_of_event(ev, pos)
            for (comp, last) in devs:
                sg = sig(comp, last)
                if sg in seen:
                    continue
                seen.add(sg)
                ck.report(sg, "C43: behaviour differs from the reported mode %s: component %s is not in it, last SetMode %s (behaviour %d, event %d: %s)"
                          % (ev[pos - 1]["st"]["mode"], comp, "failed" if last == "err" else "succeeded", idx, pos, json.dumps(su.strip_st(ev[pos - 1]))),
                          {"script": scripts[idx] if 0 <= idx < len(scripts) else None, "component": comp, "last_setmode": last,
                           "trace": [su.strip_st(e) for e in sev][:80]})
    sm = [e for e in ev if e["ev"] == "Do" and e["op"] == "SetMode"]
    ck.setcov("traces_validated_against_impl", info.get("scripts", 0) - info.get("skipped", 0))
    ck.setcov("trace_events", len(ev))
    ck.setcov("setmode_calls", len(sm))
    ck.setcov("setmode_by_fault_and_result", {k: sum(1 for e in sm if e["fault"] + "/" + e["res"] == k) for k in sorted({e["fault"] + "/" + e["res"] for e in sm})})
    ck.setcov("transitions_seen", sorted({ev[i - 1]["st"]["mode"] + "->" + e["m"] for i, e in enumerate(ev) if e["ev"] == "Do" and e["op"] == "SetMode" and i > 0 and "st" in ev[i - 1]}))
    ck.setcov("model_counterexamples_replayed", ncex)
    if info["panics"]:
        ck.setcov("real_panics_treated_as_crash", info["panics"])
    if not ck.replay and len({e["fault"] for e in sm if e["res"] == "err"}) < 3:
        raise vkit.Infra("vacuous: not every failure point produced a failing SetMode: %s" % {e["fault"] for e in sm if e["res"] == "err"})
    ck.sample({"script": scripts[0], "trace": [su.strip_st(e) for e in su.script_of_event(ev, 2)[1]][:14]})
    ck.sample({"projected_state_after_failed_switch": next((e["st"] for e in sm if e["res"] == "err"), None)})
    ck.assumptions += [
        "component failures: write-cache path is a file (openStore fails), bbolt path is a directory (bbolt.Open fails), blobstor Close fails "
        "(decorator); failures inside a component after it changed state (e.g. FSTree.Init after Open) are not injected",
        "mode DEGRADED (read-write without metabase, 'should not be used') is not exercised; modes RW / RO / DEGRADED_RO are",
        "SetMode holds the shard's write lock, so it is one action; write-cache background workers are gated",
        "a genuine runtime panic of a probe is recorded as class 'panic' (Exists/Get) or as a process crash (operations)",
    ]
