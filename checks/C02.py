"""C02 - reported object counts and container sizes match what the shard stores.

The reference recount (RefCounters in spec/Metabase.tla) is evaluated on the model state that the
real shard's visibility views were just validated against; the real ObjectCounters / ContainerInfo
recorded after every call must equal it. A difference may first appear only at a step matching one of
the listed known-finding classes (KFClasses in TraceMetabase.tla); the disturbed fields are then not
compared for the rest of that script. Any other first difference is a violation."""
import json
import meta_util as mu
import vkit
from C01 import handle

LEVEL = "model_checking"


def run(ck):
    mu.check_catalog_sync(ck)
    thorough = ck.tier == "thorough"
    ck.tlc_model("Metabase", "Metabase_t.cfg" if thorough else "Metabase_tq.cfg", timeout=3000)
    binp = ck.gobuild("meta")
    inv = ["TraceNotStuck", "C02_CountersMatchRecount", "C02_ObjectsNumberExact"]
    if ck.replay:
        doc = json.load(open(ck.replay))["replay"]
        cat = doc["script"]["cat"]
        out = mu.run_validate(ck, binp, cat, [doc["script"]], inv)
        finish(ck, cat, out)
        return
    plan = [("T", 60, 80), ("Q", 40, 70), ("S", 40, 70)]
    if thorough:
        plan = [(c, a * 15, b * 20) for c, a, b in plan] + [("L", 400, 1000)]
    clean = 0
    for cat, n_sim, n_rnd in plan:
        scripts = mu.gen_scripts(ck, binp, cat, n_sim, n_rnd, depth=14, seeds=1)
        out = mu.run_validate(ck, binp, cat, scripts, inv)
        ck.sample({"cat": cat, "script": scripts[0], "counters_after_first_step": out["events"][1]["v"]["ctr"] if len(out["events"]) > 1 else None})
        finish(ck, cat, out)
        if ck.violations:
            break
    ck.assumptions.append("ObjectsNumber (phy minus a garbage-mark counter in the code) is compared with the ideal count only on histories in which every garbage mark names a stored, unmarked object and nothing was revived or container-removed; outside that class it is the listed finding C02-objects-number")


def finish(ck, cat, out):
    r = out["r"]
    for name in sorted(out["kf"]):
        if name.startswith("C02"):
            ck.report(name, "known finding %s reached on the real shard" % name, {"cat": cat})
    if r.ok:
        return
    if r.kind == "invariant" and r.name == "C02_ObjectsNumberExact":
        pos = max((vkit.stuck_position(r) or 2) - 1, 1)
        script, k, ev = mu.script_of_event(out["events"], out["scripts"], pos)
        ck.violation("reported ObjectsNumber differs from the number of stored unmarked objects on a history where phy minus garbage-counter is exact (catalogue %s, event %d %s): cnt=%s" % (
            cat, k, json.dumps({x: ev[x] for x in ev if x != "v"}), ev.get("v", {}).get("cnt")),
            {"script": script, "event_index": k, "event": {x: ev[x] for x in ev if x != "v"}, "cnt": ev.get("v", {}).get("cnt")})
        return
    if r.kind == "invariant" and r.name == "C02_CountersMatchRecount":
        pos = max((vkit.stuck_position(r) or 2) - 1, 1)
        script, k, ev = mu.script_of_event(out["events"], out["scripts"], pos)
        ck.violation("real counters differ from the reference recount at a step no listed finding explains (catalogue %s, event %d %s): %s" % (
            cat, k, json.dumps({x: ev[x] for x in ev if x != "v"}), "; ".join(out["drift"][-2:])[:1500]),
            {"script": script, "event_index": k, "event": {x: ev[x] for x in ev if x != "v"}, "counters": ev.get("v", {}).get("ctr"),
             "cnt": ev.get("v", {}).get("cnt"), "size": ev.get("v", {}).get("size")})
    else:
        handle(ck, cat, out, "C02", ())   # divergence on visibility: not this property's verdict
