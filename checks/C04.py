"""C04 - merged search over several shards or nodes equals one search over their union.

1. TLC exhaustive on spec/MergeMC.tla: for every small corpus spread over two shards with overlapping copies,
   every single-filter query and page size, Merge!MergedPages (per-shard pages from the shared cursor, the
   MergeSearchResults algorithm, the recomputed cursor, the next request) = Search!RefPages of the union, for the
   engine path and the multi-node path; one shard = the shard's own pages.
2. Binding: seeded random corpora (typed system attributes with colliding / prefix-related / zero-byte values,
   numeric user attributes) distributed over 1-4 shards of a REAL StorageEngine with overlaps, removals and
   expiry; every primary attribute incl. owner, payload checksum, split ID, parent, first part, associate, numeric
   user attribute; page sizes 1..3. Sessions through PreprocessSearchQuery(cursor) -> StorageEngine.Search, and
   through the multi-node merge (every shard as a node: Shard.Search, MergeSearchResults, CalculateCursor as in
   Server.ProcessSearch). TraceMerge.tla: EvOK (real = implementation-shaped merge model), PropOK (real = one
   search over the union, every cursor accepted, session stops).
Hypothesis H5 is probed per class: repaired cfg rejects /\ as-is cfg accepts => KNOWN-FINDING."""
import json
import os

import vkit
import search_util as su

LEVEL = "model_checking"

KF = {
    "BugCursorChecksum": "merge-cursor-payload-checksum-offset",
    "BugAssocMerge": "merge-associate-attribute-compared-and-encoded-as-string",
}
ALL_SWITCHES = ["BugPlusAfterSign", "BugMergeNoRange", "BugPrimMulti", "BugSplitIDAbsent", "BugB58Prefix", "BugCursorChecksum", "BugAssocMerge"]
FLAGS = ("$Object:ROOT", "$Object:PHY")
KEY = {"BugCursorChecksum": "$Object:payloadHash", "BugAssocMerge": "__NEOFS__ASSOCIATE"}


def oid_sorted(q):
    return (not q["attrs"]) or (not q["fs"]) or (q["fs"][0]["op"] == "NOT_PRESENT" and q["fs"][0]["k"] not in FLAGS)


def classes(e, corpus):
    if oid_sorted(e["q"]) or (corpus["nshards"] == 1 and e["mode"] == "engine"):
        return set()
    return {k for k, key in KEY.items() if e["q"]["fs"][0]["k"] == key}


def run(ck):
    su.install_scratch(ck)
    thorough = ck.tier == "thorough"
    jobs = []
    if ck.replay:
        pass
    elif not os.environ.get("VERIF_SKIP_MODEL"):
        jobs.append(lambda: ck.tlc_model("MergeMC", "MergeMC_thorough.cfg" if thorough else "MergeMC.cfg", timeout=3000, workers=6))
    else:
        ck.notes.append("model part skipped (VERIF_SKIP_MODEL)")
    res = su.parallel(ck, jobs + [lambda: ck.gobuild("search")])
    binp = res[-1]
    ck.setcov("exhaustive", True)
    ck.setcov("constants", "MergeMC: %d objects x values {a, ab, 7, +07, absent} x shard sets {1},{2},{1,2} x availability; "
                           "31 queries; page sizes 1..%d; engine and nodes paths" % ((3, 3) if thorough else (2, 2)))
    scn_path = os.path.join(ck.tmp, "c04scn.ndjson")
    ck.harness(binp, ["c04gen", 150 if thorough else 16, scn_path])
    scns = vkit.read_ndjson(scn_path)
    if ck.replay:
        scns = [json.load(open(ck.replay))["replay"]["scenario"]]
        vkit.write_ndjson(scn_path, scns)
    by_name = {s["name"]: s for s in scns}
    trace_path = os.path.join(ck.tmp, "c04trace.ndjson")
    ck.harness(binp, ["c04run", scn_path, trace_path], timeout=2400)
    events = vkit.read_ndjson(trace_path)
    sessions = [e for e in events if e["ev"] == "Search"]
    if not sessions:
        raise vkit.Infra("no search sessions recorded")
    base_cfg = open(os.path.join(vkit.SPEC, "TraceMerge.cfg")).read()

    def validate(evs, flags, tag):
        p = os.path.join(ck.tmp, "trace-%s.ndjson" % tag)
        vkit.write_ndjson(p, evs)
        cfg = su.cfg_with(base_cfg, **{k: flags.get(k, False) for k in ALL_SWITCHES})
        r = ck.tlc_validate("TraceMerge", "TraceMerge-%s.cfg" % tag, p, files={"TraceMerge-%s.cfg" % tag: cfg}, workers=1, timeout=2400)
        if r.ok and r.distinct != len(evs) + 1:
            raise vkit.Infra("validation %s visited %d states for %d events" % (tag, r.distinct, len(evs)))
        if not r.ok and r.kind != "invariant":
            raise vkit.Infra("trace validation %s did not reach a verdict (%s)\n%s" % (tag, r.kind, vkit.tail(r.out, 3000)))
        return r

    def subtrace(pred):
        out, m = [], {}
        for e in events:
            if e["ev"] == "Corpus":
                continue
            if pred(e):
                if e["c"] not in m:
                    out.append(events[e["c"] - 1])
                    m[e["c"]] = len(out)
                e = dict(e)
                e["c"] = m[e["c"]]
                out.append(e)
        return out

    cls = {id(e): classes(e, events[e["c"] - 1]) for e in sessions}

    def describe(e):
        c = events[e["c"] - 1] if e["c"] <= len(events) and events[e["c"] - 1]["ev"] == "Corpus" else {}
        return "scenario %s (%s shards, %s) query %s n=%d: filters %s attrs %s -> %s %s %s" % (
            e.get("scn"), c.get("nshards", "?"), e["mode"], e.get("qi"), e["n"], [(f["k"], f["op"], su.bstr(f["val"])) for f in e["q"]["fs"]],
            e["q"]["attrs"], e["res"], e.get("msg", "")[:120], [[it["id"] for it in p["items"]] for p in e["pages"]][:8])

    flags = {k: False for k in KF}

    def probe(k):
        evs = subtrace(lambda e: cls[id(e)] == {k})
        if not any(e["ev"] == "Search" for e in evs):
            return None
        rep = validate(evs, {}, "probe-fixed-" + k)
        if rep.ok:
            return False
        asis = validate(evs, {k: True}, "probe-asis-" + k)
        if not asis.ok:
            j = su.last_l(asis) or 1
            bad = evs[j - 1]
            ck.violation("session of class %s matches neither the repaired nor the as-is model (%s) - %s"
                         % (k, asis.name, describe(dict(bad, c=10 ** 9)) if bad["ev"] == "Search" else k),
                         {"scenario": by_name.get(bad.get("scn")), "event": bad, "invariant": asis.name, "tlc": vkit.tail(asis.out, 2000)})
            return True                       # keep the as-is switch for the remaining sessions
        i = su.last_l(rep) or 1
        e = evs[i - 1]
        ck.report(KF[k], "real merged search deviates (%s): %s" % (k, describe(dict(e, c=10 ** 9)) if e["ev"] == "Search" else k),
                  {"scenario": by_name.get(e.get("scn")), "event": e})
        return True

    worlds = su.parallel(ck, [lambda k=k: probe(k) for k in KF])
    for k, wv in zip(KF, worlds):
        if wv:
            flags[k] = True
    ck.setcov("deviation_switches_detected", dict(flags))

    parts = su.split_trace(events, 1 if len(events) < 80 else (4 if not thorough else 8))
    vs = su.parallel(ck, [lambda i=i, p=p: validate(p, flags, "full%d" % i) for i, p in enumerate(parts)])
    for part, v in zip(parts, vs):
        if v.ok:
            continue
        i = su.last_l(v)
        if i is None:
            raise vkit.Infra("cannot locate the rejected event\n" + vkit.tail(v.out, 3000))
        e = part[i - 1]
        what = "model conformance (EvOK)" if v.name == "EvOK" else "C04 itself (PropOK): merged result differs from one search over the union"
        ck.violation("real merged search session rejected by %s - %s" % (what, describe(dict(e, c=10 ** 9))),
                     {"scenario": by_name.get(e.get("scn")), "event": e, "switches": flags, "invariant": v.name, "tlc": vkit.tail(v.out, 2000)})

    ck.setcov("traces_validated_against_impl", len(sessions))
    ck.setcov("scenarios", len(scns))
    ck.setcov("pages", sum(len(e["pages"]) for e in sessions))
    prim = {}
    for e in sessions:
        q = e["q"]
        key = (e["mode"], events[e["c"] - 1]["nshards"], "oid" if oid_sorted(q) else q["fs"][0]["k"], "int" if (not oid_sorted(q) and q["fs"][0]["op"] in ("GT", "GE", "LT", "LE")) else "str")
        prim[key] = prim.get(key, 0) + 1
    ck.setcov("distinct_mode_shards_primary_classes", len(prim))
    ck.setcov("sessions_by_primary_attribute", {k: sum(v for kk, v in prim.items() if kk[2] == k) for k in {kk[2] for kk in prim}})
    ck.setcov("sessions_by_result", {r: sum(1 for e in sessions if e["res"] == r) for r in {e["res"] for e in sessions}})
    ck.setcov("sessions_in_known_finding_classes", {k: sum(1 for e in sessions if k in cls[id(e)]) for k in KF})
    for e in sessions:
        if len(e["pages"]) >= 3 and e["q"]["attrs"] and e["res"] == "ok" and events[e["c"] - 1]["nshards"] > 1:
            ck.sample({"session": describe(e)})
            break
    for e in sessions:
        if e["res"] == "badcursor":
            ck.sample({"session": describe(e)})
            break
    ck.assumptions.append("the multi-node path is exercised through MergeSearchResults/CalculateCursor/PreprocessSearchQuery with every shard "
                          "playing a container node; the glue of Server.ProcessSearch (first attribute left out for STRING_EQUAL) is mirrored "
                          "by the harness, the gRPC transport and filteredAttributeless rewriting are not exercised")
    ck.assumptions.append("availability is uniform over the copies of an object (removals are applied to every shard holding a copy)")
    ck.assumptions.append("queries stay outside the query classes of the C03 findings (they are decided by C03)")
