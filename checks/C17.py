"""C17 - the write-cache eventually flushes everything and accounts its size exactly.

Spec: spec/WriteCache.tla (implementation-shaped: put/delete split into FS step and counter step, the
flush scheduler with the slice-window arithmetic of the Go code, workers, error token, reopen).
 1. TLC exhaustive on the repaired model (all deviation switches off): SizeExact, NoLeak at every quiescent
    state and the liveness property Drains (writes stop /\ storage accepts ~> cache empty) under fairness;
    TLC exhaustive on the model of the code as it is: the same properties weakened by the listed history
    classes (every deviation of the real code is one of the known findings).
 2. M->C: TLC-simulated behaviours of WriteCacheGen (+ the shortest counterexamples TLC finds for each
    deviation switch = probes of the known findings) steer a REAL write-cache over a fault-injecting main
    storage through gates (verifhook points + storage decorator); C->M: free-running concurrent stress.
    Every log of the real code is validated against TraceWriteCache (hidden steps searched); quiescent
    observations compare cache directory, counters map, reported size, in-flight set, main storage; the
    bounded liveness form (LiveK fault-free scheduler rounds => empty) is evaluated on the observations.
The deviation switches the tree exhibits are found by validation (as-is assignment first); observed
property failures explained by a listed history class are KNOWN-FINDINGs, anything else is a VIOLATION."""
import json
import os

import shardb_util as su
import vkit

LEVEL = "model_checking"
PID = "C17"
PROPS = {"size", "live"}


def run(ck, pid=PID, level="cache", props=PROPS):
    thorough = ck.tier == "thorough"
    sfx = "_t" if thorough else ""
    gen_cfg = "WriteCacheGen_%s.cfg" % level
    trace_cfg = "TraceWriteCache_%s.cfg" % level
    params = su.harness_params(gen_cfg, level)
    ppath = os.path.join(ck.tmp, "params.json")
    json.dump(params, open(ppath, "w"))

    if ck.replay:
        return replay(ck, pid, level, props, ppath, trace_cfg)

    probes = ["H3", "Alias", "ErrLeak", "Split"] if level == "cache" else ["Stale", "H3", "Alias", "ErrLeak", "Split"]
    # thorough: the probes are re-derived by TLC (shortest counterexample per deviation switch), in parallel
    derived = {}
    threads = []
    if thorough:
        import threading

        def derive(name):
            try:
                derived[name] = su.derive_probe(ck, su.PROBE_CFG[name], name, timeout=1500)
            except vkit.Infra as e:   # TLC died / timed out on the shared machine: recorded counterexample used
                derived[name] = str(e)[:160]
        for name in probes:
            t = threading.Thread(target=derive, args=(name,), daemon=True)
            t.start()
            threads.append(t)

    # 1. model checking (background: overlapped with the harness, which mostly waits for 1 s ticks)
    if level == "cache":
        models = [su.BgModel(ck, "WriteCache", "WriteCache_c17fixed%s.cfg" % sfx, workers=4, timeout=2400),
                  su.BgModel(ck, "WriteCache", "WriteCache_c17asis%s.cfg" % sfx, workers=4, timeout=2400),
                  # where LiveK = 2 comes from: bounded drain of the repaired model
                  su.BgModel(ck, "WriteCacheLive", "WriteCacheLive.cfg", workers=2, timeout=2400)]
    else:
        models = [su.BgModel(ck, "WriteCache", "WriteCache_c16asis%s.cfg" % sfx, workers=6, timeout=2400)]
    ck.setcov("exhaustive", True)

    binp = ck.gobuild("shardb")

    # 2. scripts: probes (canned in quick, re-derived by TLC in thorough) + simulated behaviours
    scripts = []
    for t in threads:
        t.join()
    for name in probes:
        d = derived.get(name)
        if isinstance(d, dict):
            scripts.append(d)
            ck.add("probes_rederived_by_tlc")
        else:
            if thorough:
                ck.notes.append("probe %s not re-derived (%s), recorded counterexample used" % (name, d))
            scripts.append(su.probe(name))
    # coverage scenarios that must be part of every run (batch write failure, explicit flush vs in-flight batch)
    scripts += [su.cover(n) for n in sorted(su.COVER)]
    ck.setcov("coverage_scenarios", sorted(su.COVER))
    c = su.cfg_constants(gen_cfg)
    depth = int(c["GenLen"]) + 1
    for s in range(4 if thorough else 1):
        scripts += ck.tlc_scripts("WriteCacheGen", gen_cfg, num=250 if thorough else 70, depth=depth,
                                  seed=ck.seed * 10 + s, timeout=900)
    spath = os.path.join(ck.tmp, "scripts.ndjson")
    vkit.write_ndjson(spath, scripts)
    t_steer, i_steer = os.path.join(ck.tmp, "steer.ndjson"), os.path.join(ck.tmp, "steer.index.json")
    t_stress, i_stress = os.path.join(ck.tmp, "stress.ndjson"), os.path.join(ck.tmp, "stress.index.json")
    n_stress = 60 if thorough else 16
    j1 = su.run_harness_bg(ck, binp, ["run", ppath, spath, t_steer, i_steer, 96 if thorough else 80], timeout=2400)
    j2 = su.run_harness_bg(ck, binp, ["stress", ppath, n_stress, 14 if thorough else 9, t_stress, i_stress, 64], timeout=2400)
    j1()
    j2()
    idx_steer = su.check_index(i_steer, "steer")
    idx_stress = su.check_index(i_stress, "stress")
    # coverage scenarios the steering did not realise (loaded machine) are run once more, on their own
    all_ev = vkit.read_ndjson(t_steer)
    missing = []
    for k, sc in enumerate(scripts):
        nm = sc.get("name", "")
        if nm.startswith("cover-"):
            r = idx_steer[k]
            if not su.realised(nm[6:], all_ev[r["start"] - 1:r["end"]]):
                missing.append(sc)
    t_again = None
    if missing:
        ck.log("coverage scenarios not realised, run again: %s" % [m["name"] for m in missing])
        spath2 = os.path.join(ck.tmp, "scripts2.ndjson")
        vkit.write_ndjson(spath2, missing)
        t_again, i_again = os.path.join(ck.tmp, "again.ndjson"), os.path.join(ck.tmp, "again.index.json")
        ck.harness(binp, ["run", ppath, spath2, t_again, i_again, 8], timeout=1200)
        idx_again = su.check_index(i_again, "again")
        ev2 = vkit.read_ndjson(t_again)
        ck.setcov("coverage_scenarios_unrealised", [m["name"] for k, m in enumerate(missing)
                                                    if not su.realised(m["name"][6:], ev2[idx_again[k]["start"] - 1:idx_again[k]["end"]])])
    ck.setcov("steer_miss", sum(r["steer_miss"] for r in idx_steer))
    ck.setcov("gate_timeouts", sum(r["timeouts"] for r in idx_steer) + sum(r["timeouts"] for r in idx_stress))

    # 3. validation of the real logs
    # the deviation switches of the tree are determined on the probes alone (they discriminate every switch;
    # cheap), the bulk is then validated under that assignment only
    n_probe_rec = idx_steer[len(probes) - 1]["end"]
    t_probe = os.path.join(ck.tmp, "probes.ndjson")
    vkit.write_ndjson(t_probe, vkit.read_ndjson(t_steer)[:n_probe_rec])
    v0 = su.validate(ck, t_probe, trace_cfg, timeout=1200)
    if not v0.accepted:
        su.judge(ck, pid, v0, t_probe, idx_steer, scripts, level, props, "probes")
        ck.setcov("traces_validated_against_impl", len(probes))
        for m in models:
            m.join()
        return
    v1 = su.validate(ck, t_steer, trace_cfg, only_world=v0.world, timeout=2400)
    if not v1.accepted:     # a probe that was not steered exactly may not discriminate: full search before a verdict
        v1 = su.validate(ck, t_steer, trace_cfg, timeout=2400)
    v2 = su.validate(ck, t_stress, trace_cfg, only_world=v1.world if v1.accepted else v0.world, timeout=2400)
    if not v2.accepted and v1.accepted:   # same precaution as for the steered logs
        v2 = su.validate(ck, t_stress, trace_cfg, timeout=2400)
    if t_again and v1.accepted:
        v3 = su.validate(ck, t_again, trace_cfg, only_world=v1.world, timeout=1200)
        su.judge(ck, pid, v3, t_again, idx_again, missing, level, props, "again")
    ck.setcov("traces_validated_against_impl", len(scripts) + n_stress)
    ck.setcov("steered_behaviours", len(scripts))
    ck.setcov("stress_behaviours", n_stress)
    ck.setcov("trace_records", sum(1 for _ in open(t_steer)) + sum(1 for _ in open(t_stress)))
    ck.setcov("validation_states", v1.states + v2.states)
    if v1.accepted:
        ck.setcov("deviation_switches_of_the_tree", {k: v for k, v in v1.world.items()})
    ev = vkit.read_ndjson(t_steer)
    ck.sample({"probe_script": scripts[0], "log_head": ev[:idx_steer[0]["end"]][:14]})
    ck.sample({"observations": [e for e in ev if e["e"] == "obs"][:3]})
    ck.setcov("observations", sum(1 for e in ev if e["e"] == "obs") + sum(1 for e in vkit.read_ndjson(t_stress) if e["e"] == "obs"))
    ck.setcov("property_failures_observed", sorted({"%s:%s" % (w, ",".join(t)) for (w, _, t) in v1.propfail + v2.propfail}))

    su.judge(ck, pid, v1, t_steer, idx_steer, scripts, level, props, "steer")
    su.judge(ck, pid, v2, t_stress, idx_stress, None, level, props, "stress")

    for m in models:
        m.join()
    ck.assumptions += [
        "storage decorator records are exact steps (inner call and log record under one mutex); hook records mark the position of the goroutine between two steps; everything else is searched as hidden steps",
        "object sizes are multiples of 512 B mapped to abstract sizes 1..4 (all scheduler thresholds scale linearly)",
        "fairness: Go's select does not starve the error-token case for ever (strong fairness on consuming it)",
        "sleep durations (1 s tick, 10 s error back-off) are abstracted to step order",
    ]


def replay(ck, pid, level, props, ppath, trace_cfg):
    doc = json.load(open(ck.replay))["replay"]
    level = doc.get("level", level)
    if doc.get("script"):
        binp = ck.gobuild("shardb")
        spath = os.path.join(ck.tmp, "scripts.ndjson")
        vkit.write_ndjson(spath, [doc["script"]])
        t, i = os.path.join(ck.tmp, "replay.ndjson"), os.path.join(ck.tmp, "replay.index.json")
        ck.harness(binp, ["run", ppath, spath, t, i, 1])
        idx = su.check_index(i, "replay")
        scripts = [doc["script"]]
    else:
        t = os.path.join(ck.tmp, "replay.ndjson")
        vkit.write_ndjson(t, doc["events"])
        idx = [{"idx": 0, "start": 1, "end": len(doc["events"])}]
        scripts = None
    v = su.validate(ck, t, trace_cfg)
    ck.setcov("traces_validated_against_impl", 1)
    ck.sample({"replayed": vkit.read_ndjson(t)[:20]})
    su.judge(ck, pid, v, t, idx, scripts, level, props, "replay")
