"""C47 - container data is discarded only when the container is gone or long unpaid.

1. Go harness `irgov c47`: every combination of the property's universe (epoch 0..10, unpaidSince -1..12,
   payments on/off, container source found / notFound / transient error, payment-check error) is taken
   through the three REAL paths, one real container + object per combination:
     engine   real StorageEngine (2 shards) running its start-up Init (deleteNotFoundContainers)
     shard    real Shard, new-epoch handler via (*Shard).VerifHandleEpoch
     policer  real Policer.processObject over a real engine, Network = the real placement.Service fed by
              the fake container source (the not-found error arrives wrapped as in the node)
   plus seeded random epoch HISTORIES (2-3 epoch events in any order) on the shard path.
   Outcome observed through Get on the shard/engine: is the object still available?
2. TLC record validation (TraceContainerGC.tla): outcome = code-shaped decision (RecOK) and C47 predicate
   on the recorded outcome (RecProp).
3. TLC exhaustive on ContainerGC.tla: decision => property for all inputs (thorough: histories up to 3).

Known finding H1 (deviation switch BugEpochWrap): shard epoch handler wraps uint64 when the unpaid mark is
newer than the processed epoch. Two-world handling, see lib/irgov_util.py."""
import json, os
import vkit, irgov_util

LEVEL = "model_checking"
SIG = "shard.setEpochEventHandler: unpaidSince > processed epoch, uint64 subtraction wraps -> container discarded"


def run(ck):
    thorough = ck.tier == "thorough"
    binp = ck.gobuild("irgov")
    path = os.path.join(ck.tmp, "c47.ndjson")
    if ck.replay:
        inp = os.path.join(ck.tmp, "in.json")
        json.dump(json.load(open(ck.replay))["replay"]["in"], open(inp, "w"))
        ck.harness(binp, ["c47replay", inp, path])
    else:
        ck.harness(binp, ["c47", 40 if thorough else 4, path], timeout=1500)
    recs = vkit.read_ndjson(path)
    ck.setcov("traces_validated_against_impl", len(recs))
    by = {}
    for r in recs:
        k = "%s/%s" % (r["path"], "discarded" if r["discarded"] else "kept")
        by[k] = by.get(k, 0) + 1
    ck.setcov("records_by_path_and_outcome", by)
    ck.setcov("history_records", sum(1 for r in recs if len(r["epochs"]) > 1))
    ck.setcov("error_variants", sorted({r["variant"] for r in recs}))
    for want in (lambda r: r["path"] == "shard" and r["discarded"], lambda r: r["path"] == "policer" and r["discarded"],
                 lambda r: r["path"] == "engine" and not r["discarded"] and r["src"] == "transient"):
        for r in recs:
            if want(r):
                ck.sample(r)
                break
    if not ck.replay:
        for p in ("engine", "shard", "policer"):
            if not by.get(p + "/discarded") or not by.get(p + "/kept"):
                raise vkit.Infra("vacuous record set for path %s: %s" % (p, by))

    def replay_of(r):
        return {k: r[k] for k in ("path", "epochs", "unpaid", "pay_on", "src", "pay_err")}
    world = irgov_util.decide(ck, "TraceContainerGC", "TraceContainerGC_fixed.cfg", "TraceContainerGC_asis.cfg", path, recs, SIG,
                              "real shard discarded a container whose unpaid mark is newer than the processed epoch", replay_of)
    ck.setcov("tree_behaviour", world)

    t = "thorough" if thorough else "quick"
    cfgs = ["ContainerGC_%s_fixed.cfg" % t, "ContainerGC_%s_asis.cfg" % t] if thorough else \
        ["ContainerGC_quick_%s.cfg" % ("asis" if world == "as-is" else "fixed")]
    for cfg in cfgs:
        ck.tlc_model("ContainerGC", cfg, timeout=1500, workers=4)
    ck.setcov("exhaustive", True)
    ck.setcov("constants", "epoch 0..10, unpaidSince -1..12, 3 paths, 3 source answers, payments on/off, payment error; "
                           "epoch histories of length " + ("1..3 (shard path)" if thorough else "1"))
    ck.assumptions.append("ContainerPayments and containercore.Source are faked per container (found / apistatus.ContainerNotFound "
                          "in 3 forms incl. %w-wrapped / 3 kinds of other errors); netmap source is a fake one-node map")
    ck.assumptions.append("'discarded' = the container's object is no longer returned by Get right after the path ran "
                          "(container GC mark); physical removal by the GC worker is not awaited")
    ck.assumptions.append("cmd/neofs-node wiring (paymentChecker cache, cached container source) is not driven: package main")
