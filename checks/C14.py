"""C14 - read-only shard modes never change stored data: every modifying request fails with a mode error, background
jobs do nothing, reads keep working as the mode table of docs/shard-modes.md says.

1. TLC exhaustive on spec/Shard.tla (all histories of puts / deletes / marks / container removals / flushes / GC passes /
   epochs interleaved with switches among RW, RO, DEGRADED_RO, with and without write-cache):
   C14Unchanged  [][RO(mode) /\\ RO(mode') => UNCHANGED <<blob, wc, metabase>>]   (action property)
   C14Rejects    in a read-only mode every modifying probe returns a mode error and a GC pass is a no-op
   C14ReadsRO / C14ReadsDEGRO   reads as in read-write (metabase) resp. straight from blobstor / write-cache.
2. C->M trace validation: the harness (`sharda ro`) runs seeded random behaviours on a REAL shard.Shard: a history in
   read-write mode, a switch to RO or DEGRADED_RO, then random requests (Put, Delete, MarkGarbage default/redundant,
   InhumeContainer, DeleteContainer, Restore, ReviveObject, FlushWriteCache, GC pass, epoch event with an UNPAID
   container, switches RO <-> DEGRADED_RO, a real round of the write-cache's own scheduler/workers), each wrapped in
   digests of the on-disk state (file-tree hash of blobstor and write-cache directories, logical dump of the bbolt
   file); finally back to read-write + a put.  spec/TraceShard.tla requires: result class = model's (mode error),
   projected state = model's (unchanged), digest before = digest after, all C14 invariants on every recorded state."""
import json
import os

import vkit
import sharda_util as su

LEVEL = "model_checking"


def run(ck):
    thorough = ck.tier == "thorough"
    binp = ck.gobuild("sharda")
    world = su.detect_world(ck, binp)
    if not os.environ.get("VERIF_SKIP_MODEL"):   # (dev aid for mutation runs: the model check does not depend on the tree)
        ck.tlc_model("Shard", "Shard_C14t.cfg" if thorough else "Shard_C14.cfg", timeout=3000, files=su.cfg_files(world, "Shard_C14t.cfg" if thorough else "Shard_C14.cfg"))
        ck.setcov("exhaustive", True)
        ck.setcov("constants", "Objs={1,3 TS->1} wc in {off,on} modes RW/RO/DEGRO epochs 0..%d; Put GC Flush Epoch MarkDef InhumeCnr SetMode%s"
                  % ((3, " Delete MarkRed") if thorough else (1, "")))
    tp = os.path.join(ck.tmp, "ro.trace.ndjson")
    n, ln = (400, 16) if thorough else (48, 12)
    env = {}
    if ck.replay:
        rp = json.load(open(ck.replay))["replay"]
        env = {"VERIF_SEED": str(rp.get("seed", ck.seed))}
        n, ln = rp.get("n", n), rp.get("len", ln)
    p = ck.harness(binp, ["ro", n, ln, tp], timeout=5400, env_extra=env)
    ck.log("harness: %s" % p.stdout.strip().splitlines()[-1])
    v = su.validate(ck, "TraceShard_C14.cfg", tp, timeout=2400, world=world)
    ev = v.events
    if not v.r.ok:
        pos, mm = v.stuck if v.stuck else (vkit.stuck_position(v.r) or 1, [])
        idx, sev = su.script_of_event(ev, pos)
        kind = "stored data changed in a read-only mode" if any(m[0] in ("digest", "blob", "wc", "stored", "garbkey", "cnr") for m in mm) else \
               ("request not rejected with a mode error" if any(m[0] == "res" for m in mm) else "real shard left the model")
        ck.violation("C14: %s (%s %s) at event %d %s; differences (field, id, model, real): %s" % (
            kind, v.r.kind, v.r.name, pos, json.dumps(su.strip_st(ev[pos - 1])), json.dumps(mm)),
            {"seed": ck.seed, "n": n, "len": ln, "behaviour": idx, "rejected_event": ev[pos - 1],
             "trace": [su.strip_st(e) for e in sev][:120], "tlc": v.r.trace_text[-1500:]})
    dig = [e for e in ev if "d0" in e]
    ro_ops = {}
    for e in dig:
        k = e.get("name") or e.get("op") or "End"
        ro_ops[k] = ro_ops.get(k, 0) + 1
    # anti-vacuity: requests by class in read-only periods
    names = {}
    cur = None
    for i, e in enumerate(ev):
        if e["ev"] == "Start":
            cur = e["op"]
        if "d0" in e:
            k = (e.get("name") if e.get("op") == "RoOp" else e.get("op")) or cur
            names[k] = names.get(k, 0) + 1
    ck.setcov("traces_validated_against_impl", sum(1 for e in ev if e["ev"] == "Init"))
    ck.setcov("trace_events", len(ev))
    ck.setcov("digest_pairs_compared", len(dig))
    ck.setcov("requests_in_read_only_modes", names)
    ck.setcov("modes_seen", sorted({e["st"]["mode"] for e in ev if "st" in e}))
    ck.setcov("results_in_read_only_modes", sorted({e.get("res") for e in dig if e.get("res")}))
    need = {"Put", "Delete", "Mark", "InhumeCnr", "DeleteContainer", "Restore", "Revive", "Flush", "GC", "Epoch", "SetMode"}
    if not ck.replay and not need <= set(names):
        raise vkit.Infra("vacuous: request kinds never issued in a read-only mode: %s" % sorted(need - set(names)))
    if dig:
        ck.sample({"event_with_digests": su.strip_st(dig[0])})
        ck.sample({"behaviour_head": [su.strip_st(e) for e in ev[:14]]})
    ck.assumptions += [
        "digest = sha256 over (relative path, content) of every file under the blobstor and write-cache directories + "
        "logical dump (buckets, keys, values) of the bbolt file through a second read-only handle; the bbolt page layout / "
        "raw file bytes are not compared",
        "background jobs: GC pass = VerifRunGC, epoch event = VerifHandleEpoch with payments enabled and an unpaid container; "
        "the write-cache scheduler + workers really run for one round (1.3 s) in every 8th behaviour with a write-cache",
        "only consistent mode switches (no injected component failures) - partial switches are C43",
    ]
