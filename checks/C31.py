"""C31 - a replication request is accepted (and the object stored) only when it is signed by a node of the
object's container (current or previous epoch), the local node belongs to the container now and the object
passes full validation; otherwise nothing is stored and an error status is returned.

1. TLC checks spec/Replicate.tla on ALL abstract inputs: the check-by-check model of the handler (Impl)
   agrees with the property's reference Accept: ok <=> Accept, stored => Accept.
2. The Go harness (cmd rpc replicate) calls the REAL Server.Replicate (through gRPC) for every combination of
   {signature ok / wrong / other key} x {3 supported schemes, N3, unknown} x {sender in container now / only in
   the previous epoch / not} x {local node ...} x {object valid / payload changed / header changed / no checksum}
   (thorough: x {container known / unknown}); object validation is the real putsvc.ValidateAndStoreObjectLocally
   over a recording local storage.
3. TLC judges every record with Accept (TraceReplicate): ok => Accept(in), stored or present-afterwards =>
   Accept(in), ok => stored; Accept(in) /\ ~ok (handler stricter than the reference) is reported as drift (exit 2)."""
import json
import os

import rpc_util
import vkit

LEVEL = "exploration"
PROP_INVS = {"RecStoredOnlyIfAccepted", "RecOkOnlyIfAccepted", "RecOkMeansStored"}
DRIFT_INVS = {"RecAcceptedWhenAllChecksPass"}


def run(ck):
    ck.tlc_model("Replicate", "Replicate_model.cfg", timeout=300, workers=2)
    binp = ck.gobuild("rpc")
    recs_path = os.path.join(ck.tmp, "replicate.ndjson")
    if ck.replay:
        ck.harness(binp, ["replicate-replay", os.path.abspath(ck.replay), recs_path])
    else:
        ck.harness(binp, ["replicate", recs_path])
    recs = vkit.read_ndjson(recs_path)
    rest = list(recs)
    nviol = 0
    drift = []
    while rest and nviol < 5 and len(drift) < 50:
        p = os.path.join(ck.tmp, "repl-%d.ndjson" % nviol)
        vkit.write_ndjson(p, rest)
        r = ck.tlc_validate("TraceReplicate", "TraceReplicate.cfg", p)
        if r.ok:
            break
        pos = rpc_util.last_l(r)
        if r.kind == "invariant" and pos and r.name in DRIFT_INVS:
            drift.append(rest[pos - 1])
            rest = rest[:pos - 1] + rest[pos:]
            continue
        if r.kind != "invariant" or not pos or r.name not in PROP_INVS:
            raise vkit.Infra("record validation failed to run: %s %s\n%s" % (r.kind, r.name, vkit.tail(r.out, 3000)))
        rec = rest[pos - 1]
        ck.violation("C31: Replicate %s -> %s breaks %s" % (json.dumps(rec["in"]), json.dumps(rec["out"]), r.name),
                     {"in": rec["in"], "out": rec["out"], "invariant": r.name})
        nviol += 1
        rest = rest[:pos - 1] + rest[pos:]
    if drift and not nviol:
        raise vkit.Infra("the real handler refuses %d request(s) that pass every check of the reference (not a C31 violation: the reference Accept has to "
                         "follow the code, or the code is too strict), e.g. %s -> %s" % (len(drift), json.dumps(drift[0]["in"]), json.dumps(drift[0]["out"])))
    if not ck.replay and not nviol:
        acc = [r for r in recs if r["out"]["ok"]]
        if len(recs) < 500 or not acc or len({r["in"]["client"] for r in acc}) < 2:
            raise vkit.Infra("vacuous enumeration: %d records, %d accepted" % (len(recs), len(acc)))
    ck.setcov("traces_validated_against_impl", len(recs))
    ck.setcov("evaluations", len(recs))
    ck.setcov("distinct_nontrivial", len({json.dumps(r["in"], sort_keys=True) for r in recs}))
    ck.setcov("accepted_records", sum(1 for r in recs if r["out"]["ok"]))
    ck.setcov("status_codes", sorted({r["out"]["code"] for r in recs}))
    ck.setcov("rule", "TraceReplicate: out.ok => Replicate!Accept(in); (out.stored or object present in the engine) => Accept(in); out.ok => stored and present; (Accept(in) => out.ok checked as drift)")
    for r in ([x for x in recs if x["out"]["ok"]][:1] + [x for x in recs if not x["out"]["ok"]][:2]):
        ck.sample(r)
    ck.assumptions.append("mapping concrete request -> abstract input is the harness's construction (which key signed what, which membership the fake FS chain reports, how the object was damaged)")
    ck.assumptions.append("object validation = real putsvc.ValidateAndStoreObjectLocally with split/tombstone verifiers stubbed; `stored` is observed at the local-storage leaf and re-read from the engine")
