"""C31 - a replication request is accepted (and the object stored) only when it is signed by a node of the
object's container (current or previous epoch), the local node belongs to the container now and the object
passes full validation; otherwise nothing is stored and an error status is returned.

1. TLC checks spec/Replicate.tla on ALL abstract inputs: the check-by-check model of the handler (Impl)
   agrees with the property's reference Accept: ok <=> Accept, stored => Accept.
2. The Go harness (cmd rpc replicate) calls the REAL Server.Replicate (through gRPC) for every combination of
   {signature ok / wrong / other key} x {3 supported schemes, N3, unknown} x {sender in container now / only in
   the previous epoch / not} x {local node ...} x {object valid / payload changed / header changed / no checksum}
   (thorough: x {container known / unknown}); object validation is the real putsvc.ValidateAndStoreObjectLocally
   over a recording local storage.
3. TLC judges every record with Accept (TraceReplicate): ok => Accept(in), stored or present-afterwards =>
   Accept(in), ok => stored; Accept(in) /\ ~ok (handler stricter than the reference) is reported as drift (exit 2).
4. Histories (server-side memory across requests): Replicate.tla is a state machine - epochs advance, the membership
   of every sender and of the local node changes per epoch, requests arrive in between. TLC generates histories
   (ReplicateGen: EVERY history of length 5 / 7 over a reduced alphabet {tick with sender in, tick with sender out,
   valid request}, plus -simulate over the rich alphabet); a seeded Go generator adds biased random ones. Each
   history is replayed on ONE fresh real objectsvc.Server while the fake FS chain's epoch / membership changes
   between the requests, and TLC (TraceReplicateHist) judges every answer against the STATELESS reference applied
   to the membership at the time of the request."""
import json
import os

import rpc_util
import vkit

LEVEL = "exploration"
PROP_INVS = {"StoredOnlyIfAccepted", "OkOnlyIfAccepted", "OkMeansStored"}
DRIFT_INVS = {"AcceptedWhenAllChecksPass"}


def split_histories(ev):
    """[(first_index, last_index)] (0-based, inclusive) of every history in the event list (each starts with New)."""
    starts = [i for i, e in enumerate(ev) if e["ev"] == "New"]
    return [(a, (starts[k + 1] - 1 if k + 1 < len(starts) else len(ev) - 1)) for k, a in enumerate(starts)]


def script_of(evs):
    return {"steps": [{k: v for k, v in e.items() if k not in ("out", "code", "epoch")} for e in evs if e["ev"] != "New"]}


def histories(ck, binp):
    """Step 4. Returns (number of histories, number of requests, violations found)."""
    thorough = ck.tier == "thorough"
    scripts = []
    if ck.replay:
        scripts = [json.load(open(ck.replay))["replay"]["hist"]]
    else:
        r = ck.tlc("ReplicateGen", "ReplicateGen_all7.cfg" if thorough else "ReplicateGen_all.cfg", timeout=600, workers=1, deadlock=False, count=False)
        allh = []
        for ln in r.out.splitlines():
            if ln.startswith('<<"BEH", '):
                allh.append(json.loads(json.loads(ln[len('<<"BEH", '):].rstrip()[:-2])))
        if r.kind != "ok" or len(allh) < 243:
            raise vkit.Infra("exhaustive history generation failed: %s, %d histories\n%s" % (r.kind, len(allh), vkit.tail(r.out, 2000)))
        for h in allh:
            h["src"] = "tlc-all"
        sim = ck.tlc_scripts("ReplicateGen", "ReplicateGen_sim.cfg", num=150 if thorough else 12, depth=9, seed=ck.seed)
        for h in sim:
            h["src"] = "tlc-simulate"
        rndp = os.path.join(ck.tmp, "hist-rnd.ndjson")
        ck.harness(binp, ["replicate-gen", 3000 if thorough else 300, rndp])
        scripts = allh + sim + vkit.read_ndjson(rndp)
        ck.setcov("histories_by_source", {"tlc_exhaustive_reduced_alphabet": len(allh), "tlc_simulate": len(sim), "seeded_random": len(scripts) - len(allh) - len(sim)})
    sp, tp = os.path.join(ck.tmp, "hist-scripts.ndjson"), os.path.join(ck.tmp, "hist-trace.ndjson")
    vkit.write_ndjson(sp, scripts)
    p = ck.harness(binp, ["replicate-hist", sp, tp], timeout=1500)
    summ = json.loads(p.stdout.strip().splitlines()[-1])
    ev = vkit.read_ndjson(tp)
    if not ck.replay:
        multi = 0
        for a, b in split_histories(ev):
            oks = [e for e in ev[a:b + 1] if e["ev"] == "Req" and e["out"]["ok"]]
            if len(oks) >= 2 and len({e["epoch"] for e in oks}) >= 2:
                multi += 1
        ck.setcov("histories_with_accepted_requests_in_two_epochs", multi)
        if summ["accepted"] < 50 or multi < 20:
            raise vkit.Infra("vacuous histories: %s, %d with accepted requests in two epochs" % (json.dumps(summ), multi))
    nviol, drift = 0, []
    rest = ev
    while nviol < 3 and len(drift) < 20:
        tpk = os.path.join(ck.tmp, "hist-trace-%d.ndjson" % (nviol + len(drift)))
        vkit.write_ndjson(tpk, rest)
        r = ck.tlc_validate("TraceReplicateHist", "TraceReplicateHist.cfg", tpk)
        if r.ok:
            break
        pos = rpc_util.last_l(r)
        if r.kind != "invariant" or not pos or r.name not in PROP_INVS | DRIFT_INVS:
            raise vkit.Infra("history validation failed to run: %s %s at %s\n%s" % (r.kind, r.name, pos, vkit.tail(r.out, 3000)))
        k = pos - 2                       # 0-based index of the event whose answer falsified the invariant
        a, b = [(a, b) for a, b in split_histories(rest) if a <= k <= b][0]
        hist = rest[a:b + 1]
        if r.name in DRIFT_INVS:
            drift.append((hist, rest[k]))
        else:
            nviol += 1
            ck.violation("C31: history on ONE server instance: answer #%d %s breaks %s (stateless reference at the time of the request); history: %s" % (
                k - a, json.dumps(rest[k]), r.name, json.dumps(hist[1:])), {"hist": script_of(hist), "events": hist, "failing_event": rest[k], "invariant": r.name})
        rest = rest[:a] + rest[b + 1:]
    if drift and not nviol:
        raise vkit.Infra("in %d histories the real handler refuses a request that passes every check of the stateless reference (not a C31 violation), e.g. %s in %s" % (
            len(drift), json.dumps(drift[0][1]), json.dumps(drift[0][0])))
    return summ["histories"], summ["requests"], nviol, ev


def run(ck):
    ck.tlc_model("Replicate", "Replicate_model.cfg" if ck.tier == "thorough" else "Replicate_quick.cfg", timeout=900, workers=4)
    binp = ck.gobuild("rpc")
    recs_path = os.path.join(ck.tmp, "replicate.ndjson")
    if ck.replay and "hist" in json.load(open(ck.replay))["replay"]:
        nh, nr, nv, hev = histories(ck, binp)
        ck.setcov("traces_validated_against_impl", nh)
        ck.setcov("evaluations", nr)
        ck.setcov("distinct_nontrivial", nr)
        ck.setcov("rule", "replayed history judged by TraceReplicateHist")
        ck.sample({"history_events": hev[:12]})
        return
    if ck.replay:
        ck.harness(binp, ["replicate-replay", os.path.abspath(ck.replay), recs_path])
    else:
        ck.harness(binp, ["replicate", recs_path])
    recs = vkit.read_ndjson(recs_path)
    rest = list(recs)
    nviol = 0
    drift = []
    while rest and nviol < 5 and len(drift) < 50:
        p = os.path.join(ck.tmp, "repl-%d.ndjson" % nviol)
        vkit.write_ndjson(p, rest)
        r = ck.tlc_validate("TraceReplicate", "TraceReplicate.cfg", p)
        if r.ok:
            break
        pos = rpc_util.last_l(r)
        if r.kind == "invariant" and pos and r.name in DRIFT_INVS:
            drift.append(rest[pos - 1])
            rest = rest[:pos - 1] + rest[pos:]
            continue
        if r.kind != "invariant" or not pos or r.name not in PROP_INVS:
            raise vkit.Infra("record validation failed to run: %s %s\n%s" % (r.kind, r.name, vkit.tail(r.out, 3000)))
        rec = rest[pos - 1]
        ck.violation("C31: Replicate %s -> %s breaks %s" % (json.dumps(rec["in"]), json.dumps(rec["out"]), r.name),
                     {"in": rec["in"], "out": rec["out"], "invariant": r.name})
        nviol += 1
        rest = rest[:pos - 1] + rest[pos:]
    if drift and not nviol:
        raise vkit.Infra("the real handler refuses %d request(s) that pass every check of the reference (not a C31 violation: the reference Accept has to "
                         "follow the code, or the code is too strict), e.g. %s -> %s" % (len(drift), json.dumps(drift[0]["in"]), json.dumps(drift[0]["out"])))
    if not ck.replay and not nviol:
        acc = [r for r in recs if r["out"]["ok"]]
        if len(recs) < 500 or not acc or len({r["in"]["client"] for r in acc}) < 2:
            raise vkit.Infra("vacuous enumeration: %d records, %d accepted" % (len(recs), len(acc)))
    nh = nr = 0
    hev = []
    if not ck.replay:
        nh, nr, nv, hev = histories(ck, binp)
        nviol += nv
    ck.setcov("histories_replayed", nh)
    ck.setcov("history_requests", nr)
    ck.setcov("traces_validated_against_impl", len(recs) + nh)
    ck.setcov("evaluations", len(recs) + nr)
    ck.setcov("distinct_nontrivial", len({json.dumps(r["in"], sort_keys=True) for r in recs}) + len({json.dumps(script_of(hev[a:b + 1]), sort_keys=True) for a, b in split_histories(hev)}))
    ck.setcov("accepted_records", sum(1 for r in recs if r["out"]["ok"]))
    ck.setcov("status_codes", sorted({r["out"]["code"] for r in recs}))
    ck.setcov("rule", "TraceReplicate (independent requests) and TraceReplicateHist (2-4 requests on one server while epochs / membership change): out.ok => Replicate!Accept(in); (out.stored or object present in the engine) => Accept(in); out.ok => stored and present; (Accept(in) => out.ok checked as drift)")
    for r in ([x for x in recs if x["out"]["ok"]][:1] + [x for x in recs if not x["out"]["ok"]][:1]):
        ck.sample(r)
    for a, b in split_histories(hev):
        if sum(1 for e in hev[a:b + 1] if e["ev"] == "Req" and e["out"]["ok"]) >= 2:
            ck.sample({"history": hev[a + 1:b + 1]})
            break
    ck.assumptions.append("mapping concrete request -> abstract input is the harness's construction (which key signed what, which membership the fake FS chain reports, how the object was damaged)")
    ck.assumptions.append("histories: the membership / epoch the fake FS chain reports at the time of each request is the ground truth; one container, two senders, 0-4 requests and up to 9 steps per history")
    ck.assumptions.append("object validation = real putsvc.ValidateAndStoreObjectLocally with split/tombstone verifiers stubbed; `stored` is observed at the local-storage leaf and re-read from the engine")
