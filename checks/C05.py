"""C05 - numeric index encoding is lossless and order preserving; all decimal readers agree.

1. Apalache on spec/Signed256Apa.tla (unbounded integers): for ALL x, y in [-(2^256-1), 2^256-1]
   Dec(Enc(x)) = x, x < y <=> KeyLess(Enc x, Enc y), plus the per-byte induction step at every byte position
   (big-endian byte comparison = numeric comparison, byte inversion = 2^256-1 - m). A canary invariant must fail.
2. TLC on spec/Signed256MC.tla at small width: (pairs) FillBytes/bytes.Compare/DecodeBytes over byte sequences
   agree with the number-level Enc/Dec/KeyLess and with the digit-sequence operators of IntStr.tla;
   (strings) every implementation-shaped decimal reader accepts exactly the optionally signed in-range digit
   strings over a small alphabet, all agree on the value, print/parse round-trips. Both the repaired and the
   as-is (deviation switches on) models are checked.
3. Binding: `search c05recs` emits records from the REAL Go functions (boundary + seeded random inputs);
   TraceSigned256.tla (full width, sequences) must accept every record.
   Known findings are detected with probe records: repaired cfg rejects /\ as-is cfg accepts => reported."""
import json
import os
import re

import vkit
import search_util as su

LEVEL = "model_checking"

KF = {
    # switch -> (signature, record predicate)
    "BugPlusAfterSign": "signed256-parse-accepts-plus-after-sign",
    "BugMergeNoRange": "merge-compare-int-strings-no-range-check",
}


def in_class(rec, switch):
    if switch == "BugPlusAfterSign":
        ss = []
        if rec["k"] == "parse":
            ss = [su.bstr(rec["in"]["s"])]
        elif rec["k"] == "cmp":
            ss = [su.bstr(rec["in"]["a"]), su.bstr(rec["in"]["b"])]
        return any(re.fullmatch(r"[+-]\+[0-9]+", s) for s in ss)
    if switch == "BugMergeNoRange":
        if rec["k"] != "cmp":
            return False
        for s in (su.bstr(rec["in"]["a"]), su.bstr(rec["in"]["b"])):
            if re.fullmatch(r"[+-]?[0-9]+", s) and abs(int(s)) > 2 ** 256 - 1:
                return True
    return False


def run(ck):
    su.install_scratch(ck)
    thorough = ck.tier == "thorough"
    suf = "_thorough" if thorough else ""
    apa = ["--cinit=CInit", "--init=InitApa", "--next=Next", "--length=0"]

    def apa_inv():
        ok, bad, out = ck.apalache("Signed256Apa", apa + ["--inv=Inv"], timeout=1200)
        if not ok:
            raise vkit.Infra("Apalache did not prove Signed256Apa!Inv (model-only, never a verdict):\n" + vkit.tail(out, 3000))
        return True

    def apa_canary():
        ok, bad, out = ck.apalache("Signed256Apa", apa + ["--inv=CanaryMustFail"], timeout=600)
        if not bad:
            raise vkit.Infra("Apalache canary invariant was not refuted - the symbolic run is vacuous\n" + vkit.tail(out, 2000))
        return True

    jobs = [apa_inv, apa_canary,
            lambda: ck.tlc_model("Signed256MC", "Signed256MC_pairs%s.cfg" % suf, timeout=1500, workers=4),
            lambda: ck.tlc_model("Signed256MC", "Signed256MC_strings%s.cfg" % suf, timeout=1500, workers=4),
            lambda: ck.tlc_model("Signed256MC", "Signed256MC_strings_asis%s.cfg" % suf, timeout=1500, workers=4)]

    def build_and_run():
        binp = ck.gobuild("search")
        recs = os.path.join(ck.tmp, "c05recs.ndjson")
        ck.harness(binp, ["c05recs", recs])
        return recs

    if os.environ.get("VERIF_SKIP_MODEL"):      # mutation-testing aid: the model part does not depend on the tree
        jobs = []
        ck.notes.append("model part skipped (VERIF_SKIP_MODEL)")
    res = su.parallel(ck, jobs + [build_and_run])
    recs_path = res[-1]
    ck.setcov("exhaustive", True)
    ck.setcov("apalache", "all pairs x,y in [-(2^256-1), 2^256-1]: Lossless, FitsField, OrderPreserved, Injective, ByteStep(256^k) k=1..31; canary refuted")
    ck.setcov("constants", "TLC small width: pairs M=%d (KB=4), strings over {+,-,0,3,4,6,x} len<=%d x len<=%d"
              % ((255, 5, 1) if thorough else (63, 4, 1)))

    recs = vkit.read_ndjson(recs_path)
    if ck.replay:
        recs = [json.load(open(ck.replay))["replay"]["record"]]
        vkit.write_ndjson(recs_path, recs)
    if not recs:
        raise vkit.Infra("no records")
    base_cfg = open(os.path.join(vkit.SPEC, "TraceSigned256.cfg")).read()

    def validate(records, flags, tag, workers=1):
        p = os.path.join(ck.tmp, "recs-%s.ndjson" % tag)
        vkit.write_ndjson(p, records)
        cfg = su.cfg_with(base_cfg, **flags)
        r = ck.tlc_validate("TraceSigned256", "TraceSigned256-%s.cfg" % tag, p, files={"TraceSigned256-%s.cfg" % tag: cfg},
                            workers=workers, timeout=1800)
        if r.ok and r.distinct != len(records) + 1:
            raise vkit.Infra("validation %s visited %d states for %d records" % (tag, r.distinct, len(records)))
        return r

    # --- which world is the tree in? probe records of each known-finding class
    flags = {k: False for k in KF}
    probes = {k: [r for r in recs if in_class(r, k) and not any(in_class(r, o) for o in KF if o != k)][:6] for k in KF}

    def probe(k):
        if not probes[k]:
            return None
        rep = validate(probes[k], dict(flags), "probe-fixed-" + k)
        if rep.ok:
            return False
        asis = validate(probes[k], dict(flags, **{k: True}), "probe-asis-" + k)
        if not asis.ok:
            i = su.last_l(asis) or 1
            ck.violation("record of class %s matches neither the repaired nor the as-is model: %s" % (k, json.dumps(probes[k][i - 1])[:1500]),
                         {"record": probes[k][i - 1], "tlc": vkit.tail(asis.out, 3000)})
            return True
        i = su.last_l(rep) or 1
        ck.report(KF[k], "real code deviates (%s) on %s" % (k, json.dumps(probes[k][i - 1]["in"])[:600]), {"record": probes[k][i - 1]})
        return True

    worlds = su.parallel(ck, [lambda k=k: probe(k) for k in KF])
    for k, wv in zip(KF, worlds):
        if wv:
            flags[k] = True
    ck.setcov("deviation_switches_detected", dict(flags))

    # --- full validation in the detected world: anything rejected now is a violation. Several single-worker
    # TLC processes (multi-worker TLC on values deserialized from JSON proved flaky).
    parts = su.split_records(recs, 1 if len(recs) < 50 else (4 if len(recs) < 6000 else 8))
    vs = su.parallel(ck, [lambda i=i, p=p: validate(p, flags, "full%d" % i) for i, p in enumerate(parts)])
    ck.setcov("traces_validated_against_impl", len(recs))
    ck.setcov("evaluations", len(recs))
    kinds = {}
    classes = set()
    for r in recs:
        kinds[r["k"]] = kinds.get(r["k"], 0) + 1
        if r["k"] == "parse":
            o = r["out"]
            classes.add(("parse", o["pd"]["ok"], o["sp"]["ok"], len(r["in"]["s"]) > 20, len(r["in"]["s"]) > 77,
                         bool(r["in"]["s"]) and r["in"]["s"][0] in (43, 45), o["pd"]["key"][:1] == [0]))
        elif r["k"] == "cmp":
            classes.add(("cmp", r["out"]["cmp"]["ok"], r["out"]["cmp"]["c"], r["out"]["scmp"]["ok"]))
        else:
            classes.add((r["k"], r["out"].get("ok", True)))
    ck.setcov("records_by_kind", kinds)
    ck.setcov("distinct_nontrivial", len(classes))
    ck.setcov("rule", "record from the real Go function = value of the implementation-shaped spec operator (IntStr.tla), "
                      "which TLC proves equal to the declarative reference on the small-width model and Apalache proves order preserving at full width")
    for r in recs:
        if r["k"] == "parse" and r["out"]["pd"]["ok"] and len(r["in"]["s"]) > 70:
            ck.sample({"in": su.bstr(r["in"]["s"]), "dec": su.bstr(r["out"]["pd"]["dec"]), "key": bytes(r["out"]["pd"]["key"]).hex()})
            break
    ck.sample({"in": su.bstr(recs[8]["in"].get("s", [])), "out_pd": recs[8]["out"].get("pd")})
    for part, v in zip(parts, vs):
        if v.ok:
            continue
        if v.kind != "invariant":
            raise vkit.Infra("record validation did not run to a verdict: %s\n%s" % (v.kind, vkit.tail(v.out, 4000)))
        i = su.last_l(v)
        if i is None:
            raise vkit.Infra("cannot locate the rejected record\n" + vkit.tail(v.out, 3000))
        rec = part[i - 1]
        ck.violation("real decimal reader / codec record (%s) differs from the spec function: %s" % (rec["k"], json.dumps(rec)[:1800]),
                     {"record": rec, "switches": flags, "tlc": vkit.tail(v.out, 2500)})
    ck.assumptions.append("holiman/uint256 SetFromDecimal/Dec/Bytes32 are modelled at the level of their contract (digits only, range, big-endian); "
                          "the records bind them on boundary and seeded random inputs only")
    ck.assumptions.append("byte-level order at full width rests on the per-byte induction step proved by Apalache plus the TLC lemma at small width; "
                          "the induction itself is a meta-argument")
