"""C34 - the inner ring co-signs only notary requests whose calls it fully validated.

1. TLC exhaustive on spec/Notary.tla (33 220 abstract requests: every script of 1..3 calls over registered /
   unregistered contracts and methods x argument shape x content validity x plain/non-plain script, and every
   combination of the 12 structure facts for the typical scripts), both worlds of the deviation switch:
   BugH14=FALSE (repaired RestoreCreateContainerV2Request): SignCode => SignProp everywhere;
   BugH14=TRUE (as is): except the class KF_H14 (createV2 followed by a validated eACL-shaped call whose contract /
   method is not (Container, putEACL)).
2. Record validation: abstract requests are materialised as real scripts (smartcontract.Builder) with real signed
   containers / eACL tables / removal requests, wrapped into real P2PNotaryRequests by the real client of a non-IR
   party (RunScriptForAlphabet), then damaged according to the FALSE structure facts (witness/signer counts,
   alphabet signer, NotaryAssisted attribute, proxy/alphabet/invoker/notary witnesses, fallback attributes,
   expired fallback = chain height past NotValidBefore, the node's own request, re-delivery) and pushed through
   the REAL listener.parseAndHandleNotary -> preparator.Prepare -> parser -> container processor -> morph
   client. sign = the fake RPC node saw this node's signature on that main transaction. TLC validates RecProp and
   prints drift; world detection as in C37."""
import json, os
import vkit
import irproc_util as iu

LEVEL = "model_checking"
SIG_H14 = "H14-createV2-second-call-contract-and-method-not-checked"


def run(ck):
    ck.tlc_model("Notary", "Notary_fixed.cfg", timeout=1200, workers=4, heap="3g")
    ck.tlc_model("Notary", "Notary_asis.cfg", timeout=1200, workers=4, heap="3g")
    ck.setcov("exhaustive", True)
    ck.setcov("constants", "scripts of 1..3 calls over 5 targets x args x valid x plain; 2^12 structure vectors x 4 typical scripts")
    binp = ck.gobuild("irproc")
    cases = os.path.join(ck.tmp, "c34_cases.ndjson")
    if ck.replay:
        vkit.write_ndjson(cases, [json.load(open(ck.replay))["replay"]["case"]])
    else:
        ck.harness(binp, ["c34gen", cases])
    recs_p = os.path.join(ck.tmp, "c34.ndjson")
    ck.harness(binp, ["c34", cases, recs_p], timeout=2400)
    recs = vkit.read_ndjson(recs_p)
    signed = sum(1 for r in recs if r["out"]["sign"])
    ck.setcov("traces_validated_against_impl", len(recs))
    ck.setcov("signed", signed)
    ck.setcov("distinct_abstract_requests", len({json.dumps(r["in"], sort_keys=True) for r in recs}))
    ck.setcov("multi_call_scripts", sum(1 for r in recs if len(r["in"]["calls"]) > 1))
    ck.sample({"record": recs[0]})
    if not ck.replay and (signed < 15 or len(recs) - signed < 100):
        raise vkit.Infra("vacuous run: %d signed of %d" % (signed, len(recs)))

    def bad(v):
        pos = iu.last_l(v) or 1
        return pos, recs[pos - 1]

    v = ck.tlc_validate("TraceNotary", "TraceNotary_fixed.cfg", recs_p)
    world, final = "repaired", v
    if not v.ok or iu.drifts(v):
        v2 = ck.tlc_validate("TraceNotary", "TraceNotary_asis.cfg", recs_p)
        if not v2.ok:
            pos2, r2 = bad(v2)
            ck.violation("notary request co-signed although its structure is wrong or a call is not an expected, validated call (record %d): in=%s"
                         % (pos2, json.dumps(r2["in"])), {"case": r2["case"], "record": r2, "tlc": v2.trace_text[-1500:]})
            final = None
        elif not v.ok:
            world, final = "as-is", v2
            pos, r = bad(v)
            ck.setcov("h14_records", sum(1 for x in recs if x["out"]["sign"] and len(x["in"]["calls"]) == 2 and x["in"]["calls"][1]["target"] != "putEACL"))
            ck.sample({"H14_record": r})
            ck.report(SIG_H14, "createV2 request with a second call to %s co-signed (record %d): %s"
                      % (r["in"]["calls"][1]["target"] if len(r["in"]["calls"]) > 1 else "?", pos, json.dumps(r["in"]["calls"])),
                      {"case": r["case"], "record": r})
        elif len(iu.drifts(v2)) < len(iu.drifts(v)):
            world, final = "as-is", v2
    if final is not None and iu.drifts(final):
        pos = iu.drifts(final)[0]
        raise vkit.Infra("model drift (not a verdict): the real decision differs from SignCode of the %s model without breaking the property, "
                         "%d records, first %d: %s" % (world, len(iu.drifts(final)), pos, json.dumps(recs[pos - 1])))
    ck.setcov("world_detected", world)
    ck.assumptions += [
        "mapping abstract fact -> concrete request is by construction in the harness (e.g. placeholder=FALSE = non-empty verification script or garbage invocation script in the last witness)",
        "content validity of a call (`valid`) is owner's / stranger's RFC6979 signature of the container, the removal id or the eACL table (full authorisation space: C37)",
        "requests are handed to listener.parseAndHandleNotary directly (verif shim); transport-level decoding that would refuse some malformed transactions (e.g. signers != witnesses) is bypassed on purpose",
        "fake Neo RPC node below the real neo-go client; signature observed as submitnotaryrequest with this node's invocation script in the alphabet witness",
    ]
