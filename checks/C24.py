"""C24 - nodes store only self-consistent, authenticated objects; self-sliced pieces reassemble to the stream.

1. TLC exhaustive: Validation.tla (streaming automaton of validatingTarget: every mutation x declared size x
   real size x chunking over small numbers; invariants StoredOnlyValid, MachineIsAccept) and
   ValidationSlicer.tla (slicer pipeline with a storage that refuses the k-th object; PiecesReassemble,
   NeverBroken for the repaired code; success-with-wrong-pieces only after the named deviation for the code as
   found).
2. C->M: real objects, valid or mutated in exactly one aspect (ID, signature, signing key, checksum, declared
   size, attributes with zero byte / duplicate / empty value, EC attributes, container, owner, expiration, parent
   header, checksum kind, size limit, short / long stream), streamed with random chunkings through the REAL
   putsvc pipeline (client-signed path; node-side slicing path with 1-6 children and a refusing storage) and
   through Service.ValidateAndStoreObjectLocally (validation of the replication path). Also: objects created
   within V1 sessions, in SEQUENCES of 2-4 objects through the one service instance (live session-token cache)
   that share a token - a legitimate object followed by objects reusing the token with a foreign signer /
   another owner / a changed token; and EC part objects (made by the real pipeline, then spoiled in one
   aspect) through both entry points. The reference verdict of every step is the STATELESS Accept, so a
   verdict that depends on earlier requests is a violation. Every record is
   classified by TLC against Accept() and the property is evaluated on the observation (what the storage
   received: IDs, checksums, signatures, reassembled payload)."""
import json
import os

import putpol_util as pu
import vkit

LEVEL = "model_checking"
KF = "write-error-swallowed-by-quota-check"


def run(ck):
    thorough = ck.tier == "thorough"
    binp = ck.gobuild("putpol")
    scen_path = os.path.join(ck.tmp, "scenarios.ndjson")
    models = None
    if ck.replay:
        doc = json.load(open(ck.replay))["replay"]
        # a step of a session sequence is replayed together with the steps before it (same service instance)
        vkit.write_ndjson(scen_path, doc.get("sequence") or [doc["scenario"]])
    else:
        jobs = [("Validation", "Validation_thorough.cfg" if thorough else "Validation_quick.cfg", dict(timeout=1500, workers=4)),
                ("ValidationSlicer", "ValidationSlicer_thorough_fixed.cfg" if thorough else "ValidationSlicer_fixed.cfg", dict(timeout=1500, workers=4)),
                ("ValidationSlicer", "ValidationSlicer_thorough_asis.cfg" if thorough else "ValidationSlicer_asis.cfg", dict(timeout=1500, workers=4))]
        if os.environ.get("VERIF_SKIP_MODELS"):     # developer switch for mutation testing only
            jobs = []
        models = pu.Models(ck, jobs, max_workers=2)
        ck.harness(binp, ["c24", "rnd", 200000 if thorough else 4000, scen_path])
    recs_path = os.path.join(ck.tmp, "records.ndjson")
    ck.harness(binp, ["c24", "run", scen_path, recs_path], timeout=1800)
    recs = vkit.read_ndjson(recs_path)
    cfg = open(os.path.join(vkit.SPEC, "TraceValidation.cfg")).read().replace("NRecs = 1", "NRecs = %d" % len(recs))
    v = ck.tlc_validate("TraceValidation", "TraceValidation_run.cfg", recs_path, workers=4, timeout=2400,
                        files={"TraceValidation_run.cfg": cfg})
    if not v.ok or v.distinct < len(recs):
        raise vkit.Infra("record walk did not finish: %s\n%s" % (v.summary(), vkit.tail(v.out, 3000)))
    if models:
        models.finish()
        ck.setcov("exhaustive", True)
    cls = pu.rec_classes(v)
    ck.setcov("traces_validated_against_impl", len(recs))
    counts = {"ok": len(recs) - len(cls)}
    for c in cls.values():
        counts[c] = counts.get(c, 0) + 1
    ck.setcov("record_classes", counts)
    by = {}
    for r in recs:
        key = "%s/%s/%s" % (r["in"]["path"], r["in"]["mut"], "stored" if r["out"]["stored"] else "rejected")
        by[key] = by.get(key, 0) + 1
    ck.setcov("path_mutation_outcome", by)
    ck.setcov("distinct_flag_vectors", len({(r["in"]["path"], r["in"]["mut"]) for r in recs}))
    ck.sample(recs[len(recs) // 2])
    stored_valid = sum(1 for r in recs if r["out"]["res"] == "ok")
    reuse = sum(1 for r in recs if r["in"].get("seq", 0) > 0 and r["in"]["step"] > 0 and r["in"]["mut"].startswith("sess"))
    ecparts = sum(1 for r in recs if r["in"]["path"] in ("ecput", "ecrepl"))
    ck.setcov("session_token_reuse_steps", reuse)
    ck.setcov("ec_part_records", ecparts)
    if not ck.replay and (reuse < 30 or ecparts < 50):
        raise vkit.Infra("vacuous run: %d token-reuse steps, %d EC part records" % (reuse, ecparts))
    if not ck.replay and (stored_valid < 200 or len(by) < 40):
        raise vkit.Infra("vacuous run: %d accepted objects, %d path/mutation/outcome classes" % (stored_valid, len(by)))
    reported = {}
    for idx in sorted(cls):
        c, rec = cls[idx], recs[idx - 1]
        if c == "kfBenign" or reported.get(c, 0) >= 3:
            continue
        reported[c] = reported.get(c, 0) + 1
        rp = {"scenario": rec["in"], "observed": rec["out"], "class": c}
        if rec["in"].get("seq", 0) > 0:
            rp["sequence"] = [r["in"] for r in recs if r["in"].get("seq") == rec["in"]["seq"] and r["in"]["step"] <= rec["in"]["step"]]
        if c == "kfViol":
            ck.sample({"known_finding_record": rec}, limit=4)
            ck.report(KF, "real PUT pipeline went on after a failed child object (known class): %s" % json.dumps(rec), rp)
        elif c == "propviol":
            ck.violation("the node stored an object that is not self-consistent / authenticated, or reported success for pieces that do not reassemble: %s" % json.dumps(rec), rp)
        else:
            ck.violation("real validation outcome differs from the specified Accept(): %s" % json.dumps(rec), rp)
    ck.assumptions += [
        "the mapping mutation -> invalid aspect is the harness's (each mutated object is re-signed so that only the named aspect is invalid)",
        "cryptography (ECDSA, SHA-256), protobuf encoding and the SDK slicer are trusted",
        "the serving node is the only container node; its ObjectStorage is an in-memory recorder whose content is inspected (ID, payload length, checksum, signature, reassembly)",
        "Server.Replicate's request envelope (signature over the ID, container membership) belongs to the RPC family; here the object validation it delegates to (ValidateAndStoreObjectLocally) is driven directly",
        "V1 session tokens only (no V2 / NNS); token verb / container / lifetime are the ACL service's business and are not varied; nested parent headers beyond one level are not generated",
    ]
