"""C24 - nodes store only self-consistent, authenticated objects; self-sliced pieces reassemble to the stream.

1. TLC exhaustive: Validation.tla (streaming automaton of validatingTarget: every mutation x declared size x
   real size x chunking over small numbers; invariants StoredOnlyValid, MachineIsAccept) and
   ValidationSlicer.tla (slicer pipeline with a storage that refuses the k-th object; PiecesReassemble,
   NeverBroken for the repaired code; success-with-wrong-pieces only after the named deviation for the code as
   found).
2. C->M: real objects, valid or mutated in exactly one aspect (ID, signature, signing key, checksum, declared
   size, attributes with zero byte / duplicate / empty value, EC attributes, container, owner, expiration, parent
   header, checksum kind, size limit, short / long stream), streamed with random chunkings through the REAL
   putsvc pipeline (client-signed path; node-side slicing path with 1-6 children and a refusing storage) and
   through Service.ValidateAndStoreObjectLocally (validation of the replication path). Every record is
   classified by TLC against Accept() and the property is evaluated on the observation (what the storage
   received: IDs, checksums, signatures, reassembled payload)."""
import json
import os

import putpol_util as pu
import vkit

LEVEL = "model_checking"
KF = "write-error-swallowed-by-quota-check"


def run(ck):
    thorough = ck.tier == "thorough"
    binp = ck.gobuild("putpol")
    scen_path = os.path.join(ck.tmp, "scenarios.ndjson")
    models = None
    if ck.replay:
        vkit.write_ndjson(scen_path, [json.load(open(ck.replay))["replay"]["scenario"]])
    else:
        jobs = [("Validation", "Validation_thorough.cfg" if thorough else "Validation_quick.cfg", dict(timeout=1500, workers=4)),
                ("ValidationSlicer", "ValidationSlicer_thorough_fixed.cfg" if thorough else "ValidationSlicer_fixed.cfg", dict(timeout=1500, workers=4)),
                ("ValidationSlicer", "ValidationSlicer_thorough_asis.cfg" if thorough else "ValidationSlicer_asis.cfg", dict(timeout=1500, workers=4))]
        if os.environ.get("VERIF_SKIP_MODELS"):     # developer switch for mutation testing only
            jobs = []
        models = pu.Models(ck, jobs, max_workers=2)
        ck.harness(binp, ["c24", "rnd", 200000 if thorough else 4000, scen_path])
    recs_path = os.path.join(ck.tmp, "records.ndjson")
    ck.harness(binp, ["c24", "run", scen_path, recs_path], timeout=1800)
    recs = vkit.read_ndjson(recs_path)
    cfg = open(os.path.join(vkit.SPEC, "TraceValidation.cfg")).read().replace("NRecs = 1", "NRecs = %d" % len(recs))
    v = ck.tlc_validate("TraceValidation", "TraceValidation_run.cfg", recs_path, workers=4, timeout=2400,
                        files={"TraceValidation_run.cfg": cfg})
    if not v.ok or v.distinct < len(recs):
        raise vkit.Infra("record walk did not finish: %s\n%s" % (v.summary(), vkit.tail(v.out, 3000)))
    if models:
        models.finish()
        ck.setcov("exhaustive", True)
    cls = pu.rec_classes(v)
    ck.setcov("traces_validated_against_impl", len(recs))
    counts = {"ok": len(recs) - len(cls)}
    for c in cls.values():
        counts[c] = counts.get(c, 0) + 1
    ck.setcov("record_classes", counts)
    by = {}
    for r in recs:
        key = "%s/%s/%s" % (r["in"]["path"], r["in"]["mut"], "stored" if r["out"]["stored"] else "rejected")
        by[key] = by.get(key, 0) + 1
    ck.setcov("path_mutation_outcome", by)
    ck.setcov("distinct_flag_vectors", len({(r["in"]["path"], r["in"]["mut"]) for r in recs}))
    ck.sample(recs[len(recs) // 2])
    stored_valid = sum(1 for r in recs if r["out"]["res"] == "ok")
    if not ck.replay and (stored_valid < 200 or len(by) < 40):
        raise vkit.Infra("vacuous run: %d accepted objects, %d path/mutation/outcome classes" % (stored_valid, len(by)))
    reported = {}
    for idx in sorted(cls):
        c, rec = cls[idx], recs[idx - 1]
        if c == "kfBenign" or reported.get(c, 0) >= 3:
            continue
        reported[c] = reported.get(c, 0) + 1
        rp = {"scenario": rec["in"], "observed": rec["out"], "class": c}
        if c == "kfViol":
            ck.sample({"known_finding_record": rec}, limit=4)
            ck.report(KF, "real PUT pipeline went on after a failed child object (known class): %s" % json.dumps(rec), rp)
        elif c == "propviol":
            ck.violation("the node stored an object that is not self-consistent / authenticated, or reported success for pieces that do not reassemble: %s" % json.dumps(rec), rp)
        else:
            ck.violation("real validation outcome differs from the specified Accept(): %s" % json.dumps(rec), rp)
    ck.assumptions += [
        "the mapping mutation -> invalid aspect is the harness's (each mutated object is re-signed so that only the named aspect is invalid)",
        "cryptography (ECDSA, SHA-256), protobuf encoding and the SDK slicer are trusted",
        "the serving node is the only container node; its ObjectStorage is an in-memory recorder whose content is inspected (ID, payload length, checksum, signature, reassembly)",
        "Server.Replicate's request envelope (signature over the ID, container membership) belongs to the RPC family; here the object validation it delegates to (ValidateAndStoreObjectLocally) is driven directly",
        "session tokens are not used (objects are owned by the signing key); EC part objects / nested parent headers beyond one invalid parent are not generated",
    ]
