"""C44 - GC liveness: in read-write mode with epochs advancing, everything tombstoned / garbage-marked / expired and
unlocked / in a removed container is eventually deleted from blobstor, write-cache and metabase; expired tombstones
and locks go away; empty removed containers disappear.

1. TLC on spec/Shard.tla with SPECIFICATION LiveSpec (weak fairness of GC progress, strong fairness of the epoch tick,
   no state constraint): temporal properties C44Live (quiet ~> Clean) and C44Stable, batch size 1 < garbage volume;
   plus the bounded form C44Bound (KRounds complete passes in the last epoch suffice) as an invariant.
2. Bounded form on real code: TLC -simulate histories (puts, tombstones, locks, expirations, marks, container
   removals, deletes, flushes, epochs, GC passes; batch 1..2) + hand-chosen ones run on a REAL shard.Shard, then
   "users stop; epoch ticks past every expiration; K = 12 GC passes with a further epoch tick before every third"; the final event ExpectClean is accepted by
   spec/TraceShard.tla only if nothing is left (metabase garbage keys, expired records, removed containers, blobs,
   cache entries) and every recorded state along the way equals the model's."""
import json
import os

import vkit
import sharda_util as su

LEVEL = "model_checking"
K = 12


def P(a):
    return {"op": "Put", "a": a, "c": 0, "ids": [], "crash": 0, "fail": 0}


GC = {"op": "GC", "a": 0, "c": 0, "ids": [], "crash": 0, "fail": 0}
FL = {"op": "Flush", "a": 0, "c": 0, "ids": [], "crash": 0, "fail": 0}
EP = {"op": "Epoch"}
SETTLE = {"op": "Settle", "k": K}


def M(c, ids, mk="def"):
    return {"op": "Mark", "c": c, "ids": ids, "mk": mk}


def I(c):
    return {"op": "InhumeCnr", "c": c}


def deliberate():
    out = []
    for wc in (False, True):
        for b in (1, 2):
            out.append({"wc": wc, "batch": b, "steps": [P(1), P(2), P(3), P(4), P(5), P(6), M(2, [5, 6]), M(1, [2], "red")]})   # garbage > batch
            out.append({"wc": wc, "batch": b, "steps": [P(2), P(6), P(4), EP, EP, GC]})            # expired straddling batches, one locked
            out.append({"wc": wc, "batch": b, "steps": [P(5), P(6), I(2), P(1), P(3), I(1)]})      # removed containers
            out.append({"wc": wc, "batch": b, "steps": [M(1, [1]), P(3), P(1), P(2), P(4), M(1, [2, 4])]})  # tombstone first, marked lock
            out.append({"wc": wc, "batch": b, "steps": [EP, EP, EP, GC, P(2), P(3), P(4), P(6)]})   # stored already expired, epoch processed
            # expired objects BEHIND an expired object that is still locked (same container, later in the expiration index)
            out.append({"wc": wc, "batch": b, "steps": [P(2), P(4), P(7), EP, EP, GC, GC]})          # lock 4 valid at epoch 2: 7 must go, 2 stays
            out.append({"wc": wc, "batch": b, "steps": [P(7), P(8), P(3), P(4), P(2), EP, EP, EP, GC]})   # 7 locked for ever: 2, 3, 4 behind / around it must still go
    return out


def run(ck):
    thorough = ck.tier == "thorough"
    binp = ck.gobuild("sharda")
    world = su.detect_world(ck, binp)
    if not ck.replay and not os.environ.get("VERIF_SKIP_MODEL"):   # (dev aid for mutation runs: the model check does not depend on the tree)
        r = ck.tlc_model("Shard", "Shard_C44.cfg", timeout=1500, files=su.cfg_files(world, "Shard_C44.cfg"))
        if "Checking temporal properties" not in r.out and "temporal properties" not in r.out:
            raise vkit.Infra("liveness was not checked")
        if thorough:
            ck.tlc_model("Shard", "Shard_C44t.cfg", timeout=3000, files=su.cfg_files(world, "Shard_C44t.cfg"))
            ck.tlc_model("Shard", "Shard_C44u.cfg", timeout=3000, files=su.cfg_files(world, "Shard_C44u.cfg"))
            ck.tlc_model("Shard", "Shard_C44v.cfg", timeout=3000, files=su.cfg_files(world, "Shard_C44v.cfg"))   # expired tombstone behind an object locked for ever
        ck.setcov("exhaustive", True)
        ck.setcov("liveness_checked", "C44Live C44Stable under WF(GC progress) /\\ SF(epoch tick), no state constraint")
        ck.setcov("constants", "quick: Objs={1,3 TS->1,5} batch=1 epochs 0..3 Put GC Epoch InhumeCnr Quiesce, K=6" +
                  ("; thorough adds Objs={2 exp1,4 LOCK->2,5} wc=on MarkDef K=8 and Objs={1,3,5} wc=on MarkRed K=6" if thorough else ""))
    if ck.replay:
        scripts = [json.load(open(ck.replay))["replay"]["script"]]
    else:
        scripts = deliberate()
        for s in range(3 if thorough else 1):
            scripts += ck.tlc_scripts("ShardGen", "ShardGen_C44.cfg", files=su.cfg_files(world, "ShardGen_C44.cfg"), num=1000 if thorough else 80, depth=9,
                                      seed=ck.seed * 10 + s, timeout=900)
        for sc in scripts:
            sc["steps"] = list(sc["steps"]) + [SETTLE]
    tp, info = su.run_scripts(ck, binp, scripts)
    ck.log("harness: %s" % info)
    if info.get("scripts", 0) - info.get("skipped", 0) < max(1, len(scripts) // 2):
        raise vkit.Infra("too many behaviours discarded: %s" % info)
    v = su.validate(ck, "TraceShard_C44.cfg", tp, world=world)
    ev = v.events
    if not v.r.ok and v.stuck and ev[v.stuck[0] - 1].get("op") == "ExpectClean" and v.stuck[1] and v.stuck[1][0][0] == "nostep":
        pos = v.stuck[0]
        idx, sev = su.script_of_event(ev, pos)
        ck.violation("C44: after the epochs advanced past every expiration and %d further GC passes the real shard is not clean: %s"
                     % (K, json.dumps(ev[pos - 1].get("st"))),
                     {"script": scripts[idx] if 0 <= idx < len(scripts) else None, "left_over_state": ev[pos - 1].get("st"),
                      "trace": [su.strip_st(e) for e in sev][-60:]})
    else:
        su.judge(ck, "C44", v, scripts, "C44", lambda c: "unlisted:" + c, lambda c: c)
    # anti-vacuity: how much there was to collect when the users stopped
    work, clean = 0, 0
    for i, e in enumerate(ev):
        if e["ev"] == "Do" and e["op"] == "Quiesce":
            st = e["st"]
            if any(st["g"]) or "dead" in st["cn"] or any(x == "expired" for x in st["x"]) or any(st["s"]):
                work += 1
        if e["ev"] == "Do" and e["op"] == "ExpectClean":
            clean += 1
    ck.setcov("traces_validated_against_impl", info.get("scripts", 0) - info.get("skipped", 0))
    ck.setcov("trace_events", len(ev))
    ck.setcov("behaviours_with_work_at_quiescence", work)
    ck.setcov("expect_clean_events_accepted", clean if v.r.ok else "rejected")
    ck.setcov("gc_passes_on_real_code", sum(1 for e in ev if e["ev"] == "Start" and e["op"] == "GC"))
    ck.setcov("K_rounds", K)
    if not ck.replay and work < len(scripts) // 3:
        raise vkit.Infra("vacuous: only %d behaviours had anything to collect" % work)
    if info["panics"]:
        ck.setcov("real_panics_treated_as_crash", info["panics"])
    ck.sample({"script": scripts[0], "trace_tail": [su.strip_st(e) for e in su.script_of_event(ev, 2)[1]][-8:]})
    ck.sample({"state_at_quiescence_example": next((e["st"] for e in ev if e["ev"] == "Do" and e["op"] == "Quiesce"), None)})
    ck.assumptions += [
        "GC pass = (*Shard).VerifRunGC (what the GC ticker runs), epoch event = (*Shard).VerifHandleEpoch + EpochState",
        "expired-objects callback = single-shard equivalent of engine.processExpiredObjects (skips locked, deletes existing)",
        "liveness on real code only in the bounded form (K passes after the epochs advanced); fairness of the real "
        "tickers (GC interval, epoch notifications) is assumed",
        "no crashes / faults / mode changes in C44 histories; multi-shard lock handling belongs to the engine family",
    ]
