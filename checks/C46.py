"""C46 - restoring a shard dump reproduces exactly the dumped objects.

Spec: spec/DumpRestore.tla (byte stream = magic ++ (len, data)*, reader delivering arbitrary chunk
boundaries, the restore loop as written in shard/restore.go, corruption flags per record).
 1. TLC exhaustive over every chunking at unit granularity (segment boundaries and +-1 byte inside each
    segment), every set of corrupted records, both ignoreErrors values, both reader styles (io.EOF with or
    after the last bytes): the repaired model satisfies RestoreExact; the model of the code as it is
    satisfies it up to the history class H4 (a Read boundary inside a record's data / EOF with data).
 2. M->C + C->M: inputs chosen by TLC (simulation of the same spec) plus random byte-level chunkings are run
    on REAL shards: a shard (with / without write-cache) is dumped into a buffer, the buffer is restored into
    an empty shard through an io.Reader that stops exactly at the chosen places, the destination is listed
    and compared byte for byte. Each record {in, out} is validated against the model (TraceDumpRestore).
The behaviour of the tree (single Read = H4, or io.ReadFull) is found by validation, as-is first."""
import json
import os
import re

import shardb_util as su
import vkit

LEVEL = "model_checking"
SIG = "restore-single-read-short-read"

# shortest counterexample TLC finds for RestoreExact with BugH4 = TRUE (cfg DumpRestore_cex.cfg): the reader
# stops after the first byte of the first record's data
PROBES = [
    {"n": 3, "cuts": [5], "corrupt": [], "ignore": False, "eofdata": False},
    {"n": 3, "cuts": [5], "corrupt": [], "ignore": True, "eofdata": False},
    {"n": 3, "cuts": [], "corrupt": [], "ignore": False, "eofdata": True},
    {"n": 3, "cuts": [16], "corrupt": [2], "ignore": True, "eofdata": False},
    # the three corruption styles (undecodable bytes / early invalid header field / last validated header field
    # invalid; the style is chosen by (case index + record) mod 3) for each flag, full reads
    {"n": 3, "cuts": [], "corrupt": [2], "ignore": False, "eofdata": False},
    {"n": 3, "cuts": [], "corrupt": [2], "ignore": False, "eofdata": False},
    {"n": 3, "cuts": [], "corrupt": [2], "ignore": False, "eofdata": False},
    {"n": 3, "cuts": [], "corrupt": [1, 3], "ignore": True, "eofdata": False},
    {"n": 3, "cuts": [], "corrupt": [1, 3], "ignore": True, "eofdata": False},
    {"n": 3, "cuts": [], "corrupt": [1, 3], "ignore": True, "eofdata": False},
]


def validate(ck, path):
    nrec = sum(1 for _ in open(path))
    best = None
    for bug in (True, False):
        txt = su.cfg_with("TraceDumpRestore.cfg", {"BugH4": su.tla_bool(bug)})
        r = su.run_tlc(ck, "TraceDumpRestore", "TraceDumpRestore.cfg", cfg_text=txt, files={"trace.ndjson": path}, timeout=900)
        su.record_run(ck, r, "TraceDumpRestore", "TraceDumpRestore.cfg BugH4=%s" % bug, "validate", False)
        if r.kind in ("error", "timeout") or "Parsing or semantic analysis failed" in r.out:
            raise vkit.Infra("record validation failed to run (%s)\n%s" % (r.kind, vkit.tail(r.out, 4000)))
        if '<<"ACCEPTED", %d>>' % nrec in r.out:
            pf = sorted({(int(a), b) for a, b in re.findall(r'<<"PROPFAIL", (\d+), "(\w+)">>', r.out)})
            ck.log("records accepted with BugH4=%s: %d records, %d deviate from C46" % (bug, nrec, len(pf)))
            return bug, pf, None
        ck.log("records rejected with BugH4=%s" % bug)
    for bug in (True, False):
        txt = su.cfg_with("TraceDumpRestore.cfg", {"BugH4": su.tla_bool(bug)}, invariants="Accept MaxL")
        r = su.run_tlc(ck, "TraceDumpRestore", "TraceDumpRestore.cfg", cfg_text=txt, files={"trace.ndjson": path}, timeout=900)
        ms = re.findall(r'<<"MAXL", (\d+)>>', r.out)
        pos = int(ms[-1]) if ms else 1
        if best is None or pos > best[0]:
            best = (pos, bug)
    return None, [], best


def run(ck):
    thorough = ck.tier == "thorough"
    # quick: 2 records, at most 4 cuts; thorough: 2 records with every chunking + 3 records with at most 5 cuts
    names = ["fixed2all", "asis2all", "fixed3", "asis3"] if thorough else ["fixed2", "asis2"]
    models = [su.BgModel(ck, "DumpRestore", "DumpRestore_%s.cfg" % n, workers=4, timeout=2400) for n in names]
    ck.setcov("exhaustive", True)
    binp = ck.gobuild("shardb")
    cpath = os.path.join(ck.tmp, "cases.ndjson")
    if ck.replay:
        cases = [json.load(open(ck.replay))["replay"]["in"]]
        nrand = 0
    else:
        cases = list(PROBES)
        for s in range(3 if thorough else 1):
            cases += ck.tlc_scripts("DumpRestoreGen", "DumpRestoreGen.cfg", num=400 if thorough else 120, depth=40,
                                    seed=ck.seed * 10 + s, timeout=900)
        nrand = 600 if thorough else 120
    vkit.write_ndjson(cpath, cases)
    opath = os.path.join(ck.tmp, "records.ndjson")
    ck.harness(binp, ["dump", cpath, opath, nrand], timeout=2400)
    recs = vkit.read_ndjson(opath)
    bug, pf, stuck = validate(ck, opath)
    ck.setcov("traces_validated_against_impl", len(recs))
    ck.setcov("tlc_chosen_inputs", len(cases))
    ck.setcov("random_byte_level_inputs", nrand)
    ck.setcov("short_reads_served", sum(r["out"]["short"] for r in recs))
    ck.setcov("inputs_with_cut_inside_data", sum(1 for r in recs if any((c - 3) % 5 in (0, 1) and c > 2 for c in r["in"]["cuts"])))
    ck.setcov("distinct_outputs", len({json.dumps([r["out"]["res"], r["out"]["count"], r["out"]["fail"], r["out"]["restored"]]) for r in recs}))
    ck.sample(recs[0])
    ck.sample(recs[len(recs) // 2])
    if bug is None:
        pos, w = stuck
        rec = recs[pos - 1]
        ck.violation("real dump/restore record rejected by spec DumpRestore (both with and without H4): record %d %s"
                     % (pos, json.dumps(rec)[:1500]), rec)
    else:
        ck.setcov("tree_has_H4", bug)
        for pos, tag in pf:
            rec = recs[pos - 1]
            what = "Shard.Restore through a reader with short reads: in=%s out=%s" % (
                json.dumps({k: rec["in"][k] for k in ("n", "cuts", "corrupt", "ignore", "eofdata")}), json.dumps(rec["out"])[:400])
            if tag == "h4" and bug:
                ck.add("known_deviation_observations")
                ck.report(SIG, what, rec)
            else:
                ck.violation("restore result differs from what C46 demands and is not explained by a known history class: " + what, rec)
    for m in models:
        m.join()
    ck.assumptions += [
        "corruption (length field intact) = the first 8 data bytes overwritten with 0xFF (not a protobuf message) or one byte of the owner ID flipped or the second attribute key made a duplicate of the first (valid protobuf, header validation fails early / at its very end, after the object is filled in): such a record does not unmarshal",
        "random byte-level cuts are projected onto the unit boundaries of the segment they fall in (the model's outcome depends only on which segment a Read boundary falls in)",
        "while H4 is present the reader aborts a restore that has lost the framing (otherwise it allocates up to 4 GiB per garbage length); the model stops predicting at that point",
        "protobuf decoding is trusted: an intact record decodes, a corrupted one does not",
    ]
