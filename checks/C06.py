"""C06 - cursor listing yields each available physical object exactly once (shard and engine level).

spec/Metabase.tla: Listed(S) (implementation-shaped) with C06_Sound / C06_Complete checked by TLC on all
reachable states; ListAfter(S, cursor) is the expected remainder of the listing for ANY start cursor
(also cursors naming absent, removed or header-only ids). Binding: after random / TLC-simulated
histories on a real shard, Shard.ListWithCursor is paged with sizes 1, 2, 3 and N from every catalogue
cursor; TraceMetabase.PagesOK requires the concatenated pages to equal ListAfter, every page but the last
to be full and none empty (so every object appears exactly once and the listing ends).
Engine half: spec/EngineList.tla (code-shaped merge of per-shard pages vs the union reference, TLC over all
distributions x visiting orders x cursors x page sizes); a real 3-shard StorageEngine with overlapping copies,
removal marks and removed containers is listed with every visiting order (hook engine.unsortedShards), cursor
and page size, and every call is validated as a record (ids, order, holder shards, next cursor, end)."""
import json, random
import meta_util as mu
import vkit
from C01 import handle

LEVEL = "model_checking"
INV = ["TraceNotStuck", "C06_Sound", "C06_Complete"]


def add_lists(scripts, cats, rnd):
    out = []
    for s in scripts:
        n = len(cats[s["cat"]]["objs"])
        steps = list(s["steps"])
        # two listings in the middle of the history
        for _ in range(2):
            k = rnd.randrange(1, len(steps) + 1)
            steps.insert(k, {"ev": "List", "n": rnd.choice([1, 2, 3]), "from": rnd.randrange(0, n + 1)})
        # at the end: every cursor, several page sizes
        for frm in range(0, n + 1):
            for ps in (1, 2, n + 1) if frm % 2 == 0 else (3,):
                steps.append({"ev": "List", "n": ps, "from": frm})
        out.append({"cat": s["cat"], "steps": steps})
    return out


def run(ck):
    mu.check_catalog_sync(ck)
    thorough = ck.tier == "thorough"
    ck.tlc_model("Metabase", "Metabase_c06.cfg", timeout=3000)
    binp = ck.gobuild("meta")
    cats = json.load(open(mu.CATALOGS))
    rnd = random.Random(ck.seed)
    if ck.replay:
        doc = json.load(open(ck.replay))["replay"]
        cat = doc["script"]["cat"]
        out = mu.run_validate(ck, binp, cat, [doc["script"]], INV)
        finish(ck, cat, out)
        return
    plan = [("Q", 40, 60), ("S", 30, 50), ("T", 30, 40)]
    if thorough:
        plan = [(c, a * 15, b * 20) for c, a, b in plan]
    pages = 0
    for cat, n_sim, n_rnd in plan:
        scripts = add_lists(mu.gen_scripts(ck, binp, cat, n_sim, n_rnd, depth=12), cats, rnd)
        out = mu.run_validate(ck, binp, cat, scripts, INV)
        lists = [e for e in out["events"] if e["ev"] == "List"]
        pages += sum(len(e["pages"]) for e in lists)
        ck.add("list_calls_validated", len(lists))
        ck.sample({"cat": cat, "list_event": lists[len(lists) // 2] if lists else None})
        finish(ck, cat, out)
        if ck.violations:
            break
    ck.setcov("pages_validated", pages)
    if not ck.violations:
        engine_part(ck, thorough)
    ck.assumptions.append("objects carrying the 'redundant' garbage mark stay listed (they remain readable until GC); 'marked for removal' is read as tombstoned or default-marked")


def engine_part(ck, thorough):
    """Engine half: merged listing over several shards with overlapping copies, every visiting order."""
    import os
    ck.tlc_model("EngineList", "EngineList_thorough.cfg" if thorough else "EngineList_quick.cfg", timeout=3000)
    binp = ck.gobuild("englist")
    rec = os.path.join(ck.tmp, "englist.ndjson")
    ck.harness(binp, ["run", 3, 4, 60 if thorough else 8, rec], timeout=3000)
    recs = vkit.read_ndjson(rec)
    r = ck.tlc_validate("TraceEngineList", "TraceEngineList.cfg", rec, timeout=3000)
    ck.add("traces_validated_against_impl", len(recs))
    ck.setcov("engine_list_calls_validated", len(recs))
    ck.setcov("engine_distinct_distributions", len({json.dumps(x["listed"]) for x in recs}))
    ck.sample({"engine_record": recs[len(recs) // 3]})
    if not r.ok:
        if r.kind == "invariant" and r.name == "C06_RecordOK":
            pos = vkit.stuck_position(r) or 1
            bad = recs[pos - 1]
            ck.violation("engine listing differs from the union of the shards' listings: %s" % json.dumps(bad)[:1200], {"engine_record": bad})
        else:
            raise vkit.Infra("engine record validation ended with %s %s" % (r.kind, r.name))


def finish(ck, cat, out):
    r = out["r"]
    if not r.ok and r.kind == "invariant" and r.name == "TraceNotStuck":
        pos = vkit.stuck_position(r) or 1
        script, k, ev = mu.script_of_event(out["events"], out["scripts"], pos)
        diff = mu.view_diff(out["expected"], ev)
        replay = {"script": script, "event_index": k, "event": {x: ev[x] for x in ev if x != "v"}, "diff": diff}
        if "pages" in diff or "list" in diff:
            ck.violation("real listing differs from the model at event %d (catalogue %s): %s" % (
                k, cat, json.dumps({f: diff[f] for f in diff if f in ("pages", "list")})[:1500]), replay)
            return
        raise vkit.Infra("trace diverged from the model on %s, not on listing (see C01): %s" % (list(diff), json.dumps(replay)[:1500]))
    handle(ck, cat, out, "C06", ())
