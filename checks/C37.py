"""C37 - the inner ring approves container changes only when the owner authorised them.

1. TLC exhaustive on spec/ContainerProc.tla over 205 800 (thorough; 86 280 quick) abstract requests (operation x authorisation kind
   x every combination of token facts x container / eACL facts), in both worlds of the deviation switch:
   BugH13=FALSE (repaired verifySessionV2): code-shaped ApproveCode implies the listed property everywhere;
   BugH13=TRUE (code as it is): it does so except for the H13 class.
2. Record validation: generated abstract requests (all-good and every single fact flipped for every
   operation and authorisation kind; EVERY attribute list of length 0..3 over user / permitted-system / meta /
   forbidden-system kinds - order matters - under both MetaEnabled settings for both creation flows; plus random
   combinations) are MATERIALISED as real signed containers,
   eACL tables, V1/V2 session tokens (with delegation chains), RFC6979 witnesses and sent as real notary
   requests (built by the real client of a non-IR party) through the real listener -> preparator -> parser ->
   container processor -> morph client. approve = the fake RPC node saw this node's co-signature on that main
   transaction. TLC validates every record: RecProp (property) and RecCode (equality with the code-shaped
   decision). The check detects the world of the tree: records are validated with the repaired model first; if
   that rejects on the property, the as-is model (which tolerates exactly KF_H13) decides whether the only
   violations are the known H13 class (KNOWN-FINDING) or something else (VIOLATION)."""
import json, os
import vkit
import irproc_util as iu

LEVEL = "exploration"
SIG_H13 = "H13-v2-session-token-verb-not-asserted-on-container-creation"


def abstract_class(r):
    return json.dumps(r["in"], sort_keys=True)


def run(ck):
    sfx = "" if ck.tier == "thorough" else "_quick"   # quick: eACL part of createV2 with good / single-fault authorisations only
    ck.tlc_model("ContainerProc", "ContainerProc_fixed%s.cfg" % sfx, timeout=1500, workers=4, heap="3g")
    ck.tlc_model("ContainerProc", "ContainerProc_asis%s.cfg" % sfx, timeout=1500, workers=4, heap="3g")
    ck.setcov("exhaustive", True)
    binp = ck.gobuild("irproc")
    cases = os.path.join(ck.tmp, "c37_cases.ndjson")
    if ck.replay:
        vkit.write_ndjson(cases, [json.load(open(ck.replay))["replay"]["case"]])
    else:
        ck.harness(binp, ["c37gen", cases])
    recs_p = os.path.join(ck.tmp, "c37.ndjson")
    ck.harness(binp, ["c37", cases, recs_p], timeout=2400)
    recs = vkit.read_ndjson(recs_p)
    approved = sum(1 for r in recs if r["out"]["approve"])
    ck.setcov("evaluations", len(recs))
    ck.setcov("traces_validated_against_impl", len(recs))
    ck.setcov("approved", approved)
    ck.setcov("distinct_nontrivial", len({abstract_class(r) for r in recs}))
    ck.setcov("ops_x_auth_seen", len({(r["in"]["op"], r["in"]["a"]["auth"], r["in"]["withEACL"]) for r in recs}))
    ck.setcov("rule", "approve => owner signature or valid unexpired owner session token for the verb and container, valid policy, permitted system attributes, eACL extendable and without system targets (spec/ContainerProc.tla ApproveProp); approve = ApproveCode(in)")
    ck.sample({"record": recs[0]})
    if not ck.replay and (approved < 50 or len(recs) - approved < 50):
        raise vkit.Infra("vacuous run: %d approved of %d" % (approved, len(recs)))

    def bad(v):
        pos = iu.last_l(v) or 1
        return pos, recs[pos - 1]

    def viol(pos, r, v):
        ck.violation("container request approved without the required authorisation/validity (record %d): in=%s out=%s"
                     % (pos, json.dumps(r["in"]), json.dumps(r["out"])), {"case": r["case"], "record": r, "tlc": v.trace_text[-1500:]})

    v = ck.tlc_validate("TraceContainerProc", "TraceContainerProc_fixed.cfg", recs_p)
    world, final = "repaired", v
    if not v.ok or iu.drifts(v):
        # not the repaired world (or a violation): let the as-is model, which tolerates exactly KF_H13, decide
        v2 = ck.tlc_validate("TraceContainerProc", "TraceContainerProc_asis.cfg", recs_p)
        if not v2.ok:
            pos2, r2 = bad(v2)
            viol(pos2, r2, v2)
            final = None
        elif not v.ok:
            world, final = "as-is", v2
            pos, r = bad(v)
            h13 = [x for x in recs if x["out"]["approve"] and x["in"]["op"] in ("create", "createV2")
                   and x["in"]["a"]["auth"] == "v2" and not x["in"]["a"]["tok"]["verbOK"]]
            ck.setcov("h13_records", len(h13))
            ck.sample({"H13_record": r})
            ck.report(SIG_H13, "container creation approved with a V2 session token that does not grant CONTAINER_PUT (record %d): %s"
                      % (pos, json.dumps(r["in"])), {"case": r["case"], "record": r})
        elif len(iu.drifts(v2)) < len(iu.drifts(v)):
            world, final = "as-is", v2
    if final is not None and iu.drifts(final):
        pos = iu.drifts(final)[0]
        raise vkit.Infra("model drift (not a verdict): the real decision differs from ApproveCode of the %s model without breaking the property, "
                         "%d records, first %d: %s" % (world, len(iu.drifts(final)), pos, json.dumps(recs[pos - 1])))
    ck.setcov("world_detected", world)
    ck.assumptions += [
        "mapping abstract fact -> concrete material is by construction in the harness (e.g. tok.verbOK=FALSE = a token whose only context carries another verb); placement policy validity is taken from the real PlacementPolicy.Verify",
        "signatures are RFC6979/ECDSA with real keys; the N3-witness (contract account) scheme is not exercised (the fake RPC node has no invokecontainedscript)",
        "fake Neo RPC node below the real neo-go client; approval observed as submitnotaryrequest with this node's signature",
    ]
