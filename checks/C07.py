"""C07 - a live lock protects its object from tombstones, expiry and garbage collection.

spec/Metabase.tla with the C07 formulas: Protected objects are never reported expired/removed
(C07_LockedNeverGone), a tombstone put targeting them is rejected and changes nothing
(C07_TombstoneRejected), a GC pass (expired-object handling + garbage removal, run through the real
shard's removeGarbage via the VerifRunGC shim) never deletes them unless force-marked
(C07_GCKeepsLocked), locks of tombstoned objects and tombstones of locks are rejected
(C07_LockAdmission). TLC checks them on all histories of the small catalogue (either arrival order of
lock and tombstone - bbolt serialises the two puts, so the schedules are the two orders x GC / epoch
interleavings); real-shard traces over lock-heavy catalogues are validated against the same formulas."""
import json
import meta_util as mu
import vkit
from C01 import handle

LEVEL = "model_checking"
INV = ["TraceNotStuck", "C07_LockedNeverGone"]
PROPS = ["C07_TombstoneRejected", "C07_GCKeepsLocked", "C07_LockAdmission"]


def relevant_fields(out):
    """view fields that matter for C07: results of puts, lock flags, and any view of a protected object."""
    exp = out["expected"] or {}
    prot = set(exp.get("protected", []))
    return prot


def run(ck):
    mu.check_catalog_sync(ck)
    thorough = ck.tier == "thorough"
    ck.tlc_model("Metabase", "Metabase_t.cfg" if thorough else "Metabase_tq.cfg", timeout=3000)
    ck.tlc_model("Metabase", "Metabase_l.cfg", timeout=3000) if thorough else None
    binp = ck.gobuild("meta")
    if ck.replay:
        doc = json.load(open(ck.replay))["replay"]
        cat = doc["script"]["cat"]
        out = mu.run_validate(ck, binp, cat, [doc["script"]], INV, PROPS)
        finish(ck, cat, out)
        return
    plan = [("L", 80, 100), ("T", 50, 60), ("S", 30, 40)]
    if thorough:
        plan = [(c, a * 15, b * 20) for c, a, b in plan]
    for cat, n_sim, n_rnd in plan:
        scripts = mu.gen_scripts(ck, binp, cat, n_sim, n_rnd, depth=16, seeds=1)
        out = mu.run_validate(ck, binp, cat, scripts, INV, PROPS)
        ck.sample({"cat": cat, "script": scripts[0]})
        finish(ck, cat, out)
        if ck.violations:
            break
    ck.assumptions.append("expired objects are handed to a harness callback that applies the engine's shard-local policy (skip locked, delete the object); the engine's multi-shard lock lookup is C08")


def finish(ck, cat, out):
    r = out["r"]
    if not r.ok and r.kind == "invariant" and r.name == "TraceNotStuck":
        # decide whether the divergence concerns lock protection
        pos = vkit.stuck_position(r) or 1
        script, k, ev = mu.script_of_event(out["events"], out["scripts"], pos)
        diff = mu.view_diff(out["expected"], ev)
        prot = set((out["expected"] or {}).get("protected", []))
        rel = {}
        if "res" in diff:
            rel["res"] = diff["res"]
        if "lk" in diff:
            rel["lk"] = diff["lk"]
        for f in ("ex", "get", "blob"):
            if f in diff:
                bad = [i + 1 for i, (a, b) in enumerate(zip(diff[f][0], diff[f][1])) if a != b and (i + 1) in prot]
                if bad:
                    rel[f] = {"ids": bad, "expected": diff[f][0], "real": diff[f][1]}
        for f in ("list", "srch", "expd"):
            if f in diff:
                sym = set(diff[f][0]) ^ set(diff[f][1])
                if sym & prot:
                    rel[f] = diff[f]
        replay = {"script": script, "event_index": k, "event": {x: ev[x] for x in ev if x != "v"}, "diff": diff, "protected": sorted(prot)}
        if rel:
            ck.violation("real shard breaks lock protection at event %d (catalogue %s): %s" % (k, cat, json.dumps(rel)[:1500]), replay)
            return
        raise vkit.Infra("trace diverged from the model on %s, not on lock protection (see C01): %s" % (list(diff), json.dumps(replay)[:1500]))
    handle(ck, cat, out, "C07", ())
