"""C25 - a successful PUT means the storage policy's copies were acknowledged.

1. TLC, PutEC.tla: every interleaving of the concurrent placement of the parts of one EC rule (applyECRule /
   distributeECPart / ecProgress) x every set of accepting nodes: the rule succeeds iff d+p nodes accept, parts
   end on distinct accepting nodes. This is the summary PutPolicy.tla uses for an EC rule.
2. Scenario universes (policies: 1-2 REP rules with overlapping lists, 0-2 EC rules, every initial placement
   policy the SDK accepts, trusted / client-signed / TOMBSTONE / LOCK, every accept/refuse vector) are
   enumerated by the harness, executed by the REAL putsvc.Service (Init/SendChunk/Close -> slicer ->
   saveObject / handleREPRule / applyECRule) with fakes at the edges only, and walked by TLC
   (TracePutPolicy.tla): for EVERY scenario TLC evaluates the code-shaped function F of PutPolicy.tla and checks
   (a) the repaired model satisfies the property (model checking over the whole enumerated universe),
   (b) the observation equals F and the property holds on the observed acknowledgements."""
import json
import os

import putpol_util as pu
import vkit

LEVEL = "model_checking"
KF = {"ecindex": "ec-parts-indexed-by-absolute-rule-index",
      "dupec": "repeated-ec-rule-handling",
      "sumidx": "sum-limits-rule-index-instead-of-position",
      "nostore": "success-without-any-copy",
      "combined": "combined-ec-loop-deviations"}


def run(ck):
    thorough = ck.tier == "thorough"
    binp = ck.gobuild("putpol")
    scen_path = os.path.join(ck.tmp, "scenarios.ndjson")
    models = None
    if ck.replay:
        vkit.write_ndjson(scen_path, [json.load(open(ck.replay))["replay"]["scenario"]])
    else:
        jobs = [("PutEC", c, dict(timeout=1500, workers=4)) for c in
                (["PutEC_4_1_1.cfg", "PutEC_5_2_1.cfg", "PutEC_5_1_2.cfg", "PutEC_6_2_2.cfg"] if thorough
                 else ["PutEC_4_1_1.cfg", "PutEC_5_2_1.cfg"])]
        if os.environ.get("VERIF_SKIP_MODELS"):     # developer switch for mutation testing only
            jobs = []
        models = pu.Models(ck, jobs, max_workers=2)
        # (family, nodes, max list length, stride)
        fams = ([("rep", 3, 2, 1), ("repinit", 3, 2, 4), ("ec", 3, 0, 1), ("ec", 4, 0, 20)] if thorough
                else [("rep", 3, 2, 4), ("repinit", 3, 2, 40), ("ec", 3, 0, 14), ("ec", 4, 0, 400)])
        parts = []
        for fam, m, ml, stride in fams:
            p = os.path.join(ck.tmp, "enum-%s-%d.ndjson" % (fam, m))
            ck.harness(binp, ["c25", "gen", fam, m, ml, p, stride, ck.seed])
            parts.append(vkit.read_ndjson(p))
            ck.setcov("enumerated_%s_%dnodes_stride%d" % (fam, m, stride), len(parts[-1]))
        p = os.path.join(ck.tmp, "rnd.ndjson")
        ck.harness(binp, ["c25", "rnd", 15000 if thorough else 1000, p])
        parts.append(vkit.read_ndjson(p))
        vkit.write_ndjson(scen_path, [s for part in parts for s in part])
    recs_path = os.path.join(ck.tmp, "records.ndjson")
    ck.harness(binp, ["c25", "run", scen_path, recs_path], timeout=1800)
    recs = vkit.read_ndjson(recs_path)
    cfg = open(os.path.join(vkit.SPEC, "TracePutPolicy.cfg")).read().replace("NRecs = 1", "NRecs = %d" % len(recs))
    v = ck.tlc("TracePutPolicy", "TracePutPolicy_run.cfg", files={"TracePutPolicy_run.cfg": cfg, "trace.ndjson": recs_path},
               workers=4, timeout=2400, deadlock=False, xss=True, count=True)
    ck.log("TLC walk TracePutPolicy over %d records: %s" % (len(recs), v.summary()))
    if not v.ok or v.distinct < len(recs):
        raise vkit.Infra("record walk did not finish: %s\n%s" % (v.summary(), vkit.tail(v.out, 3000)))
    bad_model = [ln for ln in v.out.splitlines() if ln.startswith('<<"MODEL"')]
    if bad_model:
        raise vkit.Infra("the repaired MODEL violates the property on an enumerated scenario (model problem, not a verdict): %s"
                         % bad_model[:3])
    if models:
        models.finish()
    cls = pu.rec_classes(v)
    ck.setcov("exhaustive", True)
    ck.setcov("traces_validated_against_impl", len(recs))
    counts = {"ok": len(recs) - len(cls)}
    for c in cls.values():
        counts[c] = counts.get(c, 0) + 1
    ck.setcov("record_classes", counts)
    res = {}
    for r in recs:
        res[r["out"]["res"]] = res.get(r["out"]["res"], 0) + 1
    ck.setcov("observed_results", res)
    ck.setcov("distinct_observations", len({json.dumps(r["out"], sort_keys=True) for r in recs}))
    ck.sample(recs[len(recs) // 3])
    if not ck.replay and (res.get("ok", 0) < 100 or res.get("incomplete", 0) < 20 or res.get("error", 0) < 20):
        raise vkit.Infra("vacuous run: observed results %s" % res)
    reported = {}
    for idx in sorted(cls):
        c, rec = cls[idx], recs[idx - 1]
        if c.startswith("kfBenign"):
            continue
        if reported.get(c, 0) >= 2:
            continue
        reported[c] = reported.get(c, 0) + 1
        rp = {"scenario": rec["in"], "observed": rec["out"], "class": c}
        if c.startswith("kfViol_") and c[7:] in KF:
            ck.sample({"known_finding_record": rec}, limit=6)
            ck.report(KF[c[7:]], "real PUT violates C25 inside a known class (%s): %s" % (c, json.dumps(rec)), rp)
        elif c == "propviol":
            ck.violation("real PUT reported success without the acknowledgements the policy requires: %s" % json.dumps(rec), rp)
        else:
            ck.violation("real PUT result / acknowledgements differ from the specified function F: %s" % json.dumps(rec), rp)
    ck.assumptions += [
        "a node accepts or refuses everything sent to it during one PUT (fixed per scenario)",
        "fakes at the edges only: container source, network map (sorted node lists), local object storage, replication transport and API clients; slicing, validation, EC encoding and the whole distribution logic are real",
        "LINK objects and client-made EC parts are not driven; session tokens are replaced by objects owned by the serving node's key (trusted path) or signed with it (client-signed path)",
        "total requirement under MaxReplicas is counted as the code counts it (a node acknowledged for two overlapping lists counts for both) and capped by the rules applicable to the request",
    ]
