"""C32 - every control-plane call of the storage node and of the inner ring is rejected with no side effect
unless it carries a valid signature of a configured administrator key over its body.

1. TLC explores spec/Control.tla exhaustively (servers x signature classes x event orders; Strict = TRUE).
2. The Go harness (cmd rpc control) builds the REAL control servers (storage node: real 2-shard engine with a
   recording blobstor, recording NodeState / HealthChecker, real placement and replicator; inner ring: recording
   HealthChecker / NotaryManager), enumerates the methods of both generated ControlServiceServer interfaces by
   reflection and calls each of them with: no signature, a valid signature of a non-configured key, the
   administrator's key with someone else's signature, a flipped signature byte, an empty signature, an
   administrator's signature over ANOTHER body, the server's own key, and correct signatures of both configured
   keys - refusal classes first, then the authorised ones, then (where the effect is synchronous) the refusal
   classes again; the same for bodies that are filled in but marshal to ZERO bytes (empty shard / address lists,
   status UNDEFINED: the signature then covers the empty string) and with random bytes instead of a signature.
   Replay sequences on ONE server instance: a correctly signed request of method A, then its signature with the
   administrator's key attached to requests of every method / body (authorised only when the signed bytes are
   identical - the signature covers the body, not the method). Effects: dependency calls, digest of the engine state (shard modes, object status per shard,
   listing), created files, produced response.
3. TLC judges the recorded events: C32_NoSideEffectUnlessAuthorised, C32_RejectedUnlessAuthorised
   (Strict = FALSE) and the trace must be a behaviour of the model (Strict = TRUE)."""
import json
import os

import rpc_util
import vkit

LEVEL = "exploration"
REFUSAL = {"none", "wrongkey", "keymismatch", "badsig", "emptysig", "garbage"}


def src_of(calls, c):
    """The correctly signed call whose signature call c replays (same world: the nearest preceding `valid` call of that method)."""
    m, v = c["cls"]["of"].split("#")
    prev = [x for x in calls if x["i"] < c["i"] and x["cls"]["srv"] == c["cls"]["srv"] and x["cls"]["m"] == m and x["cls"].get("var", "") == v and x["cls"]["sig"] == "valid"]
    return prev[-1]["cls"]


def run(ck):
    ck.tlc_model("Control", "Control_model.cfg", timeout=300, workers=2)
    binp = ck.gobuild("rpc")
    trace, callsp = os.path.join(ck.tmp, "ctl-trace.ndjson"), os.path.join(ck.tmp, "ctl-calls.ndjson")
    if ck.replay:
        p = ck.harness(binp, ["control-replay", os.path.abspath(ck.replay), trace, callsp])
    else:
        p = ck.harness(binp, ["control", trace, callsp], timeout=1200)
    summ = json.loads(p.stdout.strip().splitlines()[-1])
    calls = rpc_util.load_calls(callsp, trace)
    methods = summ.get("methods") or {}
    ck.setcov("control_methods", methods)
    unmodelled = sorted(m for m, s in methods.items() if s != "modelled")
    if unmodelled:
        ck.notes.append("control methods without a complete driver (authorised class NOT checked): %s" % "; ".join("%s: %s" % (m, methods[m]) for m in unmodelled))
    ck.setcov("unmodelled", unmodelled)

    if not ck.replay:
        per = {}
        for c in calls:
            per.setdefault(c["m"] + ("#zero" if c["cls"].get("var") == "zero" else ""), {}).setdefault(c["cls"]["sig"], []).append(c)
        if len(per) < 16:
            raise vkit.Infra("only %d control methods were called" % len(per))
        nrep = [c for c in calls if c["cls"]["sig"] == "replay"]
        if len(nrep) < 20 or not any(c["events"][0]["auth"] for c in nrep) or sum(1 for c in nrep if not c["events"][0]["auth"]) < 10 \
                or not any(c["cls"]["srv"] == "ir" for c in nrep):
            raise vkit.Infra("replay sequences are missing / one-sided (%d)" % len(nrep))
        if sum(1 for c in calls if c["cls"].get("var") == "zero" and c["cls"]["sig"] in ("garbage", "badsig", "emptysig", "keymismatch")) < 12:
            raise vkit.Infra("zero-length-body refusal classes are missing")
        for m, by in per.items():
            if not REFUSAL <= set(by):
                raise vkit.Infra("refusal classes %s missing for %s" % (sorted(REFUSAL - set(by)), m))
            if methods.get(m.split("#")[0]) == "modelled":
                auth = by.get("valid", []) + by.get("valid2", [])
                if not auth:
                    raise vkit.Infra("no authorised call of %s" % m)
                for c in auth:
                    if c["events"][-1]["kind"] == "denied":
                        raise vkit.Infra("correctly signed call of %s is denied - the signature classes of the harness are broken: %s" % (m, json.dumps(c["events"])))
                # the authorised call must be seen to pass the signature gate: a dependency call, a state change, a response,
                # or at least a handler-level (non-permission) error such as "write-cache is disabled"
                if not any(len(c["events"]) > 2 or c["events"][-1]["resp"] or c["events"][-1]["kind"] == "error" for c in auth):
                    raise vkit.Infra("authorised calls of %s show no observable effect at all (blind harness)" % m)
        ck.setcov("methods_with_observed_authorised_effect", sorted(
            m for m, by in per.items() if any(any(e["ev"] in ("Dep", "Change") for e in c["events"]) for c in by.get("valid", []) + by.get("valid2", []))))

    findings = rpc_util.judge(ck, "TraceControl", "TraceControl_loose.cfg", "TraceControl_strict.cfg", calls, tag="c32")
    for f in findings:
        c = f["call"]
        ck.violation("C32: %s signed as [%s]: invariant %s false after event #%d %s; call events: %s" % (
            c["m"], c["cls"]["sig"], f["invariant"], f["event_index"], json.dumps(f["event"]), json.dumps(c["events"])),
            {"calls": ([src_of(calls, c)] if c["cls"]["sig"] == "replay" else []) + [c["cls"]], "events": c["events"], "invariant": f["invariant"], "tlc": f["tlc"]})

    ck.setcov("traces_validated_against_impl", len(calls))
    ck.setcov("evaluations", len(calls))
    ck.setcov("distinct_nontrivial", len({(c["m"], c["cls"]["sig"], c["cls"].get("var"), c["cls"].get("of")) for c in calls}))
    ck.setcov("rule", "Control!C32_NoSideEffectUnlessAuthorised and C32_RejectedUnlessAuthorised evaluated by TLC in every state of the recorded trace of every call; "
                      "the trace must also be a behaviour of the model (Strict)")
    ck.setcov("trace_events", sum(len(c["events"]) for c in calls))
    shown = set()
    for c in calls:
        k = (c["cls"]["sig"] in ("valid", "valid2"), c["cls"]["srv"])
        if k not in shown and len(shown) < 3:
            shown.add(k)
            ck.sample({"m": c["m"], "cls": c["cls"], "events": c["events"]})
    ck.assumptions.append("`auth` of a call is the harness's ground truth (which key signed which bytes); ECDSA itself is trusted")
    ck.assumptions.append("for the inner ring the server's own key is authorised by construction of ir/server.New; for the storage node it is not")
    ck.assumptions.append("side effects are observed through recording dependencies, a recording blobstor under the real engine, a digest of the engine state and the files the "
                          "server may create; metabase-only reads are observable only through the produced response")
    ck.assumptions.append("static half (every present and future control method calls isValidRequest first) is not decided: methods are enumerated by reflection; "
                          "a method the harness cannot drive is reported as unmodelled (its refusal classes are still exercised when a request can be built)")
