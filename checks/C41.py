"""C41 - fast header parsing agrees with full object decoding (structured half).

1. TLC exhaustive, spec/WireMC.tla: implementation-shaped models of the fast paths (SeekFieldByNumber,
   ParseLENFieldBounds, GetNonPayloadFieldBounds, ExtractHeaderAndPayload, getParentNonPayloadFieldBounds,
   GetUint64Field/GetEnumField) over small layouts (order permutations, missing/duplicate/unknown fields, 1-2 byte
   varints, wrong wire type) and EVERY truncation point: canonical messages give the declarative bounds, truncations
   fail or stay consistent, no bound leaves the buffer.
2. M->C / C->M: the harness materialises layouts from REAL marshalled objects (with and without parent header,
   payload, signature), splices the variants, cuts them at structural boundaries (thorough: at every byte of the
   canonical encodings), runs the real fast paths through the verif export shim and compares with full decoding;
   TLC evaluates the property and the model's outcome per record.
3. fstree/head.go: objects whose ID + signature + header grow up to the maximum (> 16 KiB) are stored in a real
   FSTree plain and as legacy zstd-compressed files (separate and combined), and Head / GetStream / ReadHeader /
   ReadObjectParts are compared with full decoding (Get); the model's head buffer (HeadRead) must predict success.
The "never panics on ARBITRARY fuzzed bytes" half is NOT decided by this technique (see level_note); panics on the
structured inputs above would be reported."""
import json, os
import vkit
import ec_util

LEVEL = "exploration"


def run(ck):
    thorough = ck.tier == "thorough"
    ck.tlc_model("WireMC", "WireMC_thorough.cfg" if thorough else "WireMC_quick.cfg", timeout=2400)
    ck.setcov("constants", "object layouts of up to %d fields over numbers 1..5 with one non-plain field, header layouts of up to 2 "
                           "fields incl. 10 split sub-layouts; every truncation point" % (4 if thorough else 3))
    binp = ck.gobuild("ec")
    recs = os.path.join(ck.tmp, "wire.ndjson")
    ck.harness(binp, ["wire", recs], timeout=1800)
    fsrecs = os.path.join(ck.tmp, "wirefs.ndjson")
    ck.harness(binp, ["wirefs", fsrecs], timeout=1800)
    with open(recs, "a") as out:
        out.write(open(fsrecs).read())
    data = vkit.read_ndjson(recs)
    if ck.replay:
        rp = json.load(open(ck.replay))["replay"]
        data = [r for r in data if r["level"] == rp["level"] and r["variant"] == rp["variant"]][:3] or data[:1]
        vkit.write_ndjson(recs, data)
    runs = sum(len(r["runs"]) for r in data)
    ck.setcov("evaluations", runs)
    ck.setcov("layouts", len(data))
    ck.setcov("traces_validated_against_impl", len(data))
    classes = {(r["level"], r["variant"].split(":")[0].rstrip("0123456789_@"), r["variant"].startswith("split:"), r["fullOK"]) for r in data}
    ck.setcov("distinct_nontrivial", len(classes))
    outcomes = {}
    for r in data:
        for x in r["runs"]:
            for k in ("nb", "ex", "pb", "pl", "ty"):
                if k in x:
                    key = "%s/%s/%s" % (r["level"], k, "err" if x[k]["err"] else "ok")
                    outcomes[key] = outcomes.get(key, 0) + 1
    ck.setcov("outcomes", outcomes)
    ck.setcov("panics_on_structured_inputs", sum(1 for r in data for x in r["runs"] if x["panic"]))
    fsd = [r for r in data if r["level"] == "fs"]
    ck.setcov("fstree_head_objects", len(fsd))
    ck.setcov("fstree_max_non_payload_bytes", max([r["np"] for r in fsd] + [0]))
    ck.setcov("fstree_compressed_streamed", sum(1 for r in fsd if r["compressed"] and r["stored"] > 20480))
    if not ck.replay and (not fsd or max(r["np"] for r in fsd) <= 16384 or not any(r["compressed"] and r["stored"] > 20480 and r["np"] > 16384 for r in fsd)):
        raise vkit.Infra("vacuous fstree run: no compressed streamed object with non-payload part above 16 KiB")
    ck.setcov("rule", "TraceWire.tla: no panic; encodings of objects: fast paths succeed on the complete message and their results "
                      "decode to the same ID/signature/header/payload prefix/length/type/parent as full decoding, truncations fail or "
                      "stay consistent, bounds never leave the buffer; outcomes equal the operators of Wire.tla")
    for r in data:
        if r["variant"] == "canonical" and r["level"] == "obj":
            ck.sample({"level": r["level"], "variant": r["variant"], "total": r["total"],
                       "fields": [{k: f[k] for k in ("num", "wt", "tl", "ll", "n")} for f in r["fields"]],
                       "runs_head": r["runs"][:2], "last_run": r["runs"][-1]})
            break
    for r in data:
        if r["variant"].startswith("swap"):
            ck.sample({"level": r["level"], "variant": r["variant"], "last_run": r["runs"][-1]})
            break
    if not ck.replay and (len(classes) < 20 or not any(o.endswith("/ok") for o in outcomes)):
        raise vkit.Infra("vacuous run: %d classes" % len(classes))
    bad = ec_util.validate_chunks(ck, "TraceWire", "TraceWire.cfg", recs, chunk=2500, timeout=2400)
    if bad:
        idx, line, v = bad
        rec = json.loads(line)
        brief = {"level": rec["level"], "variant": rec["variant"], "total": rec["total"], "enc": rec["enc"], "fullOK": rec["fullOK"]}
        if v.kind == "invariant" and v.name == "PropOnRecords":
            # name the failing run for the message (diagnosis only; the verdict is TLC's)
            culprit = rec.get("fs") if rec["level"] == "fs" else None
            if culprit:
                brief.update({"compressed": rec["compressed"], "combined": rec["combined"], "non_payload_bytes": rec["np"], "stored": rec["stored"]})
            for x in rec["runs"]:
                if x["panic"] or (rec["enc"] and rec["fullOK"] and any((not x[k]["err"]) and not x[k]["agree"] for k in x if isinstance(x[k], dict))) \
                        or (rec["enc"] and rec["fullOK"] and x["cut"] == rec["total"] and any(x[k]["err"] for k in x if isinstance(x[k], dict))):
                    culprit = x
                    break
            ck.violation("real fast wire path disagrees with full decoding on layout %s: %s" % (json.dumps(brief), json.dumps(culprit)[:800]),
                         {"level": rec["level"], "variant": rec["variant"], "record": rec})
        elif v.kind == "invariant" and v.name == "CodeIsSpec":
            raise vkit.Infra("fast path outcome differs from the Wire.tla operators while the property holds "
                             "(model out of date, not a verdict): %s" % json.dumps(brief))
        else:
            raise vkit.Infra("record validation failed: %s %s at record %d" % (v.kind, v.name, idx + 1))
    ck.assumptions.append("protowire varint / protobuf decoding of leaf values are trusted; layouts are spliced from real marshalled "
                          "objects, so nested values are valid")
    ck.assumptions.append("agreement with full decoding is computed by the harness (proto.Unmarshal + deterministic re-marshal); on a "
                          "truncated buffer a cut-off field may be reported missing / zero")
    ck.assumptions.append("NOT decided: behaviour (errors, absence of panics) on arbitrary or fuzz-mutated byte strings")
