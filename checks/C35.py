"""C35 - inner ring nodes outside the alphabet never act with alphabet authority.

1. TLC exhaustive on spec/Alphabet.tla: 26 event types x node states (true committee position -1..N, true
   inner-ring position -1..N+1, which lookup fails, re-delivery): with the guards as they are in the code
   (IsAlphabet, 0 <= AlphabetIndex < N for emission, the H8 guard InnerRingIndex < N of the validator vote, NO
   guard before the placement update of processNewEpoch) AND the morph client's refusal to build an
   alphabet-signed transaction without the node's key in the committee, no event makes a non-member send an
   authority transaction; members do act (non-vacuity).
2. Record validation on a FULLY WIRED node (every processor of innerring.New bound to real FS-chain and
   main-chain listeners, real Server state + real innerRingIndexer, real morph clients over two fake RPC
   nodes): the registered notification / notary handler tables are enumerated from the real listeners
   (anything without a driver is reported as `unmodelled`), plus timers, the start-up vote and the control
   command. Every event is delivered in every selected node state (member first/last/out of contract range,
   non-member absent / first / last in the inner ring list, failing inner-ring or committee lookup,
   re-delivered notary request); the transactions reaching either fake node are counted: authority sends,
   own-wallet sends (notary deposit), exact repeats. TLC validates RecProp (authority sends only from members,
   no repeats) and RecCode (counts = code-shaped prediction).
3. Index-cache histories (spec/AlphabetHist.tla, exhaustive + TraceAlphabetHist): nodes whose innerRingIndexer has
   a 1 h cache time-out; Boot / Chain(state) / Expire(=reset) / Deliver(event): a failed lookup followed by further
   queries inside the cache window - at start-up (never refreshed) and after a reset, for a node that never was a
   member and for one voted out meanwhile - must never be answered with index 0 or a stale membership."""
import json, os
import vkit
import irproc_util as iu

LEVEL = "model_checking"


def hist(ck, binp, rp):
    """Index-cache histories: failed lookup followed by queries inside the cache window (start-up, after reset,
    node voted out meanwhile) and random Chain/Expire/Deliver sequences on nodes with a 1 h indexer time-out."""
    scripts = os.path.join(ck.tmp, "c35_hist_scripts.ndjson")
    if rp:
        vkit.write_ndjson(scripts, [rp["script"]])
    else:
        ck.harness(binp, ["c35histgen", scripts])
    beh = vkit.read_ndjson(scripts)
    trace = os.path.join(ck.tmp, "c35_hist_trace.ndjson")
    ck.harness(binp, ["c35hist", scripts, trace], timeout=2400)
    ev = vkit.read_ndjson(trace)
    v = ck.tlc_validate("TraceAlphabetHist", "TraceAlphabetHist.cfg", trace)
    ck.add("traces_validated_against_impl", len(beh))
    ck.setcov("cache_histories", len(beh))
    ck.setcov("cache_history_events", len(ev))
    ck.sample({"cache_history": beh[0], "trace_head": ev[:4]})
    if not v.ok:
        pos = iu.last_l(v) or 1
        pos = min(pos, len(ev))
        idx = -1
        for e in ev[:pos]:
            if e["ev"] == "Boot":
                idx += 1
        # the violated invariant is evaluated on the state AFTER the offending event: it is the previous one
        off = ev[pos - 2] if v.name in ("HistProp", "NoRepeats") and pos >= 2 else ev[pos - 1]
        ck.violation("index-cache history: authority transaction(s) sent although neither the correct indexer view nor the chain says member "
                     "(%s %s) at event %d: %s" % (v.kind, v.name, pos, json.dumps(off)),
                     {"script": beh[max(idx, 0)], "event": off, "tlc": v.trace_text[-1500:]})
    elif iu.drifts(v):
        pos = iu.drifts(v)[0]
        raise vkit.Infra("model drift (not a verdict) in an index-cache history, event %d: %s" % (pos, json.dumps(ev[pos - 1])))


def run(ck):
    ck.tlc_model("Alphabet", "Alphabet_asis.cfg", timeout=600, workers=4, heap="2g")
    ck.tlc_model("AlphabetHist", "AlphabetHist.cfg", timeout=900, workers=4, heap="2g")
    rp = json.load(open(ck.replay))["replay"] if ck.replay else None
    ck.setcov("exhaustive", True)
    ck.setcov("constants", "N=4 alphabet contracts, 26 events x 6x7x3x2 node states")
    binp = ck.gobuild("irproc")
    if rp is None or "script" in rp:
        hist(ck, binp, rp)
    if rp is not None and "case" not in rp:
        return
    recs_p = os.path.join(ck.tmp, "c35.ndjson")
    args = ["c35", recs_p]
    if ck.replay:
        cases = os.path.join(ck.tmp, "c35_cases.ndjson")
        vkit.write_ndjson(cases, [rp["case"]])
        args.append(cases)
    ck.harness(binp, args, timeout=2400)
    recs = vkit.read_ndjson(recs_p)
    meta = json.load(open(recs_p + ".meta.json"))
    ck.setcov("registered_handlers", meta["registered"])
    ck.setcov("extra_triggers", meta["extra_triggers"])
    ck.setcov("unmodelled", meta["unmodelled"] or [])
    ck.add("traces_validated_against_impl", len(recs))
    ck.setcov("distinct_event_types", len({r["in"]["ev"] for r in recs}))
    ck.setcov("distinct_node_states", len({json.dumps(r["in"]["st"], sort_keys=True) for r in recs}))
    ck.setcov("records_with_authority_sends", sum(1 for r in recs if r["out"]["auth"] > 0))
    ck.setcov("non_member_records", sum(1 for r in recs if r["in"]["st"]["alphaIdx"] < 0))
    h8 = [r for r in recs if r["in"]["ev"] == "start:vote" and r["in"]["st"]["alphaIdx"] < 0 and r["in"]["st"]["lookup"] == "ok" and r["in"]["st"]["irIdx"] < 4]
    ck.setcov("h8_guard_passed_but_nothing_sent", [{"st": r["in"]["st"], "rpc": r["rpc"], "out": r["out"]} for r in h8][:3])
    ck.sample({"record": recs[0]})
    if meta["unmodelled"]:
        ck.notes.append("handlers registered in the listeners but not driven: %s" % meta["unmodelled"])
        ck.log("UNMODELLED handlers (reported, not a verdict):", meta["unmodelled"])
    if meta.get("driven_but_not_registered"):
        ck.notes.append("drivers whose handler is no longer registered: %s" % meta["driven_but_not_registered"])
    if not ck.replay:
        if ck.cov["records_with_authority_sends"] < 50 or ck.cov["non_member_records"] < 50:
            raise vkit.Infra("vacuous run: %s" % json.dumps({k: ck.cov[k] for k in ("records_with_authority_sends", "non_member_records")}))
    v = ck.tlc_validate("TraceAlphabet", "TraceAlphabet.cfg", recs_p)
    if not v.ok:
        pos = iu.last_l(v) or 1
        r = recs[pos - 1]
        ck.violation("alphabet-authority transaction(s) sent by a node that is not an alphabet member, or sent twice (record %d): event %s state %s -> %s sent=%s"
                     % (pos, r["in"]["ev"], json.dumps(r["in"]["st"]), json.dumps(r["out"]), r["sent"]), {"case": r["case"], "record": r, "tlc": v.trace_text[-1500:]})
    elif iu.drifts(v):
        pos = iu.drifts(v)[0]
        raise vkit.Infra("model drift (not a verdict): the number of transactions differs from the code-shaped prediction without breaking the property, "
                         "%d records, first %d: %s" % (len(iu.drifts(v)), pos, json.dumps(recs[pos - 1])))
    ck.assumptions += [
        "two fake Neo RPC nodes (FS chain, main chain) below the real neo-go clients; a transaction counts as sent when sendrawtransaction / submitnotaryrequest reaches a fake node",
        "authority transaction = every recorded transaction except a GAS transfer to the native Notary contract (the node's own notary deposit)",
        "node states are produced by changing the committee / NeoFSAlphabet role answers of the fake chain or making them fail; the REAL innerRingIndexer computes the indices (cache time-out 0)",
        "the placement-update retry loop (up to 15 min of back-off) of a node that cannot sign is observed for 1.5 s on a throw-away node",
    ]
