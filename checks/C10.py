"""C10 - the file-tree blob storage behaves as a map address -> bytes.

1. TLC exhaustive:
   * spec/FSTree.tla (via FSTreeMC): abstract map `store` + implementation-shaped layout `loc` (plain / combined
     files, hard links, EEXIST = success, unlink on delete, both writers); invariant: every reader returns for
     every address exactly the stored version (Refines), iteration lists exactly the stored addresses (IterOK).
   * spec/FSTreeScan.tla (via FSTreeScanMC): the buffered combined-file scan of readHeader, the stream limit and
     the prefixed reader, with scaled buffer constants, over all files of up to 3-4 members.
   * the same scan model with the REAL constants and the deviation switches on yields counterexample files that
     are replayed on the real tree (M->C, directed scripts).
2. M->C: TLC -simulate call sequences (FSTreeGen) and C->M: seeded random + boundary-directed scripts are executed
   on the real FSTree (depth 0-4, count/size limits, thresholds, both writers, compressed blobs); after every
   mutator every address is read through a random reader and the tree is iterated.
3. TraceFSTree.tla validates the recorded traces: results must be what `store` demands (verdict); the on-disk
   layout parsed by the harness must be one the model allows (model drift = infra error).
   Known deviations (spec switches BugRefill / BugExactLimit / BugPrefixEOF) are accepted only where the model of
   the code as found predicts exactly the observed outcome and are reported through the known-findings list."""
import json
import os

import fstree_util as fu
import vkit

LEVEL = "model_checking"
APIS = ["get", "bytes", "head", "stream", "readobj", "readhdr", "exists"]


def directed_script(lens, tag):
    n = len(lens)
    items = [{"a": i + 1, "v": 1} for i in range(n)]
    steps = [{"ev": "ParPut", "items": items, "stagger": True, "stag_us": 3000}]
    for a in range(1, n + 1):
        for api in APIS:
            steps.append({"ev": "Read", "a": a, "api": api})
    return {"cfg": {"depth": 1, "cnt": n, "szlim": 8 << 20, "thr": 128 << 10, "writer": "linux", "nosync": True,
                    "interval": 300},
            "n": n, "src": tag,
            "vars": [{"a": i + 1, "v": 1, "total": l, "attr": 0, "pat": 1, "z": False} for i, l in enumerate(lens)],
            "steps": steps}


def gen_to_script(beh):
    steps = []
    for e in beh["steps"]:
        ev = e["ev"]
        if ev == "Put":
            steps.append({"ev": "Put", "a": e["m"]["a"], "v": e["m"]["v"]})
        elif ev == "PutBatch":
            steps.append({"ev": "PutBatch", "items": [{"a": m["a"], "v": m["v"]} for m in e["file"]]})
        elif ev == "ParPut":
            steps.append({"ev": "ParPut", "items": [{"a": m["a"], "v": m["v"]} for m in e["items"]], "stagger": len(steps) % 2 == 0})
        elif ev in ("Delete", "PutEmpty"):
            steps.append({"ev": ev, "a": e["a"]})
        elif ev == "Read":
            steps.append({"ev": "Read", "a": e["a"], "api": e["api"]})
        else:
            steps.append({"ev": "Iterate"})
    return {"steps": steps, "n": 4, "src": "tlc"}


def run(ck):
    thorough = ck.tier == "thorough"
    fu.make_threadsafe(ck)

    # ------------------------------------------------------------------ 1. model checking
    def model(job):
        mod, cfg, expect = job
        if expect is None:
            return ck.tlc_model(mod, cfg, timeout=2400, workers=6 if mod == "FSTreeMC" else 3)
        r = ck.tlc(mod, cfg, timeout=2400, workers=2, count=False)
        ck.log("TLC %s/%s (deviation switch on): %s" % (mod, cfg, r.summary()))
        if r.kind != "invariant" or r.name != expect:
            raise vkit.Infra("as-found model %s/%s did not produce the expected deviation %s (%s %s)\n%s"
                             % (mod, cfg, expect, r.kind, r.name, vkit.tail(r.out, 3000)))
        return r

    jobs = [("FSTreeMC", "FSTree_thorough.cfg" if thorough else "FSTree_quick.cfg", None),
            ("FSTreeScanMC", "FSTreeScanMC_thorough.cfg" if thorough else "FSTreeScanMC_quick.cfg", None),
            ("FSTreeScanMC", "FSTreeScanMC_real_fixed.cfg", None),
            ("FSTreeScanMC", "FSTreeScanMC_real_refill.cfg", "NoPanic"),
            ("FSTreeScanMC", "FSTreeScanMC_real_limit.cfg", "NoOverrun")]
    if ck.replay:
        jobs = []
    res = fu.pmap(model, jobs, workers=5)
    ck.setcov("exhaustive", True)
    ck.setcov("constants", "FSTreeMC: NA=3, scaled BufN=8 Pref=3 Thr=12, %s; FSTreeScanMC: all files of <=%d members"
              % ("2 versions/address, cnt in {1,2,3}, both writers" if thorough else "4 versions, cnt=3, both writers",
                 4 if thorough else 3))

    # ------------------------------------------------------------------ 2. scripts
    scripts = []
    if ck.replay:
        scripts = [json.load(open(ck.replay))["replay"]["script"]]
    else:
        for r, tag in ((res[3], "tlc-cex-refill"), (res[4], "tlc-cex-limit")):
            lens = fu.tla_int_tuple(fu.last_value(r.trace_text, "file"))
            if len(lens) < 2:
                raise vkit.Infra("cannot parse the counterexample file of %s" % tag)
            ck.setcov("model_counterexample_" + tag, lens)
            scripts += [directed_script(lens, tag)] * (4 if thorough else 2)
        beh = ck.tlc_scripts("FSTreeGen", "FSTreeGen.cfg", num=150 if thorough else 15, depth=24, seed=ck.seed)
        scripts += [gen_to_script(b) for b in beh]
    binp = ck.gobuild("fstree")
    if not ck.replay:
        rnd = os.path.join(ck.tmp, "rnd.ndjson")
        ck.harness(binp, ["c10gen", 320 if thorough else 28, 80 if thorough else 36, rnd])
        scripts += vkit.read_ndjson(rnd)

    # ------------------------------------------------------------------ 3. run on the real tree + validate
    chunks = fu.split_chunks(scripts, 8 if thorough else 4)

    def run_chunk(ic):
        i, chunk = ic
        sp = os.path.join(ck.tmp, "scripts%d.ndjson" % i)
        tp = os.path.join(ck.tmp, "trace%d.ndjson" % i)
        vkit.write_ndjson(sp, chunk)
        ck.harness(binp, ["c10run", sp, tp], timeout=3000, env_extra={"VERIF_SEED": str(ck.seed * 100 + i)})
        v = ck.tlc_validate("TraceFSTree", "TraceFSTree.cfg", tp, timeout=3000, heap="3g")
        return vkit.read_ndjson(tp + ".resolved"), vkit.read_ndjson(tp), v

    outs = fu.pmap(run_chunk, list(enumerate(chunks)), workers=fu.ncpu_share())
    nev = 0
    classes = set()
    dev = {}
    for chunk, ev, v in outs:
        nev += len(ev)
        for e in ev:
            for le in e.get("lay", []):
                f = le["f"]
                classes.add((e["ev"], "absent" if not f["mem"] else ("comb%d" % min(len(f["mem"]), 6) if f["comb"] else "plain"),
                             any(m.get("z") for m in f["mem"])))
        # index -> script
        starts = [i for i, e in enumerate(ev) if e["ev"] == "Init"]

        def script_of(pos):      # pos: 1-based event index
            k = max([j for j, s in enumerate(starts) if s < pos] or [0])
            return chunk[k], ev[starts[k]]

        if v.distinct < len(ev) + 1 and v.ok:
            raise vkit.Infra("trace validation stopped early: %d states for %d events" % (v.distinct, len(ev)))
        for sig, idx, rest in fu.kf_lines(v.out):
            if sig in dev and dev[sig][0] != idx:
                dev[sig][2] += 1
                continue
            sc, init = script_of(idx)
            dev[sig] = [idx, {"script": sc, "event": ev[idx - 1], "init": init, "detail": rest}, 1]
        if not v.ok:
            pos = fu.last_l(v) - 1          # the state that violates has consumed event l-1
            sc, init = script_of(pos)
            e = ev[pos - 1]
            if v.kind == "invariant" and v.name == "ResOK":
                ck.violation("real FSTree returned a result the map semantics forbids at event %d (%s, tree %s): %s"
                             % (pos, e["ev"], json.dumps(init), json.dumps(e)[:1500]),
                             {"script": sc, "rejected_event": e, "init": init, "tlc": v.trace_text[-2500:]})
            else:
                raise vkit.Infra("trace not accepted for a reason that is not a verdict (%s %s) at event %d: %s\n%s"
                                 % (v.kind, v.name, pos, json.dumps(e)[:800], vkit.tail(v.out, 2500)))
    for sig, (idx, rep, cntk) in sorted(dev.items()):
        ck.setcov("deviation_events_" + sig, cntk)
        ck.report("c10-" + sig, "real FSTree read deviates from the map semantics exactly as the as-found model predicts (%s): %s"
                  % (sig, json.dumps(rep["event"])[:600]), rep)
    ck.setcov("traces_validated_against_impl", len(scripts))
    ck.setcov("trace_events", nev)
    ck.setcov("distinct_layout_classes", len(classes))
    ck.setcov("layout_classes", sorted("%s/%s%s" % (a, b, "/z" if c else "") for a, b, c in classes))
    if not ck.replay and len(classes) < 8:
        raise vkit.Infra("vacuous run: only %d layout classes exercised" % len(classes))
    if outs:
        ck.sample({"script_head": {k: (val[:4] if isinstance(val, list) else val) for k, val in outs[0][0][0].items()},
                   "trace_head": outs[0][1][:3]})
        ck.sample({"script_src": outs[-1][0][-1].get("src"), "trace_tail": outs[-1][1][-2:]})
    ck.assumptions += [
        "the bytes of an address never change while it is present (content-addressed objects; the writers rely on it: EEXIST = success) - scripts re-put only identical bytes, new bytes appear only after Delete",
        "addresses of one tree have distinct object IDs (combined files are searched by OID only)",
        "zstd and protobuf are trusted; compressed blobs are written by the harness through Put/PutBatch (the tree no longer compresses)",
        "stream consumers follow the io.Reader contract (io.ReadAll); caller buffers have the documented minimum 2*NonPayloadFieldsBufferLength",
        "healthy file system (faults and crashes are C12/C13)",
    ]
