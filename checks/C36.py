"""C36 - alphabet rotation keeps size, uniqueness and the one-third replacement bound.

1. Go harness `irgov c36`: the REAL governance.newAlphabetList + updateInnerRing (chained exactly as
   processAlphabetSync does) on the universe stated by the property: 8 real neo-go public keys (integer
   order = key order), |cur| 1..7, every main list with |main| >= |cur|, inner ring = cur + <= 2 others.
   thorough: the complete universe (573 790 inputs); quick: every input with |cur| >= 6 + 10 000 seeded random.
2. TLC record validation (TraceAlphabetList.tla): every record must equal the code-shaped spec function
   (RecOK) and satisfy the declarative C36 property evaluated on the recorded output (RecProp).
3. TLC exhaustive on AlphabetList.tla: spec function => property (thorough: the COMPLETE universe, both
   worlds; quick: |cur| 4..7 = every alphabet size whose one-third bound is not 0).

Known finding (deviation switch BugIRDup): updateInnerRing duplicates a key that enters the alphabet
while already being a non-alphabet inner ring member. Handled in two worlds, see lib/irgov_util.py."""
import json, os
import vkit, irgov_util

LEVEL = "model_checking"
SIG = "updateInnerRing: key promoted to alphabet is already an inner ring member -> duplicate in new inner ring list"


def promoted(r):
    return r["proposed"] and (set(r["alpha"]) - set(r["cur"])) & set(r["ir"])


def run(ck):
    thorough = ck.tier == "thorough"
    binp = ck.gobuild("irgov")
    path = os.path.join(ck.tmp, "c36.ndjson")
    if ck.replay:
        inp = os.path.join(ck.tmp, "in.json")
        json.dump(json.load(open(ck.replay))["replay"]["in"], open(inp, "w"))
        ck.harness(binp, ["c36replay", inp, path])
    elif thorough:
        ck.harness(binp, ["c36", "enum", 1, 20000, path])
    else:
        ck.harness(binp, ["c36", "enum", 6, 10000, path])
    recs = vkit.read_ndjson(path)
    nprop = sum(1 for r in recs if r["proposed"])
    nprom = sum(1 for r in recs if promoted(r))
    ck.setcov("traces_validated_against_impl", len(recs))
    ck.setcov("records_proposed", nprop)
    ck.setcov("records_not_proposed", len(recs) - nprop)
    ck.setcov("records_with_promoted_inner_ring_member", nprom)
    ck.setcov("distinct_outputs", len({json.dumps([r["proposed"], sorted(r["alpha"]), sorted(r["ir_out"])]) for r in recs}))
    for r in recs:
        if promoted(r):
            ck.sample(r)
            break
    for r in recs:
        if r["proposed"] and not promoted(r) and len(r["alpha"]) == 7:
            ck.sample(r)
            break
    ck.sample(recs[0])
    if not ck.replay and (nprop < 100 or nprom < 10):
        raise vkit.Infra("vacuous record set: proposed=%d promoted=%d of %d" % (nprop, nprom, len(recs)))

    world = irgov_util.decide(ck, "TraceAlphabetList", "TraceAlphabetList_fixed.cfg", "TraceAlphabetList_asis.cfg",
                              path, recs, SIG,
                              "real updateInnerRing returned an inner ring list with a duplicate key",
                              lambda r: {"cur": r["cur"], "main": r["main"], "ir": r["ir"]})
    ck.setcov("tree_behaviour", world)

    # spec function => property, over the complete stated universe (573 790 inputs, 2 states each)
    # quick: |cur| in 4..7 (smaller alphabets have bound 0 and never propose anything): 166 254 inputs
    cfgs = ["AlphabetList_thorough_fixed.cfg", "AlphabetList_thorough_asis.cfg"] if thorough else \
        ["AlphabetList_quick_asis.cfg" if world == "as-is" else "AlphabetList_quick_fixed.cfg"]
    for cfg in cfgs:
        ck.tlc_model("AlphabetList", cfg, timeout=1500, workers=6)
    ck.setcov("exhaustive", True)
    ck.setcov("constants", "NKeys=8 MaxExtra=2 CurSizes=" + ("1..7 (the whole universe of the property statement)" if thorough else "4..7"))
    ck.assumptions.append("key lists fetched from the chains are duplicate-free (committee / role lists); "
                          "the inner ring list contains the whole current alphabet (as the property states)")
    ck.assumptions.append("8 real secp256r1 keys stand for the key universe; functions depend on keys only through "
                          "sort order, Equal and Address()")
    ck.assumptions.append("outputs are compared as multisets of keys (order is not part of the property; "
                          "processAlphabetSync sorts before use)")
