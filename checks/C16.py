"""C16 - objects written through the write-cache stay readable through every flush.

Same spec and machinery as C17 (spec/WriteCache.tla, checks/C17.py), driven at the Shard level:
Shard.Put / Get / Delete / FlushWriteCache / SetMode / close+reopen on a REAL shard with write-cache whose
main storage is the fault-injecting decorator; the model adds the metabase "exists" bit, the fallback of
Shard.Put to the main storage and of Shard.Get to the main storage.
 * TLC exhaustive on the model of the code as it is: ReadYourWrites (a get started after an acknowledged
   put and before any delete returns the object), Durable (an acknowledged object is in the cache or in
   the main storage), FlushedInBlob, each weakened by the one listed history class "bdflush".
 * M->C: TLC-simulated behaviours (gates at HasAddress->fsTree.Get, storage.Put->cache delete, FS step->
   counter step, scheduler round, worker done) + the probe TLC derives for the known finding;
   C->M: free-running concurrent stress (3 client goroutines, background flusher, random storage failures,
   mode switches, reopen). Logs are validated against TraceWriteCache (linearizability-style: call start /
   end + hidden steps); read results and byte-identity of what cache / storage hold are compared at every
   call end and at quiescent observations."""
import C17

LEVEL = "model_checking"


def run(ck):
    C17.run(ck, pid="C16", level="shard", props={"ryw", "lost"})
