"""C11 - payload range reads return exactly the requested slice or out-of-range, identically from FSTree (plain,
combined, zstd), write-cache, shard and engine, with and without header interception.

1. TLC exhaustive (RangeMC): the code-shaped PayloadRange.Resolve with unsigned wrap-around for a small word size
   (every a, b, L), the case analysis of shiftPayloadRangeStream for every split into buffered prefix / stream,
   against the ideal definition of the property statement (Range!Ideal). The as-found switch must show its deviation.
2. Apalache (RangeApa): the same agreement symbolically for uint64 (all offsets / lengths up to 2^64-1, payload
   lengths < 2^63), checkTooBigRange never trips for satisfiable ranges, and the clamp lemma used by step 4.
3. Real code: one object per payload length (byte i = Byte(i), = i mod 251 for i < 251) is stored in every source and
   EVERY request is sent through EVERY range API (45 API x source combinations): all (mode, a, b) with a, b <= L+2
   for the stored lengths <= 64 ("small"), boundary-directed requests on payloads of ~30 KB and ~100 KB ("large"),
   offsets near 2^31, 2^32, 2^63, 2^64 ("big").
4. TLC record validation (TraceRange): one record per distinct (request, answer); a rejected record is named.
   A sample of the raw big-offset records is additionally validated by Apalache without clamping."""
import json
import os

import fstree_util as fu
import vkit

LEVEL = "exploration"
CLAMP = 1 << 29


def conv(rec):
    i, o = rec["in"], rec["out"]
    lst = lambda s: [int(x) for x in s.split(",")] if s else []
    return {"in": {"mode": i["mode"], "a": min(int(i["a"]), CLAMP), "b": min(int(i["b"]), CLAMP), "L": i["L"]},
            "out": {"st": o["st"], "n": o["n"], "head": lst(o["head"]), "tail": lst(o["tail"]), "contig": o["contig"]},
            "srcs": rec["srcs"]}


def apalache_literal(recs):
    def lit(r):
        i, o = r["in"], r["out"]
        return ('[mode |-> "%s", a |-> %s, b |-> %s, l |-> %d, st |-> "%s", n |-> %d, contig |-> %s, h1 |-> %d, t1 |-> %d]'
                % (i["mode"], i["a"], i["b"], i["L"], o["st"], o["n"], "TRUE" if o["contig"] else "FALSE",
                   int(o["head"].split(",")[0]) if o["head"] else -1, int(o["tail"].split(",")[-1]) if o["tail"] else -1))
    return """---- MODULE RangeBigRecs ----
(* generated: raw big-offset records of the real range APIs, validated without clamping *)
EXTENDS Range
\\* @type: Seq({mode: Str, a: Int, b: Int, l: Int, st: Str, n: Int, contig: Bool, h1: Int, t1: Int});
Recs == <<
%s
>>
VARIABLE
  \\* @type: Int;
  x
Init == x = 0
Next == UNCHANGED x
\\* @type: ({mode: Str, a: Int, b: Int, l: Int, st: Str, n: Int, contig: Bool, h1: Int, t1: Int}) => Bool;
RecOK(r) == LET i == Ideal(r.mode, r.a, r.b, r.l) IN
            IF i = OOR THEN r.st = "oor"
            ELSE r.st = "ok" /\\ r.n = i[2] /\\ r.contig /\\ (i[2] > 0 => r.h1 = Byte(i[1]) /\\ r.t1 = Byte(i[1] + i[2] - 1))
Inv == \\A k \\in DOMAIN Recs : RecOK(Recs[k])
====
""" % ",\n".join(lit(r) for r in recs)


def run(ck):
    thorough = ck.tier == "thorough"
    fu.make_threadsafe(ck)
    binp = ck.gobuild("fstree")

    # ------------------------------------------------------------------ 1+2. model checking (in parallel with the harness)
    def tlc_job(job):
        cfg, expect = job
        if expect is None:
            return ck.tlc_model("RangeMC", cfg, timeout=2400, workers=4)
        r = ck.tlc("RangeMC", cfg, timeout=2400, workers=2, count=False)
        if r.kind != "invariant" or r.name != expect:
            raise vkit.Infra("as-found model %s did not show the expected deviation (%s %s)" % (cfg, r.kind, r.name))
        ck.log("TLC RangeMC/%s (deviation switch on): %s" % (cfg, r.summary()))
        return r

    def apa_job(_):
        ok, bad, out = ck.apalache("RangeApa", ["--cinit=CInit", "--init=Init", "--next=Next", "--inv=Everything", "--length=0"], timeout=2700)
        if not ok:
            raise vkit.Infra("Apalache did not prove the 64-bit agreement / clamp lemma (%s)\n%s" % ("counterexample" if bad else "failure", vkit.tail(out, 3000)))
        return out

    def harness_job(kind):
        out = os.path.join(ck.tmp, "c11-%s.ndjson" % kind)
        if kind == "small":
            lens = list(range(0, 65)) if thorough else [0, 1, 2, 3, 5, 8, 16, 31, 32, 33, 63, 64]
            span = 2
        elif kind == "full":        # all (a, b) <= 66
            lens, span = [0, 1, 32, 64], 66
        elif kind == "large":
            lens, span = ([30000, 102400] if not thorough else [20400, 30000, 61440, 102400]), 0
        else:
            lens, span = [0, 1, 64], 0
        args = ["c11", out, "upto" if kind == "full" else kind, ",".join(map(str, lens)), str(span)]
        p = ck.harness(binp, args, timeout=3000)
        stats = json.loads(p.stdout.strip().splitlines()[-1])
        apis = sorted({ln[5:] for ln in p.stderr.splitlines() if ln.startswith("api: ")})
        return kind, out, stats, apis

    jobs = [("t", ("RangeMC_thorough.cfg" if thorough else "RangeMC_quick.cfg", None)), ("t", ("RangeMC_asis.cfg", "Agree")),
            ("a", None), ("h", "small"), ("h", "large"), ("h", "big")]
    if thorough:
        jobs.append(("h", "full"))
    if ck.replay:
        jobs = []
    res = fu.pmap(lambda j: {"t": tlc_job, "a": apa_job, "h": harness_job}[j[0]](j[1]), jobs, workers=6)

    # ------------------------------------------------------------------ 4. record validation
    recs, raw_big, calls, apis = [], [], 0, set()
    if ck.replay:
        rep = json.load(open(ck.replay))["replay"]
        out = os.path.join(ck.tmp, "c11-replay.ndjson")
        i = rep["record"]["in"]
        # re-issue the request through every API of every source
        p = ck.harness(binp, ["c11one", out, i["mode"], str(i["a"]), str(i["b"]), str(i["L"])], timeout=600)
        recs = vkit.read_ndjson(out)
    else:
        for (k, _), r in zip(jobs, res):
            if k != "h":
                continue
            kind, out, stats, ap = r
            rr = vkit.read_ndjson(out)
            ck.setcov("records_" + kind, len(rr))
            ck.setcov("calls_" + kind, stats["calls"])
            calls += stats["calls"]
            apis |= set(ap)
            recs += rr
            if kind == "big":
                raw_big = rr
    conv_recs = [conv(r) for r in recs]
    tp = os.path.join(ck.tmp, "range-records.ndjson")
    vkit.write_ndjson(tp, conv_recs)
    v = ck.tlc_validate("TraceRange", "TraceRange.cfg", tp, timeout=3000, heap="4g")
    classes = {(r["in"]["mode"], r["out"]["st"], min(r["in"]["L"], 65), 0 if r["out"]["n"] == 0 else (1 if r["out"]["n"] < r["in"]["L"] else 2),
                r["in"]["a"] >= CLAMP, r["in"]["b"] >= CLAMP) for r in conv_recs}
    ck.setcov("evaluations", calls or len(recs))
    ck.setcov("records_validated", len(recs))
    ck.setcov("traces_validated_against_impl", len(recs))
    ck.setcov("distinct_nontrivial", len(classes))
    ck.setcov("api_source_combinations", sorted(apis))
    ck.setcov("rule", "answer of every range API = Range!Ideal(mode, a, b, L): out-of-range iff unsatisfiable, else exactly the slice bytes; "
              "Ideal = code-shaped Resolve/shift proven by TLC (small word) and Apalache (uint64)")
    for r in recs[:1] + recs[len(recs) // 2:len(recs) // 2 + 1] + recs[-1:]:
        ck.sample(r)
    if v.ok and v.distinct < len(recs) + 1:
        raise vkit.Infra("record validation stopped early (%d states, %d records)" % (v.distinct, len(recs)))
    if not ck.replay and (len(apis) < 40 or len(classes) < 30):
        raise vkit.Infra("vacuous: %d API x source combinations, %d input/answer classes" % (len(apis), len(classes)))
    seen = {}
    for sig, idx, _ in fu.kf_lines(v.out):
        seen.setdefault(sig, []).append(idx)
    for sig, idxs in sorted(seen.items()):
        r = recs[idxs[0] - 1]
        ck.setcov("deviation_records_" + sig, len(set(idxs)))
        ck.report("c11-" + sig, "range APIs answer as the as-found model predicts (%s): %s" % (sig, json.dumps(r)[:700]), {"record": r})
    if not v.ok:
        if v.kind == "invariant" and v.name == "RecOK":
            pos = fu.last_l(v)
            r = recs[pos - 1]
            ck.violation("a range API returned something else than the requested slice / out-of-range: %s" % json.dumps(r)[:1500],
                         {"record": r, "expected": "Range!Ideal", "tlc": v.trace_text[-1500:]})
        else:
            raise vkit.Infra("record validation failed to run (%s %s)\n%s" % (v.kind, v.name, vkit.tail(v.out, 2500)))

    # raw big-offset sample through Apalache (no clamping)
    if raw_big and not ck.violations:
        step = max(1, len(raw_big) // (60 if thorough else 24))
        sample = [r for r in raw_big[::step] if not (r["in"]["mode"] == "from" and r["in"]["a"] == "0" and r["in"]["L"] == 0)][:(60 if thorough else 24)]
        ok, bad, out = ck.apalache("RangeBigRecs", ["--init=Init", "--next=Next", "--inv=Inv", "--length=0"], timeout=2400,
                                   files={"RangeBigRecs.tla": apalache_literal(sample)})
        ck.setcov("raw_big_records_validated_by_apalache", len(sample))
        if bad:
            ck.violation("a big-offset range request was answered differently from the reference (Apalache record validation)",
                         {"records": sample, "apalache": vkit.tail(out, 2000)})
        elif not ok:
            raise vkit.Infra("Apalache record validation failed to run\n%s" % vkit.tail(out, 2500))
    ck.assumptions += [
        "payload lengths are below 2^63 (file sizes are int64)",
        "zstd / protobuf trusted; returned bytes are compared with the stored payload by the harness (contiguity flag) and by the spec (length, first and last 8 bytes from the pattern Byte)",
        "large objects are single members of their combined file and compressed only when their plain form fits the caller's buffer - the other layouts hit the C10 reader defects (known findings of C10)",
        "offsets above 2^29 are clamped for TLC; Apalache proves the reference invariant under the clamp and validates a raw sample",
    ]
