"""C33 - request signature chains are accepted only if every layer verifies (exemption: the one-hop
request from an authenticated peer).

1. TLC exhaustive on spec/SigChain.tla: a structural model of signed requests (signature = content it
   was made over + untouched flag; honest multi-hop signing under the legacy and the >= 2.25 protocol)
   explored under every sequence of <= 2 (quick) / 3 (thorough) manipulations (change body / a meta
   header, break / remove / copy / swap signatures, drop / swap layers, drop a meta layer, honest
   re-signing): the flag-level decision `Accept` holds exactly for honestly signed chains (legacy), resp.
   exactly when the outermost signer covers the present body and nested meta header (new); ASSUME: the
   exemption is exactly "no header, TTL 1, authenticated peer, context-aware entry point".
2. M->C: TLC -simulate behaviours of SigChainGen (manipulation scripts with the model verdict after every
   step) are executed on real signed requests. C->M: seeded random scripts of the same catalogue, one bit
   flipped at every byte offset of every signed part, the exemption matrix, N3 witnesses.
   Verdicts: real internal/crypto VerifyRequestSignatures / ...WithContext / ...N3.
3. TLC (TraceSigChain): ok = Accept(flags) for every record and ok = model verdict for script steps."""
import json
import os

import acl_util
import vkit

LEVEL = "exploration"


def klass(i):
    return (i["entry"], i["ver"], i["metaNil"], i["ttl"], i["trusted"], i["nMeta"],
            tuple((x["meta"], x["origin"], x["body"]) for x in i["layers"]))


def run(ck):
    thorough = ck.tier == "thorough"
    if not os.environ.get("VERIF_ACL_SKIP_MODEL"):   # mutation-testing convenience only
        ck.tlc_model("SigChain", "SigChain_thorough.cfg" if thorough else "SigChain_quick.cfg", timeout=2400)
    ck.setcov("exhaustive", True)
    ck.setcov("constants", "MaxLayers=3 MaxSteps=%d" % (3 if thorough else 2))
    binp = ck.gobuild("acl")
    recs_path = os.path.join(ck.tmp, "c33.ndjson")
    scripts_path = os.path.join(ck.tmp, "scripts.ndjson")
    if ck.replay:
        doc = json.load(open(ck.replay))
        ck.seed = doc.get("seed", ck.seed)
        ck.tier = doc.get("tier", ck.tier)
        scripts = doc["replay"]["scripts"]
        vkit.write_ndjson(scripts_path, scripts)
        ck.harness(binp, ["c33replay", recs_path, scripts_path if scripts else "-", doc["replay"]["idx"]])
    else:
        scripts = []
        for s in range(3 if thorough else 1):
            scripts += ck.tlc_scripts("SigChainGen", "SigChainGen.cfg", num=40 if thorough else 12, depth=4, seed=ck.seed * 10 + s)
        vkit.write_ndjson(scripts_path, scripts)
        ck.harness(binp, ["c33", recs_path, scripts_path], timeout=1500)
    recs, bad = acl_util.validate(ck, "TraceSigChain", "TraceSigChain.cfg", recs_path)
    ck.setcov("traces_validated_against_impl", len(recs))
    ck.setcov("model_scripts_replayed", len(scripts))
    ck.setcov("rule", "ok(real VerifyRequestSignatures*) = SigChain!Accept(flags) and = verdict of the structural model for script steps")
    ck.setcov("distinct_nontrivial", len({klass(r["in"]) for r in recs}))
    kinds = {}
    for r in recs:
        h = r["desc"]["how"]
        h = "bit flip of a signed part" if h.startswith("bit ") else h.split(":")[0]
        kinds.setdefault(h, {"ok": 0, "rejected": 0})["ok" if r["out"]["ok"] else "rejected"] += 1
    ck.setcov("record_kinds", kinds)
    ck.sample(recs[0])
    for pred in (lambda r: r["in"]["model"] == "accept" and len(r["in"]["layers"]) > 1,
                 lambda r: r["desc"]["how"].startswith("bit ") and not r["out"]["ok"]):
        for r in recs:
            if pred(r):
                ck.sample(r)
                break
    if not ck.replay:
        for e in ("plain", "ctx", "n3"):
            for v in ("legacy", "new"):
                vs = {r["out"]["ok"] for r in recs if r["in"]["entry"] == e and r["in"]["ver"] == v}
                if vs != {True, False}:
                    raise vkit.Infra("vacuous: entry %s ver %s verdicts %s" % (e, v, vs))
        ex = [r for r in recs if not r["in"]["layers"] and r["out"]["ok"]]
        if {r["in"]["entry"] for r in ex} != {"ctx", "n3"}:
            raise vkit.Infra("vacuous: exemption not exercised for both context-aware entries")
        ms = [r for r in recs if r["in"]["model"] != "none"]
        if len(ms) < 200 or not any(r["in"]["model"] == "accept" for r in ms):
            raise vkit.Infra("vacuous: %d model script steps" % len(ms))
        if kinds.get("bit flip of a signed part", {}).get("rejected", 0) < 200:
            raise vkit.Infra("vacuous: too few byte flips")
    for k in bad[:5]:
        r = recs[k]
        ck.violation("real request signature verification %s a request that must be %s (record %d, %s, model=%s, err=%r): %s"
                     % ("accepted" if r["out"]["ok"] else "rejected", "rejected" if r["out"]["ok"] else "accepted", k,
                        json.dumps(r["desc"].get("steps") or r["desc"]["how"]), r["in"]["model"], r["desc"].get("err"), json.dumps(r["in"])),
                     {"idx": r["idx"], "scripts": scripts, "record": r, "bad_records_total": len(bad)})
    ck.assumptions += [
        "a signature slot is `ok` iff the signature object in it was produced with the same key and scheme over exactly the bytes the slot covers now (provenance table filled at signing time; cryptographic soundness trusted), `missing` iff absent, else `bad`",
        "legacy/new protocol flag mirrors neofscrypto.needsOriginSig (meta nil, no version, or API < 2.25 = legacy)",
        "N3 witnesses are judged by a fake FS chain (good for the registered account and message only); under entries without N3 support an N3-labelled signature is `bad`",
        "the concrete manipulations of cmd/acl/c33.go implement the catalogue of SigChain!Step one to one",
    ]
