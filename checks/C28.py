"""C28 - object access decisions follow basic ACL, sticky bit, eACL and bearer rules.

1. TLC exhaustive on spec/ACL.tla: over a universe of abstract requests the implementation-shaped
   pipeline `Decide` equals the declarative reading of the property `Served` (+ consequences: system
   roles / FINAL never depend on eACL, no basic bit => no access, bearer bit guards the bearer table,
   Inner Ring is read-only; eACL scan = "first applicable record decides" over ALL tables <= 3 records).
2. The Go harness walks the abstract input space (operation variant x classification flags x the 4
   basic bits of the operation x FINAL x STICKY, random bearer/eACL/credential completions), builds a
   real world for every input (keys, container + basic ACL word, eACL tables, signed bearer / session
   tokens, signed request, stored objects) and runs the real token verification -> RequestToInfo ->
   CheckBasicACL -> StickyBitCheck -> CheckEACL pipeline.
3. TLC (TraceACL) checks verdict = Decide(abstract input) and "allow => Served" for every record.
4. History class "bearer expires by epoch": every third case carrying a valid bearer token is executed
   twice on the same node - the request is served (or not), then the node goes through new-epoch events
   (epoch source moves, the REAL Service.ResetTokenCheckCache + sessions cache reset are called, as
   cmd/neofs-node does) until the token's exp has passed, and the SAME request with the SAME token bytes
   is executed again; the second record's abstract input is the first with bearer.valid = FALSE, so the
   spec demands a refusal (an expired token's table must not be applied)."""
import json
import os

import acl_util
import vkit

LEVEL = "exploration"

IR_WRITE = {"put", "delete", "range"}
CORE_TOTAL = 10 * 8 * 16 * 4   # (6 ops + put x tomb x ttl1) x classification flags x 4 basic bits x FINAL x STICKY


def role_of(i):
    return "owner" if i["isOwner"] else "ir" if i["inIR"] else "container" if i["inCnr"] else "others"


def eff_of(i):
    if i["op"] == "put" and i["tomb"]:
        return "put" if role_of(i) == "container" and i["ttl1"] else "delete"
    return i["op"]


def recs_key(rs):
    return tuple((r["act"], r["opm"], r["tgt"], r["flt"]) for r in rs)


def klass(i):
    b = i["acl"][eff_of(i)]
    br = i["bearer"]
    return (i["op"], i["tomb"], i["ttl1"], i["split"], i["srvIn"], i["isOwner"], i["inIR"], i["inCnr"],
            b["o"], b["c"], b["t"], b["b"], i["fin"], i["sticky"], i["ownerMatch"] if i["op"] == "put" else None,
            (br["present"], br["valid"], br["issuerOwner"], br["cnr"], br["usr"], recs_key(br["recs"])),
            (i["ctab"]["present"], recs_key(i["ctab"]["recs"])))


def core(i):
    b = i["acl"][eff_of(i)]
    return (i["op"], i["tomb"], i["ttl1"] if i["op"] == "put" else None, i["isOwner"], i["inIR"], i["inCnr"], b["o"], b["c"], b["t"], b["b"], i["fin"], i["sticky"])


def run(ck):
    thorough = ck.tier == "thorough"
    if not os.environ.get("VERIF_ACL_SKIP_MODEL"):   # mutation-testing convenience only
        ck.tlc_model("ACL", "ACL_thorough.cfg" if thorough else "ACL_quick.cfg", timeout=2400)
    ck.setcov("exhaustive", True)
    ck.setcov("constants", "all 7 ops, full product of bearer states x tables" if thorough
              else "ops get/put, slice A (all variants/roles/bits/F/S) + slice B (bearer x tables)")
    binp = ck.gobuild("acl")
    recs_path = os.path.join(ck.tmp, "c28.ndjson")
    if ck.replay:
        doc = json.load(open(ck.replay))
        ck.seed = doc.get("seed", ck.seed)
        rp = os.path.join(ck.tmp, "replay-in.ndjson")
        vkit.write_ndjson(rp, [doc["replay"]["record"]])
        ck.harness(binp, ["c28replay", rp, recs_path])
    else:
        ck.harness(binp, ["c28", recs_path], timeout=1500)
    recs, bad = acl_util.validate(ck, "TraceACL", "TraceACL.cfg", recs_path)
    ck.setcov("traces_validated_against_impl", len(recs))
    ck.setcov("rule", "verdict(real pipeline) = ACL!Decide(abstract input) and allow => ACL!Served")
    classes = {klass(r["in"]) for r in recs}
    cores = {core(r["in"]) for r in recs}
    ck.setcov("distinct_nontrivial", len(classes))
    ck.setcov("core_cells_hit", len(cores))
    ck.setcov("core_cells_total", CORE_TOTAL)
    verdicts = {}
    stages = {}
    for r in recs:
        verdicts.setdefault((r["in"]["op"], role_of(r["in"])), set()).add(r["out"]["v"])
        st = r["desc"]["stage"].split(":")[0]
        stages[st + "/" + r["out"]["v"]] = stages.get(st + "/" + r["out"]["v"], 0) + 1
    ck.setcov("stages", stages)
    firsts = {r["ridx"]: r for r in recs if r.get("hist") == 1}
    seconds = [r for r in recs if r.get("hist") == 2]
    served_first = sum(1 for r in seconds if firsts.get(r["ridx"], {}).get("out", {}).get("v") == "allow")
    ck.setcov("bearer_expiry_histories", len(seconds))
    ck.setcov("bearer_expiry_histories_served_at_first", served_first)
    if not ck.replay and served_first < 30:
        raise vkit.Infra("vacuous: only %d bearer-expiry histories whose first request was served" % served_first)
    for r in seconds:
        if firsts.get(r["ridx"], {}).get("out", {}).get("v") == "allow":
            ck.sample({"history_first": {k: firsts[r["ridx"]][k] for k in ("out", "desc")}, "history_second": {k: r[k] for k in ("in", "out", "desc")}})
            break
    ck.setcov("verdict_counts", {v: sum(1 for r in recs if r["out"]["v"] == v) for v in ("allow", "deny", "skip")})
    ck.sample({k: recs[0][k] for k in ("in", "out", "desc")})
    for r in recs:
        if r["out"]["v"] == "allow" and r["in"]["bearer"]["present"] and r["desc"]["stage"] == "served":
            ck.sample({k: r[k] for k in ("in", "out", "desc")})
            break
    if not ck.replay:
        if len(cores) < CORE_TOTAL:
            raise vkit.Infra("vacuous: only %d of %d core cells generated" % (len(cores), CORE_TOTAL))
        for op in ("get", "head", "put", "delete", "search", "range", "hash"):
            for role in ("owner", "ir", "container", "others"):
                vs = verdicts.get((op, role), set())
                if "deny" not in vs or ("allow" not in vs and not (role == "ir" and op in IR_WRITE)):
                    raise vkit.Infra("vacuous: verdicts for (%s, %s) = %s" % (op, role, sorted(vs)))
    for k in bad[:5]:
        r = recs[k]
        ck.violation("real ACL pipeline verdict %r differs from ACL!Decide / violates Served for abstract input (record %d, stage %r): %s"
                     % (r["out"]["v"], k, r["desc"].get("stage"), json.dumps(r["in"])),
                     {"record": {"in": r["in"], "stored": r["stored"], "idx": r["idx"], "hist": r.get("hist", 0), "ridx": r.get("ridx", r["idx"])}, "out": r["out"], "desc": r["desc"],
                      "bad_records_total": len(bad)})
    ck.assumptions += [
        "composition of the checks (token verification, RequestToInfo, CheckBasicACL, StickyBitCheck, CheckEACL, ErrNotMatched = allow) is replicated from pkg/services/object/server.go by the harness",
        "abstraction of a concrete eACL record to (opm, tgt, flt) flags is by construction in the harness (cmd/acl/c28.go buildTargets/buildFilters)",
        "abstract role flags are realised through the fakes: IR key list, FSChain.InContainerInLastTwoEpochs, container owner",
        "bearer `valid` = signed by its issuer and within lifetime at the CURRENT epoch (detailed by C30); cryptography is trusted",
        "history class: new-epoch events are realised as the node realises them (epoch source moves, Service.ResetTokenCheckCache and the sessions cache reset are called); the asynchronous window between the tick and the handlers and LRU eviction are not modelled",
    ]
