"""C01 - object visibility follows tombstone, garbage, expiry and lock rules in all views.

spec/Metabase.tla: implementation-shaped status/visibility operators + the reference rules of the
property (RefStatus); TLC checks on every reachable state of a small catalogue that they agree and
that all views are mutually consistent. Binding: TLC-simulated behaviours (M->C) and seeded random
scripts over several catalogues are executed on a real shard.Shard (FSTree + bbolt metabase); after
every call the real Exists / Get / IsLocked / ResolveECPart / listing / expired iteration / search /
garbage listing of EVERY catalogue address is compared with the model (TraceMetabase.tla), and the
reference-rule invariant is evaluated on every recorded state."""
import json
import meta_util as mu
import vkit

LEVEL = "model_checking"
RELEVANT = ("res", "ex", "get", "lk", "ec", "list", "expd", "srch", "garb", "cnrs")


def handle(ck, cat, out, pid_prefix, relevant):
    r = out["r"]
    for name in sorted(out["kf"]):
        if name.startswith(pid_prefix):
            ck.report(name, "known finding %s reached on the real shard" % name, {"cat": cat})
    if r.ok:
        return
    pos = vkit.stuck_position(r) or 1
    script, k, ev = mu.script_of_event(out["events"], out["scripts"], pos if r.name == "TraceNotStuck" else max(pos - 1, 1))
    replay = {"script": script, "event_index": k, "event": {x: ev[x] for x in ev if x != "v"}}
    if r.kind == "invariant" and r.name == "TraceNotStuck":
        diff = mu.view_diff(out["expected"], ev)
        replay["diff"] = diff
        rel = [f for f in diff if f in relevant]
        if rel:
            ck.violation("real shard disagrees with the visibility model at event %d of a script (catalogue %s): %s" % (
                k, cat, json.dumps({f: diff[f] for f in rel})[:1500]), replay)
        else:
            raise vkit.Infra("trace diverged from the model on %s (not decided by this property): %s" % (list(diff), json.dumps(replay)[:2000]))
    elif r.kind in ("invariant", "property"):
        ck.violation("property formula %s is false on a recorded real-shard trace (catalogue %s, event %d)" % (r.name, cat, k), replay)
    else:
        raise vkit.Infra("validation ended with %s %s" % (r.kind, r.name))


def run(ck):
    mu.check_catalog_sync(ck)
    thorough = ck.tier == "thorough"
    ck.tlc_model("Metabase", "Metabase_t.cfg" if thorough else "Metabase_tq.cfg", timeout=3000)
    ck.setcov("exhaustive", True)
    ck.setcov("constants", "catalogue T (5 objects: expiring object, its lock and tombstone, EC parent + part), epochs 0..%d" % (3 if thorough else 2))
    binp = ck.gobuild("meta")
    if ck.replay:
        doc = json.load(open(ck.replay))["replay"]
        cat = doc["script"]["cat"]
        out = mu.run_validate(ck, binp, cat, [doc["script"]], ["TraceNotStuck", "C01_StatusMatchesReference", "C01_ViewsAgree"])
        handle(ck, cat, out, "C01", RELEVANT)
        return
    plan = [("T", 60, 60), ("Q", 40, 50), ("S", 40, 50), ("L", 30, 40)]
    if thorough:
        plan = [(c, a * 15, b * 20) for c, a, b in plan]
    for cat, n_sim, n_rnd in plan:
        scripts = mu.gen_scripts(ck, binp, cat, n_sim, n_rnd, depth=16, seeds=1)
        out = mu.run_validate(ck, binp, cat, scripts, ["TraceNotStuck", "C01_StatusMatchesReference", "C01_ViewsAgree"])
        ck.sample({"cat": cat, "script": scripts[0], "first_events": [{k: v for k, v in e.items()} for e in out["events"][1:3]]})
        handle(ck, cat, out, "C01", RELEVANT)
        if ck.violations:
            break
    ck.assumptions.append("object identifiers are allocated so that byte order equals catalogue order; signatures/IDs of objects are not verified by the metabase (objects are built directly, not through the PUT pipeline)")
    ck.assumptions.append("attribute-filtered search is C03; here only the unfiltered search membership is compared")
