"""C40 - epoch timers fire each tick exactly once per epoch, at the right time.

1. TLC exhaustive on spec/Timers.tla (all interleavings of Reset/Update over a small time range).
2. M->C: TLC -simulate behaviours of the same spec are executed on the real EpochTimers.
3. C->M: seeded random scripts (wider universe) are executed on the real EpochTimers.
   Both produce traces validated by TraceTimers.tla (same actions, fired list must match, every
   C40 invariant evaluated at every step)."""
import json, os
import vkit

LEVEL = "model_checking"


def run(ck):
    thorough = ck.tier == "thorough"
    r = ck.tlc_model("Timers", "Timers_thorough.cfg" if thorough else "Timers_quick.cfg", timeout=1500)
    ck.setcov("exhaustive", True)
    ck.setcov("constants", "MaxT=12 Durs={1,2,3,4,6,7}" if thorough else "MaxT=6 Durs={1,3,4}")
    binp = ck.gobuild("timers")
    scripts = os.path.join(ck.tmp, "scripts.ndjson")
    beh = []
    for s in range(3 if thorough else 1):
        beh += ck.tlc_scripts("TimersGen", "TimersGen.cfg", num=2000 if thorough else 300, depth=13, seed=ck.seed * 10 + s)
    rnd = os.path.join(ck.tmp, "rnd.ndjson")
    ck.harness(binp, ["gen", 20000 if thorough else 1500, 14, 20, rnd])
    beh += vkit.read_ndjson(rnd)
    if ck.replay:
        beh = [json.load(open(ck.replay))["replay"]["script"]]
    vkit.write_ndjson(scripts, beh)
    trace = os.path.join(ck.tmp, "trace.ndjson")
    ck.harness(binp, ["run", scripts, trace])
    v = ck.tlc_validate("TraceTimers", "TraceTimers.cfg", trace)
    ck.setcov("traces_validated_against_impl", len(beh))
    ev = vkit.read_ndjson(trace)
    ck.setcov("trace_events", len(ev))
    ck.setcov("distinct_fired_patterns", len({json.dumps(e.get("fired")) for e in ev}))
    ck.sample({"script": beh[0], "trace_head": ev[:6]})
    if not v.ok:
        # locate the script containing the rejected event
        pos = vkit.stuck_position(v) or 1
        idx = -1
        for i, e in enumerate(ev[:pos]):
            if e["ev"] == "Init":
                idx += 1
        ck.violation("real EpochTimers trace rejected by spec (%s %s) at event %d: %s" % (v.kind, v.name, pos, json.dumps(ev[pos - 1])),
                     {"script": beh[max(idx, 0)], "rejected_event": ev[pos - 1], "tlc": v.trace_text[-3000:]})
    ck.assumptions.append("handlers are pure recorders; calls are serialised by the timer's own mutex (one call = one action)")
