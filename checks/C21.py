"""C21 - erasure coding restores the payload from any sufficient subset of parts.

1. TLC exhaustive, spec/ECCodeMC.tla: abstract MDS code with the library-shaped Split/Encode on a memory
   model, ReconstructSome, Decode/ConcatDataParts, DecodeRange, DecodeIndexes: equal part lengths, padding,
   truncation, decoding from every erasure set (|E| <= m+1), partial reconstruction; closed forms
   DecodeDefined/ReconDefined proved equal to the operational definitions.
2. TLC exhaustive, spec/ECMulti.tla: modifyECParentObject (pooled buffer, capacity policy, several rules encoded
   from one buffer): no encoding is corrupted by a later one. The deviating capacity policies ("pool": no trimming,
   "alignFirst": rounded up to the first rule's data count) must produce counterexamples (the first is replayed on
   the real iec.Encode: demonstration, never a verdict); with ANY capacity the step machine agrees with the
   prediction operator MultiCorrupted(rules, L, spare capacity) used for record validation.
3. C->M record validation (spec/TraceECCode.tla): the real iec.Encode/Decode/DecodeRange/DecodeIndexes over
   rules 1-8/0-4 x lengths 0..4096 x erasure patterns, and the real modifyECParentObject over random rule
   sequences x lengths around the pool capacity AND over ALL ordered pairs of rules (+ triples) x EVERY length
   0..64 (thorough 0..256 + boundaries): per rule equal lengths, announced hashes match the parts after all rules
   were encoded, parts equal a fresh encoding, decoding with lost parts; the spare capacity actually handed to the
   EC library is recorded and the memory model must predict exactly the corrupted rules."""
import json, os
import vkit
import ec_util

LEVEL = "exploration"


def run(ck):
    thorough = ck.tier == "thorough"
    ck.tlc_model("ECCodeMC", "ECCodeMC_thorough.cfg" if thorough else "ECCodeMC_quick.cfg", timeout=2400)
    ck.tlc_model("ECMulti", "ECMulti_thorough.cfg" if thorough else "ECMulti_quick.cfg", timeout=2400)
    ck.setcov("constants", "ECCodeMC: k<=8 m<=4 L<=10 |E|<=m+1, ranges for k+m<=8; ECMulti: 10 rules, <=3 rules/policy, L<=9, pool cap 6"
              if thorough else "ECCodeMC: k<=4 m<=2 L<=5 |E|<=m+1, ranges for k+m<=5; ECMulti: 6 rules, <=2 rules/policy, L<=6, pool cap 5")
    binp = ck.gobuild("ec")
    # anti-vacuity of the multi-rule model: without the capacity trimming the model must break, and the
    # break must exist in the real library
    # the model must break for both deviating capacity policies ("pool": no trimming, "alignFirst": capacity rounded up
    # to the first rule's data count) and must agree with the one-shot prediction operator for EVERY capacity
    for cfg in ("ECMulti_noguard.cfg", "ECMulti_align.cfg"):
        ng = ck.tlc("ECMulti", cfg, timeout=900, count=False)
        if not (ng.kind == "invariant" and ng.name == "NoCrossCorruption"):
            raise vkit.Infra("ECMulti/%s did not produce the expected counterexample (%s %s)" % (cfg, ng.kind, ng.name))
    ck.tlc_model("ECMulti", "ECMulti_anycap.cfg", timeout=1200)
    hz = json.loads(ck.harness(binp, ["eccode-hazard", 1, 1, 2, 1, 1, 5]).stdout.strip().splitlines()[-1])
    ck.setcov("library_spare_capacity_hazard_reproduced_on_real_encode", bool(hz.get("corrupted")))
    if not hz.get("corrupted"):
        ck.notes.append("the real reedsolomon.Split no longer re-uses spare capacity: ECMulti's memory model is conservative")

    recs = os.path.join(ck.tmp, "eccode.ndjson")
    if ck.replay:
        rp = json.load(open(ck.replay))["replay"]
        rin = os.path.join(ck.tmp, "replay-in.json")
        rr = rp["record"]
        if rr.get("kind") == "mseq":
            i = next((j for j in range(len(rr["lens"])) if rr["bad"][j] or rr["gen"][j]), 0)
            rr = {"kind": "multi", "rules": rr["rules"], "len": rr["lens"][i]}
        json.dump(rr, open(rin, "w"))
        ck.harness(binp, ["eccode-replay", rin, recs])
    else:
        ck.harness(binp, ["eccode", recs], timeout=1800)
    data = vkit.read_ndjson(recs)
    kinds = {}
    classes = set()
    for r in data:
        kinds[r["kind"]] = kinds.get(r["kind"], 0) + 1
        if r["kind"] == "mseq":
            classes.add(("mseq", tuple(x[0] for x in r["rules"])))
        elif r["kind"] == "multi":
            classes.add(("multi", len(r["rules"]), min(r["len"], 1025) // 512, len({tuple(x) for x in r["rules"]}) < len(r["rules"])))
        else:
            k = r["k"]
            lc = "0" if r["len"] == 0 else ("<k" if r["len"] < k else ("div" if r["len"] % k == 0 else "nondiv"))
            classes.add((r["kind"], k, r["m"], lc, len(r.get("miss", [])), r.get("ok", True)))
    ck.setcov("evaluations", len(data))
    ck.setcov("records_by_kind", kinds)
    ck.setcov("traces_validated_against_impl", len(data))
    ck.setcov("distinct_nontrivial", len(classes))
    ck.setcov("rule", "TraceECCode.tla: per record Prop (equal lengths, hashes match, |miss|<=m => decode ok and equal, "
                      "requested parts restored exactly, multi-rule encodings equal fresh encodings) and closed forms "
                      "DecodeDefined/ReconDefined/PartLen proved on the model by ECCodeMC")
    # measured coverage of erasure patterns with <= m missing per rule
    seen = {}
    for r in data:
        if r["kind"] == "dec" and len(r["miss"]) <= r["m"]:
            seen.setdefault((r["k"], r["m"]), set()).add(tuple(r["miss"]))
    from math import comb
    full = [km for km, s in seen.items() if len(s) == sum(comb(km[0] + km[1], e) for e in range(km[1] + 1))]
    ck.setcov("rules_with_every_erasure_pattern_le_parity", "%d of %d" % (len(full), len(seen)))
    for want in ("dec", "rng", "multi"):
        for r in data:
            if r["kind"] == want and r.get("len", 0) > 8 and (want == "multi" or r["miss"]):
                ck.sample(r)
                break
    ms = [r for r in data if r["kind"] == "mseq"]
    ck.setcov("multi_rule_ordered_pairs", sum(1 for r in ms if len(r["rules"]) == 2))
    ck.setcov("multi_rule_triples", sum(1 for r in ms if len(r["rules"]) == 3))
    ck.setcov("multi_rule_encodings_checked", sum(len(r["lens"]) for r in ms) + kinds.get("multi", 0))
    ck.setcov("multi_rule_lengths", "every length 0..%d%s for every ordered pair" % (max(ms[0]["lens"][:257]) if ms else 0, " + boundaries" if thorough else ""))
    ck.setcov("spare_capacity_observed_max", max([max(r["slack"]) for r in ms] + [r.get("slack", 0) for r in data if r["kind"] == "multi"] + [0]))
    if not ck.replay and (len(ms) < 500 or len(kinds) < 6 or len(seen) < 40 or len(full) < 25):
        raise vkit.Infra("vacuous run: kinds=%s rules=%d" % (kinds, len(seen)))
    bad = ec_util.validate_chunks(ck, "TraceECCode", "TraceECCode.cfg", recs)
    if bad:
        idx, line, v = bad
        rec = json.loads(line)
        if v.kind == "invariant" and v.name == "PropOnRecords":
            brief = line.strip()[:600]
            if rec.get("kind") == "mseq":
                brief = "ordered rules %s: %s" % (rec["rules"], rec.get("why", ""))
            ck.violation("real EC code breaks C21 on record %d: %s" % (idx + 1, brief), {"record": rec})
        elif v.kind == "invariant" and v.name == "CodeIsSpec":
            raise vkit.Infra("real EC outcome differs from the spec's closed form while the property holds on the record "
                             "(model out of date, not a verdict): %s" % line.strip()[:600])
        else:
            raise vkit.Infra("record validation failed: %s %s at record %d" % (v.kind, v.name, idx + 1))
    ck.assumptions.append("GF(2^8) Reed-Solomon arithmetic of klauspost/reedsolomon is trusted: the spec decides WHEN decoding must "
                          "succeed and WHAT must come back; byte equality is computed by the harness")
    ck.assumptions.append("sha256 of a part computed by the harness is the reference for 'announced hashes match'")
    ck.assumptions.append("modifyECParentObject is driven through the verif shim putsvc.VerifEncodeECParent with the reader shape the "
                          "SDK slicer passes (io.MultiReader over bytes.Readers)")
