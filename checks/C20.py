"""C20 - engine reads find every stored object despite shard order, modes and failures.

Reference (declarative, in Engine.tla): Ref(o) = o has a blob on some shard whose reads do not fail AND no removal of o
was accepted (tombstone broadcast accepted, Delete / Drop returned nil) AND o is not expired.  Property: Get(o) = OK <=> Ref(o)
and Head(o) = OK <=> Ref(o) whenever no broadcast is in flight.

1. TLC exhaustive (Engine.tla): code as is => every disagreement belongs to a listed class (C20Classified); with all shards
   read-write (read faults allowed) => no disagreement at all (C20Strict).
2. M->C: TLC counterexamples for the listed classes and TLC -simulate behaviours (puts incl. an EC part whose shard choice
   follows the parent ID, tombstones, Delete, Drop, GC, epochs, modes rw/ro/degraded, read and write faults) run on a real
   engine; 3. traces validated by TraceEngine.tla (results, Get/Head/IsLocked of every object, per-shard summary after every
   step); the reference property is evaluated on every recorded state."""
import os
import sys

import vkit

sys.path.insert(0, os.path.dirname(os.path.abspath(vkit.__file__)))
import engine_util as eu  # noqa: E402

LEVEL = "model_checking"
OPS = ["Put", "Bcast", "Delete", "Drop", "GC", "SetMode", "FailGet", "FailPut", "Epoch"]
MODES = ["rw", "ro", "dro"]
WHAT = {"degraded": "a removed (GC-marked / tombstoned elsewhere) object is served while some shard is degraded",
        "partial-removal": "an accepted removal could not be recorded on a shard holding a copy"}


def run(ck):
    thorough = ck.tier == "thorough"
    wops = ("Put", "Bcast", "Delete", "GC", "SetMode")
    wit = [dict(scenario="degraded-read", cat="c20s", ops=wops, modes=MODES, inflight=1),
           dict(scenario="partial-removal", cat="c20s", ops=wops, modes=MODES, inflight=1),
           dict(scenario="two-copies-removed", cat="c20s", ops=wops + ("FailGet",), modes=MODES, inflight=1),
           # the shard that knows the tombstone follows a degraded one; Put of an object whose tombstone only a later shard has
           dict(scenario="removed-behind-degraded", cat="c20s", ops=wops, modes=MODES, inflight=1),
           dict(scenario="put-after-tombstone", cat="c20s", ops=wops, modes=MODES, inflight=1)]
    if thorough:
        wit += [dict(scenario="second-pass", cat="c20", ops=wops + ("FailGet",), modes=MODES, inflight=1),
                dict(scenario="degraded-read", cat="c20s", ns=3, ops=wops, modes=MODES, inflight=1),
                dict(scenario="partial-removal", cat="c20s", ns=3, ops=wops, modes=MODES, inflight=1)]
        gens = [dict(ns=ns, cat="c20g", ops=OPS, modes=MODES, genlen=gl, num=num, seed=ck.seed * 100 + ns * 10 + k, inflight=1)
                for k, (ns, num, gl) in enumerate([(2, 500, 24), (3, 250, 26)])]
        cfgs = ["Engine_c20_thorough.cfg", "Engine_c20_thorough_exp.cfg", "Engine_c20_thorough3.cfg", "Engine_c20_quick_strict.cfg"]
        ck.setcov("constants", "2 shards: plain object + EC part + tombstone, modes rw/ro/dro, read and write faults; expiring object + tombstone, "
                               "epochs 0..2; 3 shards: object + tombstone, modes rw/dro, read faults")
    else:
        gens = [dict(ns=2, cat="c20g", ops=OPS, modes=MODES, genlen=20, num=60, seed=ck.seed * 100 + 20, inflight=1)]
        cfgs = ["Engine_c20_quick.cfg", "Engine_c20_quick_strict.cfg"]
        ck.setcov("constants", "2 shards, 1 object + tombstone, Delete/Drop/GC, modes rw/ro/dro, read and write faults")
    scripts, per, hit = eu.run_property(ck, "C20", cfgs, wit, gens, WHAT, procs=4 if not thorough else 6, par=4 if not thorough else 3)
    if not ck.replay and not ck.violations:
        modes = {sh["mode"] for p in per for e in p for sh in e.get("obs", {}).get("sh", [])}
        if "dro" not in modes or "ro" not in modes:
            raise vkit.Infra("vacuous run: degraded / read-only modes were not exercised")
    ck.assumptions.append("per-shard metabase behaviour is summarised in Engine.tla and validated on every step through the per-shard projection")
    ck.assumptions.append("degraded mode = DEGRADED_READ_ONLY (DEGRADED read-write is excluded: writes there are not indexed until a resync); "
                          "write-cache disabled; error threshold 0; no shard is added or removed; once an object is stored again after an accepted "
                          "removal (or a removal failed half-way) its per-object status is undetermined and only conformance is checked; split objects are not in the catalogue (EC part is)")
