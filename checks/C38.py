"""C38 - network map admission and epoch ticks follow the rules.

1. TLC exhaustive on spec/Netmap.tla:
   - Netmap_adm.cfg: every abstract admission input (alphabet state x script test-run result x
     conversion x every validator configuration x every verdict vector): the code-shaped decision
     AdmitCode equals the declarative AdmitRef and implies the listed property;
   - Netmap_tick_*.cfg: all histories of NewEpoch notifications / timer ticks / membership changes:
     an alphabet node asks for exactly chainEpoch+1 at a tick, nobody else ever asks.
2. Admission records: seeded candidate descriptors (states, addresses, LOCODE, private domains, scripted
   external verdict) under every validator configuration, valid/faulting/failing script test runs, alphabet /
   non-alphabet / failing index lookup. Each candidate goes as a REAL notary request (built by the real
   storage-node side client) through the REAL listener -> preparator -> parser -> netmap processor -> morph
   client; approval = submitnotaryrequest with this node's signature seen by the fake RPC node. The abstract
   input is computed with the real conversion and each real validator ALONE. TLC validates every record
   against AdmitProp (property; a failure is a VIOLATION) and AdmitCode (equality; a failure in the other
   direction is model drift = exit 2).
3. Epoch histories: TLC -simulate behaviours of NetmapGen (M->C) plus seeded random histories are executed
   on the REAL netmap processor + REAL Server epoch state/indexer; the trace (newEpoch arguments, counter after
   every step) is validated by TraceNetmap (C->M) with TickRule evaluated at every step."""
import json, os
import vkit
import irproc_util as iu

LEVEL = "model_checking"


def run(ck):
    thorough = ck.tier == "thorough"
    ck.tlc_model("Netmap", "Netmap_adm.cfg", timeout=600, workers=4, heap="2g")
    ck.tlc_model("Netmap", "Netmap_tick_thorough.cfg" if thorough else "Netmap_tick_quick.cfg", timeout=900, workers=4, heap="2g")
    ck.setcov("exhaustive", True)
    ck.setcov("constants", "admission: 3 alpha x 3 script x 2 parse x 32 configs x 32 verdict vectors; ticks: MaxEpoch=%d" % (40 if thorough else 4))
    binp = ck.gobuild("irproc")
    rp = json.load(open(ck.replay))["replay"] if ck.replay else None

    # ---------------------------------------------------------------- admission records
    if rp is None or rp.get("kind") == "adm":
        cases = os.path.join(ck.tmp, "adm_cases.ndjson")
        if rp:
            vkit.write_ndjson(cases, [rp["case"]])
        else:
            ck.harness(binp, ["c38admgen", cases])
        recs_p = os.path.join(ck.tmp, "adm.ndjson")
        ck.harness(binp, ["c38adm", cases, recs_p], timeout=1500)
        recs = vkit.read_ndjson(recs_p)
        v = ck.tlc_validate("TraceNetmap", "TraceNetmap_adm.cfg", recs_p)
        if not v.ok:
            pos = iu.last_l(v) or 1
            r = recs[pos - 1]
            ck.violation("netmap candidate approved against the rules (record %d): in=%s out=%s" % (pos, json.dumps(r["in"]), json.dumps(r["out"])),
                         {"kind": "adm", "case": r["case"], "record": r, "tlc": v.trace_text[-2000:]})
        elif iu.drifts(v):
            pos = iu.drifts(v)[0]
            raise vkit.Infra("model drift (not a verdict): the code refuses a candidate the model approves, record %d: %s" % (pos, json.dumps(recs[pos - 1])))
        approved = sum(1 for r in recs if r["out"]["approve"])
        classes = {json.dumps([r["in"]["alpha"], r["in"]["script"], r["in"]["parse"], r["in"]["cfg"], r["in"]["verdict"]], sort_keys=True) for r in recs}
        ck.setcov("admission_records", len(recs))
        ck.setcov("admission_approved", approved)
        ck.setcov("admission_distinct_abstract_inputs", len(classes))
        ck.setcov("admission_configs_seen", len({tuple(r["in"]["cfg"]) for r in recs}))
        ck.add("traces_validated_against_impl", len(recs))
        ck.sample({"admission_record": recs[0]})
        if not rp:
            if approved < 20 or len(recs) - approved < 20:
                raise vkit.Infra("vacuous admission run: %d approved of %d" % (approved, len(recs)))
            if len({tuple(r["in"]["cfg"]) for r in recs}) < 32:
                raise vkit.Infra("not every validator configuration was exercised")

    # ---------------------------------------------------------------- epoch tick histories
    if rp is None or rp.get("kind") == "tick":
        scripts = os.path.join(ck.tmp, "tick_scripts.ndjson")
        if rp:
            beh = [rp["script"]]
        else:
            beh = []
            for s in range(3 if thorough else 1):
                beh += ck.tlc_scripts("NetmapGen", "NetmapGen.cfg", num=150 if thorough else 25, depth=15, seed=ck.seed * 10 + s)
            rnd = os.path.join(ck.tmp, "tick_rnd.ndjson")
            ck.harness(binp, ["c38gen", 4000 if thorough else 300, 16, rnd])
            beh += vkit.read_ndjson(rnd)
        vkit.write_ndjson(scripts, beh)
        trace = os.path.join(ck.tmp, "tick_trace.ndjson")
        ck.harness(binp, ["c38tick", scripts, trace], timeout=1500)
        ev = vkit.read_ndjson(trace)
        v = ck.tlc_validate("TraceNetmap", "TraceNetmap_tick.cfg", trace)
        ck.add("traces_validated_against_impl", len(beh))
        ck.setcov("tick_histories", len(beh))
        ck.setcov("tick_events", len(ev))
        ck.setcov("tick_newepoch_calls", sum(len(e.get("calls", [])) for e in ev))
        ck.sample({"tick_script": beh[0], "trace_head": ev[:5]})
        if not rp and ck.cov["tick_newepoch_calls"] < 10:
            raise vkit.Infra("vacuous tick run: no newEpoch call observed")
        if not v.ok:
            pos = iu.last_l(v) or 1
            idx = -1
            for e in ev[:pos]:
                if e["ev"] == "Init":
                    idx += 1
            ck.violation("real netmap processor history rejected by spec (%s %s) at event %d: %s" % (v.kind, v.name, pos, json.dumps(ev[pos - 1])),
                         {"kind": "tick", "script": beh[max(idx, 0)], "rejected_event": ev[pos - 1], "tlc": v.trace_text[-2500:]})
    ck.assumptions += [
        "the fake Neo RPC node (rpcclient.NewInternal) answers reads and records sendrawtransaction/submitnotaryrequest; neo-go client code, signing and the morph client are real",
        "the availability/external validators (need a live peer) are represented by a scripted validator; state, structure, private-domains (fake NNS) and LOCODE validators are the real ones",
        "per-validator verdicts of the abstract input are obtained by running each real validator alone on the converted node info",
        "processor worker pools are drained through the verif shim VerifDrain (release+reboot of the ants pool)",
    ]
