"""C42 - upgrading an older metadata database (formats 9, 10 -> 11) preserves every object's status and
an interrupted upgrade can be resumed without losing information.

spec/MetaMigration.tla: one action per bbolt transaction of the upgrade (Mig9, HomoTx, AssocTx, Finish) plus
Open / Cancel / Fail / Crash / Gone(container); state = per association the formats in which its attr->id
and id->attr keys exist, homomorphic index keys, counters-vs-recount, version, the in-memory resume cursor.
1. TLC exhaustive over ALL small worlds: every association is present in exactly one format at every state
   (so at every state in which the process may die), after Finish everything that still exists is in the
   current format and counters are the recount; liveness: every schedule with finitely many interrupts
   reaches version 11.  The as-is variant of the model (deviation switch BugCursorLeak) must show the
   known defect.
2. M->C: interrupt schedules simulated by TLC are executed on the real meta.DB Open+Init over old-format
   files that were produced from databases written by the real code (random object histories over the
   Family-A catalogues + thousands of padding associations so that the real 1000-key batches line up with
   the model's batches), control through meta.WithInitContext / meta.WithContainers only.
3. C->M: every executed event is recorded with the abstract state projected from the file with raw bbolt
   reads (TraceMetaMigration.tla, strict), and at the end of each upgrade the full public-API view
   (Exists/Get incl. restored header and attributes/IsLocked/ResolveECPart, listing, expired, garbage,
   searches with attribute values, counters) must equal the one recorded before the file was rewritten."""
import json, os
import metamig_util as mu
import vkit

LEVEL = "model_checking"


def classify(ck, jobs_by_id, evs, tag):
    """evs = the events of ONE job which the repaired model rejected. Returns True if it was the known finding."""
    job = jobs_by_id.get(evs[0].get("job"))
    replay = {"job": job}
    ra, da = mu.strict(ck, evs, "TraceMetaMigration_asis.cfg", "asis-" + tag)
    if ra.ok and da == len(evs) + 1 and "KF C42-cursor-leak" in ra.out:
        fin = [e for e in evs if e["ev"] in ("Finish",)]
        ck.report(mu.KF_LEAK,
                  "the container of the resume-cursor bucket was removed between two transactions of the association pass; "
                  "the real upgrade then skipped old-format associations of the NEXT (still existing) container and set version 11: %s"
                  % json.dumps(mu.brief(fin[-1]) if fin else {})[:1500], replay)
        return True
    ro = mu.observe(ck, evs, tag)
    if ro.kind == "invariant":
        pos = (vkit.stuck_position(ro) or 2) - 1
        ev = evs[max(pos - 1, 0)]
        replay["event_index"] = pos
        replay["event"] = mu.brief(ev)
        ck.violation("property formula %s is false on a state recorded from the real upgrade code (job %s, event %d %s): %s" % (
            ro.name, evs[0].get("job"), pos, ev.get("ev"), json.dumps(mu.brief(ev))[:1500]), replay)
        return False
    d = da
    raise vkit.Infra("the real run diverges from the model on something the property does not decide (job %s, as-is depth %s): %s"
                     % (evs[0].get("job"), d, json.dumps([mu.brief(e) for e in evs[max(0, (d or 1) - 3):(d or 1) + 1]])[:3000]))


def validate(ck, jobs, events):
    jobs_by_id = {j["id"]: j for j in jobs}
    ranges = mu.split_jobs(events)
    if len(ranges) != len(jobs):
        raise vkit.Infra("harness produced %d traces for %d jobs" % (len(ranges), len(jobs)))
    start = 0          # index of the first job not yet validated
    rounds = 0
    while start < len(ranges):
        rounds += 1
        if rounds > 40:
            raise vkit.Infra("too many rejected jobs")
        evs = events[ranges[start][0]:]
        r, d = mu.strict(ck, evs, "TraceMetaMigration.cfg", "r%d" % rounds)
        if r.ok and d == len(evs) + 1:
            return
        # event d (1-based, relative) is the first one no branch of the repaired model could take
        absidx = ranges[start][0] + d - 1
        k = max(i for i, (a, b) in enumerate(ranges) if a <= absidx)
        a, b = ranges[k]
        ck.log("repaired model rejects job %s at its event %d (%s)" % (events[a].get("job"), absidx - a + 1, events[absidx]["ev"]))
        classify(ck, jobs_by_id, events[a:b], "j%d" % k)
        if ck.violations:
            return
        start = k + 1


def run(ck):
    thorough = ck.tier == "thorough"
    binp = ck.gobuild("metamig")
    if ck.replay:
        job = json.load(open(ck.replay))["replay"]["job"]
        jp, tp = os.path.join(ck.tmp, "jobs.ndjson"), os.path.join(ck.tmp, "trace.ndjson")
        vkit.write_ndjson(jp, [job])
        ck.harness(binp, ["run", mu.CATALOGS, jp, tp], timeout=1800)
        events = vkit.read_ndjson(tp)
        ck.setcov("traces_validated_against_impl", 1)
        validate(ck, [job], events)
        return

    # ---- 1. the model
    ck.tlc_model("MetaMigrationMC", "MetaMigration_thorough.cfg" if thorough else "MetaMigration_quick.cfg", timeout=3000)
    if thorough:
        ck.tlc_model("MetaMigrationMC", "MetaMigration_thorough3.cfg", timeout=3000)
    ck.tlc_model("MetaMigrationMC", "MetaMigration_live_thorough.cfg" if thorough else "MetaMigration_live_quick.cfg", timeout=3000)
    ck.setcov("exhaustive", True)
    ck.setcov("constants", "safety: all worlds with <=2 containers x <=3 associations x <=2 homomorphic entries, budgets 1..3, formats 9 and 10, "
              "<=3 interrupts, and 3 containers x <=2 associations, budget 2; liveness (termination under WF): <=2 containers x <=2 "
              "associations, budgets 1..2, <=2 interrupts" if thorough else
              "safety: all worlds with <=2 containers x <=2 associations x <=1 homomorphic entry, budgets 1..2, formats 9 and 10, <=2 interrupts; "
              "liveness (termination under WF): <=2 containers x <=2 associations, budget 1, <=1 interrupt")
    if thorough:
        # (quick: the exhaustive as-is schedule generation below plays the same role)
        ra = ck.tlc("MetaMigrationMC", "MetaMigration_asis.cfg", timeout=900, count=False)
        if not (ra.kind == "invariant" and ra.name == "Upgraded"):
            raise vkit.Infra("the as-is model (BugCursorLeak) is expected to violate Upgraded, got %s %s" % (ra.kind, ra.name))

    # ---- 2. schedules (M->C)
    # scaled worlds: counts in units of 1000/budget real keys, so that real batches = model batches
    if thorough:
        scaled = [dict(nc=2, nA=[11, 1], nH=[1, 1], budget=10, gone0="{{}}", n=20, cat="Q"),
                  dict(nc=2, nA=[3, 1], nH=[1, 2], budget=2, gone0="{{}, {2}}", n=16, cat="S"),
                  dict(nc=2, nA=[1, 2], nH=[3, 0], budget=2, gone0="{{}}", n=12, cat="L"),
                  dict(nc=3, nA=[5, 2, 6], nH=[1, 3, 1], budget=4, gone0="{{}, {1}}", n=14, cat="Q")]
    else:
        scaled = [dict(nc=2, nA=[11, 1], nH=[1, 1], budget=10, gone0="{{}}", n=4, cat="Q")]
    hist_len = 16
    jobs = []
    shapes = set()

    def hist_for(cat, n):
        hp = os.path.join(ck.tmp, "hist-%s-%d.ndjson" % (cat, len(jobs)))
        ck.harness(binp, ["gen", mu.CATALOGS, cat, n, hist_len, hp])
        return [h["hist"] for h in vkit.read_ndjson(hp)]

    small = dict(nc=2, nA=[1, 1], nH=[1, 1], budget=3, gone0="{{}, {2}}")
    pool = ck.tlc_scripts("MetaMigrationGen", "MetaMigrationGen.cfg", num=(500 if thorough else 350) * (len(scaled) + 1), depth=60,
                          seed=ck.seed * 100 + 1, files={"MetaMigrationGenW.tla": mu.genw_module(scaled + [small])})
    # the finding's scenario from the as-is model (the repaired code must pass it as well)
    leakpool = mu.all_behaviours(ck, "MetaMigrationGen", "MetaMigrationGen_asis.cfg", {"MetaMigrationGenW.tla": mu.genw_module(scaled)})
    leakpool = list({json.dumps(b, sort_keys=True): b for b in leakpool}.values())
    leakpool.sort(key=lambda b: (len(b["steps"]), -b["w"]["ver0"], json.dumps(b, sort_keys=True)))
    # systematic part: EVERY behaviour with at most one interrupt and no container removal (exhaustive BFS of the
    # generator): the uninterrupted upgrade (a > 1000-association container crosses batch boundaries with the
    # in-memory cursor only), a cancellation after every transaction, a crash at every gate (incl. right after
    # the version writes of Mig9 / of anything that writes a version early), an already cancelled context
    single = mu.all_behaviours(ck, "MetaMigrationGen", "MetaMigrationGen_single.cfg", {"MetaMigrationGenW.tla": mu.genw_module(scaled)})
    single = [b for b in single if not b["w"]["gone0"] and (b["w"]["ver0"] == 9 or b["w"]["drift"][0])
              and not b["steps"][-1].get("cc")]
    single = list({json.dumps(b, sort_keys=True): b for b in single}.values())
    single.sort(key=lambda b: (len(b["steps"]), json.dumps(b, sort_keys=True)))
    if not any(all(e["ev"] not in ("Cancel", "Crash", "Fail") and not e.get("cc") for e in b["steps"]) for b in single):
        raise vkit.Infra("no uninterrupted schedule generated")
    leakjobs = []
    n_single = 0
    for sw in scaled:
        key = json.dumps([sw["nA"], sw["nH"], sw["budget"]])
        unit = 1000 // sw["budget"]
        assert unit * sw["budget"] == 1000
        h = hist_for(sw["cat"], 1)[0]
        sys_b = [x for x in single if mu.world_key(x) == key]
        n_single += len(sys_b)
        for b in sys_b + mu.select([x for x in pool if mu.world_key(x) == key], sw["n"]):
            jobs.append(mu.mk_job(len(jobs) + 1, sw["cat"], h, b, unit))
            shapes.add(json.dumps(b["steps"]))
        for b in [x for x in leakpool if mu.world_key(x) == key][:2 if thorough else 1]:
            leakjobs.append((sw["cat"], h, b, unit))
    n_scaled = len(jobs)
    if not leakjobs:
        raise vkit.Infra("the as-is model produced no cursor-leak schedule for the scaled worlds")

    # small worlds: random object histories over the catalogues, counts are whatever the history leaves
    plan = [("T", 8), ("R", 6), ("Q", 10), ("L", 8), ("S", 10), ("R2", 6)]
    if thorough:
        plan = [(c, n * 8) for c, n in plan]
    key = json.dumps([small["nA"], small["nH"], small["budget"]])
    sel = mu.select([x for x in pool if mu.world_key(x) == key], 400 if thorough else 60)
    k = 0
    for cat, n in plan:
        for h in hist_for(cat, n):
            b = sel[k % len(sel)]
            k += 1
            jobs.append(mu.mk_job(len(jobs) + 1, cat, h, b, 0))
            shapes.add(json.dumps(b["steps"]))
    # the finding's scenario goes last (so that one validation run covers everything before it)
    for cat, h, b, unit in leakjobs:
        # free tail: an as-is schedule executed on a repaired tree needs another number of batches after the removal
        jobs.append(mu.mk_job(len(jobs) + 1, cat, h, b, unit, free=True))
        shapes.add(json.dumps(b["steps"]))

    # ---- 3. execute on the real code, validate
    jp, tp = os.path.join(ck.tmp, "jobs.ndjson"), os.path.join(ck.tmp, "trace.ndjson")
    vkit.write_ndjson(jp, jobs)
    ck.harness(binp, ["run", mu.CATALOGS, jp, tp], timeout=3000)
    events = vkit.read_ndjson(tp)
    ck.setcov("traces_validated_against_impl", len(jobs))
    ck.setcov("trace_events", len(events))
    ck.setcov("scaled_jobs_with_1000_key_batches", n_scaled + len(leakjobs))
    ck.setcov("distinct_schedules", len(shapes))
    ck.setcov("systematic_single_interrupt_schedules_on_1000_key_worlds", n_single)
    ck.setcov("upgrades_completed", sum(1 for e in events if e["ev"] == "Finish"))
    ck.setcov("interrupts_executed", {x: sum(1 for e in events if e["ev"] == x) for x in ("Cancel", "Crash", "Gone", "Fail")})
    ck.setcov("histories_with_counter_drift_before_upgrade", sum(1 for e in events if e["ev"] == "Init" and e.get("preDrift")))
    ck.setcov("max_associations_in_a_container", max(max(e["w"]["nA"]) for e in events if e["ev"] == "Init"))
    a, b = mu.split_jobs(events)[0]
    ck.sample({"job": {k2: v for k2, v in jobs[0].items() if k2 != "hist"}, "trace": [mu.brief(e) for e in events[a:b]][:8]})
    a, b = mu.split_jobs(events)[n_scaled]
    ck.sample({"job": jobs[n_scaled], "trace": [mu.brief(e) for e in events[a:b]][:6]})
    validate(ck, jobs, events)
    ck.assumptions.append("old-format files are produced from databases written by the current code by raw bbolt edits that follow "
                          "VERSION.md / version.go / the repository's migration tests (base58 __NEOFS__ASSOCIATE values in both key "
                          "directions, homomorphic-hash index keys, counters in the shard-info and container-volume buckets for format 9); "
                          "no database written by a historical binary is available offline")
    ck.assumptions.append("the reference for counters is the code's own recount (SyncCounters) of the pre-upgrade database: the upgrade "
                          "resyncs counters on purpose; drift between kept and recounted counters before the upgrade is C02's subject")
    ck.assumptions.append("the context is read by the code only at the top of the transaction loop, so cancelling while transaction k is "
                          "held at its gate = cancelling after transaction k; a crash between two transactions = the file copied at the gate "
                          "(bbolt commits are atomic); crashes inside Mig9/Finish-adjacent windows without a gate are covered by the model only")
    ck.assumptions.append("containers reported as removed by the container source are outside the preservation claim (the code skips them)")
