"""C45 - while the node is in maintenance every client object operation is refused with the maintenance
status and touches neither the ACL components, nor the local storage, nor other nodes.

1. TLC explores spec/ObjectRPC.tla exhaustively (all request classes x all admissible event orders of the
   pipeline model, Strict = TRUE) and proves C45_MaintenanceRefusal (and the C29 invariants) on the model.
2. The Go harness (cmd rpc) builds a REAL objectsvc.Server on real get/put/delete/ACL services whose leaves
   are recording fakes, enumerates the RPCs of the generated ObjectServiceServer interface by reflection and
   calls every client operation with requests that are valid in every respect - once with maintenance off
   (control: the very same request reaches the handlers, the storage, other nodes and is answered OK) and once
   with maintenance on; PUT streams are also driven with maintenance switched on in mid-stream (after the heading /
   after the first chunk was taken by the server); SEARCH also with degenerate queries that the query preprocessor
   answers without any lookup.
3. TLC judges the recorded events: C45_MaintenanceRefusal must hold in every recorded state (Strict = FALSE),
   and the whole trace must be a behaviour of the pipeline model (Strict = TRUE; a rejection there alone is a
   model drift = exit 2, not a verdict)."""
import json
import os

import rpc_util
import vkit

LEVEL = "exploration"
CLS_FIELDS = ["sig", "maint", "body", "tok", "basic", "ereq", "ehdr", "cnr", "obj", "ttl", "as", "flags", "peer", "maint_at"]


def run(ck):
    ck.tlc_model("ObjectRPC", "ObjectRPC_model.cfg" if ck.tier == "thorough" else "ObjectRPC_quick.cfg", timeout=1200, workers=4)
    binp = ck.gobuild("rpc")
    trace, callsp = os.path.join(ck.tmp, "obj-trace.ndjson"), os.path.join(ck.tmp, "obj-calls.ndjson")
    if ck.replay:
        p = ck.harness(binp, ["obj-replay", os.path.abspath(ck.replay), trace, callsp])
    else:
        p = ck.harness(binp, ["obj", "c45", trace, callsp])
    summ = json.loads(p.stdout.strip().splitlines()[-1])
    calls = rpc_util.load_calls(callsp, trace)
    ck.setcov("rpc_methods", summ.get("methods"))
    unmodelled = sorted(m for m, s in (summ.get("methods") or {}).items() if s == "unmodelled")
    if unmodelled:
        ck.notes.append("unmodelled RPCs of ObjectServiceServer (no driver, NOT checked): %s" % ", ".join(unmodelled))
    ck.setcov("unmodelled", unmodelled)

    client_ops = {"Get", "Head", "GetRange", "Put", "Delete", "SearchV2"}
    on = [c for c in calls if c["cls"]["maint"] and c["m"] in client_ops]
    flips = [c for c in calls if c["cls"].get("maint_at") and c["m"] in client_ops]
    on += flips
    off = [c for c in calls if not c["cls"]["maint"] and not c["cls"].get("maint_at") and c["m"] in client_ops]
    findings = rpc_util.judge(ck, "TraceObjectRPC", "TraceObjectRPC_c45.cfg", "TraceObjectRPC_strict.cfg", calls, tag="c45")
    for f in findings:
        c = f["call"]
        ck.violation("C45: %s on a node in maintenance: invariant %s false after event #%d %s; call events: %s" % (
            c["m"], f["invariant"], f["event_index"], json.dumps(f["event"]), json.dumps(c["events"])),
            {"calls": [{"m": c["m"], "cls": c["cls"]}], "events": c["events"], "raw": c.get("raw"), "invariant": f["invariant"], "tlc": f["tlc"]})

    if not ck.replay and not findings:
        # anti-vacuity (not a verdict; after the judgement so that it cannot mask a violation): every maintenance-on request is valid in every respect, i.e. the same request with
        # maintenance off reaches handlers / storage / other nodes and succeeds
        for c in off:
            kinds = {e.get("a") for e in c["events"] if e["ev"] == "Eff"}
            rep = c["events"][-1]
            degenerate = any(f in c["cls"].get("flags", "") for f in ("q_notpresent", "q_numgt"))   # answered without any lookup
            if (not kinds and not degenerate) or rep["code"] >= 1024 or rep["grpc"]:
                raise vkit.Infra("control call is not served (vacuous class): %s -> %s" % (json.dumps({"m": c["m"], "cls": c["cls"]}), json.dumps(c["events"])))
        missing = client_ops - {c["m"] for c in on}
        if missing or len(on) < 6:
            raise vkit.Infra("no maintenance-on call for %s" % sorted(missing))
        if len(flips) < 4 or not all(any(e["ev"] == "Flip" for e in c["events"]) for c in flips):
            raise vkit.Infra("mid-stream maintenance classes of PUT are missing (%d)" % len(flips))
        if not any("q_notpresent" in c["cls"].get("flags", "") and c["cls"]["maint"] for c in calls):
            raise vkit.Infra("degenerate search queries under maintenance are missing")
        eff_kinds = sorted({e.get("a") for c in off for e in c["events"] if e["ev"] == "Eff"})
        ck.setcov("control_effect_kinds", eff_kinds)
        if not {"handler", "read", "write", "conn", "remote"} <= set(eff_kinds):
            raise vkit.Infra("control calls do not exercise all effect kinds: %s" % eff_kinds)

    ck.setcov("traces_validated_against_impl", len(calls))
    ck.setcov("evaluations", len(calls))
    ck.setcov("maintenance_on_calls", len(on))
    ck.setcov("maintenance_off_control_calls", len(off))
    ck.setcov("distinct_nontrivial", len({rpc_util.abstract_class(c, CLS_FIELDS) for c in calls}))
    ck.setcov("rule", "ObjectRPC!C45_MaintenanceRefusal evaluated by TLC in every state of the recorded trace of every call; "
                      "the trace must also be a behaviour of the pipeline model ObjectRPC (Strict)")
    ck.setcov("trace_events", sum(len(c["events"]) for c in calls))
    for c in (on[:2] + off[:1]):
        ck.sample({"m": c["m"], "cls": c["cls"], "events": c["events"]})
    ck.assumptions.append("request class (cls) is the harness's ground truth about how the request was built; signature / token cryptography is trusted")
    ck.assumptions.append("Head and SearchV2 are wired to HeadBuffered / SearchV2Buffered as in cmd/neofs-node/object.go (the bare methods panic by design)")
    ck.assumptions.append("effects are observed at the leaves: blobstor decorator, putsvc ObjectStorage, objectsvc.Storage, ClientConstructor, fake peer node, gRPC send interceptor; "
                          "metabase-only reads are not observable")
    ck.assumptions.append("static half (every present and future handler checks maintenance first) is not decided: RPCs are enumerated by reflection, a new RPC is reported as unmodelled")
