"""C15 - after a crash at any step boundary of put / delete / GC / flush, every object the metadata reports as
available is fully readable from the blobstor or the write-cache.

1. TLC exhaustive on spec/Shard.tla at micro-step level (a crash is possible after EVERY component call): invariant
   C15ModKF holds in every reachable state, hence after a crash + restart at any step boundary.  The as-is model
   admits three known-finding classes, all "a STORED record loses its only data copy while the record stays"
   (kf15): wcfirst = deleteObjs drops the write-cache copy before the metabase record (+ crash), marklocked = forced
   MarkGarbage drops the cache copy at once, putrollback = the rollback of a rejected re-put deletes the data of the
   earlier put; the record is available at once (redundant copy, direct delete, locked) or becomes so when a LOCK is
   stored later.  Everything else (put order, flush order, blob-after-metadata in deleteObjs ...) is strict.
2. TLC -simulate (spec/ShardGen.tla) behaviours with crash points and blobstor faults + hand-chosen crash scripts
   for every boundary are executed on a REAL shard.Shard; a crash = panic at the verifhook point / blobstor call,
   Shard.Close, reopen on the same files; after EVERY event every address is read back (Exists + Get + bytes).
3. spec/TraceShard.tla validates the recorded trace: projected real state must equal the model's after every
   event; C15ModKF evaluated on every recorded state; strict failures with a known cause => KNOWN-FINDING."""
import json
import os

import vkit
import sharda_util as su

LEVEL = "model_checking"

SIG = {"wcfirst": "available-object:cache-copy-deleted-before-metabase-record(deleteObjs)+crash",
       "marklocked": "locked-object:forced-garbage-mark-drops-cache-copy",
       "putrollback": "stored-object:rejected-re-put-rollback-deletes-its-data"}


def P(a, crash=0):
    return {"op": "Put", "a": a, "c": 0, "ids": [], "crash": crash, "fail": 0}


def GC(crash=0, fail=0):
    return {"op": "GC", "a": 0, "c": 0, "ids": [], "crash": crash, "fail": fail}


def D(c, ids, crash=0, fail=0):
    return {"op": "Delete", "a": 0, "c": c, "ids": ids, "crash": crash, "fail": fail}


def FL(crash=0, fail=0):
    return {"op": "Flush", "a": 0, "c": 0, "ids": [], "crash": crash, "fail": fail}


EP = {"op": "Epoch"}
RT = {"op": "Restart"}


def M(c, ids, mk="def"):
    return {"op": "Mark", "c": c, "ids": ids, "mk": mk}


def deliberate():
    out = []
    for wc in (False, True):
        for k in (1, 2, 3):      # every boundary of a direct deletion of an available object
            out.append({"wc": wc, "batch": 2, "steps": [P(1), D(1, [1], crash=k), RT, D(1, [1])]})
            out.append({"wc": wc, "batch": 2, "steps": [P(1), FL(), D(1, [1], crash=k), GC()]})
            # redundant copy: available until GC removes it
            out.append({"wc": wc, "batch": 2, "steps": [P(1), M(1, [1], "red"), GC(crash=k), GC(), RT]})
            # expired object removed through the expired-objects callback
            out.append({"wc": wc, "batch": 1, "steps": [P(2), P(6), EP, EP, GC(crash=k), GC(), GC()]})
            # tombstoned object and its tombstone
            out.append({"wc": wc, "batch": 2, "steps": [P(1), P(3), GC(crash=k), EP, EP, EP, GC(crash=k), GC(), GC()]})
        out.append({"wc": wc, "batch": 2, "steps": [P(1, crash=1), P(1), P(3, crash=1), P(3), P(1)]})     # crash inside put
        out.append({"wc": wc, "batch": 2, "steps": [P(1), P(2), FL(crash=1), FL(fail=1), FL(crash=2), FL(), D(1, [1, 2])]})  # flush
        out.append({"wc": wc, "batch": 2, "steps": [P(2), P(4), M(1, [2]), RT, GC(), EP, EP, EP, GC(), GC()]})   # forced mark of a locked object
        out.append({"wc": wc, "batch": 2, "steps": [P(5), P(6), {"op": "InhumeCnr", "c": 2}, GC(crash=2), GC(crash=4), GC(), GC()]})
        # variants found by the thorough tier: a lock stored LATER makes a record without data available again
        out.append({"wc": wc, "batch": 1, "steps": [EP, P(2), EP, FL(), P(2), P(4), RT, EP, GC(), GC(), GC()]})          # rejected re-put rolls the stored data back
        out.append({"wc": wc, "batch": 2, "steps": [EP, EP, P(2), GC(crash=1), P(4), RT, EP, GC(), GC()]})              # expired, cache copy gone, crash, lock
        out.append({"wc": wc, "batch": 2, "steps": [P(2), M(1, [2]), GC(crash=1), P(4), RT, GC(), GC()]})               # marked, cache copy gone, lock
    return out


def run(ck):
    thorough = ck.tier == "thorough"
    binp = ck.gobuild("sharda")
    world = su.detect_world(ck, binp)
    if not ck.replay and not os.environ.get("VERIF_SKIP_MODEL"):   # (dev aid for mutation runs: the model check does not depend on the tree)
        ck.tlc_model("Shard", "Shard_C15t.cfg" if thorough else "Shard_C15.cfg", timeout=3000, files=su.cfg_files(world, "Shard_C15t.cfg" if thorough else "Shard_C15.cfg"))
        if thorough:
            ck.tlc_model("Shard", "Shard_C15l.cfg", timeout=3000, files=su.cfg_files(world, "Shard_C15l.cfg"))   # expiry + LOCK + forced marks
        ck.setcov("exhaustive", True)
        ck.setcov("constants", ("Objs={1,2 exp1,3 TS->1} wc=on batch=1 epochs 0..2, all ops, crash + flush fault" if thorough else
                                "Objs={1 REG,2 REG exp 1} wc in {off,on} batch=1 epochs 0..2; Put Delete GC Flush Epoch MarkRed") +
                  " + crash after every micro-step")
    if ck.replay:
        scripts = [json.load(open(ck.replay))["replay"]["script"]]
    else:
        scripts = deliberate()
        for s in range(3 if thorough else 1):
            scripts += ck.tlc_scripts("ShardGen", "ShardGen_C15.cfg", files=su.cfg_files(world, "ShardGen_C15.cfg"), num=1200 if thorough else 90, depth=10,
                                      seed=ck.seed * 10 + s, timeout=900)
    tp, info = su.run_scripts(ck, binp, scripts)
    ck.log("harness: %s" % info)
    if info.get("scripts", 0) - info.get("skipped", 0) < max(1, len(scripts) // 2):
        raise vkit.Infra("too many behaviours discarded: %s" % info)
    v = su.validate(ck, "TraceShard_C15.cfg", tp, world=world)
    su.judge(ck, "C15", v, scripts, "C15",
             lambda cause: SIG.get(cause, "unlisted-cause:" + cause),
             lambda cause: "metabase reports an object available that can not be read (cause: %s)" % cause)
    ev = v.events
    ck.setcov("traces_validated_against_impl", info.get("scripts", 0) - info.get("skipped", 0))
    ck.setcov("trace_events", len(ev))
    ck.setcov("crash_events", sum(1 for e in ev if e["ev"] == "Crash"))
    crash_after = {}
    for i, e in enumerate(ev):
        if e["ev"] == "Crash" and i > 0:
            k = ev[i - 1].get("k") or ev[i - 1]["ev"]
            crash_after[k] = crash_after.get(k, 0) + 1
    ck.setcov("crash_points_hit", crash_after)
    ck.setcov("deliberate_crash_scripts", len(deliberate()))
    if info["panics"]:
        ck.setcov("real_panics_treated_as_crash", info["panics"])
    if not ck.replay:
        need = {"putdata", "delwc", "delmeta", "delblob", "flushput"}
        if not need <= set(crash_after):
            raise vkit.Infra("vacuous: crash points never hit: %s" % sorted(need - set(crash_after)))
    ck.sample({"script": scripts[0], "trace_head": [su.strip_st(e) for e in ev[:12]]})
    ck.sample({"projected_state_example": ev[min(3, len(ev) - 1)].get("st")})
    ck.assumptions += [
        "crash = panic at a verifhook point / blobstor decorator call, then Shard.Close + reopen on the same files "
        "(process crash: bbolt commits and FSTree files stay as written; power-loss reordering is out of scope)",
        "crash points: after write-cache/blob put (shard.put.afterData), after cache delete (shard.deleteObjs.afterWC), after "
        "metabase delete (shard.deleteObjs.afterMeta), after each blobstor Delete, after the blobstor Put of a flush "
        "(before the cache delete); inside one bbolt transaction / one FSTree write: out of scope (C13, family D)",
        "available = Shard.Exists(addr, false) returns true; readable = Shard.Get(addr, false) returns the stored bytes",
        "expired-objects callback = single-shard equivalent of engine.processExpiredObjects",
        "background flush scheduler gated (hook writecache.sched.round); flush worker internals belong to C16/C17 (shardb)",
    ]
