"""C39 - converting GAS amounts between precisions never creates value or wraps.

Checker: Apalache (amounts are 64-bit; TLC integers are 32-bit). spec/Precision.tla holds the
code-shaped converter (big.Int arithmetic, then Int64() = low 64 bits with sign) and the property.
1. Go harness `irgov c39`: the REAL precision.Fixed8Converter for every target precision 0..18 on
   boundary values (2^53 range ends, int64 ends, first amounts whose product leaves int64, in-range
   amounts whose product crosses 2^53 and needs > 53 bits, negative non-multiples of the factor, powers of
   ten around the factor) and seeded random values; one record {p, n, tb, tf, rt} per evaluation.
2. Apalache validates every record: outputs = spec function AND the C39 predicate on the recorded
   outputs (generated module PrecisionRecs: one literal application Rec(...) per record).
3. Apalache checks symbolically, for ALL int64 n and p in 0..18, that the spec function satisfies the
   property (or is in the known-finding class), plus a canary that must be refuted.

Known finding H7 (deviation switch BugWrap): Int64() silently wraps for amounts < 2^53 when the
multiplication leaves int64 (ToBalancePrecision p >= 12; ToFixed8 p <= 4)."""
import json, os
import vkit, irgov_util

LEVEL = "model_checking"
SIG = "Fixed8Converter: Int64() wraps for an amount below 2^53 (ToBalancePrecision p>=12 / ToFixed8 p<=4)"


def run(ck):
    thorough = ck.tier == "thorough"
    binp = ck.gobuild("irgov")
    path = os.path.join(ck.tmp, "c39.ndjson")
    if ck.replay:
        inp = os.path.join(ck.tmp, "in.json")
        json.dump(json.load(open(ck.replay))["replay"]["in"], open(inp, "w"))
        ck.harness(binp, ["c39replay", inp, path])
    else:
        ck.harness(binp, ["c39", 28, 12, path] if thorough else ["c39", 10, 2, path])
    recs = vkit.read_ndjson(path)
    inrange = [r for r in recs if 0 <= r["n"] < 2 ** 53]
    wrapped = [r for r in inrange if r["tb"] < 0 or r["tf"] < 0]
    ck.setcov("traces_validated_against_impl", len(recs))
    ck.setcov("evaluations", len(recs))
    ck.setcov("records_in_supported_range", len(inrange))
    ck.setcov("records_in_range_with_negative_result", len(wrapped))
    ck.setcov("distinct_nontrivial", len({(r["p"], r["tb"] == r["n"], r["rt"] == r["n"], r["tb"] < 0, r["tf"] < 0, r["rt"] < r["n"]) for r in recs}))
    ck.setcov("rule", "record = Precision!ToBalance/ToFixed8 (big.Int then Int64 wrap) and C39 predicate PropA/PropB on recorded outputs")
    for r in wrapped[:1] + recs[:2]:
        ck.sample(r)
    if not ck.replay and (len(inrange) < 50 or len({r["p"] for r in recs}) != 19):
        raise vkit.Infra("vacuous record set")

    # record validation (chunks keep each generated module small)
    world = "repaired"
    chunk = 200
    for c in range(0, len(recs), chunk):
        w = irgov_util.decide_apalache(ck, recs[c:c + chunk], SIG,
                                       "real Fixed8Converter returned a wrapped / sign-changed value for an amount below 2^53",
                                       lambda r: {"p": r["p"], "n": r["n"]}, known_asis=(world == "as-is"))
        if w != "repaired":
            world = w
        if w == "violation":
            break
    ck.setcov("tree_behaviour", world)

    # symbolic model: all int64 n, p in 0..18
    def apa(cinit, inv, expect_ok=True):
        ok, bad, out = ck.apalache("Precision", ["--cinit=" + cinit, "--init=Init", "--next=Next", "--inv=" + inv, "--length=0"], timeout=3000)
        if expect_ok and not ok:
            raise vkit.Infra("Apalache: %s under %s not proved (model problem, not a verdict)\n%s" % (inv, cinit, vkit.tail(out, 3000)))
        if not expect_ok and not bad:
            raise vkit.Infra("Apalache canary %s under %s was not refuted (vacuous)\n%s" % (inv, cinit, vkit.tail(out, 3000)))
    mine = "CInitAsIs" if world == "as-is" else "CInitIdeal"
    apa(mine, "PropertyHolds")
    apa("CInitAsIs", "CanaryRange", expect_ok=False)
    if thorough:
        other = "CInitIdeal" if mine == "CInitAsIs" else "CInitAsIs"
        apa(other, "PropertyHolds")
        apa("CInitAsIs", "KFExact")
        apa("CInitIdeal", "KFExact")
        apa("CInitIdeal", "PureProperty")
        apa("CInitAsIs", "PureProperty", expect_ok=False)   # the finding as a model counterexample
        apa("CInitAsIs", "FactorsAgree")
    # Apalache reports no state counts; every symbolic run covers all (p, n) in 0..18 x int64
    ck.setcov("states", 19)
    ck.setcov("transitions", 19)
    ck.setcov("exhaustive", True)
    ck.setcov("constants", "p in 0..18, n any int64 (symbolic, SMT integers); BugWrap both worlds in thorough")
    ck.assumptions.append("big.Int Mul/Div are exact and Div is floor division for a positive divisor; Int64() returns the low 64 bits "
                          "of |x| with the sign applied (Go stdlib) - both are also what the records confirm on the generated values")
    ck.assumptions.append("'supported range' = 0 <= amount < 2^53 for the amount passed to either conversion")
    ck.assumptions.append("states/transitions are nominal (19 symbolic precision instances); Apalache does not count states")
