"""C27 - repeated policer cycles restore the required replicas.

1. TLC on spec/PolicerCluster.tla (nodes each running the C26 decision function F of Policer.tla on a shared
   replica map): temporal property <>[]Converged under weak fairness of every node's check (SPECIFICATION
   Live, no state constraint), bounded form ConvergedInTime (every holder checks once per round, any order:
   converged and quiet after MaxRounds rounds from every initial distribution), NeverEmpty, TaskOK.
2. C->M: an in-memory cluster of REAL engines + REAL policers + REAL replicators (only the connections between
   the nodes and the netmap are fakes) runs rounds of policy checks: every placement / REP / initial
   distribution of a 3-node cluster, plus seeded random clusters of 3-6 nodes (REP 1-3, container list may be a
   subset, some rounds with unreachable nodes first). Every check is validated by TLC as the spec action
   (TracePolicerCluster.tla: same removal, same tasks, same nodes stored, same replica map), the replicator's
   reports must equal the nodes that stored (<= requested), and every scenario must end converged and quiet
   within the model's bound of rounds."""
import json
import os

import putpol_util as pu
import vkit

LEVEL = "model_checking"


def run(ck):
    thorough = ck.tier == "thorough"
    binp = ck.gobuild("putpol")
    scen_path = os.path.join(ck.tmp, "scenarios.ndjson")
    models = None
    if ck.replay:
        vkit.write_ndjson(scen_path, [json.load(open(ck.replay))["replay"]["scenario"]])
    else:
        cfgs = ["PolicerCluster_live3.cfg", "PolicerCluster_rounds3.cfg", "PolicerCluster_live3x2.cfg", "PolicerCluster_rounds3x2.cfg"]
        if thorough:
            cfgs += ["PolicerCluster_live4.cfg", "PolicerCluster_rounds4.cfg", "PolicerCluster_rounds4x2.cfg"]
        jobs = [("PolicerCluster", c, dict(timeout=2400, workers=4)) for c in cfgs]
        if os.environ.get("VERIF_SKIP_MODELS"):     # developer switch for mutation testing only
            jobs = []
        models = pu.Models(ck, jobs, max_workers=2)
        p1 = os.path.join(ck.tmp, "all3.ndjson")
        ck.harness(binp, ["c27", "all", 3, p1])
        sc = vkit.read_ndjson(p1)
        ck.setcov("enumerated_3_node_scenarios", len(sc))
        if not thorough:                    # every 2nd in the quick tier, offset by seed
            sc = [x for i, x in enumerate(sc) if i % 2 == ck.seed % 2]
        p1 = os.path.join(ck.tmp, "all3two.ndjson")     # every policy of two rules over lists of <= 2 of 3 nodes
        ck.harness(binp, ["c27", "all", 3, p1, "two"])
        sc2 = vkit.read_ndjson(p1)
        ck.setcov("enumerated_3_node_two_rule_scenarios", len(sc2))
        stride = 2 if thorough else 16
        sc += [x for i, x in enumerate(sc2) if i % stride == ck.seed % stride]
        p2 = os.path.join(ck.tmp, "rnd.ndjson")
        ck.harness(binp, ["c27", "rnd", 1500 if thorough else 90, 6, p2])
        sc += vkit.read_ndjson(p2)
        vkit.write_ndjson(scen_path, sc)
    trace = os.path.join(ck.tmp, "trace.ndjson")
    ck.harness(binp, ["c27", "run", scen_path, trace], timeout=2400)
    ev = vkit.read_ndjson(trace)
    cfg = open(os.path.join(vkit.SPEC, "TracePolicerCluster.cfg")).read().replace("NEvents = 1", "NEvents = %d" % len(ev))
    v = ck.tlc_validate("TracePolicerCluster", "TracePolicerCluster_run.cfg", trace, timeout=2400,
                        files={"TracePolicerCluster_run.cfg": cfg})
    nsc = sum(1 for e in ev if e["ev"] == "init")
    ck.setcov("traces_validated_against_impl", nsc)
    ck.setcov("trace_events", len(ev))
    ck.setcov("checks_with_replication", sum(1 for e in ev if e["ev"] == "check" and e["tasks"]))
    ck.setcov("checks_with_removal", sum(1 for e in ev if e["ev"] == "check" and e["del"] != "none"))
    ck.setcov("object_carrying_task_events", sum(1 for e in ev if e["ev"] == "task"))
    ck.setcov("multi_rule_scenarios", sum(1 for e in ev if e["ev"] == "init" and len(e["rules"]) > 1))
    rounds = {}
    for e in ev:
        if e["ev"] == "end":
            rounds[e["round"]] = rounds.get(e["round"], 0) + 1
    ck.setcov("stable_rounds_until_quiet_histogram", rounds)
    ck.sample({"trace_head": ev[:5]})
    if not ck.replay and (ck.cov["checks_with_replication"] < 20 or ck.cov["checks_with_removal"] < 10
                          or ck.cov["object_carrying_task_events"] < 10 or ck.cov["multi_rule_scenarios"] < 30):
        raise vkit.Infra("vacuous run: %s" % ck.cov)
    if not v.ok:
        pos = vkit.stuck_position(v) or 1
        if v.name != "TraceNotStuck":
            pos = max(pos - 1, 1)           # state invariants are evaluated after the event was consumed
        idx, scen = -1, None
        scs = vkit.read_ndjson(scen_path)
        for e in ev[:pos]:
            if e["ev"] == "init":
                idx += 1
        scen = scs[max(idx, 0)]
        what = {"TraceNotStuck": "a policy check of the real policer/replicator is not the specified action (removal / tasks / stored nodes / replica map differ)",
                "ReportedOK": "the real replicator reported successes that differ from the nodes that stored the object (or more than requested)",
                "ConvergedAtEnd": "the real cluster did not converge to >= REP copies on the primary nodes and quiescence within the model's bound of rounds",
                "NeverEmptyT": "policing removed the last copy of the object",
                "TaskOK": "replication task accounting broken"}.get(v.name, "trace rejected (%s %s)" % (v.kind, v.name))
        ck.violation("%s at event %d: %s" % (what, pos, json.dumps(ev[pos - 1])),
                     {"scenario": scen, "rejected_event": ev[pos - 1], "invariant": v.name, "tlc": v.trace_text[-2000:]})
    if models:
        models.finish()
        ck.setcov("exhaustive", True)
        ck.setcov("liveness", "<>[]Converged under WF of every node's check, SPECIFICATION Live, no constraint")
        ck.setcov("constants", "3 nodes (thorough: + 4 nodes): one rule with every list, REP 1-3, and two rules over lists of <= 2 nodes, REP 1-2; every non-empty initial distribution; bounded convergence MaxRounds=3")
    ck.assumptions += [
        "a policy check of one object by one node is one atomic step (replication inside a check is synchronous in the code); checks of different nodes interleave arbitrarily",
        "a copy marked redundant is removed at once (the node's GC is run synchronously after its check; in production it stays readable until the GC cycle)",
        "processObject is called directly for the object (the listing/ticker loop of shardPolicyWorker is not exercised); REGULAR objects, 1-2 REP rules; EC recovery is not part of this check",
        "quiescence = no task with candidate nodes and no removal: with overlapping rules the code keeps handing the replicator tasks with an EMPTY candidate list (phantom shortage: a holder remembered from an earlier rule does not lower the shortage of a later rule); such tasks copy nothing and are not counted as replicating",
        "fakes: network map and node-to-node connections (HEAD -> target engine.Head, REPLICATE -> target engine.Put, 'down' = connection error)",
    ]
