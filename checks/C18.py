"""C18 - rebuilding metadata from blobs gives the same object statuses in any blob order.

spec/MetaResync.tla: the rebuilt state depends only on (blob set, epoch); for every blob subset that an
incremental history of accepted puts can leave behind, TLC compares ALL enumeration orders
(C18_Model_OrderIndependent) and requires that the rebuild does not abort (C18_Model_NoAbort), outside
two listed classes (live lock + tombstone blobs of one target; LOCK/TS blob whose target is of a refused
type). Binding: after TLC-simulated and random histories on a real shard, DB.ResyncFromBlobstor is run
several times in a row over a blob storage wrapper that enumerates in chosen orders (all permutations
for small blob sets); each rebuild must equal the model's ResyncOp (all views), reproduce the status
vector of the first order (C18_OrderIndependent), leave every removed object reclaimable by GC
(C18_RemovedReclaimable) and leave counters equal to the recount."""
import itertools, json, random
import meta_util as mu
import vkit
from C01 import handle

LEVEL = "model_checking"
INV = ["TraceNotStuck", "C18_OrderIndependent", "C18_RemovedReclaimable", "C02_CountersMatchRecount"]


def add_resyncs(scripts, cats, rnd, max_perms, pad=False):
    out = []
    for s in scripts:
        objs = cats[s["cat"]]["objs"]
        putable = [i + 1 for i, o in enumerate(objs) if not o["virt"]]
        steps = [st for st in s["steps"]]
        perms = list(itertools.permutations(putable)) if len(putable) <= 5 else []
        if perms:
            rnd.shuffle(perms)
            chosen = perms[:max_perms]
        else:
            chosen = []
            for _ in range(max_perms):
                p = putable[:]
                rnd.shuffle(p)
                chosen.append(tuple(p))
        chosen = [tuple(putable), tuple(reversed(putable))] + chosen
        # blobs left behind without metadata (crash between blob write and metabase refusal of a put)
        for _ in range(rnd.choice([0, 0, 1, 2])):
            steps.append({"ev": "Blob", "o": rnd.choice(putable)})
        for k, p in enumerate(chosen):
            st = {"ev": "Resync", "perm": list(p)}
            if pad and k >= 2:
                # filler blobs first: the catalogue blobs straddle the metabase's batch boundary (1000)
                st["b"] = 1000 - rnd.randrange(0, len(p) + 1)
            steps.append(st)
        out.append({"cat": s["cat"], "steps": steps})
    return out


def run(ck):
    mu.check_catalog_sync(ck)
    thorough = ck.tier == "thorough"
    for cfg in ("MetaResync_R.cfg", "MetaResync_R2.cfg", "MetaResync_T.cfg"):
        ck.tlc_model("MetaResync", cfg, timeout=3000)
    ck.setcov("exhaustive", True)
    if thorough:
        # anti-vacuity of the listed exclusion classes: without them the model itself must show order dependence
        for cfg in ("MetaResync_R_strict.cfg", "MetaResync_R2_strict.cfg"):
            r = ck.tlc("MetaResync", cfg, timeout=3000, count=False)
            if r.kind != "invariant":
                raise vkit.Infra("the strict order-independence formula was expected to fail on %s (listed finding classes are vacuous?): %s" % (cfg, r.summary()))
            ck.add("model_counterexamples_for_listed_classes", 1)
    binp = ck.gobuild("meta")
    cats = json.load(open(mu.CATALOGS))
    rnd = random.Random(ck.seed)
    if ck.replay:
        doc = json.load(open(ck.replay))["replay"]
        cat = doc["script"]["cat"]
        out = mu.run_validate(ck, binp, cat, [doc["script"]], INV)
        finish(ck, cat, out)
        return
    plan = [("R", 30, 40, 6), ("R2", 30, 40, 6), ("S", 10, 15, 4)]
    if thorough:
        plan = [("R", 400, 800, 120), ("R2", 300, 600, 24), ("T", 300, 600, 24), ("S", 200, 400, 30), ("L", 200, 400, 30), ("Q", 200, 400, 30)]
    n_resync = 0
    for cat, n_sim, n_rnd, mp in plan:
        base = mu.gen_scripts(ck, binp, cat, n_sim, n_rnd, depth=10)
        scripts = add_resyncs(base, cats, rnd, mp)
        # a few histories with ~1000 filler blobs so that catalogue blobs fall on the batch boundary
        npad = 40 if thorough else 4
        scripts = scripts[:-npad] + add_resyncs(base[-npad:], cats, rnd, mp, pad=True)
        out = mu.run_validate(ck, binp, cat, scripts, INV)
        lost = [e for e in out["events"] if e["ev"] == "Resync" and e.get("res") == "ok" and e.get("fillers_missing", 0) > 0]
        if lost:
            ck.violation("resync lost %d blobs at a batch boundary (catalogue %s, %d filler blobs enumerated first)" % (
                lost[0]["fillers_missing"], cat, lost[0]["b"]), {"event": {k: v for k, v in lost[0].items() if k != "v"}})
        rs = [e for e in out["events"] if e["ev"] == "Resync"]
        n_resync += len(rs)
        ck.sample({"cat": cat, "resync_event": {k: v for k, v in rs[0].items() if k != "v"} if rs else None, "script_len": len(scripts[0]["steps"])})
        finish(ck, cat, out)
        if ck.violations:
            break
    ck.setcov("resyncs_validated", n_resync)
    ck.assumptions.append("the blob enumeration order is imposed by a common.Storage wrapper around the real FSTree; batches are whole (the code's batch size 1000 exceeds the catalogue)")


def finish(ck, cat, out):
    r = out["r"]
    for name in sorted(out["kf"]):
        if name.startswith("C18"):
            ck.report(name, "known finding %s reached on the real metabase" % name, {"cat": cat})
    if not r.ok and r.kind == "invariant" and r.name == "TraceNotStuck":
        pos = vkit.stuck_position(r) or 1
        script, k, ev = mu.script_of_event(out["events"], out["scripts"], pos)
        diff = mu.view_diff(out["expected"], ev)
        replay = {"script": script, "event_index": k, "event": {x: ev[x] for x in ev if x != "v"}, "diff": diff}
        if ev["ev"] == "Resync":
            ck.violation("rebuilt metadata differs from the model's rebuild at event %d (catalogue %s, order %s): %s" % (
                k, cat, ev.get("perm"), json.dumps(diff)[:1500]), replay)
            return
        raise vkit.Infra("trace diverged from the model before the resync (see C01): %s" % json.dumps(replay)[:1500])
    if not r.ok and r.name == "C02_CountersMatchRecount":
        # only counter differences right after a resync are this property's business
        pos = max((vkit.stuck_position(r) or 2) - 1, 1)
        script, k, ev = mu.script_of_event(out["events"], out["scripts"], pos)
        if ev["ev"] != "Resync":
            raise vkit.Infra("counter drift before the resync step (see C02)")
        ck.violation("counters after the rebuild differ from the recount (catalogue %s, event %d)" % (cat, k),
                     {"script": script, "event_index": k, "counters": ev["v"]["ctr"], "cnt": ev["v"]["cnt"], "size": ev["v"]["size"]})
        return
    handle(ck, cat, out, "C18", ())
