"""C12 - a crash during a blob write / delete never exposes partial or foreign bytes; acked writes survive;
temporary files never surface.

1. TLC exhaustive on spec/FSTreeSys.tla (FSTreeSys_crash.cfg): code-shaped writers (O_TMPFILE+linkat file writer,
   batch writer, timed combined batches with their locks and timer, generic "p#i"+rename writer, Delete) over the
   file-system layer FSTreeFS.tla, all interleavings of two writer threads, Crash at any point, Reopen:
   CrashSafe holds at every state.
2. Binding by REAL runs of a worker process on a real FSTree under strace:
   * the strace log of a clean run is a trace: every system call is applied to the model's file-system layer and
     CrashSafe is evaluated at every prefix (= every crash point of that run);
   * the worker is re-run with `strace -e inject=<call>:signal=SIGKILL:when=k` for every k of every call class
     after the start marker; a second process reopens the tree, reads every address through 5 readers, iterates,
     RETRIES every Put of the job on the restarted tree (no clean-up yet: leftovers of the crashed run must not leak
     into objects), reads again, runs CleanUpTmp and reads again; log + acks + read-backs form a trace validated by
     TraceFSTreeSys.tla."""
import json
import random

import fstree_util as fu
import vkit

LEVEL = "model_checking"
CLASSES = ["openat", "write", "pwrite64", "writev", "linkat", "renameat", "fdatasync", "close", "unlinkat", "mkdirat"]
SIZES = [150, 300, 700, 1500, 2500, 3900, 9000, 70000, 150000]


def mkjob(n, cfg, ops, sizes, salt):
    return {"cfg": cfg, "n": n, "salt": salt, "hang_ms": 60000,
            "vars": [{"a": a + 1, "v": 1, "total": sizes[a], "attr": 0, "pat": 1, "z": False} for a in range(n)],
            "ops": ops}


def fixed_jobs():
    lin = {"depth": 1, "cnt": 3, "szlim": 4000, "thr": 4096, "writer": "linux", "nosync": False, "interval": 3}
    gen = dict(lin, writer="generic", depth=2)
    j1 = mkjob(8, lin, [{"kind": "put", "a": 1}, {"kind": "put", "a": 2}, {"kind": "batch", "as": [3, 4, 5]},
                        {"kind": "par", "as": [6, 7, 8]}, {"kind": "del", "a": 3}, {"kind": "put", "a": 1},
                        {"kind": "del", "a": 2}, {"kind": "put", "a": 3}],
               [300, 9000, 1500, 150000, 700, 800, 2500, 150], 1)
    j2 = mkjob(6, gen, [{"kind": "put", "a": 1}, {"kind": "put", "a": 2}, {"kind": "batch", "as": [3, 4]},
                        {"kind": "put", "a": 1}, {"kind": "del", "a": 2}, {"kind": "par", "as": [5, 6]}, {"kind": "del", "a": 5}],
               [300, 70000, 1500, 700, 2500, 150], 2)
    j3 = mkjob(10, dict(lin, depth=0, nosync=True, cnt=128, szlim=8 << 20),
               [{"kind": "batch", "as": [1, 2, 3, 4, 5, 6, 7, 8]}, {"kind": "del", "a": 4}, {"kind": "batch", "as": [9]},
                {"kind": "batch", "as": [4, 10, 1]}, {"kind": "del", "a": 9}],
               [300, 9000, 1500, 70000, 700, 800, 2500, 150, 3900, 1000], 3)
    return [("linux-mixed", j1), ("generic-mixed", j2), ("linux-batch8", j3)]


def random_job(r, idx):
    n = r.randint(4, 10)
    cfg = {"depth": r.randint(0, 3), "cnt": r.choice([1, 2, 3, 8]), "szlim": r.choice([2000, 4000, 1 << 20]),
           "thr": r.choice([1024, 4096, 100000]), "writer": r.choice(["linux", "linux", "generic"]),
           "nosync": r.random() < 0.5, "interval": r.randint(1, 4)}
    present, ops = set(), []
    for _ in range(r.randint(4, 8)):
        k = r.random()
        if k < 0.3:
            a = r.randint(1, n)
            ops.append({"kind": "put", "a": a})
            present.add(a)
        elif k < 0.55:
            as_ = r.sample(range(1, n + 1), r.randint(1, min(8, n)))
            ops.append({"kind": "batch", "as": as_})
            present |= set(as_)
        elif k < 0.75:
            as_ = r.sample(range(1, n + 1), r.randint(2, min(4, n)))
            ops.append({"kind": "par", "as": as_})
            present |= set(as_)
        else:
            a = r.choice(sorted(present)) if present and r.random() < 0.8 else r.randint(1, n)
            ops.append({"kind": "del", "a": a})
            present.discard(a)
    return ("random-%d" % idx, mkjob(n, cfg, ops, [r.choice(SIZES) for _ in range(n)], 100 + idx))


def run(ck):
    thorough = ck.tier == "thorough"
    fu.make_threadsafe(ck)
    if not ck.replay:
        # crash at any point; and crash + restart WITHOUT clean-up + retry of every Put (leftovers of the crashed run)
        cfgs = ["FSTreeSys_crash.cfg", "FSTreeSys_crashretry.cfg" if thorough else "FSTreeSys_retry.cfg"]
        fu.pmap(lambda c: ck.tlc_model("FSTreeSysMC", c, timeout=3000, workers=5, deadlock=True), cfgs, workers=2)
        ck.setcov("exhaustive", True)
        ck.setcov("constants", "2 writer threads x 5 programs (combined / batch / file / generic puts, deletes), crash at any point, CountLimit=2 SizeLimit=3")
    binp = ck.gobuild("fstree")
    probe = ck.sh(["strace", "-o", "/dev/null", "-e", "trace=write", "-e", "inject=write:error=ENOSPC:when=60000", "true"], timeout=30)
    if probe.returncode != 0:
        raise vkit.Infra("strace / ptrace injection is not available here: %s" % probe.stderr[-400:])

    if ck.replay:
        rep = json.load(open(ck.replay))["replay"]
        plan = [(rep["tag"], rep["job"], rep.get("inject") or None)]
    else:
        jobs = fixed_jobs()
        r = random.Random(ck.seed * 7919 + 12)
        jobs += [random_job(r, i) for i in range(10 if thorough else 2)]
        # clean runs first: they give the number of calls of every class after the start marker
        clean = fu.pmap(lambda tj: fu.run_sys_job(ck, binp, tj[1], tj[0] + "-clean", timeout=500), jobs, workers=fu.ncpu_share())
        plan = []
        for (tag, job), (ev, counts, start, _) in zip(jobs, clean):
            if ev[-2]["st"] != "ok":
                raise vkit.Infra("clean run of %s did not end normally: %s" % (tag, ev[-2]))
            plan.append((tag + "-clean", job, None))
            for c in CLASSES:
                # strace counts invocations per thread: k = 1 .. the largest per-thread count of the clean run
                ks = list(range(1, counts["_max_per_thread"].get(c, 0) + 1))
                if not thorough and len(ks) > 14:          # quick: a spread of the crash points of big classes
                    step = len(ks) / 14.0
                    ks = sorted({ks[int(i * step)] for i in range(14)} | {ks[-1]})
                for k in ks:
                    plan.append(("%s-%s-%d" % (tag, c, k), job, "%s:signal=SIGKILL:when=%d" % (c, k)))
    # real crashes first: an exposure observed on the real file system is reported before one predicted from a clean log
    plan.sort(key=lambda p: p[2] is None)
    ck.log("%d worker runs planned" % len(plan))

    runs = fu.pmap(lambda p: fu.run_sys_job(ck, binp, p[1], p[0], inject=p[2], timeout=500), plan, workers=fu.ncpu_share())
    events, index = [], []
    killed = 0
    classes = set()
    for (tag, job, inj), (ev, _, _, _) in zip(plan, runs):
        index.append((len(events) + 1, tag, job, inj))
        events += ev
        st = [e for e in ev if e["ev"] == "exit"][0]["st"]
        if st == "killed":
            killed += 1
            classes.add((inj or "").split(":")[0])
    trace = ck.tmp + "/sys-trace.ndjson"
    vkit.write_ndjson(trace, events)
    v = ck.tlc_validate("TraceFSTreeSys", "TraceFSTreeSys.cfg", trace, timeout=3000, heap="4g")
    ck.setcov("traces_validated_against_impl", len(plan))
    ck.setcov("trace_events", len(events))
    ck.setcov("runs_killed_by_injection", killed)
    ck.setcov("crash_classes_hit", sorted(classes))
    ck.setcov("syscall_events", sum(1 for e in events if e["ev"] == "sys"))
    ck.sample({"run": plan[0][0], "events_head": runs[0][0][:6], "verify": runs[0][0][-1]})
    if len(plan) > 1:
        ck.sample({"run": plan[-1][0], "events_tail": runs[-1][0][-4:]})
    if v.ok and v.distinct < len(events) + 1:
        raise vkit.Infra("trace validation stopped early (%d states, %d events)" % (v.distinct, len(events)))
    if not ck.replay and (killed < len(plan) // 3 or len(classes) < 5):
        raise vkit.Infra("vacuous: only %d of %d runs were killed by the injection (classes %s)" % (killed, len(plan), sorted(classes)))
    if not v.ok:
        pos = fu.last_l(v) - 1
        start, tag, job, inj = [x for x in index if x[0] <= pos][-1]
        e = events[pos - 1]
        if v.kind == "invariant" and v.name in ("CrashSafeT", "PropOK", "ExitOK", "BlameOK", "AffectedOK"):
            what = {"CrashSafeT": "the system calls issued so far leave partial / foreign bytes (or lose an acknowledged object) under an object name: a crash here exposes them",
                    "PropOK": "after the end / kill of the writer the reopened tree returned partial or foreign bytes, lost an acknowledged object, or listed something that is not a stored object",
                    "ExitOK": "the writer process did not end normally", "BlameOK": "an operation failed although no file-system call failed",
                    "AffectedOK": "an operation reported success although one of its calls failed"}[v.name]
            ck.violation("%s (run %s, inject %s, event %d: %s)" % (what, tag, inj, pos - start + 1, json.dumps(e)[:700]),
                         {"tag": tag, "job": job, "inject": inj, "invariant": v.name, "event": e,
                          "run_events": events[start - 1:pos]})
        else:
            raise vkit.Infra("trace rejected for a reason that is not a verdict (%s %s) in run %s at %s\n%s"
                             % (v.kind, v.name, tag, json.dumps(e)[:500], vkit.tail(v.out, 2500)))
    ck.assumptions += [
        "process-crash model: a crash is SIGKILL at a system-call boundary; bytes handed to the kernel survive (no power-loss / page-cache loss, no torn writes inside one write(2))",
        "strace's view of the calls is faithful; object identity in the log = OID bytes + length, exact bytes are compared by the read-back process",
        "calls that were in flight in other threads when the process was killed have an unknown effect: the prediction for their object is not compared (the property is still evaluated on the real read-back)",
        "sizes avoid the C10 reader defects (no member near 20480 bytes)",
    ]
