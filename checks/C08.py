"""C08 - an object locked through the engine stays retrievable until the lock expires.

1. TLC exhaustive on spec/Engine.tla:
   - code as is (BugH6 = TRUE): every reachable violation of C08 belongs to a listed known-finding class
     (invariant C08Classified), all interleavings of a LOCK and a TOMBSTONE broadcast at shard-step granularity,
     every visiting order, mode flips, GC passes, epochs;
   - repaired world (BugH6 = FALSE, locks placed on healthy shards): C08 holds without exception (C08Strict).
2. M->C: TLC -simulate behaviours of EngineGen (plus behaviours in which the model exhibits H6) are executed on a
   REAL engine.StorageEngine with 2-3 real shards (visiting order through the engine.unsortedShards hook point,
   put failures through modes / a fault-injecting blobstor, HRW order realised by drawing object IDs, shard steps of
   two concurrent broadcasts released one by one through blobstor Put gates).
3. The recorded traces (result of every call + Get/Head/IsLocked of every object through the engine + per-shard
   summary after every step) are validated by TraceEngine.tla against the as-is model, and if that rejects against
   the repaired model. C08 is evaluated on every recorded state; a violation that falls into a listed class is
   reported as KNOWN-FINDING, anything else - and any deviation of the real engine from both models - is a VIOLATION."""
import json
import os
import sys

import vkit

sys.path.insert(0, os.path.dirname(os.path.abspath(vkit.__file__)))
import engine_util as eu  # noqa: E402

LEVEL = "model_checking"

OPS = ["Put", "Bcast", "GC", "Epoch", "SetMode", "FailPut", "EvacuateQ"]
MODES = ["rw", "ro", "dro"]


def run(ck):
    thorough = ck.tier == "thorough"
    skip_model = bool(ck.replay) or bool(os.environ.get("VERIF_ENGINE_SKIP_MODEL"))   # (env = mutation-testing shortcut only)
    jobs = []
    if not skip_model:
        if thorough:
            for cfg in ("Engine_c08_thorough.cfg", "Engine_c08_thorough_fixed.cfg", "Engine_c08_thorough3.cfg", "Engine_c08_evac.cfg"):
                jobs.append(lambda cfg=cfg: ck.tlc_model("Engine", cfg, timeout=7200, workers=6))
            ck.setcov("constants", "2 shards: epochs 0..2 (lock expiry), modes rw/ro, 1 lock, 2 tombstones (repaired world: + degraded mode and put faults); "
                                   "3 shards: one shard flips rw/ro, 1 lock, 1 tombstone; <=2 broadcasts in flight, every visiting order")
        else:
            for cfg in ("Engine_c08_quick.cfg", "Engine_c08_quick_fixed.cfg", "Engine_c08_evac.cfg"):
                jobs.append(lambda cfg=cfg: ck.tlc_model("Engine", cfg, timeout=3000, workers=4))
            ck.setcov("constants", "2 shards, modes rw/ro, 1 object, 1 lock, 1 tombstone, <=2 broadcasts in flight")
        ck.setcov("exhaustive", True)
    scripts = []
    if ck.replay:
        scripts = [json.load(open(ck.replay))["replay"]["script"]]
    else:
        # the model's own shortest replayable histories for the listed finding and for decisive branches:
        #   H6 without any fault (LOCK || TOMBSTONE), H6 with a lock put failing on a read-only shard,
        #   a second tombstone refused although the target already carries a garbage mark, lock expiry
        # + an evacuation that has to move a LOCK together with its target (the lock lives on the evacuated shard only)
        wit = [dict(scenario="H6", inflight=2),
               dict(scenario="ev-lock-travels", ops=("Put", "Bcast", "SetMode", "EvacuateQ"), inflight=1)]
        if thorough:
            wit += [dict(scenario="second-tombstone", cat="c08x", inflight=2), dict(scenario="H6seq", inflight=1), dict(scenario="lock-refused", inflight=2),
                    dict(scenario="lock-expired", ops=("Put", "Bcast", "GC", "Epoch"), maxepoch=2, inflight=1),
                    dict(scenario="H6", ns=3, inflight=2)]
        for sc in filter(None, os.environ.get("VERIF_ENGINE_EXTRA_WITNESS", "").split(",")):   # mutation testing: thorough-tier scenarios one by one
            wit += [w for w in [dict(scenario="second-tombstone", cat="c08x", inflight=2), dict(scenario="H6seq", inflight=1),
                                dict(scenario="lock-expired", ops=("Put", "Bcast", "GC", "Epoch"), maxepoch=2, inflight=1)] if w["scenario"] == sc]
        for w in wit:
            jobs.append(lambda w=w: eu.witness(ck, **w))
        plan = [(2, 60, 22)] if not thorough else [(2, 600, 26), (3, 300, 30)]
        for k, (ns, num, glen) in enumerate(plan):
            jobs.append(lambda ns=ns, num=num, glen=glen, k=k: eu.gen_scripts(ck, ns, "c08g", OPS, MODES, glen, num,
                                                                              seed=ck.seed * 100 + ns * 10 + k, witness="H6"))
    binp = ck.gobuild("engine")
    for r in eu.parallel(ck, jobs, workers=4 if not thorough else 3):
        if isinstance(r, dict):
            scripts.append(r)
        elif isinstance(r, tuple):
            scripts += r[0] + r[1][:(15 if not thorough else 200)]
    per = eu.run_scripts(ck, binp, scripts, procs=4 if not thorough else 6)
    kinds, rollbacks, refused, accepted = eu.stats(per)
    ck.setcov("traces_validated_against_impl", len(scripts))
    ck.setcov("trace_events", sum(len(p) for p in per))
    ck.setcov("event_kinds", kinds)
    ck.setcov("broadcasts_accepted", accepted)
    ck.setcov("broadcasts_refused", refused)
    ck.setcov("rollback_steps", rollbacks)
    ck.sample({"script": scripts[0], "trace_head": [{k: v for k, v in e.items() if k != "obs"} for e in per[0][:10]]})
    hit = set()
    worlds = set()
    groups = sorted({s["n"] for s in scripts})
    vs = eu.parallel(ck, [lambda ns=ns: eu.validate(ck, [(i, per[i]) for i, s in enumerate(scripts) if s["n"] == ns], ns, "C08", "TraceProp")
                          for ns in groups], workers=2)
    for v in vs:
        if v.bad:
            si, ei, reason, detail = v.bad
            ck.violation("C08: %s; script %d (%s) event %d: %s" % (reason, si, scripts[si].get("tag", ""), ei, json.dumps(detail)[:1500]),
                         {"script": scripts[si], "event_index": ei, "detail": detail})
            continue
        worlds.add(v.world)
        for cls, si in v.kf:
            if cls in hit:
                continue
            hit.add(cls)
            ck.report(cls, "C08 violated on the real engine, class %s" % cls, {"script": scripts[si], "class": cls})
    ck.setcov("model_world_matched", sorted(worlds))
    ck.setcov("known_finding_classes_seen", sorted(hit))
    if not ck.replay and not ck.violations and rollbacks == 0:
        raise vkit.Infra("vacuous run: no broadcast rollback was exercised on the real engine")
    ck.assumptions.append("per-shard metabase behaviour is summarised in Engine.tla; the summary is validated on every step through "
                          "the per-shard projection (metadata, blob, garbage mark, bucket) of the real shards")
    ck.assumptions.append("schedules imposed on the real engine pause a broadcast only before a shard's blobstor Put; the rollback loop "
                          "runs without interleaving (TLC explores those interleavings on the model only); epochs tick between operations")
    ck.assumptions.append("degraded mode = DEGRADED_READ_ONLY; write-cache disabled; error threshold 0 (no automatic mode change); "
                          "objects without an expiration epoch of their own")
