"""C19 - evacuation keeps every available object available on the remaining shards.

Property (Engine.tla, ghost ev set by the Evacuate action): after a SUCCESSFUL Evacuate(srcs) every catalogue object (regular,
EC part, LOCK, TOMBSTONE) that a read-only source shard served is served - byte-identical - by the engine while the evacuated
shards cannot be read (their blobstor reads fail), except objects the fault handler took; Get / IsLocked of every regular
object are the same before and after; source shards are untouched (model: read-only; real: directory digest before/after).

1. TLC exhaustive: code as is => lost/changed sets empty or classified (C19Classified); without tombstones => empty (C19Strict).
2. M->C: TLC counterexamples for decisive situations + TLC -simulate behaviours (random source subsets, read-only / failing
   targets, fault handler, ignoreErrors) on a real engine; 3. traces validated by TraceEngine.tla, incl. the count of moved
   objects, the handler's objects, the post-evacuation reads without the sources and the on-disk digests of the sources."""
import os
import sys

import vkit

sys.path.insert(0, os.path.dirname(os.path.abspath(vkit.__file__)))
import engine_util as eu  # noqa: E402

LEVEL = "model_checking"
OPS = ["Put", "Bcast", "SetMode", "FailPut", "Evacuate", "Delete", "GC"]
MODES = ["rw", "ro", "dro"]
WHAT = {"partial-removal": "a tombstone stored on a part of the shards only is moved by the evacuation to a shard holding its target: "
                           "the target's removal status changes"}


def run(ck):
    thorough = ck.tier == "thorough"
    wops = ("Put", "Bcast", "SetMode", "Evacuate")
    qops = ("Put", "Bcast", "SetMode", "EvacuateQ")
    wit = [dict(scenario="ev-partial-removal", cat="c19s", ops=qops, modes=("rw", "ro"), inflight=1, required=False),
           # an object held by both evacuated shards has to reach the remaining one; a refusing fault handler aborts
           dict(scenario="ev-two-sources", cat="c19t", ns=3, ops=("Bcast", "SetMode", "EvacuateQ"), modes=("rw", "ro"), inflight=1),
           dict(scenario="ev-handler-error", cat="c19t", ops=("Put", "SetMode", "Evacuate"), modes=("rw", "ro"), inflight=1)]
    if thorough:
        wit += [dict(scenario="ev-lock-moved", cat="c19s", ops=wops, modes=("rw", "ro"), inflight=1),
                dict(scenario="ev-handler", cat="c19s", ops=wops, modes=("rw", "ro"), inflight=1),
                dict(scenario="ev-lock-moved", cat="c19s", ns=3, ops=wops, modes=("rw", "ro"), inflight=1)]
        gens = [dict(ns=ns, cat="c19g", ops=OPS, modes=MODES, genlen=gl, num=num, seed=ck.seed * 100 + ns * 10 + k, inflight=1)
                for k, (ns, num, gl) in enumerate([(2, 400, 20), (3, 300, 24)])]
        cfgs = ["Engine_c19_quick.cfg", "Engine_c19_quick_strict.cfg", "Engine_c19_thorough.cfg", "Engine_c19_thorough_ec.cfg"]
        ck.setcov("constants", "2 and 3 shards: object + lock + tombstone; 2 shards: object + lock + EC part + its tombstone, put faults, degraded sources; all source subsets, ignoreErrors, fault handler")
    else:
        gens = [dict(ns=3, cat="c19g", ops=OPS, modes=MODES, genlen=18, num=25, seed=ck.seed * 100 + 30, inflight=1)]
        cfgs = ["Engine_c19_quick.cfg", "Engine_c19_quick_strict.cfg"]
        ck.setcov("constants", "2 shards, object + lock + tombstone, modes rw/ro, all source subsets, ignoreErrors, fault handler")
    scripts, per, hit = eu.run_property(ck, "C19", cfgs, wit, gens, WHAT, procs=4 if not thorough else 6, par=4 if not thorough else 3)
    evs = [e for p in per for e in p if e["ev"] == "Evacuate"]
    ok = [e for e in evs if e.get("res") == "ok"]
    ck.setcov("evacuations", len(evs))
    ck.setcov("evacuations_successful", len(ok))
    ck.setcov("objects_moved", sum(e.get("cnt", 0) for e in ok))
    ck.setcov("fault_handler_objects", sum(len(e.get("handled", [])) for e in ok))
    if not ck.replay and not ck.violations and sum(e.get("cnt", 0) for e in ok) == 0:
        raise vkit.Infra("vacuous run: no object was moved by any evacuation")
    ck.assumptions.append("'available from the remaining shards' is observed as: engine Get while the blobstor reads of the evacuated shards fail")
    ck.assumptions.append("sources in DEGRADED_READ_ONLY mode are skipped by Evacuate (TODO #1731 in the code): only objects served by "
                          "READ_ONLY sources are required to be kept; write-cache disabled; split objects not in the catalogue (EC part is)")
