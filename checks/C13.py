"""C13 - a failing file-system call makes the affected blob writes fail cleanly; the process never panics or
hangs; unaffected writes succeed; no success for an object that cannot be read back.

1. TLC exhaustive on spec/FSTreeSys.tla with a fault budget (every open / write / writev / linkat / fdatasync /
   close / rename / unlink of the code-shaped writers may fail): single faults (quick) and double faults
   (thorough) over concurrent combined writes that cross the count and the size limit, the timer sync, batch,
   file and generic writers: CrashSafe (success => readable), NoPanic, NoDoubleClose, Unaffected, no deadlock.
   The same model with the deviation switches on (the code as found) must show the panic (BugPrecedence) and
   the deadlock (BugLockLeak).
2. Binding by REAL runs: the worker performs concurrent combined writes (plus batch / file / delete) on a real
   FSTree under `strace -e inject=<call>:error=ENOSPC|EIO:when=k` for every k of every call class after the start
   marker (pairs of faults in the thorough tier); per-operation results, the exit status (panic / hang watchdog)
   and the read-back of a second process are validated against TraceFSTreeSys.tla together with the system calls."""
import json
import random

import fstree_util as fu
import vkit

LEVEL = "model_checking"
CLASSES = ["openat", "write", "writev", "linkat", "fdatasync", "close", "renameat", "unlinkat"]
KF = {"linkat-fail-size-crossing-double-intsync": "c13-linkat-fail-size-crossing-double-intsync",
      "batchlock-leak-newsyncbatch-failure": "c13-batchlock-leak-newsyncbatch-failure"}


def mkjob(n, cfg, ops, sizes, salt, hang=60000):
    return {"cfg": cfg, "n": n, "salt": salt, "hang_ms": hang,
            "vars": [{"a": a + 1, "v": 1, "total": sizes[a % len(sizes)], "attr": 0, "pat": 1, "z": False} for a in range(n)],
            "ops": ops}


def jobs_for(tier, seed):
    lin = {"depth": 1, "cnt": 3, "szlim": 4000, "thr": 4096, "writer": "linux", "nosync": False, "interval": 4}
    j1 = mkjob(12, lin, [{"kind": "par", "as": [1, 2, 3, 4, 5, 6]}, {"kind": "put", "a": 7}, {"kind": "batch", "as": [8, 9]},
                         {"kind": "par", "as": [10, 11, 12]}, {"kind": "del", "a": 2}, {"kind": "put", "a": 2}],
               [1500, 1500, 1500, 300, 700, 2500, 9000, 800, 1200, 1500, 2600, 150], 31)
    # sequential combined writes: every batch is closed by the timer; sizes cross the size limit one by one
    j2 = mkjob(6, dict(lin, cnt=128, szlim=3000, interval=2),
               [{"kind": "par", "as": [1, 2]}, {"kind": "par", "as": [3, 4, 5]}, {"kind": "put", "a": 6}, {"kind": "par", "as": [1, 6, 3]}],
               [1600, 1500, 2990, 100, 3100, 500], 32)
    gen = mkjob(6, dict(lin, writer="generic", depth=2),
                [{"kind": "put", "a": 1}, {"kind": "batch", "as": [2, 3]}, {"kind": "par", "as": [4, 5, 1]}, {"kind": "del", "a": 2},
                 {"kind": "put", "a": 6}, {"kind": "put", "a": 2}],
                [300, 70000, 1500, 700, 2500, 150], 33)
    many_n = 300 if tier == "thorough" else 40
    many = mkjob(many_n, dict(lin, cnt=16, szlim=20000, interval=3),
                 [{"kind": "par", "as": list(range(1, many_n + 1))}], [300, 700, 1500, 2500, 150, 3900], 34, hang=90000)
    # plain files only (every blob above the combined threshold): open(O_TMPFILE) write linkat close, one after the other
    files = mkjob(7, dict(lin, thr=1024), [{"kind": "put", "a": a} for a in (1, 2, 3, 4, 5, 6)] + [{"kind": "del", "a": 3}, {"kind": "put", "a": 3}, {"kind": "put", "a": 7}],
                  [5000, 9000, 1500, 70000, 2500, 4000, 1100], 35)
    # REAL short writev in the middle of a timed batch (worker op "torn": soft RLIMIT_FSIZE lowered for one Put so that
    # the kernel cuts the record inside its data / inside its 38-byte prefix); the timer never fires (60 s), Close flushes
    torn = mkjob(6, dict(lin, cnt=128, szlim=8 << 20, interval=60000),
                 [{"kind": "torn", "as": [1, 2, 3], "cut": 138}, {"kind": "torn", "as": [4, 5, 6], "cut": 20}],
                 [1500, 1200, 700, 900, 2500, 300], 36)
    out = [("combined-mixed", j1), ("combined-size", j2), ("generic", gen), ("linux-files", files), ("torn-batch", torn),
           ("many-concurrent", many)]
    if tier == "thorough":
        r = random.Random(seed * 104729 + 13)
        for i in range(4):
            n = r.randint(6, 14)
            cfg = dict(lin, cnt=r.choice([2, 3, 5]), szlim=r.choice([2500, 4000, 9000]), interval=r.randint(1, 5), depth=r.randint(0, 3))
            ops = []
            for _ in range(r.randint(3, 5)):
                ops.append({"kind": "par", "as": r.sample(range(1, n + 1), r.randint(2, min(6, n)))})
            out.append(("random-%d" % i, mkjob(n, cfg, ops, [r.choice([150, 700, 1500, 2400, 3900]) for _ in range(n)], 200 + i)))
    return out


def run(ck):
    thorough = ck.tier == "thorough"
    fu.make_threadsafe(ck)

    # ------------------------------------------------------------------ 1. models
    def model(job):
        cfg, expect = job
        if expect is None:
            return ck.tlc_model("FSTreeSysMC", cfg, timeout=2700, workers=5, deadlock=True)
        r = ck.tlc("FSTreeSysMC", cfg, timeout=2400, workers=2, count=False, deadlock=True)
        ck.log("TLC FSTreeSysMC/%s (deviation switch on): %s" % (cfg, r.summary()))
        got = r.name if r.kind == "invariant" else r.kind
        if got != expect:
            raise vkit.Infra("as-found model %s did not show the expected deviation %s (got %s)\n%s" % (cfg, expect, got, vkit.tail(r.out, 2500)))
        return r

    if not ck.replay:
        mj = [("FSTreeSys_fault1.cfg", None), ("FSTreeSys_fault1o.cfg", None),
              ("FSTreeSys_asis_prec.cfg", "NoPanic"), ("FSTreeSys_asis_leak.cfg", "deadlock")]
        if thorough:
            mj += [("FSTreeSys_fault2.cfg", None), ("FSTreeSys_fault2o.cfg", None), ("FSTreeSys_fault2c3.cfg", None)]
        fu.pmap(model, mj, workers=4)
        ck.setcov("exhaustive", True)
        ck.setcov("constants", "2-3 writer threads, CountLimit=2 SizeLimit=3 (sizes 1,2,2,1), %s of any call class; as-found switches reproduce panic and deadlock on the model"
                  % ("single and double faults" if thorough else "single faults"))

    # ------------------------------------------------------------------ 2. real runs under fault injection
    binp = ck.gobuild("fstree")
    probe = ck.sh(["strace", "-o", "/dev/null", "-e", "trace=write", "-e", "inject=write:error=ENOSPC:when=60000", "true"], timeout=30)
    if probe.returncode != 0:
        raise vkit.Infra("strace / ptrace injection is not available here: %s" % probe.stderr[-400:])
    if ck.replay:
        rep = json.load(open(ck.replay))["replay"]
        plan = [(rep["tag"], rep["job"], rep.get("inject") or None)]
    else:
        jobs = jobs_for(ck.tier, ck.seed)
        clean = fu.pmap(lambda tj: fu.run_sys_job(ck, binp, tj[1], tj[0] + "-clean", timeout=500), jobs, workers=fu.ncpu_share())
        plan = []
        r = random.Random(ck.seed * 31 + 5)
        for (tag, job), (ev, counts, start, _) in zip(jobs, clean):
            if ev[-2]["st"] != "ok":
                raise vkit.Infra("clean run of %s did not end normally: %s" % (tag, ev[-2]))
            plan.append((tag + "-clean", job, None))
            span = {}
            for c in CLASSES:
                # strace counts invocations per thread: k = 1 .. the largest per-thread count of the clean run; a fault
                # that fires before the start marker is discarded, several threads reaching k give several faults
                ks = list(range(1, counts["_max_per_thread"].get(c, 0) + 1))
                span[c] = ks
                cap = (40 if thorough else 6) if tag in ("many-concurrent", "torn-batch") else (400 if thorough else 14)
                if len(ks) > cap:
                    step = len(ks) / float(cap)
                    ks = sorted({ks[int(i * step)] for i in range(cap)} | {ks[-1]})
                for k in ks:
                    plan.append(("%s-%s-%d" % (tag, c, k), job, "%s:error=%s:when=%d" % (c, "ENOSPC" if k % 2 else "EIO", k)))
            if thorough and tag != "many-concurrent":          # double faults: random pairs of distinct classes
                cl = [c for c in CLASSES if span[c]]
                for _ in range(120):
                    c1, c2 = r.sample(cl, 2)
                    k1, k2 = r.choice(span[c1]), r.choice(span[c2])
                    plan.append(("%s-%s-%d+%s-%d" % (tag, c1, k1, c2, k2), job,
                                 ["%s:error=EIO:when=%d" % (c1, k1), "%s:error=ENOSPC:when=%d" % (c2, k2)]))
    plan = list({p[0]: p for p in plan}.values())          # random pairs may repeat: one run (and one scratch dir) per tag
    ck.log("%d worker runs planned" % len(plan))

    runs = fu.pmap(lambda p: fu.run_sys_job(ck, binp, p[1], p[0], inject=p[2], timeout=500), plan, workers=fu.ncpu_share())
    events, index = [], []
    hit_tree, misfire, nofire = 0, 0, 0
    classes, exits = set(), {}
    for (tag, job, inj), (ev, counts, _, stderr) in zip(plan, runs):
        injected = counts.get("_injected", [])
        if inj is not None:
            if not injected:
                nofire += 1
                continue
            if not all(x["on_tree"] and x["after_start"] for x in injected):
                misfire += 1            # the fault hit a call of the Go runtime / harness, not of the tree: not a run of interest
                continue
            hit_tree += 1
            classes |= {x["call"] for x in injected}
        index.append((len(events) + 1, tag, job, inj, stderr))
        events += ev
        st = [e for e in ev if e["ev"] == "exit"][0]["st"]
        exits[st] = exits.get(st, 0) + 1
    trace = ck.tmp + "/sys-trace.ndjson"
    vkit.write_ndjson(trace, events)
    v = ck.tlc_validate("TraceFSTreeSys", "TraceFSTreeSys.cfg", trace, timeout=3000, heap="5g")
    ck.setcov("traces_validated_against_impl", len(index))
    ck.setcov("runs_planned", len(plan))
    ck.setcov("runs_fault_on_tree_call", hit_tree)
    ck.setcov("runs_fault_misfired", misfire)
    ck.setcov("runs_fault_not_reached", nofire)
    ck.setcov("fault_classes_hit", sorted(classes))
    ck.setcov("exit_states", exits)
    ck.setcov("op_results", {k: sum(1 for e in events if e["ev"] == "res" and e["r"] == k) for k in ("ok", "err", "nf")})
    ck.setcov("trace_events", len(events))
    if index:
        ck.sample({"run": index[0][1], "events_head": events[:5]})
        errs = [i for i in index if i[3]]
        if errs:
            s0 = errs[len(errs) // 2]
            ck.sample({"run": s0[1], "inject": s0[3], "results": [e for e in events[s0[0] - 1:s0[0] + 400] if e["ev"] in ("res", "exit")][:8]})
    if v.ok and v.distinct < len(events) + 1:
        raise vkit.Infra("trace validation stopped early (%d states, %d events)" % (v.distinct, len(events)))
    if not ck.replay and (hit_tree < 40 or len(classes) < 5):
        raise vkit.Infra("vacuous: only %d runs with a fault on a tree call (classes %s)" % (hit_tree, sorted(classes)))

    def run_of(pos):
        return [x for x in index if x[0] <= pos][-1]

    seen = {}
    for sig, idx, _ in fu.kf_lines(v.out):
        seen.setdefault(sig, []).append(idx)
    for sig, idxs in sorted(seen.items()):
        start, tag, job, inj, stderr = run_of(idxs[0])
        ck.setcov("deviation_runs_" + sig, len(set(idxs)))
        ck.report(KF.get(sig, "c13-" + sig),
                  "real writer deviates exactly as the as-found model predicts (%s) in run %s inject %s: %s" % (sig, tag, inj, stderr[-300:]),
                  {"tag": tag, "job": job, "inject": inj, "signature": sig, "stderr": stderr[-1500:]})
    if not v.ok:
        pos = fu.last_l(v) - 1
        start, tag, job, inj, stderr = run_of(pos)
        e = events[pos - 1]
        if v.kind == "invariant" and v.name in ("CrashSafeT", "PropOK", "ExitOK", "BlameOK", "AffectedOK"):
            what = {"CrashSafeT": "a write was acknowledged although the named files do not hold its exact bytes (or partial bytes are exposed)",
                    "PropOK": "the reopened tree lost an acknowledged object, returned foreign / partial bytes or listed a non-object",
                    "ExitOK": "the process panicked, hung or did not answer an operation after a failed file-system call",
                    "BlameOK": "an operation reported an error although no call of its own or of its batch failed (unaffected write failed)",
                    "AffectedOK": "an operation reported success although a call of its own or of its batch file failed (affected write did not fail)"}[v.name]
            ck.violation("%s (run %s, inject %s, event %d: %s) stderr: %s" % (what, tag, inj, pos - start + 1, json.dumps(e)[:500], stderr[-400:]),
                         {"tag": tag, "job": job, "inject": inj, "invariant": v.name, "event": e, "stderr": stderr[-1500:],
                          "run_events": events[start - 1:pos]})
        else:
            raise vkit.Infra("trace rejected for a reason that is not a verdict (%s %s) in run %s at %s\n%s"
                             % (v.kind, v.name, tag, json.dumps(e)[:500], vkit.tail(v.out, 2500)))
    ck.assumptions += [
        "faults are errors returned by the system call with no side effect (strace error injection: the call is not executed); short writes are real: one job lowers RLIMIT_FSIZE so that the kernel cuts a writev in the middle of a batch record",
        "a fault that lands on a call of the Go runtime or of the harness (not on a tree file) is discarded, not judged",
        "hang = the worker's watchdog (60-90 s) fired; panic = exit status 2",
        "`affected` = the operation's own call failed, or a call on the batch file it was written to, or (open of a new batch) one operation per failed open",
    ]
