------------------------------ MODULE TraceACL ------------------------------
(* C28 record validation: every record {in, out} produced by the real pipeline must satisfy
   out.v = Decide(in).  One step per record so that a counterexample names the record (l). *)
EXTENDS ACL, Json
Recs == ndJsonDeserialize("trace.ndjson")
VARIABLE l
TraceInit == l = 1 /\ inp = 0 /\ ph = 0
TraceNext == l <= Len(Recs) /\ l' = l + 1 /\ UNCHANGED <<inp, ph>>
TraceSpec == TraceInit /\ [][TraceNext]_<<l, inp, ph>>
RecOK == l > Len(Recs) \/ Decide(Recs[l].in) = Recs[l].out.v
\* all disagreeing records at once (the invariant above stops at the first one)
BadRecs == {i \in 1..Len(Recs) : Decide(Recs[i].in) # Recs[i].out.v \/ (Recs[i].out.v = "allow" /\ ~Served(Recs[i].in))}
CONSTANT ListBad
ASSUME ListBad => PrintT(<<"BADRECS", BadRecs>>)
\* the property itself on the recorded verdicts (independent of Decide): served only if Served
RecServedOnlyIf == l > Len(Recs) \/ (Recs[l].out.v = "allow" => Served(Recs[l].in))
=============================================================================
