-------------------------- MODULE TraceSigned256 --------------------------
(* C05 - record validation: every record written by `search c05recs` from the REAL Go functions
   (signed256.ParseDecimal/ParseNormalizedDecimal/DecodeBytes/Cmp/String/EncodeBytes/NewInt/NewUint64,
   objectcore.splitIntString/compareIntStrings/PreprocessSearchQuery/CalculateCursor/MergeSearchResults/
   RestoreIntAttribute) must equal the value of the spec operators of IntStr.tla at full width
   (KB = 256, KN = 32, MaxDigits = 2^256-1). One step per record, so a rejection names the record (l).      *)
EXTENDS IntStr, Json, TLC

MaxDigitsFull == <<1, 1, 5, 7, 9, 2, 0, 8, 9, 2, 3, 7, 3, 1, 6, 1, 9, 5, 4, 2, 3, 5, 7, 0, 9, 8, 5, 0, 0, 8, 6, 8, 7, 9, 0, 7, 8, 5, 3, 2, 6, 9, 9, 8, 4, 6, 6, 5, 6, 4, 0, 5, 6, 4, 0, 3, 9, 4, 5, 7, 5, 8, 4, 0, 0, 7, 9, 1, 3, 1, 2, 9, 6, 3, 9, 9, 3, 5>>

Recs == ndJsonDeserialize("trace.ndjson")
VARIABLE l

CONSTANT Chunk          \* records are checked in independent chunks so that several TLC workers share them

E(r) == [ok |-> r.ok, dec |-> IF r.ok THEN PrintNum(Val(r)) ELSE <<>>, key |-> IF r.ok THEN Key(Val(r)) ELSE <<>>]

\* numeric filter value through PreprocessSearchQuery: acceptance and the seek key are pinned; the
\* "unreachable"/"auto match" shortcuts only have to be sound
FltOK(f, v, kv) ==
  LET isMax == v.ok /\ ~v.neg /\ v.mag = MaxDigits
      isMin == v.ok /\ v.neg /\ v.mag = MaxDigits
  IN /\ f.acc = v.ok
     /\ f.unreach => ((f.op = "GT" /\ isMax) \/ (f.op = "LT" /\ isMin))
     /\ f.auto => ((f.op = "LE" /\ isMax) \/ (f.op = "GE" /\ isMin))
     /\ (f.acc /\ ~f.unreach /\ ~f.auto) => f.raw = kv
     /\ (~f.acc \/ f.unreach \/ f.auto) => f.raw = <<>>

ParseOK(in, out) ==
  LET pd == ImplParseDecimal(in.s)
      epd == E(pd)
      sp == ImplSplit(in.s)
      fv == ImplFilterValue(in.s)
      kfv == IF fv.ok THEN (IF fv = pd THEN epd.key ELSE Key(Val(fv))) ELSE <<>>
  IN /\ out.pd = epd
     /\ out.sp = sp
     /\ out.pn = IF sp.ok THEN (LET pn == ImplParseNormalized(sp.neg, sp.dig) IN IF pn = pd THEN epd ELSE E(pn)) ELSE E(Fail)
     /\ \A i \in 1..Len(out.flt) : FltOK(out.flt[i], fv, kfv)
     /\ Len(out.flt) = 4
     /\ out.cur = [ok |-> pd.ok, framed |-> pd.ok, key |-> epd.key]
     \* print -> parse round trip, key -> value -> print
     /\ out.rt = epd
     /\ out.dk = [ok |-> pd.ok, dec |-> epd.dec]
     /\ out.ria = [ok |-> pd.ok, dec |-> epd.dec]
     /\ pd.ok => /\ KeyWellFormed(epd.key) /\ DecodeKey(epd.key) = Val(pd)
                 /\ ImplParseDecimal(epd.dec) = pd

PnOK(in, out) == out = E(ImplParseNormalized(in.neg, in.dig))

CmpOK(in, out) ==
  LET pa == ImplParseDecimal(in.a)
      pb == ImplParseDecimal(in.b)
      c == IF pa.ok /\ pb.ok THEN CmpNum(Val(pa), Val(pb)) ELSE 0
      sc == ImplCompareIntStrings(in.a, in.b)
  IN /\ out.cmp = [ok |-> pa.ok /\ pb.ok, c |-> c, kc |-> c]
     /\ (pa.ok /\ pb.ok) => c = BytesCmp(Key(Val(pa)), Key(Val(pb)))
     /\ out.scmp = sc
     /\ out.m1 = [ok |-> sc.ok, first |-> IF ~sc.ok THEN "" ELSE IF sc.c <= 0 THEN "a" ELSE "b"]
     /\ out.m2 = [ok |-> sc.ok, first |-> IF ~sc.ok THEN "" ELSE IF sc.c < 0 THEN "a" ELSE "b"]

DecOK(in, out) ==
  LET wf == KeyWellFormed(in.key)
      d == IF wf THEN PrintNum(DecodeKey(in.key)) ELSE <<>>
  IN out = [ok |-> wf, dec |-> d, ok2 |-> wf, dec2 |-> d]

U64OK(in, out) == LET n == Norm(in.s)
                      k == Key(n)
                  IN out = [dec |-> PrintNum(n), key |-> k, dec2 |-> PrintNum(n), key2 |-> k]
I64OK(in, out) == LET n == Norm(in.s) IN out = [dec |-> PrintNum(n), key |-> Key(n)]

RecOKAt(r) == CASE r.k = "parse" -> ParseOK(r.in, r.out)
                [] r.k = "pn" -> PnOK(r.in, r.out)
                [] r.k = "cmp" -> CmpOK(r.in, r.out)
                [] r.k = "dec" -> DecOK(r.in, r.out)
                [] r.k = "u64" -> U64OK(r.in, r.out)
                [] r.k = "i64" -> I64OK(r.in, r.out)

\* state = index of the record under test (0 = none yet); every record is one state, the invariant judges it.
\* The single initial state is trivial on purpose: TLC evaluates initial states on the JVM's main thread whose
\* stack is small; all records are judged as successor states by worker threads (-Xss applies there).
TraceInit == l = 0
TraceNext == \/ l = 0 /\ l' \in {1 + k * Chunk : k \in 0..((Len(Recs) - 1) \div Chunk)}
             \/ l > 0 /\ l < Len(Recs) /\ l % Chunk # 0 /\ l' = l + 1
TraceSpec == TraceInit /\ [][TraceNext]_l
RecOK == l = 0 \/ RecOKAt(Recs[l])
=============================================================================
