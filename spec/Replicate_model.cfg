SPECIFICATION Spec
INVARIANTS AcceptIffAllChecks StoredOnlyIfAccepted AcceptedIsStored
CHECK_DEADLOCK FALSE
