SPECIFICATION Spec
CONSTANTS
  MaxEpoch = 3
  NSenders = 2
  RSigs = {"ok", "bad"}
  RSchemes = {"sha512", "n3"}
  RObjs = {"valid", "badheader"}
  RCnrs = {"known", "unknown"}
INVARIANTS OkOnlyIfAccepted StoredOnlyIfAccepted OkMeansStored AcceptedWhenAllChecksPass AllRequestsAgree
CHECK_DEADLOCK FALSE
