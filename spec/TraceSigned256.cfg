SPECIFICATION TraceSpec
CONSTANTS
  KB = 256
  KN = 32
  Chunk = 40
  MaxDigits <- MaxDigitsFull
  BugPlusAfterSign = FALSE
  BugMergeNoRange = FALSE
INVARIANTS RecOK
CHECK_DEADLOCK FALSE
