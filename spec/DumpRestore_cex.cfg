SPECIFICATION Spec
CONSTANTS
  NRec = 3
  MaxCuts = 1
  BugH4 = TRUE
INVARIANTS RestoreExact
CHECK_DEADLOCK FALSE
