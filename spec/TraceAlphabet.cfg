SPECIFICATION TraceSpec
CONSTANTS
  N = 4
  ClientChecksMembership = TRUE
INVARIANTS RecProp RecCode
CHECK_DEADLOCK FALSE
