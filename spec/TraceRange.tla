----------------------------- MODULE TraceRange -----------------------------
(* C11 - record validation: every answer of every range API of every source (FSTree plain / combined / zstd,
   write-cache, shard with and without write-cache, engine; with and without header interception) to a request
   (mode, a, b) on a stored payload of L bytes must be the one the reference definition Range!Ideal gives:
   out-of-range exactly when the slice is unsatisfiable, otherwise exactly the bytes of the slice (length, first and
   last 8 bytes computed from the payload pattern Byte, and the harness's contiguity flag).
   One state per record (l), so a rejected record is named by the counterexample. Offsets above 2^29 are clamped to
   2^29 by the check: Apalache proves (RangeApa!ClampLemma) that Ideal is invariant under this clamping for L < 2^20.
   Known deviation (BugFromZeroEmpty, accepted and printed as "KF" only in exactly that case): out-of-range for
   `from 0` on an empty payload from the Resolve-based APIs. *)
EXTENDS Range, Json
CONSTANT AllowAsIs
Recs == ndJsonDeserialize("trace.ndjson")
VARIABLE l
Clamp == 536870912
MW == Clamp + 1

Expect(r) == Ideal(r.in.mode, r.in.a, r.in.b, r.in.L)
Bytes(from, cnt) == [k \in 1..cnt |-> Byte(from + k - 1)]
Matches(r, i) ==
  IF i = OOR THEN r.out.st = "oor"
  ELSE /\ r.out.st = "ok" /\ r.out.n = i[2] /\ r.out.contig
       /\ r.out.head = Bytes(i[1], Min(8, i[2]))
       /\ r.out.tail = Bytes(i[1] + i[2] - Min(8, i[2]), Min(8, i[2]))
AsIs(r) == Delivered(CodeResolve(MW, TRUE, r.in.mode, r.in.a, r.in.b, r.in.L), r.in.L)
OK(r, idx) == \/ Matches(r, Expect(r))
              \/ /\ AllowAsIs /\ AsIs(r) # Expect(r) /\ Matches(r, AsIs(r))
                 /\ PrintT(<<"KF", "from-zero-empty-payload-out-of-range", idx>>)

Init == l = 1
Next == l <= Len(Recs) /\ l' = l + 1
Spec == Init /\ [][Next]_l
RecOK == l > Len(Recs) \/ OK(Recs[l], l)
=============================================================================
