SPECIFICATION SpecAdm
CONSTANTS
  MaxEpoch = 1
INVARIANTS AdmCodeIsRef AdmProperty
CHECK_DEADLOCK FALSE
