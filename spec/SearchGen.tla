------------------------------ MODULE SearchGen ------------------------------
(* C03 - M->C: behaviours of SearchMC (a corpus, then a query) printed as JSON for replay on a real meta.DB.
   tlc -simulate num=N -depth 2 : every behaviour is one random (corpus, query) pair of the model's universe. *)
EXTENDS SearchMC, Json
Emit == q # NoQ => PrintT(<<"BEH", ToJson([objs |-> corpus, q |-> q])>>)
=============================================================================
