SPECIFICATION Spec
CONSTANTS
  Worlds <- MCWorlds
  BugCursorLeak = FALSE
  MaxInt = 2
  MaxNC = 2
  MaxA = 2
  MaxH = 1
  Budgets = {1, 2}
INVARIANTS TypeOK ExactlyOneFormat HomoPaired OtherUntouched Upgraded ReadyIsCurrent
