------------------------------ MODULE WriteCache ------------------------------
(* C16 / C17 - pkg/local_object_storage/writecache (+ the shard's use of it: shard/put.go, get.go,
   delete.go, writecache.go, mode.go).

   Implementation-shaped: one action per critical section of the Go code.
     client put     PutAdmit (mode check, admission on counters.Size) -> PutFS (fsTree.Put) -> PutCount (counters.Add)
     client delete  DelFS (fsTree.Delete)                                       ->  DelCount (counters.Delete)
     client get     [GetMeta] -> GetHas (counters.HasAddress) -> GetRead (fsTree.Get) -> [BlobRead]
     flushScheduler SchedWake (select on flushErrCh / tick) -> SchedSnap (Size()==0 check, Map() minus
                    flushObjs, sort) -> per batch SchedSend (select: flushErrCh | flushCh<-b), with the
                    slice-window arithmetic of the Go code: b = sortedAddrs[i:i], then b = b[:len(b)+1]
     flushWorker    WRead (modeMtx.RLock, readOnly check, getObject for each address) -> BlobPutW (storage.Put/PutBatch,
                    may fail) -> WDelFS/WDelCount per object -> WFin (flushObjs.Delete, flushErrCh<-)
     Flush / SetMode(degraded) iterate the FSTree and run flushSingle for every file
     Reopen         Close + new instance: counters re-initialised from the disk (initCounters)

   An address a has the fixed size Sz(a) = a (so sizes are distinct and the scheduler's sort by size is
   deterministic) and fixed bytes; "file[a]" / "blob[a]" say whether these bytes are stored.

   Deviation switches (TRUE = the code as it is, FALSE = repaired code):
     BugH3      counters.Add does size += sz also when the address is already counted
     BugAlias   after sending a batch that already contains the current address the scheduler resets the
                batch window to sortedAddrs[i:i]; the next append re-adds sortedAddrs[i] instead of the next
                address, which is then never sent and stays in flushObjs for ever
     BugErrLeak the error branch of the scheduler's send removes the queued batch from flushObjs but not the
                current (big) address that is not in the batch yet
     BugSplit   FS step and counter step of put/delete are separate critical sections (TRUE = as in the
                code; FALSE = hypothetical repair making them atomic)                                     *)
EXTENDS Integers, Sequences, FiniteSets, TLC

CONSTANTS Addrs, Threshold, MaxCount, MaxBSize, MaxCache, NW, Procs, Ops, Modes, Shard, Markers,
          MaxFail, MaxCalls, BugH3, BugAlias, BugErrLeak, BugSplit

Sz(a)  == a
Big(a) == a > Threshold
RECURSIVE Sum(_)
Sum(S) == IF S = {} THEN 0 ELSE LET x == CHOOSE y \in S : TRUE IN x + Sum(S \ {x})
SetOf(s) == {s[i] : i \in DOMAIN s}
RECURSIVE Sorted(_)
Sorted(S) == IF S = {} THEN <<>>
             ELSE LET m == CHOOSE x \in S : \A y \in S : x <= y IN <<m>> \o Sorted(S \ {m})
Workers == 1..NW

VARIABLES file, cmap, csize,      \* write-cache: files in its FSTree, objCounters.objMap, objCounters.size
          blob, meta,             \* main storage, metabase "exists" bit (Shard level only)
          inflight, errq,         \* flushObjs, flushErrCh holds a token
          mode,                   \* "rw" | "ro" | "deg" (cache mode = shard mode)
          sch, wk, cl,            \* scheduler, workers, client calls
          nfail, ncalls,          \* bounds
          acked,                  \* monitor (C16): put acknowledged and no delete started since
          hist                    \* monitor: set of history classes seen (known-finding predicates)
vars == <<file, cmap, csize, blob, meta, inflight, errq, mode, sch, wk, cl, nfail, ncalls, acked, hist>>

Files == {a \in Addrs : file[a]}
CMap  == {a \in Addrs : cmap[a]}
Blob  == {a \in Addrs : blob[a]}
Meta  == {a \in Addrs : meta[a]}

IdleC == [op |-> "idle", a |-> 0, pc |-> "", res |-> "", must |-> FALSE, todo |-> {}, vis |-> {},
          ex |-> FALSE, m |-> ""]
IdleW == [pc |-> "idle", batch |-> <<>>, objs |-> {}, err |-> FALSE, cur |-> 0]
SchWait == [pc |-> "wait", srt |-> <<>>, i |-> 0, bst |-> 0, bln |-> 0, bs |-> 0, handled |-> FALSE]

InitVals == [file |-> [a \in Addrs |-> FALSE], cmap |-> [a \in Addrs |-> FALSE], csize |-> 0,
             blob |-> [a \in Addrs |-> FALSE], meta |-> [a \in Addrs |-> FALSE], inflight |-> {},
             errq |-> FALSE, mode |-> "rw", sch |-> SchWait, wk |-> [w \in Workers |-> IdleW],
             cl |-> [p \in Procs |-> IdleC], nfail |-> 0, ncalls |-> 0, acked |-> [a \in Addrs |-> FALSE],
             hist |-> {}]
SetAll(v) == /\ file' = v.file /\ cmap' = v.cmap /\ csize' = v.csize /\ blob' = v.blob /\ meta' = v.meta
             /\ inflight' = v.inflight /\ errq' = v.errq /\ mode' = v.mode /\ sch' = v.sch /\ wk' = v.wk
             /\ cl' = v.cl /\ nfail' = v.nfail /\ ncalls' = v.ncalls /\ acked' = v.acked /\ hist' = v.hist
Init == /\ file = InitVals.file /\ cmap = InitVals.cmap /\ csize = 0 /\ blob = InitVals.blob
        /\ meta = InitVals.meta /\ inflight = {} /\ errq = FALSE /\ mode = "rw" /\ sch = SchWait
        /\ wk = InitVals.wk /\ cl = InitVals.cl /\ nfail = 0 /\ ncalls = 0 /\ acked = InitVals.acked
        /\ hist = {}

-----------------------------------------------------------------------------
(* locks: cache.modeMtx (RLock: put, delete, Flush, worker flush; Lock: SetMode) and Shard.m *)
FlushPcs == {"fl", "flput", "fldel", "fldcnt"}
WLocked  == \E p \in Procs : cl[p].op = "setmode" /\ cl[p].pc \in FlushPcs
RHeldC(p) == \/ cl[p].pc \in {"putfs", "putcnt", "delcnt"}
             \/ cl[p].op = "flush" /\ cl[p].pc \in FlushPcs
RHeldW(w) == wk[w].pc \in {"put", "del", "delcnt"}
AnyRHeld == (\E p \in Procs : RHeldC(p)) \/ (\E w \in Workers : RHeldW(w))
Excl     == \E q \in Procs : cl[q].op \in {"setmode", "reopen"}

IsFl(p) == cl[p].op \in {"flush", "setmode"}
To(p, pc)     == cl' = [cl EXCEPT ![p].pc = pc]
RetC(p, res)  == cl' = [cl EXCEPT ![p].pc = "ret", ![p].res = res]

(* counters.Add / counters.Delete *)
AddSize(a) == IF BugH3 THEN csize + Sz(a) ELSE csize + Sz(a) - (IF cmap[a] THEN Sz(a) ELSE 0)
DelSize(a) == csize - (IF cmap[a] THEN Sz(a) ELSE 0)
CountAdd(a) == /\ csize' = AddSize(a) /\ cmap' = [cmap EXCEPT ![a] = TRUE]
               /\ hist' = hist \cup (IF BugH3 /\ cmap[a] THEN {"h3"} ELSE {})
                               \cup (IF ~file[a] THEN {"ghost"} ELSE {})
CountDel(a) == /\ csize' = DelSize(a) /\ cmap' = [cmap EXCEPT ![a] = FALSE]
               /\ hist' = hist \cup (IF file[a] THEN {"hidden"} ELSE {})
\* the same two, applied in the same step as an FS change (atomic variant, BugSplit = FALSE)
CountAddAt(a) == /\ csize' = AddSize(a) /\ cmap' = [cmap EXCEPT ![a] = TRUE]
                 /\ hist' = hist \cup (IF BugH3 /\ cmap[a] THEN {"h3"} ELSE {})

-----------------------------------------------------------------------------
(* client calls: Begin (call start, visible) ... hidden steps ... Ret (call end, visible) *)
Begin(p, op, a, m) ==
  /\ op \in Ops /\ cl[p].op = "idle" /\ ncalls < MaxCalls /\ ~Excl
  /\ op \in {"setmode", "reopen"} => \A q \in Procs : cl[q].op = "idle"
  /\ op = "setmode" => m \in Modes /\ ~(mode = "ro" /\ m = "deg")   \* ro -> deg needs a writable main storage
  /\ op \in {"put", "del", "get"} => a \in Addrs
  /\ ncalls' = ncalls + 1
  /\ LET c0 == [IdleC EXCEPT !.op = op, !.a = a, !.pc = "start", !.m = m]
         c1 == IF op = "get" THEN [c0 EXCEPT !.must = acked[a]]
               \* a put creates a read obligation only if no delete of the address overlaps it
               ELSE IF op = "put" THEN [c0 EXCEPT !.must = ~\E q \in Procs : cl[q].op = "del" /\ cl[q].a = a]
               ELSE c0
         \* a delete that starts ends the read obligation of gets (and of puts) in flight on the same address
         clr(q) == IF op = "del" /\ cl[q].op \in {"get", "put"} /\ cl[q].a = a
                   THEN [cl[q] EXCEPT !.must = FALSE] ELSE cl[q]
     IN cl' = [q \in Procs |-> IF q = p THEN c1 ELSE clr(q)]
  /\ acked' = IF op = "del" THEN [acked EXCEPT ![a] = FALSE] ELSE acked
  /\ UNCHANGED <<file, cmap, csize, blob, meta, inflight, errq, mode, sch, wk, nfail, hist>>

Ret(p) ==
  /\ cl[p].pc = "ret"
  /\ cl' = [cl EXCEPT ![p] = IdleC]
  /\ acked' = IF Shard /\ cl[p].op = "put" /\ cl[p].res = "ok" /\ mode # "deg" /\ cl[p].must
              THEN [acked EXCEPT ![cl[p].a] = TRUE] ELSE acked
  /\ UNCHANGED <<file, cmap, csize, blob, meta, inflight, errq, mode, sch, wk, nfail, ncalls, hist>>

(* ---- put: Shard.Put -> writeCache.Put -> (fallback blobStor.Put) -> metaBase.Put *)
\* writeCache.Put: modeMtx.RLock, read-only check, admission against the reported size
PutAdmit(p) ==
  LET a == cl[p].a IN
  /\ cl[p].op = "put" /\ cl[p].pc = "start" /\ ~WLocked
  /\ IF mode = "ro" THEN RetC(p, "readonly")
     ELSE IF MaxCache < csize + Sz(a) THEN (IF Shard THEN To(p, "spblob") ELSE RetC(p, "nospace"))
     ELSE To(p, "putfs")
  /\ UNCHANGED <<file, cmap, csize, blob, meta, inflight, errq, mode, sch, wk, nfail, ncalls, acked, hist>>

\* fsTree.Put
PutFS(p) ==
  LET a == cl[p].a IN
  /\ cl[p].op = "put" /\ cl[p].pc = "putfs"
  /\ file' = [file EXCEPT ![a] = TRUE]
  /\ IF BugSplit THEN To(p, "putcnt") /\ UNCHANGED <<cmap, csize, hist>>
     ELSE CountAddAt(a) /\ (IF Shard /\ mode # "deg" THEN To(p, "meta") ELSE RetC(p, "ok"))
  /\ UNCHANGED <<blob, meta, inflight, errq, mode, sch, wk, nfail, ncalls, acked>>

PutCount(p) ==
  /\ cl[p].op = "put" /\ cl[p].pc = "putcnt"
  /\ CountAdd(cl[p].a)
  /\ IF Shard /\ mode # "deg" THEN To(p, "meta") ELSE RetC(p, "ok")
  /\ UNCHANGED <<file, blob, meta, inflight, errq, mode, sch, wk, nfail, ncalls, acked>>

\* visible (storage decorator): Shard.Put falls back to the main storage when the cache refuses
BlobPutC(p, ok) ==
  /\ cl[p].op = "put" /\ cl[p].pc = "spblob"
  /\ IF ok THEN /\ blob' = [blob EXCEPT ![cl[p].a] = TRUE] /\ nfail' = nfail
                /\ IF mode # "deg" THEN To(p, "meta") ELSE RetC(p, "ok")
     ELSE /\ nfail < MaxFail /\ nfail' = nfail + 1 /\ RetC(p, "err") /\ UNCHANGED blob
  /\ UNCHANGED <<file, cmap, csize, meta, inflight, errq, mode, sch, wk, ncalls, acked, hist>>

MetaPut(p) ==
  /\ cl[p].op = "put" /\ cl[p].pc = "meta"
  /\ meta' = [meta EXCEPT ![cl[p].a] = TRUE]
  /\ RetC(p, "ok")
  /\ UNCHANGED <<file, cmap, csize, blob, inflight, errq, mode, sch, wk, nfail, ncalls, acked, hist>>

(* ---- delete: Shard.Delete -> writeCache.Delete -> metaBase.Delete -> blobStor.Delete *)
DelFS(p) ==
  LET a == cl[p].a
      done(res) == IF Shard THEN To(p, "mdel") ELSE RetC(p, res) IN
  /\ cl[p].op = "del" /\ cl[p].pc = "start" /\ ~WLocked
  /\ IF mode = "ro" THEN RetC(p, "readonly") /\ UNCHANGED <<file, cmap, csize, hist>>
     ELSE IF Shard /\ mode = "deg" THEN RetC(p, "degraded") /\ UNCHANGED <<file, cmap, csize, hist>>
     ELSE IF ~file[a] THEN done("notfound") /\ UNCHANGED <<file, cmap, csize, hist>>
     ELSE /\ file' = [file EXCEPT ![a] = FALSE]
          /\ IF BugSplit THEN To(p, "delcnt") /\ UNCHANGED <<cmap, csize, hist>>
             ELSE /\ csize' = DelSize(a) /\ cmap' = [cmap EXCEPT ![a] = FALSE] /\ hist' = hist
                  /\ done("ok")
  /\ UNCHANGED <<blob, meta, inflight, errq, mode, sch, wk, nfail, ncalls, acked>>

DelCount(p) ==
  /\ cl[p].op = "del" /\ cl[p].pc = "delcnt"
  /\ CountDel(cl[p].a)
  /\ IF Shard THEN To(p, "mdel") ELSE RetC(p, "ok")
  /\ UNCHANGED <<file, blob, meta, inflight, errq, mode, sch, wk, nfail, ncalls, acked>>

MetaDel(p) ==
  /\ cl[p].op = "del" /\ cl[p].pc = "mdel"
  /\ meta' = [meta EXCEPT ![cl[p].a] = FALSE]
  /\ To(p, "bdel")
  /\ UNCHANGED <<file, cmap, csize, blob, inflight, errq, mode, sch, wk, nfail, ncalls, acked, hist>>

\* visible (storage decorator)
BlobDel(p) ==
  /\ cl[p].op = "del" /\ cl[p].pc = "bdel"
  /\ blob' = [blob EXCEPT ![cl[p].a] = FALSE]
  /\ RetC(p, "ok")
  \* history class "bdflush": the main-storage copy is removed while a flusher is between its storage
  \* put and its cache delete of the same address (the flusher will delete whatever is cached then)
  /\ hist' = hist \cup (IF \/ \E w \in Workers : wk[w].pc \in {"del", "delcnt"} /\ cl[p].a \in wk[w].objs
                           \/ \E q \in Procs : IsFl(q) /\ cl[q].pc = "fldel" /\ cl[q].a = cl[p].a
                        THEN {"bdflush"} ELSE {})
  /\ UNCHANGED <<file, cmap, csize, meta, inflight, errq, mode, sch, wk, nfail, ncalls, acked>>

(* ---- get: Shard.Get -> metaBase.Exists -> writeCache.Get (HasAddress, fsTree.Get) -> blobStor.Get *)
GetMeta(p) ==
  /\ Shard /\ cl[p].op = "get" /\ cl[p].pc = "start"
  /\ cl' = [cl EXCEPT ![p].pc = "has", ![p].ex = meta[cl[p].a]]
  /\ UNCHANGED <<file, cmap, csize, blob, meta, inflight, errq, mode, sch, wk, nfail, ncalls, acked, hist>>

Miss(p) == IF ~Shard THEN RetC(p, "notfound")
           ELSE IF mode = "deg" \/ cl[p].ex THEN To(p, "bread") ELSE RetC(p, "notfound")

GetHas(p) ==
  /\ cl[p].op = "get" /\ cl[p].pc = (IF Shard THEN "has" ELSE "start")
  /\ IF cmap[cl[p].a] THEN To(p, "read") ELSE Miss(p)
  /\ UNCHANGED <<file, cmap, csize, blob, meta, inflight, errq, mode, sch, wk, nfail, ncalls, acked, hist>>

GetRead(p) ==
  /\ cl[p].op = "get" /\ cl[p].pc = "read"
  /\ IF file[cl[p].a] THEN RetC(p, "ok") ELSE Miss(p)
  /\ UNCHANGED <<file, cmap, csize, blob, meta, inflight, errq, mode, sch, wk, nfail, ncalls, acked, hist>>

\* visible (storage decorator)
BlobRead(p) ==
  /\ cl[p].op = "get" /\ cl[p].pc = "bread"
  /\ RetC(p, IF blob[cl[p].a] THEN "ok" ELSE "notfound")
  /\ UNCHANGED <<file, cmap, csize, blob, meta, inflight, errq, mode, sch, wk, nfail, ncalls, acked, hist>>

(* ---- explicit Flush / SetMode: iterate the FSTree, flushSingle per file *)
FlushStart(p) ==
  /\ cl[p].op = "flush" /\ cl[p].pc = "start" /\ ~WLocked
  /\ IF Shard /\ mode = "ro" THEN RetC(p, "readonly")
     ELSE IF Shard /\ mode = "deg" THEN RetC(p, "degraded")
     ELSE cl' = [cl EXCEPT ![p].pc = "fl", ![p].todo = Files, ![p].vis = {}]
  /\ UNCHANGED <<file, cmap, csize, blob, meta, inflight, errq, mode, sch, wk, nfail, ncalls, acked, hist>>

SetModeStart(p) ==
  /\ cl[p].op = "setmode" /\ cl[p].pc = "start" /\ ~AnyRHeld
  /\ IF cl[p].m = "deg" /\ mode # "deg"
     THEN cl' = [cl EXCEPT ![p].pc = "fl", ![p].todo = Files, ![p].vis = {}] /\ mode' = mode
     ELSE mode' = cl[p].m /\ RetC(p, "ok")
  /\ UNCHANGED <<file, cmap, csize, blob, meta, inflight, errq, sch, wk, nfail, ncalls, acked, hist>>

FlushPick(p, a) ==
  /\ IsFl(p) /\ cl[p].pc = "fl" /\ a \notin cl[p].vis /\ file[a]
  /\ cl' = [cl EXCEPT ![p].pc = "flput", ![p].a = a, ![p].vis = @ \cup {a}]
  /\ UNCHANGED <<file, cmap, csize, blob, meta, inflight, errq, mode, sch, wk, nfail, ncalls, acked, hist>>

\* visible (storage decorator)
BlobPutF(p, ok) ==
  /\ IsFl(p) /\ cl[p].pc = "flput"
  /\ IF ok THEN blob' = [blob EXCEPT ![cl[p].a] = TRUE] /\ nfail' = nfail /\ To(p, "fldel")
     ELSE nfail < MaxFail /\ nfail' = nfail + 1 /\ RetC(p, "err") /\ UNCHANGED blob
  /\ UNCHANGED <<file, cmap, csize, meta, inflight, errq, mode, sch, wk, ncalls, acked, hist>>

FlushDelFS(p) ==
  LET a == cl[p].a IN
  /\ IsFl(p) /\ cl[p].pc = "fldel"
  /\ IF mode = "ro" \/ ~file[a] THEN To(p, "fl") /\ UNCHANGED <<file, cmap, csize, hist>>
     ELSE /\ file' = [file EXCEPT ![a] = FALSE]
          /\ IF BugSplit THEN To(p, "fldcnt") /\ UNCHANGED <<cmap, csize, hist>>
             ELSE /\ csize' = DelSize(a) /\ cmap' = [cmap EXCEPT ![a] = FALSE] /\ hist' = hist /\ To(p, "fl")
  /\ UNCHANGED <<blob, meta, inflight, errq, mode, sch, wk, nfail, ncalls, acked>>

FlushDelCount(p) ==
  /\ IsFl(p) /\ cl[p].pc = "fldcnt"
  /\ CountDel(cl[p].a) /\ To(p, "fl")
  /\ UNCHANGED <<file, blob, meta, inflight, errq, mode, sch, wk, nfail, ncalls, acked>>

FlushEnd(p) ==
  /\ IsFl(p) /\ cl[p].pc = "fl"
  /\ \A a \in cl[p].todo : a \in cl[p].vis \/ ~file[a]
  /\ RetC(p, "ok")
  /\ mode' = IF cl[p].op = "setmode" THEN cl[p].m ELSE mode
  /\ UNCHANGED <<file, cmap, csize, blob, meta, inflight, errq, sch, wk, nfail, ncalls, acked, hist>>

(* ---- Reopen: Close (SetMode(ReadOnly), then stop the goroutines: batches already handed over are
   skipped by the workers because of the read-only mode) + New/Open/Init: initCounters from disk *)
ReopenClose(p) ==
  /\ cl[p].op = "reopen" /\ cl[p].pc = "start" /\ ~AnyRHeld
  /\ mode' = "ro" /\ To(p, "closing")
  /\ UNCHANGED <<file, cmap, csize, blob, meta, inflight, errq, sch, wk, nfail, ncalls, acked, hist>>

ReopenDo(p) ==
  /\ cl[p].op = "reopen" /\ cl[p].pc = "closing" /\ ~AnyRHeld
  /\ cmap' = file /\ csize' = Sum(Files) /\ inflight' = {} /\ errq' = FALSE /\ mode' = "rw"
  /\ sch' = SchWait /\ wk' = [w \in Workers |-> IdleW]
  /\ RetC(p, "ok")
  /\ UNCHANGED <<file, blob, meta, nfail, ncalls, acked, hist>>

-----------------------------------------------------------------------------
(* flushScheduler *)
Batch(s) == SubSeq(s.srt, s.bst + 1, s.bst + s.bln)

\* run the body of `for i, addr := range sortedAddrs` from its top for index i until the scheduler
\* blocks in the send select or the loop ends; returns <<scheduler record, flushObjs>>
RECURSIVE Adv(_, _, _, _, _, _)
AddCur(srt, i, bst, bln, bs, infl) ==
  LET a == srt[i]  bln2 == bln + 1  bs2 == bs + Sz(a)
      fl == Big(a) \/ bln2 >= MaxCount \/ bs2 > MaxBSize \/ i = Len(srt) IN
  IF fl THEN <<[pc |-> "send", srt |-> srt, i |-> i, bst |-> bst, bln |-> bln2, bs |-> bs2, handled |-> TRUE], infl>>
  ELSE Adv(srt, i + 1, bst, bln2, bs2, infl)
Adv(srt, i, bst, bln, bs, infl) ==
  IF i > Len(srt) THEN <<SchWait, infl>>
  ELSE LET a == srt[i]  infl2 == infl \cup {a} IN      \* c.flushObjs.Store(addr)
       IF Big(a) /\ bln # 0
       THEN <<[pc |-> "send", srt |-> srt, i |-> i, bst |-> bst, bln |-> bln, bs |-> bs, handled |-> FALSE], infl2>>
       ELSE AddCur(srt, i, bst, bln, bs, infl2)

\* select { <-flushErrCh (sleep, drain) | <-tick.C }: the error token is consumed, or survives when
\* the tick case is taken
SchedWake(consume) ==
  /\ sch.pc = "wait"
  /\ consume \/ errq          \* consume = FALSE is a different step only while a token is pending
  /\ errq' = IF consume THEN FALSE ELSE errq
  /\ sch' = [sch EXCEPT !.pc = IF Markers THEN "woke" ELSE "go"]
  /\ UNCHANGED <<file, cmap, csize, blob, meta, inflight, mode, wk, cl, nfail, ncalls, acked, hist>>

\* visible marker: hook writecache.sched.round
RoundMark ==
  /\ sch.pc = "woke"
  /\ sch' = [sch EXCEPT !.pc = "go"]
  /\ UNCHANGED <<file, cmap, csize, blob, meta, inflight, errq, mode, wk, cl, nfail, ncalls, acked, hist>>

SchedSnap ==
  /\ sch.pc = "go"
  /\ LET srt == Sorted(CMap \ inflight)
         r == IF csize = 0 \/ srt = <<>> THEN <<SchWait, inflight>> ELSE Adv(srt, 1, 0, 0, 0, inflight) IN
     sch' = r[1] /\ inflight' = r[2]
  /\ UNCHANGED <<file, cmap, csize, blob, meta, errq, mode, wk, cl, nfail, ncalls, acked, hist>>

\* what the scheduler does after a successful send
AfterSend(s, infl) ==
  IF s.handled
  THEN Adv(s.srt, s.i + 1, IF BugAlias THEN s.i - 1 ELSE s.i, 0, 0, infl)
  ELSE AddCur(s.srt, s.i, s.i - 1, 0, 0, infl)

\* select case c.flushCh <- b (rendezvous with an idle worker)
SchedSend(w) ==
  /\ sch.pc = "send" /\ wk[w].pc = "idle"
  /\ wk' = [wk EXCEPT ![w] = [IdleW EXCEPT !.pc = "got", !.batch = Batch(sch)]]
  /\ IF Markers THEN sch' = [sch EXCEPT !.pc = "sentm"] /\ UNCHANGED inflight
     ELSE LET r == AfterSend(sch, inflight) IN sch' = r[1] /\ inflight' = r[2]
  /\ hist' = hist \cup (IF BugAlias /\ sch.handled /\ sch.i < Len(sch.srt) THEN {"alias"} ELSE {})
  /\ UNCHANGED <<file, cmap, csize, blob, meta, errq, mode, cl, nfail, ncalls, acked>>

\* visible marker: hook writecache.sched.sent (batch as received by the worker)
SentMark ==
  /\ sch.pc = "sentm"
  /\ LET r == AfterSend(sch, inflight) IN sch' = r[1] /\ inflight' = r[2]
  /\ UNCHANGED <<file, cmap, csize, blob, meta, errq, mode, wk, cl, nfail, ncalls, acked, hist>>

\* select case <-c.flushErrCh: re-queue the token, unmark the queued batch, abandon the round
SchedSendErr ==
  /\ sch.pc = "send" /\ errq
  /\ inflight' = (inflight \ SetOf(Batch(sch))) \ (IF BugErrLeak THEN {} ELSE {sch.srt[sch.i]})
  /\ sch' = SchWait
  /\ hist' = hist \cup (IF BugErrLeak /\ ~sch.handled THEN {"errleak"} ELSE {})
  /\ UNCHANGED <<file, cmap, csize, blob, meta, errq, mode, wk, cl, nfail, ncalls, acked>>

(* flushWorker *)
WRead(w) ==
  LET b == wk[w].batch
      present == {a \in SetOf(b) : file[a]} IN
  /\ wk[w].pc = "got" /\ ~WLocked
  /\ wk' = [wk EXCEPT ![w] =
        IF mode = "ro" THEN [@ EXCEPT !.pc = "fin"]
        ELSE IF Len(b) = 1 /\ present = {} THEN [@ EXCEPT !.pc = "fin"]   \* flushSingle: not found => nil
        ELSE [@ EXCEPT !.pc = "put", !.objs = present]]
  /\ UNCHANGED <<file, cmap, csize, blob, meta, inflight, errq, mode, sch, cl, nfail, ncalls, acked, hist>>

\* visible (storage decorator): storage.Put / storage.PutBatch
BlobPutW(w, ok) ==
  /\ wk[w].pc = "put"
  /\ IF ok THEN /\ blob' = [a \in Addrs |-> blob[a] \/ a \in wk[w].objs] /\ nfail' = nfail
                /\ wk' = [wk EXCEPT ![w].pc = IF wk[w].objs = {} THEN "fin" ELSE "del"]
     ELSE /\ nfail < MaxFail /\ nfail' = nfail + 1 /\ UNCHANGED blob
          /\ wk' = [wk EXCEPT ![w].pc = "fin", ![w].err = TRUE]
  /\ UNCHANGED <<file, cmap, csize, meta, inflight, errq, mode, sch, cl, ncalls, acked, hist>>

WDelFS(w, a) ==
  /\ wk[w].pc = "del" /\ a \in wk[w].objs
  /\ LET rest == wk[w].objs \ {a}
         next == IF rest = {} THEN "fin" ELSE "del" IN
     IF ~file[a] THEN wk' = [wk EXCEPT ![w].objs = rest, ![w].pc = next] /\ UNCHANGED <<file, cmap, csize, hist>>
     ELSE /\ file' = [file EXCEPT ![a] = FALSE]
          /\ IF BugSplit THEN wk' = [wk EXCEPT ![w].pc = "delcnt", ![w].cur = a] /\ UNCHANGED <<cmap, csize, hist>>
             ELSE /\ csize' = DelSize(a) /\ cmap' = [cmap EXCEPT ![a] = FALSE] /\ hist' = hist
                  /\ wk' = [wk EXCEPT ![w].objs = rest, ![w].pc = next]
  /\ UNCHANGED <<blob, meta, inflight, errq, mode, sch, cl, nfail, ncalls, acked>>

WDelCount(w) ==
  /\ wk[w].pc = "delcnt"
  /\ CountDel(wk[w].cur)
  /\ LET rest == wk[w].objs \ {wk[w].cur} IN
     wk' = [wk EXCEPT ![w].objs = rest, ![w].cur = 0, ![w].pc = IF rest = {} THEN "fin" ELSE "del"]
  /\ UNCHANGED <<file, blob, meta, inflight, errq, mode, sch, cl, nfail, ncalls, acked>>

WFin(w) ==
  /\ wk[w].pc = "fin"
  /\ inflight' = inflight \ SetOf(wk[w].batch)
  /\ errq' = (errq \/ wk[w].err)
  /\ wk' = [wk EXCEPT ![w] = IF Markers THEN [IdleW EXCEPT !.pc = "finm"] ELSE IdleW]
  /\ UNCHANGED <<file, cmap, csize, blob, meta, mode, sch, cl, nfail, ncalls, acked, hist>>

\* visible marker: hook writecache.worker.done (the worker is about to wait for the next batch)
DoneMark(w) ==
  /\ wk[w].pc = "finm"
  /\ wk' = [wk EXCEPT ![w] = IdleW]
  /\ UNCHANGED <<file, cmap, csize, blob, meta, inflight, errq, mode, sch, cl, nfail, ncalls, acked, hist>>

-----------------------------------------------------------------------------
\* (dispatch on the call / program counter first: cheap for TLC, nothing else)
ClientHidden(p) ==
  CASE cl[p].op = "put" -> PutAdmit(p) \/ PutFS(p) \/ PutCount(p) \/ MetaPut(p)
    [] cl[p].op = "del" -> DelFS(p) \/ DelCount(p) \/ MetaDel(p)
    [] cl[p].op = "get" -> GetMeta(p) \/ GetHas(p) \/ GetRead(p)
    [] cl[p].op \in {"flush", "setmode"} ->
          \/ FlushStart(p) \/ SetModeStart(p) \/ (\E a \in Addrs : FlushPick(p, a))
          \/ FlushDelFS(p) \/ FlushDelCount(p) \/ FlushEnd(p)
    [] cl[p].op = "reopen" -> ReopenClose(p) \/ ReopenDo(p)
    [] OTHER -> FALSE
SchedHidden ==
  CASE sch.pc = "wait" -> SchedWake(TRUE) \/ SchedWake(FALSE)
    [] sch.pc = "go"   -> SchedSnap
    [] sch.pc = "send" -> (\E w \in Workers : SchedSend(w)) \/ SchedSendErr
    [] OTHER -> FALSE
WorkerHidden(w) ==
  CASE wk[w].pc = "got"    -> WRead(w)
    [] wk[w].pc = "del"    -> \E a \in Addrs : WDelFS(w, a)
    [] wk[w].pc = "delcnt" -> WDelCount(w)
    [] wk[w].pc = "fin"    -> WFin(w)
    [] OTHER -> FALSE
Hidden == (\E p \in Procs : ClientHidden(p)) \/ SchedHidden \/ (\E w \in Workers : WorkerHidden(w))

AnyBegin == \E p \in Procs : \E op \in Ops : \/ (op \in {"put", "del", "get"} /\ \E a \in Addrs : Begin(p, op, a, ""))
                                               \/ (op = "setmode" /\ \E m \in Modes : Begin(p, op, 0, m))
                                               \/ (op \in {"flush", "reopen"} /\ Begin(p, op, 0, ""))
AnyRet == \E p \in Procs : Ret(p)
AnyBlobPut(ok) == (\E p \in Procs : BlobPutC(p, ok) \/ BlobPutF(p, ok)) \/ (\E w \in Workers : BlobPutW(w, ok))
AnyBlobOther == \E p \in Procs : BlobDel(p) \/ BlobRead(p)
Marks == RoundMark \/ SentMark \/ (\E w \in Workers : DoneMark(w))
Visible == AnyBegin \/ AnyRet \/ AnyBlobPut(TRUE) \/ AnyBlobPut(FALSE) \/ AnyBlobOther \/ Marks

Next == Hidden \/ Visible
Spec == Init /\ [][Next]_vars

(* fairness for the liveness half of C17: scheduler and workers keep running; Go's select does not
   starve a ready case for ever (strong fairness on consuming the error token); client calls in
   progress complete; the storage eventually accepts (MaxFail bounds the failures) *)
FairSpec == /\ Spec
            /\ WF_vars(SchedSnap) /\ WF_vars(RoundMark) /\ WF_vars(SentMark) /\ WF_vars(SchedSendErr)
            /\ SF_vars(SchedWake(TRUE))
            /\ \A w \in Workers : /\ WF_vars(SchedSend(w)) /\ WF_vars(WorkerHidden(w)) /\ WF_vars(DoneMark(w))
                                  /\ WF_vars(BlobPutW(w, TRUE))
            /\ \A p \in Procs : WF_vars(ClientHidden(p) \/ Ret(p) \/ BlobPutC(p, TRUE) \/ BlobPutF(p, TRUE)
                                        \/ BlobDel(p) \/ BlobRead(p))

-----------------------------------------------------------------------------
(* properties *)
TypeOK == /\ csize \in Int /\ inflight \subseteq Addrs /\ mode \in {"rw", "ro", "deg"}
          /\ sch.pc \in {"wait", "woke", "go", "send", "sentm"}

ClientsIdle == \A p \in Procs : cl[p].op = "idle"
\* ("woke": the scheduler has passed its select and sits in the round hook; same thing for the properties)
Quiescent == ClientsIdle /\ sch.pc \in {"wait", "woke"} /\ \A w \in Workers : wk[w].pc = "idle"

\* C17 (safety half): at quiescent points the reported size is the size of what the cache holds
SizeExact == Quiescent => csize = Sum(Files)
\* ... and (needed for the liveness half) nothing stays marked as being flushed
NoLeak == Quiescent => inflight = {}
\* the same, weakened by the known findings (history classes that can explain a deviation)
SizeExactKF == SizeExact \/ "h3" \in hist \/ hist \cap {"ghost", "hidden"} # {}
NoLeakKF == NoLeak \/ "alias" \in hist \/ "errleak" \in hist

\* C17 (liveness half): once writes stop and the main storage accepts writes, the cache drains
NoMoreInput == ClientsIdle /\ ncalls = MaxCalls /\ nfail = MaxFail /\ mode = "rw"
Drains == NoMoreInput ~> (Files = {})

\* C16: read-your-writes through the shard, and nothing acknowledged is lost
ReadYourWrites == \A p \in Procs : (cl[p].op = "get" /\ cl[p].pc = "ret" /\ cl[p].must) => cl[p].res = "ok"
Durable == \A a \in Addrs : acked[a] => (file[a] \/ blob[a])
\* a flusher never leaves the cache holding the only copy removed: after its delete the blob has the bytes
FlushedInBlob == \A w \in Workers : wk[w].pc \in {"del", "delcnt"} =>
                    \A a \in wk[w].objs : acked[a] => blob[a]
\* weakened by the known history class
ReadYourWritesKF == ReadYourWrites \/ "bdflush" \in hist
DurableKF == Durable \/ "bdflush" \in hist
FlushedInBlobKF == FlushedInBlob \/ "bdflush" \in hist
=============================================================================
