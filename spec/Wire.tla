--------------------------------- MODULE Wire ---------------------------------
(* C41 - internal/object/wire.go fast paths over an encoded object, versus the structure of the message.

   A message is modelled by its LAYOUT: a sequence of fields
       [num, wt, tl, ll, n, v, sub]
   num = field number, wt = wire type (0 varint, 2 LEN, 1/5 fixed, 3/4 group), tl = bytes of the tag varint (1 or,
   non-minimal, 2), ll = bytes of the length varint (0 for non-LEN), n = bytes of the value, v = value of a varint
   field, sub = nested layout of a LEN field (header inside object, split inside header).
   The encoder is positional: field i starts at Start(fs, i); a buffer is the layout cut to its first `lim` bytes.
   What is NOT modelled: the bit patterns of varints and the content of leaf values (protowire / protobuf are
   trusted); the parsers below say which bytes they need and fail exactly when one of them is beyond `lim`.

   Implementation-shaped operators (same loops and early exits as the Go code + neofs-sdk-go/proto/protobuf):
     SeekField            iprotobuf.SeekFieldByNumber
     LenBounds            iprotobuf.ParseLENFieldBounds
     NonPayloadBounds     iobject.GetNonPayloadFieldBounds
     Extract              iobject.ExtractHeaderAndPayload (structure: error / offset of the payload prefix)
     ParentBoundsIn       iobject.getParentNonPayloadFieldBounds (header window inside a buffer)
     ParentBoundsObj/Hdr  iobject.GetParentNonPayloadFieldBounds / ...Header
     VarintField          iprotobuf.GetUint64Field / GetEnumField (GetPayloadLengthHeader, GetTypeHeader)
   Declarative reference for canonical layouts: RefBounds, RefVarint, RefPrefix.                             *)
EXTENDS Integers, Sequences, FiniteSets, TLC

Size(f) == f.tl + f.ll + f.n
RECURSIVE Start(_, _)
Start(fs, i) == IF i = 1 THEN 0 ELSE Start(fs, i - 1) + Size(fs[i - 1])
Total(fs) == IF fs = <<>> THEN 0 ELSE Start(fs, Len(fs)) + Size(fs[Len(fs)])

Missing == <<0, 0, 0>>
Err3 == [err |-> TRUE, id |-> Missing, sig |-> Missing, hdr |-> Missing]

\* bytes needed to read the tag / the whole field starting at absolute offset off, limit lim
TagOK(f, off, lim) == off + f.tl <= lim
SkipOK(f, off, lim) ==                                  \* iprotobuf.SkipField after the tag
  CASE f.wt = 0 -> off + f.tl + f.n <= lim              \* complete varint
    [] f.wt = 2 -> off + f.tl + f.ll <= lim /\ off + f.tl + f.ll + f.n <= lim   \* ParseLEN: varint, then ln <= rem
    [] f.wt \in {1, 5} -> off + f.tl + f.n <= lim
    [] OTHER -> FALSE                                   \* groups are not supported
\* ParseLENFieldBounds: <<ok, from, valueFrom, to>>
LenBounds(f, off, lim) ==
  IF f.wt # 2 THEN <<FALSE, 0, 0, 0>>                   \* checkFieldType
  ELSE IF off + f.tl + f.ll > lim THEN <<FALSE, 0, 0, 0>>
  ELSE IF off + f.tl + f.ll + f.n > lim THEN <<FALSE, 0, 0, 0>>
  ELSE <<TRUE, off, off + f.tl + f.ll, off + f.tl + f.ll + f.n>>

\* SeekFieldByNumber over the window [base, lim) holding layout fs: <<err, index (0 = missing)>>
RECURSIVE SeekFrom(_, _, _, _, _, _)
SeekFrom(fs, base, lim, seek, i, prev) ==
  LET off == base + Start(fs, i) IN
  IF i > Len(fs) THEN <<FALSE, 0>>
  ELSE LET f == fs[i] IN
       IF ~TagOK(f, off, lim) THEN <<TRUE, 0>>
       ELSE IF f.num = seek THEN <<FALSE, i>>
       ELSE IF f.num > seek THEN <<FALSE, 0>>
       ELSE IF f.num < prev THEN <<TRUE, 0>>            \* unordered fields
       ELSE IF ~SkipOK(f, off, lim) THEN <<TRUE, 0>>
       ELSE IF off + Size(f) = lim THEN <<FALSE, 0>>
       ELSE SeekFrom(fs, base, lim, seek, i + 1, f.num)
SeekField(fs, base, lim, seek) == IF lim - base = 0 THEN <<FALSE, 0>> ELSE SeekFrom(fs, base, lim, seek, 1, 0)

\* strict walk used by GetNonPayloadFieldBounds and getParentNonPayloadFieldBounds:
\* want = <<number of id, of signature, of header>>, ignore = numbers parsed but not reported
RECURSIVE StrictWalk(_, _, _, _, _, _, _, _)
StrictWalk(fs, base, lim, want, ignore, i, prev, acc) ==
  LET off == base + Start(fs, i) IN
  IF i > Len(fs) THEN Err3                              \* ParseTag on an empty rest
  ELSE LET f == fs[i] IN
       IF ~TagOK(f, off, lim) THEN Err3
       ELSE IF f.num > want[3] THEN acc
       ELSE IF f.num < prev THEN Err3                   \* unordered
       ELSE IF f.num = prev THEN Err3                   \* repeated
       ELSE LET b == LenBounds(f, off, lim) IN
            IF ~b[1] THEN Err3
            ELSE LET bb == <<b[2], b[3], b[4]>>
                     acc2 == IF f.num = want[1] THEN [acc EXCEPT !.id = bb]
                             ELSE IF f.num = want[2] THEN [acc EXCEPT !.sig = bb]
                             ELSE IF f.num = want[3] THEN [acc EXCEPT !.hdr = bb]
                             ELSE acc
                 IN IF f.num = want[3] THEN acc2        \* break loop
                    ELSE IF b[4] = lim THEN acc2        \* off == len(buf)
                    ELSE StrictWalk(fs, base, lim, want, ignore, i + 1, f.num, acc2)
NoBounds == [err |-> FALSE, id |-> Missing, sig |-> Missing, hdr |-> Missing]

\* iobject.GetNonPayloadFieldBounds(buf), buf = object layout cut at lim
NonPayloadBounds(fs, lim) ==
  IF lim = 0 THEN Err3 ELSE StrictWalk(fs, 0, lim, <<1, 2, 3>>, {}, 1, 0, NoBounds)

\* iobject.getParentNonPayloadFieldBounds: header layout hfs occupies [hbase, hlim) of a buffer
ParentBoundsIn(hfs, hbase, hlim) ==
  LET s == SeekField(hfs, hbase, hlim, 11) IN
  IF s[1] THEN Err3
  ELSE IF s[2] = 0 THEN NoBounds
  ELSE LET f == hfs[s[2]]
           b == LenBounds(f, hbase + Start(hfs, s[2]), hlim)
       IN IF ~b[1] THEN Err3
          ELSE StrictWalk(f.sub, b[3], b[4], <<1, 3, 4>>, {2}, 1, 0, NoBounds)   \* buf = buf[:split.To], off = split.ValueFrom
ParentBoundsHdr(hfs, lim) == IF lim = 0 THEN Err3 ELSE ParentBoundsIn(hfs, 0, lim)
ParentBoundsObj(fs, lim) ==
  IF lim = 0 THEN Err3
  ELSE LET s == SeekField(fs, 0, lim, 3) IN
       IF s[1] THEN Err3
       ELSE IF s[2] = 0 THEN NoBounds
       ELSE LET f == fs[s[2]]
                b == LenBounds(f, Start(fs, s[2]), lim)
            IN IF ~b[1] THEN Err3 ELSE ParentBoundsIn(f.sub, b[3], b[4])

\* iprotobuf.GetUint64Field / GetEnumField: <<err, value>>
VarintField(hfs, lim, num) ==
  LET s == SeekField(hfs, 0, lim, num) IN
  IF s[1] THEN <<TRUE, 0>>
  ELSE IF s[2] = 0 THEN <<FALSE, 0>>
  ELSE LET f == hfs[s[2]] IN
       IF f.wt # 0 THEN <<TRUE, 0>>
       ELSE IF Start(hfs, s[2]) + f.tl + f.n > lim THEN <<TRUE, 0>>
       ELSE <<FALSE, f.v>>

\* iobject.ExtractHeaderAndPayload, structure only: <<err, offset of the returned payload prefix>>
RECURSIVE ExtractFrom(_, _, _)
ExtractFrom(fs, lim, i) ==
  LET off == Start(fs, i) IN
  IF i > Len(fs) \/ off >= lim THEN <<FALSE, IF i > Len(fs) THEN Total(fs) ELSE off>>
  ELSE LET f == fs[i] IN
       IF ~TagOK(f, off, lim) THEN <<TRUE, 0>>
       ELSE IF f.wt # 2 THEN <<TRUE, 0>>                          \* unexpected wire type
       ELSE IF f.num = 4 THEN (IF off + f.tl + f.ll <= lim THEN <<FALSE, off + f.tl + f.ll>> ELSE <<TRUE, 0>>)
       ELSE IF off + f.tl + f.ll > lim \/ off + Size(f) > lim THEN <<TRUE, 0>>   \* ConsumeBytes
       ELSE IF f.num \notin {1, 2, 3} THEN <<TRUE, 0>>           \* unknown field number
       ELSE ExtractFrom(fs, lim, i + 1)
Extract(fs, lim) == IF lim = 0 THEN <<TRUE, 0>> ELSE ExtractFrom(fs, lim, 1)

-----------------------------------------------------------------------------
(* Declarative reference: a canonical message has strictly ascending known LEN fields. *)
Nums(fs) == [i \in 1..Len(fs) |-> fs[i].num]
Ascending(fs) == \A i \in 1..(Len(fs) - 1) : fs[i].num < fs[i + 1].num
CanonObj(fs) == Ascending(fs) /\ \A i \in 1..Len(fs) : fs[i].num \in 1..4 /\ fs[i].wt = 2
RefBounds(fs, num) ==
  IF \E i \in 1..Len(fs) : fs[i].num = num
  THEN LET i == CHOOSE j \in 1..Len(fs) : fs[j].num = num IN
       <<Start(fs, i), Start(fs, i) + fs[i].tl + fs[i].ll, Start(fs, i) + Size(fs[i])>>
  ELSE Missing
RefPrefix(fs) == IF \E i \in 1..Len(fs) : fs[i].num = 4
                 THEN LET i == CHOOSE j \in 1..Len(fs) : fs[j].num = 4 IN Start(fs, i) + fs[i].tl + fs[i].ll
                 ELSE Total(fs)
\* fstree/head.go: Head / GetStream / ReadHeader / ReadObjectParts extract the header from the first
\* NonPayloadFieldsBufferLength bytes of the (decompressed) stored object
HeadBufLen == 20480
HeadRead(fs) == Extract(fs, IF Total(fs) < HeadBufLen THEN Total(fs) ELSE HeadBufLen)
\* size of everything before the payload value (ID, signature, header, payload tag and length)
NonPayloadSize(fs) == RefPrefix(fs)

Within(b, lim) == b[1] >= 0 /\ b[1] <= b[2] /\ b[2] <= b[3] /\ b[3] <= lim
AllWithin(r, lim) == Within(r.id, lim) /\ Within(r.sig, lim) /\ Within(r.hdr, lim)
=============================================================================
