SPECIFICATION GenSpec
CONSTANTS
  Addrs = {1}
  Threshold = 2
  MaxCount = 2
  MaxBSize = 100
  MaxCache = 8
  NW = 1
  Procs = {1, 2}
  Ops = {"put", "del"}
  Modes = {"rw"}
  Shard = TRUE
  Markers = TRUE
  MaxFail = 0
  MaxCalls = 3
  BugH3 = FALSE
  BugAlias = FALSE
  BugErrLeak = FALSE
  BugSplit = TRUE
  GenLen = 100
  MaxRounds = 100
VIEW GenView
INVARIANTS CexDurable
CHECK_DEADLOCK FALSE
