SPECIFICATION GenSpec
CONSTANTS
  Addrs = {1, 2, 3, 4}
  Threshold = 2
  MaxCount = 2
  MaxBSize = 100
  MaxCache = 8
  NW = 2
  Procs = {1, 2}
  Ops = {"put", "del", "get", "flush", "reopen"}
  Modes = {"rw"}
  Shard = FALSE
  Markers = TRUE
  MaxFail = 2
  MaxCalls = 9
  BugH3 = TRUE
  BugAlias = TRUE
  BugErrLeak = TRUE
  BugSplit = TRUE
  GenLen = 70
  MaxRounds = 4
INVARIANTS Emit
CHECK_DEADLOCK FALSE
