SPECIFICATION Spec
CONSTANTS
  MaxK = 8
  MaxM = 4
  MaxLen = 10
  RangeK = 8
INVARIANTS EncodeIsRef EqualLengths ConcatTruncates DecodeFromAnySufficientSubset DecodeClosedForm PartialRange PartialIndexes
CHECK_DEADLOCK FALSE
