-------------------------- MODULE MetaMigrationMC --------------------------
(* Exhaustive model-checking instance of MetaMigration: ALL small worlds at once (initial states). *)
EXTENDS MetaMigration
CONSTANTS MaxNC, MaxA, MaxH, Budgets

MCWorlds ==
  UNION { { [nc |-> n, nA |-> a, nH |-> h, budget |-> b, ver0 |-> v, drift |-> [c \in 1..n |-> d \/ v = 9], gone0 |-> g] :
              a \in [1..n -> 0..MaxA], h \in [1..n -> 0..MaxH], b \in Budgets, v \in {9, 10},
              d \in BOOLEAN, g \in SUBSET (1..n) } : n \in 1..MaxNC }
=============================================================================
