SPECIFICATION Spec
CONSTANTS
  N = 5
  D = 2
  P = 1
INVARIANTS SuccessIffEnoughNodes DistinctAcceptingNodes PlacedOnAccepting OneTryPerNode
CHECK_DEADLOCK FALSE
