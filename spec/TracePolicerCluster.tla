------------------------ MODULE TracePolicerCluster ------------------------
(* C27, C->M: traces of the in-memory cluster of REAL policers / replicators / engines (harness `putpol c27 run`)
   validated against PolicerCluster: every recorded policy check must be the spec action Check(node, down) with
   the same removal decision, the same replication tasks (quantity, candidate list, nodes that stored), the
   same resulting replica map; the replicator must have reported exactly the nodes that stored (<= requested);
   at the end of every scenario the cluster must be converged and quiet within the model's bound of rounds. *)
EXTENDS PolicerCluster, Json

Trace == ndJsonDeserialize("trace.ndjson")
CONSTANT NEvents
VARIABLE l
tvars == <<cvars, vars, l>>

TraceInit == /\ l = 1
             /\ rules = <<>> /\ holders = {} /\ ran = {} /\ round = 0 /\ last = NoLast
             /\ s = 0 /\ pc = "trace" /\ r = 0 /\ i = 0 /\ c = 0 /\ e = 0 /\ out = 0

SameTasks(ev, d) ==
  /\ Len(ev.tasks) = Len(d.tasks)
  /\ \A k \in 1..Len(d.tasks) : /\ ev.tasks[k].q = d.tasks[k].q
                                /\ ev.tasks[k].nodes = d.tasks[k].nodes
                                /\ ev.tasks[k].ok = d.tasks[k].ok

TraceNext ==
  /\ l <= NEvents
  /\ l' = l + 1
  /\ UNCHANGED vars
  /\ LET ev == Trace[l] IN
     CASE ev.ev = "init" ->
            /\ rules' = ev.rules /\ holders' = Range(ev.holders)
            /\ ran' = {} /\ round' = 0 /\ last' = NoLast
       [] ev.ev = "check" ->
            /\ Check(ev.node, Range(ev.down), Range(ev.refuse))
            /\ last'.del = ev.del
            /\ SameTasks(ev, last')
            /\ holders' = Range(ev.holders)
            /\ UNCHANGED <<ran, round>>
       [] ev.ev = "task" ->        \* the node's replicator is handed a task that carries the object
            /\ PutTask(ev.node, ev.tasks[1].nodes, ev.tasks[1].q, Range(ev.down), Range(ev.refuse))
            /\ SameTasks(ev, last')
            /\ holders' = Range(ev.holders)
            /\ UNCHANGED <<ran, round>>
       [] ev.ev = "end" ->
            /\ holders = Range(ev.holders)
            /\ round' = ev.round
            /\ UNCHANGED <<rules, holders, ran, last>>
TraceSpec == TraceInit /\ [][TraceNext]_tvars

TraceNotStuck == l <= NEvents => ENABLED TraceNext
\* replicator accounting, on what was really observed: SubmitSuccessfulReplication calls of task k
ReportedOK == (l > 1 /\ l <= NEvents + 1 /\ Trace[l - 1].ev \in {"check", "task"}) =>
                LET ev == Trace[l - 1] IN
                \A k \in 1..Len(ev.tasks) : /\ Len(ev.reported[k]) <= ev.tasks[k].q
                                            /\ ev.reported[k] = ev.tasks[k].ok
\* bounded convergence: at the end of a scenario (stable rounds, all reachable) the primaries hold the object, nobody
\* replicates or removes any more, and this took at most MaxRounds rounds (+ the final quiet round)
ConvergedAtEnd == (l > 1 /\ l <= NEvents + 1 /\ Trace[l - 1].ev = "end") =>
                    /\ Trace[l - 1].quiet
                    /\ Trace[l - 1].round <= MaxRounds + 1
                    /\ Converged /\ Quiet(holders)

NeverEmptyT == (l > 1 /\ Len(rules) > 0) => holders # {}
=============================================================================
