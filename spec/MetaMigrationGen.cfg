SPECIFICATION GenSpec
CONSTANTS
  Worlds = {}
  BugCursorLeak = FALSE
  MaxInt = 3
  GenMaxGone = 1
INVARIANTS Emit
CHECK_DEADLOCK FALSE
