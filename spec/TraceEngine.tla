---------------------------- MODULE TraceEngine ----------------------------
(* Trace validation for Engine: every recorded call on the real StorageEngine must be the spec's
   action with the same arguments, the same result class and - after every step - the same
   observation: Get / Head / IsLocked of every catalogue object through the engine and the per-shard
   summary (mode, blobs, metadata, garbage marks, bucket).  The property invariants of Engine are
   evaluated at every recorded state; classes of listed known findings that occur are accumulated in
   kf and printed at the end.
   Loose = TRUE skips the comparisons and PrintAt = k prints the model's expectation for event k
   (used only to explain a rejection). *)
EXTENDS Engine, Json
CONSTANTS Loose, PrintAt, Prop
Trace == ndJsonDeserialize("trace.ndjson")
VARIABLES l, kf, cur

ResetTo(c) ==
  /\ cat' = c
  /\ meta' = [s \in Shards |-> {}] /\ blob' = [s \in Shards |-> {}]
  /\ mark' = [s \in Shards |-> [x \in 1..Len(c) |-> "none"]]
  /\ bkt' = [s \in Shards |-> FALSE]
  /\ mode' = [s \in Shards |-> "rw"] /\ fput' = [s \in Shards |-> FALSE] /\ fget' = [s \in Shards |-> FALSE]
  /\ epoch' = 0 /\ gcDone' = [s \in Shards |-> 0]
  /\ ops' = [x \in 1..Len(c) |-> NoOp]
  /\ res' = [c |-> "none"] /\ lastev' = [ev |-> "none"]
  /\ prot' = {} /\ rem' = {} /\ rbm' = [s \in Shards |-> {}] /\ ptl' = {} /\ ev' = EmptyEv

ResMatches(e, r) ==
  /\ e.dev = ""     \* the harness saw the real engine in a position the model excludes
  /\ (r.c = "ok") = (e.res = "ok")
  /\ (r.c = "started") = (e.res = "started")
  /\ e.ev = "Evacuate" => /\ r.cnt = e.cnt /\ r.handled = e.handled /\ e.srcsame
                          /\ (e.res = "ok" => r.rem = e.rem)

\* classes of known findings visible in the current state
Classes ==
  CASE Prop = "C08" -> {<<C08Class(o), cur>> : o \in Regs} \ {<<"none", cur>>}
    [] Prop = "C20" -> {<<c, cur>> : c \in C20Classes \ {"none"}}
    [] Prop = "C19" -> {<<c, cur>> : c \in C19Classes \ {"none"}}
    [] OTHER -> {}

TraceInit == /\ Trace[1].ev = "Init" /\ InitWith(Trace[1].cat) /\ l = 2 /\ kf = {} /\ cur = Trace[1].script

TraceNext ==
  /\ l <= Len(Trace)
  /\ l' = l + 1
  /\ LET e == Trace[l] IN
       IF e.ev = "Init"
         THEN ResetTo(e.cat) /\ cur' = e.script /\ kf' = kf
         ELSE /\ Step(e)
              /\ lastev' = [ev |-> e.ev]
              /\ cur' = cur
              /\ Loose \/ ResMatches(e, res')
              /\ Loose \/ e.mid \/ ObsOf(Cur)' = e.obs
              /\ kf' = kf \cup Classes'
              /\ (l = PrintAt) => PrintT(<<"EXPECT", ToJson([res |-> res', obs |-> ObsOf(Cur)'])>>)

TraceSpec == TraceInit /\ [][TraceNext]_<<vars, l, kf, cur>>
TraceNotStuck == l <= Len(Trace) => ENABLED TraceNext
\* cheaper than TraceNotStuck: after the run the longest path must cover the whole trace; the depth reached
\* (= index of the last accepted event) is printed
Accepted == /\ PrintT(<<"DEPTH", TLCGet("stats").diameter>>)
            /\ TLCGet("stats").diameter >= Len(Trace)
Report == l = Len(Trace) + 1 => PrintT(<<"KF", ToJson([kf |-> kf])>>)

\* property invariants on recorded states
TraceProp == CASE Prop = "C08" -> \A o \in Regs : C08Class(o) # "unknown"
               [] Prop = "C20" -> C20Classified
               [] Prop = "C19" -> C19Classified
               [] OTHER -> TRUE
=============================================================================
