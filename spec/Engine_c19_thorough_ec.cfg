\* C19 thorough: 2 shards, object + lock + EC part + tombstone of the EC part, put faults, degraded sources
SPECIFICATION Spec
CONSTANTS
  NS = 2
  MaxEpoch = 1
  BugH6 = TRUE
  CatSet = "c19"
  Ops = {"Put", "Bcast", "SetMode", "FailPut", "Evacuate"}
  Modes = {"rw", "ro", "dro"}
  HealthyLock = FALSE
  MaxInFlight = 1
  Scenario = "none"
INVARIANTS TypeOK C19Classified
VIEW ViewC19
CHECK_DEADLOCK FALSE
