SPECIFICATION TraceSpec
CONSTANTS
  Objs = {}
  WCs = {}
  Batches = {}
  MaxEpoch = 1000
  Ops = {}
  Faults = {}
  Modes = {}
  BugH9 = TRUE
  BugH10 = TRUE
  BugMetaStale = TRUE
  KRounds = 12
INVARIANTS TraceNotStuck C14Rejects C14ReadsRO C14ReadsDEGRO
PROPERTIES C14Unchanged C43Keeps
CHECK_DEADLOCK FALSE
