SPECIFICATION TSpec
CONSTANTS
  NS = 3
  NO = 4
INVARIANTS C06_RecordOK
CHECK_DEADLOCK FALSE
