SPECIFICATION GenSpec
CONSTANTS
  Objs = {1, 2, 3, 4}
  WCs = {FALSE, TRUE, TRUE}
  Batches = {1, 2}
  MaxEpoch = 3
  Ops = {"Put", "Delete", "GC", "Flush", "Epoch", "MarkDef", "MarkRed", "Restart"}
  Faults = {"crash"}
  Modes = {}
  BugH9 = TRUE
  BugH10 = TRUE
  BugMetaStale = TRUE
  BugH11 = FALSE
  KRounds = 12
  MaxSets = 4
  GenLen = 10
  Crashes = {0, 0, 1, 2, 3, 4}
  Fails = {0, 0, 0, 1}
INVARIANTS Emit
CHECK_DEADLOCK FALSE
