SPECIFICATION Spec
CONSTANTS
  Epochs = {0, 1, 7}
  Big = FALSE
INVARIANTS InvHonouredOnlyIf InvSignedFieldChange InvWindow InvType
CHECK_DEADLOCK FALSE
