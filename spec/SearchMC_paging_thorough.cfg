SPECIFICATION MCSpec
CONSTANTS
  KB = 256
  KN = 32
  MaxDigits <- MaxDigitsMC
  BugPlusAfterSign = FALSE
  BugMergeNoRange = FALSE
  BugPrimMulti = FALSE
  BugSplitIDAbsent = FALSE
  BugB58Prefix = FALSE
  Profile = "paging"
  NMax = 3
  Big = TRUE
INVARIANTS PagesAreExpected RefIsSound
CHECK_DEADLOCK FALSE
