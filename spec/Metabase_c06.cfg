SPECIFICATION Spec
CONSTANTS
  CatName = "T"
  MaxEpoch = 2
  MarkPairs = FALSE
VIEW View
INVARIANTS ModelSane C06_Sound C06_Complete
CHECK_DEADLOCK FALSE
