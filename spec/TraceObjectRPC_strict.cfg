SPECIFICATION TraceSpec
CONSTANTS
  Strict = TRUE
  MSigs = {"ok"}
  MToks = {"none"}
INVARIANTS TraceNotStuck C29_NoEffectForFailingRequest C29_ChecksPrecedeEffects C29_HeaderEACLBeforeData C29_ErrorStatusForFailingRequest C45_MaintenanceRefusal
CHECK_DEADLOCK FALSE
