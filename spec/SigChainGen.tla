---------------------------- MODULE SigChainGen ----------------------------
(* M->C behaviours for C33: SigChain + the history of manipulations taken; every step carries the
   model's verdict (`acc`) for the request reached, so the Go harness can execute the same
   manipulations on a real signed request and compare verdicts step by step. *)
EXTENDS SigChain, Json
CONSTANT GenLen
VARIABLE hist
GenInit == /\ steps = 0
           /\ \E v \in {"legacy", "new"}, n \in 1..MaxLayers :
                 req = HonestReq(v, n, 0) /\ hist = <<[op |-> "Init", ver |-> v, n |-> n]>>
GenNext == /\ steps < MaxSteps /\ steps' = steps + 1
           /\ \E e \in Events : Step(e) /\ hist' = Append(hist, [acc |-> Accept(Abs(req'))] @@ e)
GenSpec == GenInit /\ [][GenNext]_<<vars, hist>>
Emit == Len(hist) = GenLen + 1 => PrintT(<<"BEH", ToJson([steps |-> hist])>>)
=============================================================================
