---------------------------- MODULE ContainerProc ----------------------------
(* C37 - pkg/innerring/processors/container: process_container.go (checkPutContainer,
   checkDeleteContainer, checkSetAttributeRequest, checkRemoveAttributeRequest), process_eacl.go
   (checkSetEACL, validateEACL), common.go (verifySignature, verifySessionV2, checkTokenLifetime).

   A request is abstracted to the facts the decision depends on (record fields below).
     ApproveCode(in) - the decision as the code takes it, check after check with early returns;
     ApproveProp(in, approve) - the listed property: approval only with owner authorisation (direct
       signature, or a valid unexpired session token of the owner for that verb and container), valid
       policy, permitted system attributes, eACL allowed by the basic ACL and not touching system roles.
   BugH13 = TRUE models verifySessionV2 as it is: verb and container of a V2 token are asserted only
   when the container ID is known, so for creation (no ID yet) a V2 token with an unrelated verb
   passes. BugH13 = FALSE models the repaired code.                                              *)
EXTENDS Integers, Sequences, FiniteSets, TLC

CONSTANTS BugH13,
          Full     \* exhaustive model only: TRUE = every authorisation of the eACL part, FALSE = good and single-fault ones (quick tier)

Ops == {"create", "createV2", "remove", "putEACL", "setAttr", "rmAttr"}
CreateOps == {"create", "createV2"}

(* authorisation part of a request (also used for the optional eACL of createV2):
   auth     "sig" | "v1" | "v2"
   ownerSig the witness verifies the signed data and belongs to the container owner      (sig)
   tok      issuerOwner  token issued by the container owner (V2: original issuer)
            sigOK        token (chain) correctly signed by its issuer(s) and well-formed
            verbOK       token grants the verb of this operation
            cidOK        token applies to this container (bound to it or unbound/wildcard)
            lifeOK       token valid at the current epoch / chain time
            sessSig      (V1) request data signed with the session key                      *)
AllTrueTok == [issuerOwner |-> TRUE, sigOK |-> TRUE, verbOK |-> TRUE, cidOK |-> TRUE, lifeOK |-> TRUE, sessSig |-> TRUE]
Toks == [issuerOwner : BOOLEAN, sigOK : BOOLEAN, verbOK : BOOLEAN, cidOK : BOOLEAN, lifeOK : BOOLEAN, sessSig : BOOLEAN]

Auths == {[auth |-> "sig", ownerSig |-> b, tok |-> AllTrueTok] : b \in BOOLEAN}
         \cup {[auth |-> "v1", ownerSig |-> FALSE, tok |-> t] : t \in Toks}
         \cup {[auth |-> "v2", ownerSig |-> FALSE, tok |-> t] : t \in {x \in Toks : x.sessSig}}
GoodAuth == [auth |-> "sig", ownerSig |-> TRUE, tok |-> AllTrueTok]

\* verifySignature for operation class `creation` (no container ID at hand) or not
AuthCode(a, creation) ==
  IF a.auth = "sig" THEN a.ownerSig                                  \* AuthenticateContainerRequest
  ELSE IF a.auth = "v2" THEN                                         \* verifySessionV2
         /\ a.tok.sigOK                                              \*   Validate + AuthenticateTokenV2
         /\ (IF creation
               THEN (BugH13 \/ a.tok.verbOK)                         \*   idContainerSet = false: nothing asserted (H13)
               ELSE a.tok.verbOK /\ a.tok.cidOK)                     \*   AssertContainer(verb, id)
         /\ a.tok.issuerOwner                                        \*   OriginalIssuer() == owner
         /\ a.tok.lifeOK                                             \*   ValidAt(chain time)
  ELSE /\ a.tok.sigOK                                                \* V1: AuthenticateToken
       /\ a.tok.verbOK                                               \*   AssertVerb
       /\ (creation \/ a.tok.cidOK)                                  \*   idContainerSet => AppliedTo
       /\ a.tok.issuerOwner                                          \*   IssuedBy
       /\ a.tok.lifeOK                                               \*   checkTokenLifetime
       /\ a.tok.sessSig                                              \*   VerifySessionDataSignature

\* the property's notion of authorisation
Authorised(a, creation) ==
  \/ a.auth = "sig" /\ a.ownerSig
  \/ a.auth # "sig" /\ a.tok.issuerOwner /\ a.tok.sigOK /\ a.tok.lifeOK /\ a.tok.verbOK /\ (creation \/ a.tok.cidOK)

(* container part of a creation request:
   decodes   the container structure / bytes decode
   attrs     the attribute LIST in wire order, every attribute abstracted to its kind:
             "user" | "allowed" (permitted __NEOFS__ attribute) | "meta" (__NEOFS__METAINFO_CONSISTENCY,
             at most once: keys are unique) | "forbidden" (any other __NEOFS__ attribute)
   metaOn    processor runs with chain metadata enabled
   policyOK  PlacementPolicy.Verify() accepts
   rules     "rep" | "ec" | "mix"   kinds of storage rules ; allowEC processor setting
   nnsOK     (named put) name/zone arguments equal the container's domain                      *)
AttrKinds == {"user", "allowed", "meta", "forbidden"}
NMeta(l) == Cardinality({i \in 1..Len(l) : l[i] = "meta"})
AttrLists == {l \in UNION {[1..n -> AttrKinds] : n \in 0..3} : NMeta(l) <= 1}
BasicLists == {<<>>, <<"allowed">>, <<"forbidden">>, <<"meta">>}
Cnrs == [decodes : BOOLEAN, attrs : BasicLists, metaOn : BOOLEAN,
         policyOK : BOOLEAN, rules : {"rep", "ec", "mix"}, allowEC : BOOLEAN, nnsOK : BOOLEAN]
GoodCnr == [decodes |-> TRUE, attrs |-> <<>>, metaOn |-> FALSE, policyOK |-> TRUE, rules |-> "rep", allowEC |-> FALSE, nnsOK |-> TRUE]

(* eACL part: decodes, cidOK (table names this container), extendable (basic ACL), sysTarget
   (a record targets the system role), recordsOK (other validateEACL rules)                    *)
Eacls == [decodes : BOOLEAN, cidOK : BOOLEAN, extendable : BOOLEAN, sysTarget : BOOLEAN, recordsOK : BOOLEAN]
GoodEacl == [decodes |-> TRUE, cidOK |-> TRUE, extendable |-> TRUE, sysTarget |-> FALSE, recordsOK |-> TRUE]

\* an attribute is permitted: the verdict on a list must not depend on the order of its elements
Permitted(k, metaOn) == k \in {"user", "allowed"} \/ (k = "meta" /\ metaOn)

\* checkPutContainer without the signature step / with it
CnrChecksBeforeAuth(c) ==
  /\ \A i \in 1..Len(c.attrs) : Permitted(c.attrs[i], c.metaOn)     \* one loop over the attributes, any order
  /\ (c.rules # "rep" => c.allowEC)
  /\ c.rules # "mix"
CnrChecksAfterAuth(c) == c.policyOK /\ c.nnsOK

\* checkSetEACL
EaclCode(e, a) == e.recordsOK /\ ~e.sysTarget /\ e.extendable /\ AuthCode(a, FALSE)

(* whole request:
   op, a (Auths), c (Cnrs), withEACL, e (Eacls), ea (Auths, authorisation of the eACL part),
   exists (container found on chain), idOK (container ID argument decodes, non-zero), expired
   (attribute requests: validUntil passed)                                                     *)
ApproveCode(in) ==
  CASE in.op = "create" ->
         in.c.decodes /\ CnrChecksBeforeAuth(in.c) /\ AuthCode(in.a, TRUE) /\ CnrChecksAfterAuth(in.c)
    [] in.op = "createV2" ->
         /\ in.c.decodes /\ CnrChecksBeforeAuth(in.c) /\ AuthCode(in.a, TRUE) /\ CnrChecksAfterAuth(in.c)
         /\ (in.withEACL => in.e.decodes /\ in.e.cidOK /\ EaclCode(in.e, in.ea))
    [] in.op = "remove" -> in.idOK /\ in.exists /\ AuthCode(in.a, FALSE)
    [] in.op = "putEACL" -> in.e.decodes /\ in.e.cidOK /\ in.exists /\ EaclCode(in.e, in.a)
    [] in.op \in {"setAttr", "rmAttr"} -> in.idOK /\ ~in.expired /\ in.exists /\ AuthCode(in.a, FALSE)

ApproveProp(in, approve) ==
  approve =>
    /\ Authorised(in.a, in.op \in CreateOps)
    /\ (in.op \in CreateOps => in.c.policyOK /\ \A i \in 1..Len(in.c.attrs) : Permitted(in.c.attrs[i], in.c.metaOn))
    /\ (in.op = "putEACL" => in.e.extendable /\ ~in.e.sysTarget)
    /\ (in.op = "createV2" /\ in.withEACL => in.e.extendable /\ ~in.e.sysTarget /\ Authorised(in.ea, FALSE))

\* the known deviation H13: everything in order except that the V2 token does not grant CONTAINER_PUT
KF_H13(in) ==
  /\ in.op \in CreateOps /\ in.a.auth = "v2" /\ ~in.a.tok.verbOK
  /\ ApproveProp([in EXCEPT !.a.tok.verbOK = TRUE], TRUE)

-----------------------------------------------------------------------------
(* exhaustive model: one state per abstract input (irrelevant parts pinned to a canonical value) *)
NearGoodCnr == {GoodCnr} \cup {[GoodCnr EXCEPT !.attrs = <<"forbidden">>], [GoodCnr EXCEPT !.policyOK = FALSE],
                               [GoodCnr EXCEPT !.rules = "ec"], [GoodCnr EXCEPT !.decodes = FALSE]}
\* every attribute list (order matters) under both processor configurations, everything else in order
CnrsAttr == {[GoodCnr EXCEPT !.attrs = l, !.metaOn = m] : l \in AttrLists, m \in BOOLEAN}
Base == [op |-> "remove", a |-> GoodAuth, c |-> GoodCnr, withEACL |-> FALSE, e |-> GoodEacl, ea |-> GoodAuth,
         exists |-> TRUE, idOK |-> TRUE, expired |-> FALSE]
\* authorisations with at most one fact wrong
NearAuths == {a \in Auths : a.auth = "sig" \/
                Cardinality({f \in {"issuerOwner", "sigOK", "verbOK", "cidOK", "lifeOK", "sessSig"} : ~a.tok[f]}) <= 1}
V2Live == {x \in Auths : x.auth = "v2" /\ x.tok.issuerOwner /\ x.tok.lifeOK}

VARIABLES in, out
vars == <<in, out>>
\* (disjuncts are enumerated lazily; one big set of records is slow to normalise in TLC)
InitIn ==
  \/ \E a \in Auths, c \in Cnrs : in = [Base EXCEPT !.op = "create", !.a = a, !.c = c]
  \/ \E o \in CreateOps, a \in NearAuths, c \in CnrsAttr : in = [Base EXCEPT !.op = o, !.a = a, !.c = c]
  \/ \E a \in Auths, c \in {x \in Cnrs : x.nnsOK} : in = [Base EXCEPT !.op = "createV2", !.a = a, !.c = c]
  \/ \E a \in {GoodAuth} \cup V2Live, c \in NearGoodCnr, e \in Eacls, ea \in (IF Full THEN Auths ELSE NearAuths) :
        in = [Base EXCEPT !.op = "createV2", !.a = a, !.c = c, !.withEACL = TRUE, !.e = e, !.ea = ea]
  \/ \E a \in Auths, x \in BOOLEAN, i \in BOOLEAN : in = [Base EXCEPT !.op = "remove", !.a = a, !.exists = x, !.idOK = i]
  \/ \E a \in Auths, e \in Eacls, x \in BOOLEAN : in = [Base EXCEPT !.op = "putEACL", !.a = a, !.e = e, !.exists = x]
  \/ \E o \in {"setAttr", "rmAttr"}, a \in Auths, x \in BOOLEAN, i \in BOOLEAN, d \in BOOLEAN :
        in = [Base EXCEPT !.op = o, !.a = a, !.exists = x, !.idOK = i, !.expired = d]
Init == InitIn /\ out = "none"
Next == out = "none" /\ out' = (IF ApproveCode(in) THEN "yes" ELSE "no") /\ UNCHANGED in
Spec == Init /\ [][Next]_vars

\* repaired code: the property holds for every input
PropertyHolds == out # "none" => ApproveProp(in, out = "yes")
\* code as it is: it holds except for the H13 class (and that class is really reachable)
PropertyHoldsExceptH13 == out # "none" => (ApproveProp(in, out = "yes") \/ (out = "yes" /\ KF_H13(in)))
=============================================================================
