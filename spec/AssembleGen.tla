----------------------------- MODULE AssembleGen -----------------------------
(* M->C case generator for C23: TLC -simulate picks a layout/shape and GenReads ranges; the harness builds the
   layout with real objects (sizes multiplied by `unit`) in a real storage engine and performs the reads
   through the real getsvc.Service.                                                                      *)
EXTENDS AssembleMC, Json
CONSTANT GenReads
VARIABLE reads
GenInit == Init /\ reads = <<>>
GenNext == \/ (PickLayout \/ PickShape) /\ UNCHANGED reads
           \/ /\ pc = "done" /\ Len(reads) < GenReads
              /\ \E r \in Ranges(c.L) : reads' = Append(reads, r)
              /\ UNCHANGED <<c, pc>>
           \/ pc = "done" /\ Len(reads) = GenReads /\ pc' = "emit" /\ UNCHANGED <<c, reads>>   \* single successor: printed once
GenSpec == GenInit /\ [][GenNext]_<<vars, reads>>
CaseJson == [layout |-> c.layout, L |-> c.L, S |-> c.S, k |-> c.k, m |-> c.m, miss |-> c.miss, reads |-> reads]
EmitCase == pc = "emit" => PrintT(<<"BEH", ToJson(CaseJson)>>)
=============================================================================
