SPECIFICATION TraceSpec
CONSTANTS
  Strict = FALSE
INVARIANTS C32_NoSideEffectUnlessAuthorised C32_RejectedUnlessAuthorised GroundTruthConsistent TraceNotStuck
CHECK_DEADLOCK FALSE
