---------------------------- MODULE MetabaseGen ----------------------------
(* Behaviour generator for M->C replay: Metabase + history of the events taken (TLC -simulate). *)
EXTENDS Metabase, Json
CONSTANT GenLen
VARIABLE hist
SeqOfSet(X) == SortedSeq(X)
Enc(e) == CASE e.ev = "Mark" -> [ev |-> "Mark", ids |-> SeqOfSet(e.ids), mark |-> e.mark]
            [] e.ev = "Delete" -> [ev |-> "Delete", ids |-> SeqOfSet(e.ids)]
            [] OTHER -> e
GenInit == Init /\ hist = <<>>
GenNext == \E e \in Events : Step(e) /\ lastEv' = e.ev /\ hist' = Append(hist, Enc(e))
GenSpec == GenInit /\ [][GenNext]_<<allvars, hist>>
Emit == Len(hist) = GenLen => PrintT(<<"BEH", ToJson([cat |-> CatName, steps |-> hist])>>)
=============================================================================
