SPECIFICATION ObsSpec
INVARIANTS ObsExactlyOneFormat ObsUpgraded ObsViewPreserved ObsResumable
CHECK_DEADLOCK FALSE
