SPECIFICATION Spec
CONSTANTS
  Epochs = {0, 1, 7, 1000, 2147483000}
  Big = TRUE
INVARIANTS InvHonouredOnlyIf InvSignedFieldChange InvWindow InvType
CHECK_DEADLOCK FALSE
