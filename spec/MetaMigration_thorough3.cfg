SPECIFICATION Spec
CONSTANTS
  Worlds <- MCWorlds
  BugCursorLeak = FALSE
  MaxInt = 2
  MaxNC = 3
  MaxA = 2
  MaxH = 1
  Budgets = {2}
INVARIANTS TypeOK ExactlyOneFormat HomoPaired OtherUntouched Upgraded ReadyIsCurrent
