---------------------------- MODULE TraceNetmap ----------------------------
(* C->M validation for C38.
   Tick traces (TraceSpecTick): every recorded step of the real netmap processor must be the spec's
   action with the same arguments, the same list of newEpoch calls and the same epoch counter.
   Admission records (TraceSpecAdm): one record per candidate; RecProp is the listed property,
   RecCode the equality with the code-shaped decision (drift detector).                         *)
(* RecCode never fails: a record on which the real decision differs from the code-shaped one WITHOUT
   breaking the property is printed as <<"DRIFT", index>> (model drift, reported by the check as exit 2);
   this way a property violation later in the file is not masked by an earlier drift.            *)
EXTENDS Netmap, Json
Trace == ndJsonDeserialize("trace.ndjson")
VARIABLE l

Frozen == UNCHANGED <<ain, aout>>

TraceInitTick == /\ l = 1 /\ counter = 0 /\ alpha = "no" /\ calls = <<>> /\ chainEpoch = 0 /\ lastEv = "Init"
                 /\ ain = NoAdm /\ aout = "none"
TraceNextTick ==
  /\ l <= Len(Trace)
  /\ l' = l + 1
  /\ Frozen
  /\ LET e == Trace[l] IN
       IF e.ev = "Init" THEN SetAll(InitVals(e.e, e.a))
       ELSE Step(e) /\ calls' = e.calls /\ counter' = e.counter /\ e.others = 0
TraceSpecTick == TraceInitTick /\ [][TraceNextTick]_<<vars, l>>
TraceNotStuck == l <= Len(Trace) => ENABLED TraceNextTick

TraceNextAdm == /\ l <= Len(Trace) /\ l' = l + 1 /\ UNCHANGED vars
TraceSpecAdm == TraceInitTick /\ [][TraceNextAdm]_<<vars, l>>
RecProp == l > Len(Trace) \/ (AdmitProp(Trace[l].in, Trace[l].out.approve) /\ Trace[l].out.others = 0)
RecCode == l > Len(Trace) \/ (AdmitCode(Trace[l].in) = Trace[l].out.approve) \/ PrintT(<<"DRIFT", l>>)
=============================================================================
