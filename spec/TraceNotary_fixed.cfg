SPECIFICATION TraceSpec
CONSTANTS
  BugH14 = FALSE
INVARIANTS RecProp RecCode
CHECK_DEADLOCK FALSE
