SPECIFICATION Spec
CONSTANTS
  Worlds <- MCWorlds
  BugCursorLeak = TRUE
  MaxInt = 1
  MaxNC = 2
  MaxA = 2
  MaxH = 0
  Budgets = {1}
INVARIANTS TypeOK ExactlyOneFormat HomoPaired OtherUntouched Upgraded ReadyIsCurrent
