SPECIFICATION Spec
CONSTANTS
  MRules <- RulesAlign
  MaxRuleSeq = 2
  MaxLen = 10
  PoolCap = 5
  CapMode = "alignFirst"
INVARIANTS NoCrossCorruption
CHECK_DEADLOCK FALSE
