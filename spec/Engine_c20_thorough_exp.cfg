\* C20 thorough: expiring object + tombstone, epochs
SPECIFICATION Spec
CONSTANTS
  NS = 2
  MaxEpoch = 2
  BugH6 = TRUE
  CatSet = "c20e"
  Ops = {"Put", "Bcast", "Delete", "Drop", "GC", "SetMode", "FailGet", "Epoch"}
  Modes = {"rw", "ro", "dro"}
  HealthyLock = FALSE
  MaxInFlight = 1
  Scenario = "none"
INVARIANTS TypeOK C20Classified
VIEW ViewNoRes
CHECK_DEADLOCK FALSE
