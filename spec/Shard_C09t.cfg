SPECIFICATION Spec
CONSTANTS
  Objs = {1, 3}
  WCs = {FALSE, TRUE}
  Batches = {1}
  MaxEpoch = 3
  Ops = {"Put", "Delete", "GC", "Flush", "Epoch", "MarkDef", "MarkRed", "Resync"}
  Faults = {"crash", "delfail", "flushfail"}
  Modes = {}
  BugH9 = TRUE
  BugH10 = TRUE
  BugMetaStale = TRUE
  BugH11 = FALSE
  KRounds = 12
INVARIANTS TypeOK C09ModKF C15ModKF
VIEW ExhView
CHECK_DEADLOCK FALSE
