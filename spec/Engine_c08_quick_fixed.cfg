\* C08 quick, repaired world: rollback reverts its marks (BugH6 = FALSE) and locks are placed on healthy
\* shards only - the property holds without exception
SPECIFICATION Spec
CONSTANTS
  NS = 2
  MaxEpoch = 1
  BugH6 = FALSE
  CatSet = "c08"
  Ops = {"Put", "Bcast", "GC", "SetMode"}
  Modes = {"rw", "ro"}
  HealthyLock = TRUE
  MaxInFlight = 2
  Scenario = "none"
INVARIANTS TypeOK C08Strict
VIEW ViewNoRes
CHECK_DEADLOCK FALSE
