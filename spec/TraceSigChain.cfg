SPECIFICATION TraceSpec
CONSTANTS
  MaxLayers = 3
  MaxSteps = 0
  ListBad = FALSE
INVARIANTS RecOK
CHECK_DEADLOCK FALSE
