---------------------------- MODULE TraceAssemble ----------------------------
(* C23 record validation. One record per read performed through the REAL getsvc.Service (Get with every range
   mode, GetRange) over a REAL single-shard storage engine holding real objects:
     in  = layout, payload length L, real child sizes, EC rule, missing parts, range mode and values
     out = st ("ok" | "oor" | "notfound" | "err"), n = number of bytes received,
           at = offsets (among a few candidates) at which the received bytes occur in the original payload
   RecOK: the record satisfies the property (RefRead), or - only with a deviation switch on - it is exactly the
   as-is behaviour of the corresponding known finding.                                                   *)
EXTENDS Assemble, Json
Recs == ndJsonDeserialize("trace.ndjson")
VARIABLE l
TraceInit == l = 1
TraceNext == l <= Len(Recs) /\ l' = l + 1
TraceSpec == TraceInit /\ [][TraceNext]_l

SetOf(s) == {s[i] : i \in 1..Len(s)}
CaseOf(i) == [layout |-> i.layout, L |-> i.L, sizes |-> i.sizes, k |-> i.k, m |-> i.m, miss |-> SetOf(i.miss)]
RangeOf(i) == [mode |-> i.mode, a |-> i.a, b |-> i.b]

WellFormed(i) == /\ i.layout \in {"whole", "v1", "v1nolink", "v2", "v2nolink", "ec"}
                 /\ i.mode \in {"none", "offlen", "bounds", "from", "suffix"}
                 /\ i.layout \in {"v1", "v1nolink", "v2", "v2nolink"} => SumLen([j \in 1..Len(i.sizes) |-> <<0, i.sizes[j]>>]) = i.L

\* the property on the record
MeetsRef(rec) == LET ref == RefRead(RangeOf(rec.in), rec.in.L) IN
                 /\ rec.out.st = ref.st
                 /\ ref.st = "ok" => rec.out.n = ref.n /\ (ref.n > 0 => ref.off \in SetOf(rec.out.at))

\* exact as-is behaviour of the code model (meaningful only when some deviation switch is TRUE)
MeetsAsIs(rec) == LET res == Read(CaseOf(rec.in), RangeOf(rec.in)) IN
                  /\ rec.out.st = res.st
                  /\ res.st = "ok" => /\ rec.out.n = SumLen(res.pieces)
                                      /\ (Contiguous(res.pieces) /\ SumLen(res.pieces) > 0) => StartOf(res.pieces) \in SetOf(rec.out.at)
InEnabledKnownClass(i) ==
  \/ /\ i.mode # "none"
     /\ \/ BugV1NoLinkExtra /\ i.layout = "v1nolink"
        \/ BugV2NoLinkEmpty /\ i.layout = "v2nolink"
        \/ BugECFirstPart /\ i.layout = "ec" /\ 1 \in SetOf(i.miss)
  \/ i.mode = "none" /\ BugECNoDataHeader /\ i.layout = "ec" /\ (1..i.k) \subseteq SetOf(i.miss)

RecWellFormed == l > Len(Recs) \/ WellFormed(Recs[l].in)
RecOK == l > Len(Recs) \/ MeetsRef(Recs[l]) \/ (InEnabledKnownClass(Recs[l].in) /\ MeetsAsIs(Recs[l]))
=============================================================================
