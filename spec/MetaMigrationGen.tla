-------------------------- MODULE MetaMigrationGen --------------------------
(* Schedule generator for M->C replay: behaviours of MetaMigration restricted to the events the harness can
   place with public API only (no hook):
     - Cancel only right after a transaction of one of the two interruptible passes (the context is read by
       the code only at the top of the transaction loop, so this is every observable cancellation point),
       or as an already cancelled context at Open;
     - Crash and Gone only where the harness holds the process at a gate (before a transaction of the two
       passes) or while the database is closed / ready.
   A behaviour ends after the upgraded database has been closed and opened once more. *)
EXTENDS MetaMigration, Json
CONSTANT GenMaxGone
VARIABLES hist, closes
GW == INSTANCE MetaMigrationGenW

gvars == <<vars, hist, closes>>
Last == IF Len(hist) = 0 THEN "" ELSE hist[Len(hist)].ev
AtGate == pc \in {"homo", "assoc"} /\ ~cancelled
Done == pc = "ready" /\ closes = 1

GenInit == (\E ww \in GW!GenWorlds : InitWorld(ww)) /\ hist = <<>> /\ closes = 0

Rec(e) == hist' = Append(hist, e) /\ UNCHANGED closes

GenNext ==
  /\ ~Done
  /\ \/ \E cc \in BOOLEAN : Open(cc) /\ Rec([ev |-> "Open", cc |-> cc])
     \/ Mig9 /\ Rec([ev |-> "Mig9"])
     \/ (HomoTx \/ \E p \in LeakPos : AssocTx(p)) /\ Rec([ev |-> "Tx"])
     \/ Cancel /\ Last = "Tx" /\ Rec([ev |-> "Cancel"])
     \/ Fail /\ Rec([ev |-> "Fail"])
     \/ Finish /\ Rec([ev |-> "Finish"])
     \/ Crash /\ AtGate /\ Rec([ev |-> "Crash"])
     \/ \E c \in Cnrs : Gone(c) /\ (AtGate \/ pc = "closed") /\ Cardinality(gone \ w.gone0) < GenMaxGone
                          /\ Rec([ev |-> "Gone", c |-> c])
     \/ Close /\ closes = 0 /\ hist' = Append(hist, [ev |-> "Close"]) /\ closes' = 1

GenSpec == GenInit /\ [][GenNext]_gvars
Emit == Done => PrintT(<<"BEH", ToJson([w |-> w, steps |-> hist])>>)
(* with BugCursorLeak = TRUE: only the behaviours in which the as-is model takes the cursor-leak branch *)
EmitLeak == (Done /\ leaked) => PrintT(<<"BEH", ToJson([w |-> w, steps |-> hist])>>)
=============================================================================
