SPECIFICATION TraceSpec
CONSTANTS
  MaxT = 1000
  Durs = {1}
INVARIANTS TraceNotStuck FiresExactlyOnceWhenDue FiredNowWasDue NoDuplicatesInOneCall
CHECK_DEADLOCK FALSE
