SPECIFICATION Spec
CONSTANTS
  L = L
  n1 = n1
  n2 = n2
  n3 = n3
  n4 = n4
  n5 = n5
  Nodes = {L, n1, n2, n3, n4}
  Local = L
  RuleShapes <- ShapesOne4
  EcCnrRepLen = 2
  EcLens = {3, 4}
  Families = {"rep", "eccnr", "ecpart"}
  BugMaintRebalance = FALSE
SYMMETRY Sym4
INVARIANTS TypeOK C26 MachineIsF ConfirmedAreReal StoredAreReal KfOnlyWithMaint LockLinkKept
CHECK_DEADLOCK FALSE
