----------------------------- MODULE TokenCache -----------------------------
(* C30, stateful half: the token verification caches.

   acl/v2.Service memoises the "common" part of a token check under the hash of the token message
   (internal/sessions.ObjectSessionsCache for V1/V2 session tokens, an LRU for bearer tokens); the node
   purges these caches on every new epoch and ONLY then.  For V1 session and bearer tokens the memoised
   part contains the (epoch based) lifetime check - sound because of the purge.  For V2 session tokens
   lifetimes are FS chain TIME, which advances inside an epoch, so the time check must stay outside the
   memoised part.  This module models the cache explicitly (one action per public call / node event)
   and states the property next to it: every verification returns what a cache-less evaluation at the
   current time and epoch would return.

   Tokens are a small catalogue (Cat); all of them apply to the request (container / verb fine), `good`
   says whether decoding, structure and signature are fine.  Claims of V2 tokens are whole seconds,
   of V1 / bearer tokens epochs.                                                              *)
EXTENDS Integers, Sequences, FiniteSets, TLC

CONSTANTS MaxT,     \* chain time ranges over 0..MaxT (seconds)
          MaxE      \* epochs 1..MaxE

\* must equal the catalogue realised by harness/cmd/acl/c30cache.go (it is shipped inside every script)
Cat == << [kind |-> "v2",     good |-> TRUE,  iat |-> 0, nbf |-> 0, exp |-> 1],
          [kind |-> "v2",     good |-> TRUE,  iat |-> 1, nbf |-> 2, exp |-> 2],
          [kind |-> "v2",     good |-> FALSE, iat |-> 0, nbf |-> 0, exp |-> 3],
          [kind |-> "v1",     good |-> TRUE,  iat |-> 1, nbf |-> 1, exp |-> 1],
          [kind |-> "v1",     good |-> TRUE,  iat |-> 1, nbf |-> 2, exp |-> 3],
          [kind |-> "bearer", good |-> TRUE,  iat |-> 1, nbf |-> 2, exp |-> 2] >>
N == Len(Cat)

VARIABLES now, epoch,   \* FS chain time (s), NeoFS epoch
          cache,        \* token index -> "none" | "ok" | "err": memoised result of the common check
          res, last     \* result of the last Verify and the token it was for (0 after any other event)
vars == <<now, epoch, cache, res, last>>

InitVals == [now |-> 0, epoch |-> 1, cache |-> [k \in 1..N |-> "none"], res |-> FALSE, last |-> 0]
Init == now = 0 /\ epoch = 1 /\ cache = [k \in 1..N |-> "none"] /\ res = FALSE /\ last = 0
SetAll(v) == now' = v.now /\ epoch' = v.epoch /\ cache' = v.cache /\ res' = v.res /\ last' = v.last

InWindow(t, x) == t.iat <= x /\ t.nbf <= x /\ x <= t.exp

\* decodeAndVerify*Common: what is computed on a cache miss and memoised
Common(t) == IF t.kind = "v2" THEN t.good                         \* decode + Validate + signatures
             ELSE t.good /\ InWindow(t, epoch)                     \* V1 / bearer: epoch lifetime inside

\* Service.Verify*TokenMessage
DoVerify(k) ==
  LET t == Cat[k]
      c == IF cache[k] = "none" THEN Common(t) ELSE cache[k] = "ok" IN
  /\ cache' = [cache EXCEPT ![k] = IF c THEN "ok" ELSE "err"]
  /\ res' = IF t.kind = "v2" THEN c /\ InWindow(t, now) ELSE c     \* V2: chain time checked on every call
  /\ last' = k
  /\ UNCHANGED <<now, epoch>>

\* a new block: chain time advances, nothing is purged
DoTick == now < MaxT /\ now' = now + 1 /\ last' = 0 /\ UNCHANGED <<epoch, cache, res>>
\* new epoch event: the node purges every token check cache
DoEpoch == epoch < MaxE /\ epoch' = epoch + 1 /\ cache' = [k \in 1..N |-> "none"] /\ last' = 0 /\ UNCHANGED <<now, res>>

Events == [ev : {"Verify"}, k : 1..N] \cup [ev : {"Tick", "Epoch"}]
Step(e) == CASE e.ev = "Verify" -> DoVerify(e.k)
             [] e.ev = "Tick"   -> DoTick
             [] e.ev = "Epoch"  -> DoEpoch
Next == \E e \in Events : Step(e)
Spec == Init /\ [][Next]_vars

-----------------------------------------------------------------------------
(* C30: a token is honoured only inside its validity period, whatever was verified before *)
Fresh(k) == LET t == Cat[k] IN t.good /\ (IF t.kind = "v2" THEN InWindow(t, now) ELSE InWindow(t, epoch))
CacheTransparent == last # 0 => res = Fresh(last)
TypeOK == now \in 0..MaxT /\ epoch \in 1..MaxE /\ last \in 0..N /\ res \in BOOLEAN
=============================================================================
