----------------------------- MODULE AssembleMC -----------------------------
(* C23 model check: every layout x payload length x child size limit / EC rule x set of missing parts,
   and in every such state EVERY range of every mode with values 0..L+1.                               *)
EXTENDS Assemble
CONSTANTS MaxL, MaxS
VARIABLES c, pc
vars == <<c, pc>>

ECRules == {<<1, 0>>, <<1, 1>>, <<2, 1>>, <<3, 1>>, <<2, 2>>, <<3, 2>>, <<4, 2>>}
SplitLayouts == {"v1", "v1nolink", "v2", "v2nolink"}
NoCase == [layout |-> "none", L |-> 0, S |-> 0, sizes |-> <<>>, k |-> 0, m |-> 0, miss |-> {}]

Init == c = NoCase /\ pc = "layout"
PickLayout == /\ pc = "layout"
              /\ \E lay \in SplitLayouts \cup {"whole", "ec"}, len \in 0..MaxL :
                   c' = [NoCase EXCEPT !.layout = lay, !.L = len]
              /\ pc' = "shape"
PickShape ==
  /\ pc = "shape"
  /\ pc' = "done"
  /\ CASE c.layout = "whole" -> c' = c
       [] c.layout \in SplitLayouts ->
            \E s \in 1..MaxS : s < c.L /\ c' = [c EXCEPT !.S = s, !.sizes = SplitSizes(c.L, s)]     \* really split: L > S
       [] c.layout = "ec" ->
            \E rule \in ECRules : \E ms \in SUBSET (1..(rule[1] + rule[2])) :
               Cardinality(ms) <= rule[2] /\ c' = [c EXCEPT !.k = rule[1], !.m = rule[2], !.miss = ms]
Next == PickLayout \/ PickShape
Spec == Init /\ [][Next]_vars

Ranges(L) == [mode : {"none"}, a : {0}, b : {0}]
             \cup [mode : {"offlen", "bounds"}, a : 0..(L + 1), b : 0..(L + 1)]
             \cup [mode : {"from", "suffix"}, a : 0..(L + 1), b : {0}]

Done == pc = "done"

\* the property, for the repaired code (all deviation switches FALSE)
ReadsExactlyTheRange ==
  Done => \A r \in Ranges(c.L) : LET res == Read(c, r) IN Satisfies(res, RefRead(r, c.L)) /\ InBounds(res, c.L)

\* as-is world: the model deviates from the property only inside the known-finding classes
Ranged(r) == r.mode # "none"
KF_ECFirstPart(r) == c.layout = "ec" /\ Ranged(r) /\ 1 \in c.miss
KF_ECNoDataHeader(r) == c.layout = "ec" /\ ~Ranged(r) /\ (1..c.k) \subseteq c.miss
KF_V2NoLinkEmpty(r) == c.layout = "v2nolink" /\ Ranged(r) /\ RefRead(r, c.L).st = "ok"
KF_V1NoLinkExtra(r) == /\ c.layout = "v1nolink" /\ Ranged(r)
                       /\ LET ref == RefRead(r, c.L) IN
                          ref.st = "ok" /\ ref.off + ref.n <= c.L - c.sizes[Len(c.sizes)]
DeviatesOnlyInKnownClasses ==
  Done => \A r \in Ranges(c.L) :
            Satisfies(Read(c, r), RefRead(r, c.L)) \/ KF_ECFirstPart(r) \/ KF_V2NoLinkEmpty(r) \/ KF_V1NoLinkExtra(r)
              \/ KF_ECNoDataHeader(r)
\* ... and it does deviate there (the switches are not vacuous)
KnownClassesDeviate ==
  Done => \A r \in Ranges(c.L) :
            (KF_ECFirstPart(r) \/ KF_V2NoLinkEmpty(r) \/ KF_V1NoLinkExtra(r) \/ KF_ECNoDataHeader(r))
              => ~Satisfies(Read(c, r), RefRead(r, c.L))
=============================================================================
