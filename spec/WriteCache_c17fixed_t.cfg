SPECIFICATION FairSpec
CONSTANTS
  Addrs = {1, 2, 3}
  Threshold = 1
  MaxCount = 2
  MaxBSize = 100
  MaxCache = 5
  NW = 1
  Procs = {1, 2}
  Ops = {"put", "del", "reopen"}
  Modes = {"rw"}
  Shard = FALSE
  Markers = FALSE
  MaxFail = 1
  MaxCalls = 3
  BugH3 = FALSE
  BugAlias = FALSE
  BugErrLeak = FALSE
  BugSplit = FALSE
INVARIANTS TypeOK SizeExact NoLeak
CHECK_DEADLOCK FALSE
PROPERTIES Drains
