-------------------------- MODULE TraceTokenCache --------------------------
(* C->M trace validation for TokenCache: every recorded call of the real acl/v2.Service (same token
   bytes re-verified while chain time / epoch move) must be the spec's action with the SAME result;
   CacheTransparent is evaluated at every recorded step. *)
EXTENDS TokenCache, Json
Trace == ndJsonDeserialize("trace.ndjson")
VARIABLE l
TraceInit == Init /\ l = 1
TraceNext ==
  /\ l <= Len(Trace)
  /\ l' = l + 1
  /\ LET e == Trace[l] IN
       IF e.ev = "Init" THEN SetAll(InitVals)
       ELSE Step(e) /\ (e.ev = "Verify" => res' = e.res)
TraceSpec == TraceInit /\ [][TraceNext]_<<vars, l>>
TraceNotStuck == l <= Len(Trace) => ENABLED TraceNext
=============================================================================
