SPECIFICATION Spec
CONSTANTS
  NRec = 2
  MaxCuts = 4
  BugH4 = TRUE
INVARIANTS TypeOK RestoreExactKF
CHECK_DEADLOCK FALSE
