SPECIFICATION GenSpec
CONSTANTS
  Worlds = {}
  BugCursorLeak = TRUE
  MaxInt = 1
  GenMaxGone = 1
INVARIANTS EmitLeak
CHECK_DEADLOCK FALSE
