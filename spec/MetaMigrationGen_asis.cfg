SPECIFICATION GenSpec
CONSTANTS
  Worlds = {}
  BugCursorLeak = TRUE
  MaxInt = 0
  GenMaxGone = 1
INVARIANTS EmitLeak
CHECK_DEADLOCK FALSE
