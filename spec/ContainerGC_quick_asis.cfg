SPECIFICATION Spec
CONSTANTS
  MaxEpoch = 10
  MaxUnpaid = 12
  HistLens = {1}
  BugEpochWrap = TRUE
INVARIANTS PropertyHolds KFExact DiscardsWhenDue
CHECK_DEADLOCK FALSE
