SPECIFICATION Spec
CONSTANTS
  NS = 3
  NO = 4
INVARIANTS C06_EnginePageMatchesUnion
CHECK_DEADLOCK FALSE
