SPECIFICATION SSpec
CONSTANTS
  BugWriteErrorSwallowed = FALSE
  MaxDecl = 3
  MaxChunk = 3
  MaxChunks = 4
  NetMax = 2
  MaxLen = 7
  SliceMax = 2
INVARIANTS PiecesReassemble NeverBroken SlicerIsAccept
CHECK_DEADLOCK FALSE
