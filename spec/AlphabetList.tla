---------------------------- MODULE AlphabetList ----------------------------
(* C36 - pkg/innerring/processors/governance/list.go: newAlphabetList, updateInnerRing, used by
   processAlphabetSync (process_update.go).

   Keys are the integers 1..NKeys; the integer order is the byte order of the real public keys the
   harness uses, so "sort.Sort(keys)" is the integer sort.

   Part 1  code-shaped functions  NewAlphabet(cur, main), UpdateInnerRing(ir, before, after)
           (loops of the Go code written as recursive operators, early breaks included).
   Part 2  the declarative property of C36 (AlphaOK, IROK) over (input, output).
   Part 3  a two-step model (pick an input; compute) so TLC enumerates every input of the stated
           universe and checks  output = function(input)  =>  property.
   Deviation switch BugIRDup:
     TRUE  = the code as it is: updateInnerRing maps before[j] -> after[j] position by position and
             keeps every other key, so a key that enters the alphabet while it already is a
             non-alphabet inner ring member appears twice in the new inner ring list;
     FALSE = repaired code (fixes/C36-ir-dup.diff): a key is appended only if not yet present.      *)
EXTENDS Integers, Sequences, FiniteSets, TLC

CONSTANTS NKeys,      \* key universe 1..NKeys
          CurSizes,   \* sizes of the current alphabet enumerated by the model
          MaxExtra,   \* inner ring = alphabet + up to MaxExtra other keys
          BugIRDup    \* deviation switch, see above

Keys == 1..NKeys

Range(s) == {s[i] : i \in DOMAIN s}
NoDup(s) == \A i, j \in DOMAIN s : i # j => s[i] # s[j]
Min(S) == CHOOSE x \in S : \A y \in S : x <= y
RECURSIVE SortSet(_)
SortSet(S) == IF S = {} THEN <<>> ELSE LET m == Min(S) IN <<m>> \o SortSet(S \ {m})
Count(s, k) == Cardinality({i \in DOMAIN s : s[i] = k})
Bag(s) == [k \in Keys |-> Count(s, k)]            \* order-free projection used to compare with records

-----------------------------------------------------------------------------
(* Part 1: the code *)

\* first loop of newAlphabetList: walk the sorted mainnet list; hit = fsChain keys seen (hmap[..] = true)
RECURSIVE MainLoop(_, _, _, _, _, _, _)
MainLoop(mainS, i, res, nn, curSet, ln, limit) ==
  IF i > Len(mainS) \/ Len(res) = ln THEN [res |-> res, nn |-> nn]
  ELSE LET k == mainS[i] IN
       IF k \notin curSet
       THEN IF nn = limit THEN MainLoop(mainS, i + 1, res, nn, curSet, ln, limit)
            ELSE MainLoop(mainS, i + 1, Append(res, k), nn + 1, curSet, ln, limit)
       ELSE MainLoop(mainS, i + 1, Append(res, k), nn, curSet, ln, limit)

\* second loop: fill up with fsChain keys that were not taken (hmap[..] = false), in sorted order
RECURSIVE FillLoop(_, _, _, _)
FillLoop(curS, i, res, ln) ==
  IF i > Len(curS) \/ Len(res) = ln THEN res
  ELSE IF curS[i] \in Range(res) THEN FillLoop(curS, i + 1, res, ln)
       ELSE FillLoop(curS, i + 1, Append(res, curS[i]), ln)

\* newAlphabetList(fsChain, mainnet) for duplicate-free lists given as sets (the code sorts both first);
\* proposed = FALSE is the (nil, nil) result
NewAlphabet(curSet, mainSet) ==
  LET curS  == SortSet(curSet)
      mainS == SortSet(mainSet)
      ln    == Len(curS)
      limit == (ln - 1) \div 3
      m     == MainLoop(mainS, 1, <<>>, 0, curSet, ln, limit)
  IN IF m.nn = 0 THEN [proposed |-> FALSE, alpha |-> <<>>]
     ELSE [proposed |-> TRUE, alpha |-> SortSet(Range(FillLoop(curS, 1, m.res, ln)))]
     \* sort.Sort(result): FillLoop's result is duplicate-free (checked by AlphaOK below on Bag of the
     \* unsorted list as well, see NewAlphabetRaw)
NewAlphabetRaw(curSet, mainSet) ==
  LET curS == SortSet(curSet)  ln == Len(curS)
      m == MainLoop(SortSet(mainSet), 1, <<>>, 0, curSet, ln, (ln - 1) \div 3)
  IN IF m.nn = 0 THEN <<>> ELSE FillLoop(curS, 1, m.res, ln)

FirstIdx(s, k) == Min({j \in DOMAIN s : s[j] = k})
AppendUniq(res, k) == IF k \in Range(res) THEN res ELSE Append(res, k)
RECURSIVE Uniq(_, _, _)
Uniq(s, i, res) == IF i > Len(s) THEN res ELSE Uniq(s, i + 1, AppendUniq(res, s[i]))

\* updateInnerRing(innerRing, before, after), Len(before) = Len(after)
UpdateInnerRing(ir, before, after) ==
  LET mapped == [i \in DOMAIN ir |->
                   IF ir[i] \in Range(before) THEN after[FirstIdx(before, ir[i])] ELSE ir[i]]
  IN IF BugIRDup THEN mapped ELSE Uniq(mapped, 1, <<>>)

\* what processAlphabetSync computes from the three fetched lists
Compute(curSet, mainSet, ir) ==
  LET a == NewAlphabet(curSet, mainSet)
  IN IF ~a.proposed THEN [proposed |-> FALSE, alpha |-> <<>>, irOut |-> <<>>]
     ELSE [proposed |-> TRUE, alpha |-> a.alpha,
           irOut |-> UpdateInnerRing(ir, SortSet(curSet), a.alpha)]

-----------------------------------------------------------------------------
(* Part 2: the property, on an input (curSet, mainSet, ir) and an output o *)

AlphaOK(curSet, mainSet, o) ==
  o.proposed =>
    /\ Len(o.alpha) = Cardinality(curSet)                                \* same size
    /\ NoDup(o.alpha)                                                    \* no duplicates
    /\ Range(o.alpha) \subseteq curSet \cup mainSet                      \* current members and mainnet keys
    /\ Cardinality(Range(o.alpha) \ curSet) <= (Cardinality(curSet) - 1) \div 3   \* one-third bound
    /\ Range(o.alpha) # curSet                                           \* proposed only on change

Removed(curSet, o) == curSet \ Range(o.alpha)
Added(curSet, o) == Range(o.alpha) \ curSet

IRSetOK(curSet, ir, o) ==
  o.proposed => Range(o.irOut) = (Range(ir) \ Removed(curSet, o)) \cup Added(curSet, o)
IRNoDup(o) == o.proposed => NoDup(o.irOut)

Prop(curSet, mainSet, ir, o) ==
  AlphaOK(curSet, mainSet, o) /\ IRSetOK(curSet, ir, o) /\ IRNoDup(o)

\* Known-finding class (the as-is behaviour behind BugIRDup): everything holds except that the keys which
\* were promoted into the alphabet while already being inner ring members occur exactly twice.
Promoted(curSet, ir, o) == Added(curSet, o) \cap Range(ir)
KFIRDup(curSet, mainSet, ir, o) ==
  /\ o.proposed
  /\ AlphaOK(curSet, mainSet, o) /\ IRSetOK(curSet, ir, o)
  /\ Promoted(curSet, ir, o) # {}
  /\ \A k \in Keys : Count(o.irOut, k) = IF k \in Promoted(curSet, ir, o) THEN 2
                                          ELSE IF k \in Range(o.irOut) THEN 1 ELSE 0

PropOrKF(curSet, mainSet, ir, o) ==
  Prop(curSet, mainSet, ir, o) \/ (BugIRDup /\ KFIRDup(curSet, mainSet, ir, o))

-----------------------------------------------------------------------------
(* Part 3: exhaustive model over the stated universe *)

VARIABLES cur, main, ext, phase, out
vars == <<cur, main, ext, phase, out>>

NoOut == [proposed |-> FALSE, alpha |-> <<>>, irOut |-> <<>>]

Init ==
  /\ cur \in {S \in SUBSET Keys : Cardinality(S) \in CurSizes}
  /\ main \in {S \in SUBSET Keys : Cardinality(S) >= Cardinality(cur)}
  /\ ext \in {S \in SUBSET (Keys \ cur) : Cardinality(S) <= MaxExtra}
  /\ phase = "in" /\ out = NoOut

IRList == SortSet(cur \cup ext)

Sync ==
  /\ phase = "in" /\ phase' = "out"
  /\ out' = Compute(cur, main, IRList)
  /\ UNCHANGED <<cur, main, ext>>

Next == Sync
Spec == Init /\ [][Next]_vars

PropertyHolds == phase = "out" => PropOrKF(cur, main, IRList, out)
RawListNoDup == phase = "out" => NoDup(NewAlphabetRaw(cur, main))   \* result before sort.Sort
\* the known-finding class is exactly where the pure property fails (documents the finding precisely)
KFExact == phase = "out" =>
  (Prop(cur, main, IRList, out) <=> ~(BugIRDup /\ out.proposed /\ Promoted(cur, IRList, out) # {}))
=============================================================================
