SPECIFICATION Spec
CONSTANTS
  CatName = "T"
  MaxEpoch = 3
  MarkPairs = FALSE
VIEW View
INVARIANTS ModelSane C01_StatusMatchesReference C01_ViewsAgree C07_LockedNeverGone G_BlobIsIndexed G_VirtHasChild
PROPERTIES C07_TombstoneRejected C07_GCKeepsLocked C07_LockAdmission G_EpochMonotone G_GCRemovesOnlyCollectable
CHECK_DEADLOCK FALSE
