SPECIFICATION Spec
CONSTANTS
  CatName = "T"
  MaxEpoch = 3
  MarkPairs = FALSE
VIEW View
INVARIANTS ModelSane C01_StatusMatchesReference C01_ViewsAgree C07_LockedNeverGone
PROPERTIES C07_TombstoneRejected C07_GCKeepsLocked C07_LockAdmission
CHECK_DEADLOCK FALSE
