SPECIFICATION VSpec
CONSTANTS
  BugWriteErrorSwallowed = FALSE
  MaxDecl = 3
  MaxChunk = 2
  MaxChunks = 3
  NetMax = 2
INVARIANTS StoredOnlyValid MachineIsAccept
CHECK_DEADLOCK FALSE
