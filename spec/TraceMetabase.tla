--------------------------- MODULE TraceMetabase ---------------------------
(* C->M trace validation for Metabase.tla. Every recorded call on the real shard must be the spec's
   action with the same arguments, the same result class, and the same projected state ("view": Exists,
   Get, IsLocked, ResolveECPart, blob presence for every catalogue address; listing, expired iteration,
   unfiltered search, garbage listing). Counters (C02) are compared with the reference recount; a
   difference may only appear at a step matching a listed known-finding class (see CtrStep). *)
EXTENDS Metabase, Json, SequencesExt

Trace == ndJsonDeserialize("trace.ndjson")

VARIABLES l,        \* next event
          drift,    \* real counters minus reference recount, per field
          taint,    \* fields whose comparison is suspended for the rest of the script (after a known finding)
          bad,      \* "none" or a description of the first unexplained counter drift
          rsv,      \* C18: status vector after the first of a run of consecutive resyncs (<<>> = none)
          cntTaint  \* C02: the history left the class on which ObjectsNumber (phy - garbage counter) is exact
VARIABLE cntBad
tvars == <<allvars, l, drift, taint, bad, rsv, cntTaint, cntBad>>

SetOf(t) == {t[k] : k \in 1..Len(t)}
Fields == {"phy", "root", "ts", "lock", "link", "size"}
Zero == [f \in Fields |-> 0]

RECURSIVE SumSeq(_)
SumSeq(q) == IF q = <<>> THEN 0 ELSE Head(q) + SumSeq(Tail(q))

\* real minus reference, per field (per-container values summed: the catalogue keeps containers independent)
DriftOf(s, v) ==
  LET r == RefCounters(s) IN
  [f \in Fields |->
     CASE f = "phy" -> v.ctr.phy - r.phy [] f = "root" -> v.ctr.root - r.root [] f = "ts" -> v.ctr.ts - r.ts
       [] f = "lock" -> v.ctr.lock - r.lock [] f = "link" -> v.ctr.link - r.link
       [] f = "size" -> SumSeq(v.size) - SumSeq(r.size)]

ViewMatches(s, ep, v) ==
  /\ v.ex = [i \in IDs |-> ExistsRes(s, ep, i)]
  /\ v.get = [i \in IDs |-> GetRes(s, ep, i)]
  /\ v.lk = [i \in IDs |-> LockedRes(s, ep, i)]
  /\ v.ec = [i \in IDs |-> ECRes(s, ep, i)]
  /\ v.blob = [i \in IDs |-> s.blob[i]]
  /\ SetOf(v.list) = Listed(s)
  /\ SetOf(v.expd) = ExpiredIter(s, ep)
  /\ SetOf(v.srch) = Searchable(s, ep)
  /\ SetOf(v.garb) = GarbageSet(s)
  /\ SetOf(v.cnrs) = {c \in Cnrs : s.bkt[c]}          \* DB.Containers(): containers that have a metadata bucket

\* Known-finding classes of counter drift: a (pre-state, event) predicate and the fields it may disturb.
\* The fields stay suspended for the rest of the script because floor-at-zero arithmetic makes later
\* values depend on the earlier error.
TypeFields == {"phy", "root", "ts", "lock", "link", "size"}
RECURSIVE Chain(_)
Chain(o) == IF Cat[o].par = 0 THEN {o} ELSE {o} \cup Chain(Cat[o].par)
KFClasses(s, ep, e) ==
  \* C02-reput: a put re-indexes an object (or a parent header) that is already indexed but reported
  \* "not found" because of a garbage mark, so its counters are added a second time
  (IF e.ev = "Put" /\ \E x \in Chain(e.o) : Has(s, x) /\ Status(s, ep, x) = "gc"
     THEN {[name |-> "C02-reput-of-garbage-marked", fields |-> TypeFields]} ELSE {})
  \* C02-revive: reviving an object adds its type counters again although marking never subtracted them
  \cup (IF e.ev = "Revive" /\ Has(s, e.a) /\ Live(s, Cat[e.a].cnr) /\ InGarbage(s, e.a) # "avail"
     THEN {[name |-> "C02-revive-recounts", fields |-> TypeFields]} ELSE {})
  \* C02-premarked: an object is put while its id already carries a garbage mark: its payload is added
  \* to the container size although it is marked for removal
  \cup (IF e.ev = "Put" /\ s.garb[e.o] # "none" THEN {[name |-> "C02-put-of-premarked-id", fields |-> {"size"}]} ELSE {})
  \* C02-tombstoned-but-locked: an object that is tombstoned and protected by a live lock at the same time is
  \* available for the code (finding C01-lock-overrides-tombstone), so a put stores it and counts its payload
  \* although a tombstone targets it
  \cup (IF e.ev = "Put" /\ Tombstoned(s, e.o) /\ Locked(s, ep, e.o)
     THEN {[name |-> "C02-put-of-tombstoned-but-locked-object", fields |-> {"size"}]} ELSE {})
  \* C02-ts-after-mark: a tombstone subtracts the payload of a target that a garbage mark had already subtracted
  \cup (IF e.ev = "Put" /\ Cat[e.o].typ = "TS"
         /\ \E x \in CollectChildren(s, Cat[e.o].tgt) \cup {Cat[e.o].tgt} : s.stored[x] = "phy" /\ s.garb[x] # "none"
     THEN {[name |-> "C02-tombstone-after-mark", fields |-> {"size"}]} ELSE {})

\* the model's result of event e as a value (used both to step and to report what was expected)
Result(e) ==
  CASE e.ev = "Put"       -> PutOp(S, epoch, e.o)
    [] e.ev = "Mark"      -> MarkOp(S, CnrOfSet(SetOf(e.ids)), SetOf(e.ids), e.mark)
    [] e.ev = "Delete"    -> DeleteOp(S, CnrOfSet(SetOf(e.ids)), SetOf(e.ids))
    [] e.ev = "InhumeCnr" -> InhumeCnrOp(S, e.c)
    [] e.ev = "Revive"    -> ReviveOp(S, e.a)
    [] e.ev = "Tick"      -> [s |-> S, res |-> "ok"]
    [] e.ev = "GC"        -> [s |-> GCOp(S, epoch, processed).s, res |-> "ok"]
    [] e.ev = "List"      -> [s |-> S, res |-> "ok"]
    [] e.ev = "Resync"    -> ResyncOpB(S, epoch, e.perm, e.b)
    \* a blob left behind without metadata (crash between the blob write and the metabase step of a put)
    [] e.ev = "Blob"      -> [s |-> [S EXCEPT !.blob[e.o] = TRUE], res |-> "ok"]
ExpectedView(s, ep) ==
  [ex |-> [i \in IDs |-> ExistsRes(s, ep, i)], get |-> [i \in IDs |-> GetRes(s, ep, i)],
   lk |-> [i \in IDs |-> LockedRes(s, ep, i)], ec |-> [i \in IDs |-> ECRes(s, ep, i)],
   blob |-> [i \in IDs |-> s.blob[i]], list |-> SortedSeq(Listed(s)), expd |-> SortedSeq(ExpiredIter(s, ep)),
   srch |-> SortedSeq(Searchable(s, ep)), garb |-> SortedSeq(GarbageSet(s)), cnrs |-> SortedSeq({c \in Cnrs : s.bkt[c]})]
Expected(e) == LET r == Result(e) ep == IF e.ev = "Tick" THEN epoch + 1 ELSE epoch IN
  [l |-> l, res |-> r.res, v |-> ExpectedView(r.s, ep),
   protected |-> SortedSeq({i \in IDs : Protected(S, epoch, i)}),
   pages |-> IF e.ev = "List" THEN ListAfter(S, e.from) ELSE <<>>]

\* C06: the pages returned for (page size n, start cursor) concatenate to the expected listing, every page
\* but the last is full, none is empty
RECURSIVE Concat(_)
Concat(pp) == IF pp = <<>> THEN <<>> ELSE Head(pp) \o Concat(Tail(pp))
PagesOK(e) ==
  /\ Concat(e.pages) = ListAfter(S, e.from)
  /\ \A k \in 1..Len(e.pages) : Len(e.pages[k]) >= 1 /\ (k < Len(e.pages) => Len(e.pages[k]) = e.n)

ToEvent(e) ==
  CASE e.ev = "Put" -> [ev |-> "Put", o |-> e.o]
    [] e.ev = "Mark" -> [ev |-> "Mark", ids |-> SetOf(e.ids), mark |-> e.mark]
    [] e.ev = "Delete" -> [ev |-> "Delete", ids |-> SetOf(e.ids)]
    [] e.ev = "InhumeCnr" -> [ev |-> "InhumeCnr", c |-> e.c]
    [] e.ev = "Revive" -> [ev |-> "Revive", a |-> e.a]
    [] OTHER -> [ev |-> e.ev]

TraceInit == Init /\ l = 1 /\ drift = Zero /\ taint = {} /\ bad = "none" /\ rsv = <<>> /\ cntTaint = FALSE /\ cntBad = "none"

TraceNext ==
  /\ l <= Len(Trace)
  /\ l' = l + 1
  /\ LET e == Trace[l] IN
     IF e.ev = "Init"
     THEN /\ S' = S0 /\ epoch' = 0 /\ res' = "init" /\ processed' = 0 /\ lastEv' = "Init"
          /\ drift' = Zero /\ taint' = {} /\ bad' = bad /\ rsv' = <<>> /\ cntTaint' = FALSE /\ cntBad' = cntBad
     ELSE IF e.ev = "List"
     THEN \* C06: paged listing from an arbitrary cursor; state unchanged, no view recorded
          /\ PagesOK(e) /\ lastEv' = "List" /\ res' = "ok"
          /\ UNCHANGED <<S, epoch, processed, drift, taint, bad, rsv, cntTaint, cntBad>>
     ELSE /\ IF e.ev \in {"Resync", "Blob"}
             THEN S' = Result(e).s /\ UNCHANGED <<epoch, processed>>
             ELSE Step(ToEvent(e))
          /\ lastEv' = e.ev
          /\ res' = e.res
          \* C18: the first resync of a script fixes the status vector every later resync order must reproduce
          /\ rsv' = IF e.ev = "Resync" THEN (IF rsv = <<>> THEN StatusVec(S', epoch') ELSE rsv) ELSE <<>>
          \* listed deviation classes of C01 / C07 actually reached by the real shard
          /\ ((\E i \in IDs : KF_LockOverTomb(S', epoch', i)) => PrintT("KF {\"C01-lock-overrides-tombstone\"}"))
          /\ ((\E i \in IDs : KF_FirstLockOnly(S', epoch', i)) => PrintT("KF {\"C07-first-lock-only\"}"))
          /\ ((e.ev = "Put" /\ Cat[e.o].typ = "LOCK" /\ e.res = "ok" /\ S.stored[e.o] = "absent"
                /\ (KF_LockOnExpiredTombstoned(S, epoch, Cat[e.o].tgt) \/ KF_LockOverTomb(S, epoch, Cat[e.o].tgt)))
                   => PrintT("KF {\"C07-lock-on-expired-tombstoned\"}"))
          /\ ((e.ev = "Resync" /\ KF_ResyncConflict(S, epoch)) => PrintT("KF {\"C18-live-lock-and-tombstone-blobs\"}"))
          /\ ((e.ev = "Resync" /\ KF_ResyncOrphan(S)
                /\ \E c \in IDs : S'.blob[c] /\ Cat[c].par # 0 /\ ~Has(S', c) /\ S'.garb[c] = "none")
                   => PrintT("KF {\"C18-child-after-parent-tombstone-orphaned\"}"))
          /\ ((e.ev = "Resync" /\ KF_ResyncExpiredParent(S, epoch)
                /\ \E c \in IDs : S'.blob[c] /\ Cat[c].par # 0 /\ ~Has(S', c) /\ S'.garb[c] = "none")
                   => PrintT("KF {\"C18-sibling-of-expired-parent-orphaned\"}"))
          /\ ((e.ev = "Resync" /\ e.res = "err" /\ KF_ResyncAbort(S)) => PrintT("KF {\"C18-resync-aborts\"}"))
          /\ ViewMatches(S', epoch', e.v)
          \* C02, ObjectsNumber: exact as long as every garbage mark names a physically stored, not yet marked
          \* object and nothing was revived / no container removed (finding C02-objects-number otherwise)
          /\ cntTaint' = (IF e.ev = "Resync" THEN FALSE ELSE
                           \/ cntTaint \/ taint # {} \/ e.ev \in {"InhumeCnr", "Revive"}
                           \/ \E i \in IDs : S'.garb[i] # "none" /\ S'.stored[i] # "phy"
                           \/ (e.ev = "Put" /\ (S.garb[e.o] # "none" \/ KFClasses(S, epoch, ToEvent(e)) # {})))
          /\ (cntTaint' /\ ~cntTaint) => PrintT("KF {\"C02-objects-number\"}")
          /\ cntBad' = IF cntBad = "none" /\ ~cntTaint' /\ e.v.cnt # [c \in Cnrs |-> RefCnrCount(S', c)]
                        THEN ToString(<<"ObjectsNumber differs from the number of stored unmarked objects at event", l, e.v.cnt>>) ELSE cntBad
          /\ LET d == DriftOf(S', e.v)
                 kf == KFClasses(S, epoch, ToEvent(e))
                 changed == {f \in Fields : d[f] # drift[f]} \ taint
                 explained == IF e.ev = "Resync" THEN {} ELSE UNION {k.fields : k \in kf}
             IN /\ drift' = d
                /\ taint' = IF e.ev = "Resync" THEN {} ELSE taint \cup (IF changed # {} THEN explained ELSE {})
                /\ bad' = IF bad = "none" /\ changed \ explained # {} /\ e.ev # "Resync"
                          THEN ToString(<<"unexplained counter drift at event", l, changed \ explained, d>>)
                          ELSE IF bad = "none" /\ e.ev = "Resync" /\ \E f \in Fields \ {"size"} : d[f] # 0   \* size: listed C02 findings (premarked put, tombstone after mark) depend on the order
                          THEN ToString(<<"counters differ from the recount after resync at event", l, d>>) ELSE bad
                /\ (changed # {} /\ changed \subseteq explained) => PrintT("KF " \o ToString({k.name : k \in kf}))
                /\ (changed \ explained # {}) =>
                      PrintT("DRIFT " \o ToString(<<l, ToEvent(e), [f \in changed \ explained |-> d[f] - drift[f]], S.stored, S.garb>>))

TraceSpec == TraceInit /\ [][TraceNext]_tvars
TraceNotStuck == l <= Len(Trace) => (ENABLED TraceNext \/ (PrintT("EXPECT " \o ToJson(Expected(Trace[l]))) /\ FALSE))
C02_CountersMatchRecount == bad = "none"
C02_ObjectsNumberExact == cntBad = "none"
\* C18: every enumeration order of the blobs rebuilds the same object statuses (outside the listed conflict class)
C18_OrderIndependent == (lastEv = "Resync" /\ rsv # <<>>) => (StatusVec(S, epoch) = rsv \/ KF_ResyncConflict(S, epoch) \/ KF_ResyncAbort(S) \/ KF_ResyncOrphan(S) \/ KF_ResyncExpiredParent(S, epoch))
\* C18: after a rebuild GC can reclaim every removed object: every tombstoned id with a blob is in the garbage listing
C18_RemovedReclaimable ==
  lastEv = "Resync" => \A i \in IDs :
     (S.blob[i] /\ Live(S, Cat[i].cnr) /\ (Tombstoned(S, i) \/ (Cat[i].par # 0 /\ Tombstoned(S, Cat[i].par))))
        => (i \in GarbageSet(S) \/ KF_ResyncOrphan(S))
\* acceptance without ENABLED (fast path): the deterministic trace was consumed to its end
TraceAccepted == TLCGet("stats").diameter - 1 = Len(Trace)
=============================================================================
