SPECIFICATION MCSpec
CONSTANTS
  M = 63
  KB = 4
  KN = 3
  MaxDigits <- MaxDigits63
  BugPlusAfterSign = FALSE
  BugMergeNoRange = FALSE
  Alphabet = {43, 45, 48, 51, 52, 54, 120}
  LS = 5
  LS2 = 1
  Mode = "strings"
INVARIANTS StringsInv
CHECK_DEADLOCK FALSE
