SPECIFICATION SpecTick
CONSTANTS
  MaxEpoch = 40
INVARIANTS TickRule CounterFollowsChain
CHECK_DEADLOCK FALSE
