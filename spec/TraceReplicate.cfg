SPECIFICATION TraceSpec
INVARIANTS RecWellFormed RecStoredOnlyIfAccepted RecOkOnlyIfAccepted RecOkMeansStored RecAcceptedWhenAllChecksPass
CHECK_DEADLOCK FALSE
