SPECIFICATION Spec
CONSTANTS
  OpsU = {"get", "put"}
  Sliced = TRUE
  TabLen = 2
  CheckTables = TRUE
INVARIANTS InvServed InvSystemIgnores InvNoBitNoAccess InvBearerBitGuards InvIRReadOnly
CHECK_DEADLOCK FALSE
