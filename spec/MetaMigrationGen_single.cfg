SPECIFICATION GenSpec
CONSTANTS
  Worlds = {}
  BugCursorLeak = FALSE
  MaxInt = 1
  GenMaxGone = 0
INVARIANTS Emit
CHECK_DEADLOCK FALSE
