SPECIFICATION Spec
CONSTANTS
  M = 32
  BugFromZeroEmpty = FALSE
INVARIANTS Agree ShiftOK Sane
CHECK_DEADLOCK FALSE
