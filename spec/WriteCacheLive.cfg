SPECIFICATION LSpec
CONSTANTS
  Addrs = {1, 2, 3}
  Threshold = 1
  MaxCount = 2
  MaxBSize = 100
  MaxCache = 5
  NW = 1
  Procs = {1}
  Ops = {"put", "del"}
  Modes = {"rw"}
  Shard = FALSE
  Markers = FALSE
  MaxFail = 1
  MaxCalls = 3
  BugH3 = FALSE
  BugAlias = FALSE
  BugErrLeak = FALSE
  BugSplit = FALSE
  LiveK = 2
INVARIANTS LiveBound
CHECK_DEADLOCK FALSE
