SPECIFICATION GenSpec
CONSTANTS
  MaxLayers = 3
  MaxSteps = 3
  GenLen = 3
INVARIANTS Emit
CHECK_DEADLOCK FALSE
