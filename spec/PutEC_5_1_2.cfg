SPECIFICATION Spec
CONSTANTS
  N = 5
  D = 1
  P = 2
INVARIANTS SuccessIffEnoughNodes DistinctAcceptingNodes PlacedOnAccepting OneTryPerNode
CHECK_DEADLOCK FALSE
