SPECIFICATION Spec
CONSTANTS
  MaxParts = 40
  MaxNodes = 160
INVARIANTS Permutation OwnStart DistinctStarts
CHECK_DEADLOCK FALSE
