---------------------------- MODULE TraceControl ----------------------------
(* C->M trace validation for Control: the events recorded around the real control servers. *)
EXTENDS Control, Json
Trace == ndJsonDeserialize("trace.ndjson")
VARIABLE l
TraceInit == Init /\ l = 1
TraceNext == /\ l <= Len(Trace)
             /\ Step(Trace[l])
             /\ l' = l + 1
TraceSpec == TraceInit /\ [][TraceNext]_<<vars, l>>
TraceNotStuck == l <= Len(Trace) => ENABLED TraceNext
=============================================================================
