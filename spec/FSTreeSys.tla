------------------------------ MODULE FSTreeSys ------------------------------
(* C12 / C13 - pkg/local_object_storage/blobstor/fstree: the writers at system-call level.

   FS layer   dir (name -> inode), ino (inode -> chunks written so far), fdt (fd -> inode); one action per
              system call.  Anonymous O_TMPFILE inodes have no name; a crash closes every descriptor,
              named files keep the bytes handed to the kernel so far (process-crash model).
   Writers    code-shaped: one action per system call or lock operation of
                linuxWriter.writeFile            (putf)   open(O_TMPFILE) write linkat close
                linuxWriter.writeBatch           (batch)  open, {writev linkat}*, intSync
                linuxWriter.writeCombinedFile    (putc)   batchLock, w.batch / newSyncBatch, sb.lock, sb.write,
                                                          rotation condition, intSync, wait(); timer sb.sync
                genericWriter.writeData          (putg)   open(O_EXCL) "p#i", write, close, rename
                FSTree.Delete                    (del)    stat, unlink
   Faults     every system call may fail while the budget `faults` lasts (C13); Crash at any point (C12).
   Deviation switches (TRUE = the code as found):
     BugPrecedence  writeCombinedFile rotates on  `err == nil && cnt >= limit || size >= limit`; when linkat
                    fails on the write that crosses the size limit sb.write has already run intSync and the
                    condition runs it again: close(fd) twice, close(ready) twice => panic.
     BugLockLeak    newSyncBatch failing (open) returns with batchLock held: every later combined write blocks.
   Properties next to the model: CrashSafe (no partial / foreign bytes under any object name, acked => readable,
   at EVERY state = at every crash point), NoPanic, NoDoubleClose, Unaffected (an error is reported only to
   operations that saw a failed call themselves or in their batch), deadlock freedom (TLC).               *)
EXTENDS FSTreeFS

CONSTANTS Size,            \* Size[a]: bytes a combined member adds to its batch file (abstract units)
          ProgChoices,     \* set of tuples: one program (sequence of ops [k, as]) per writer thread
          CountLimit, SizeLimit, NoSync,
          MaxFaults,       \* system calls that may fail in one behaviour
          FaultCalls,      \* classes that may fail: subset of {"open","write","short","link","sync","close","rename","unlink"}
          CrashOn,         \* BOOLEAN: process crash enabled
          RetryOn,         \* BOOLEAN: after a crash the process restarts (no clean-up) and every Put is retried
          BugPrecedence, BugLockLeak

VARIABLES dir, ino, fdt,                 \* file system
          progs, pc, opi, myfd, mybat, werr, cerr, after, idx, hit,     \* executors (writers and timers)
          batchLock, wbatch, bat,        \* linuxWriter / syncBatch
          res, acked, faults, panic, dblClose, crashed, restarted
fsvars == <<dir, ino, fdt>>
pvars == <<progs, pc, opi, myfd, mybat, werr, cerr, after, idx, hit>>
wvars == <<batchLock, wbatch, bat>>
mvars == <<res, acked, faults, panic, dblClose, crashed, restarted>>
vars == <<fsvars, pvars, wvars, mvars>>

-----------------------------------------------------------------------------
(* Executors: writers 1..NW, one timer per batch (NW + b). *)
NW == Len(CHOOSE p \in ProgChoices : TRUE)
Writers == 1..NW
MaxBat == 10
Timers == (NW + 1)..(NW + MaxBat)
Execs == Writers \cup Timers
Bat0 == [lock |-> 0, fd |-> 0, cnt |-> 0, size |-> 0, ready |-> "nil", err |-> FALSE, faulted |-> FALSE]

Init == /\ dir = [nm \in Names |-> 0] /\ ino = <<>> /\ fdt = <<>>
        /\ progs \in ProgChoices
        /\ pc = [x \in Execs |-> IF x \in Writers THEN "next" ELSE "off"]
        /\ opi = [x \in Writers |-> 0]
        /\ myfd = [x \in Execs |-> 0] /\ mybat = [x \in Execs |-> 0]
        /\ werr = [x \in Execs |-> FALSE] /\ cerr = [x \in Execs |-> FALSE]
        /\ after = [x \in Execs |-> ""] /\ idx = [x \in Execs |-> 0] /\ hit = [x \in Execs |-> FALSE]
        /\ batchLock = 0 /\ wbatch = 0 /\ bat = <<>>
        /\ res = <<>> /\ acked = {} /\ faults = MaxFaults /\ panic = FALSE /\ dblClose = FALSE /\ crashed = "no" /\ restarted = FALSE

Alive == crashed = "no" /\ ~panic
Op(t) == progs[t][opi[t]]
A1(t) == Op(t).as[1]
CanFail(class) == faults > 0 /\ class \in FaultCalls
Fault == faults' = faults - 1

\* record the result of the current operation of writer t and move on
Finish(t, r) ==
  /\ res' = Append(res, [t |-> t, k |-> Op(t).k, as |-> Op(t).as, r |-> r,
                         blamed |-> hit[t] \/ (mybat[t] # 0 /\ bat[mybat[t]].faulted)])
  /\ acked' = IF r = "ok" /\ Op(t).k # "del" THEN acked \cup {Op(t).as[i] : i \in 1..Len(Op(t).as)} ELSE acked
  /\ pc' = [pc EXCEPT ![t] = "next"]

\* "next": fetch the next operation
Fetch(t) ==
  /\ pc[t] = "next"
  /\ IF opi[t] = Len(progs[t])
       THEN pc' = [pc EXCEPT ![t] = "done"] /\ UNCHANGED <<opi, acked>>
       ELSE /\ opi' = [opi EXCEPT ![t] = @ + 1]
            /\ LET o == progs[t][opi[t] + 1] IN
               /\ pc' = [pc EXCEPT ![t] = CASE o.k = "putc" -> "c1" [] o.k = "putf" -> "f1" [] o.k = "batch" -> "b1"
                                            [] o.k = "putg" -> "g1" [] o.k = "del" -> "d1"]
               /\ acked' = IF o.k = "del" THEN acked \ {o.as[1]} ELSE acked     \* a delete in progress voids the ack
  /\ mybat' = [mybat EXCEPT ![t] = 0] /\ werr' = [werr EXCEPT ![t] = FALSE] /\ cerr' = [cerr EXCEPT ![t] = FALSE]
  /\ hit' = [hit EXCEPT ![t] = FALSE] /\ idx' = [idx EXCEPT ![t] = 0]
  /\ UNCHANGED <<fsvars, wvars, progs, myfd, after, res, faults, panic, dblClose, crashed, restarted>>

-----------------------------------------------------------------------------
(* syncBatch.intSync, run by executor x on batch b = mybat[x]; continues at after[x] *)
IntSync1(x) ==      \* fdatasync
  /\ pc[x] = "is1"
  /\ LET b == mybat[x] IN
     IF bat[b].err \/ NoSync
       THEN UNCHANGED <<bat, faults, hit>>
       ELSE \/ UNCHANGED <<bat, faults, hit>>
            \/ /\ CanFail("sync") /\ Fault
               /\ bat' = [bat EXCEPT ![b].err = TRUE, ![b].faulted = TRUE]
               /\ hit' = [hit EXCEPT ![x] = TRUE]
  /\ pc' = [pc EXCEPT ![x] = "is2"]
  /\ UNCHANGED <<fsvars, progs, opi, myfd, mybat, werr, cerr, after, idx, batchLock, wbatch, res, acked, panic, dblClose, crashed, restarted>>

IntSync2(x) ==      \* close(fd); close(ready); timer.Stop()
  /\ pc[x] = "is2"
  /\ LET b == mybat[x]
         twice == fdt[bat[b].fd] = 0
     IN /\ fdt' = CloseFS(fdt, bat[b].fd)
        /\ dblClose' = (dblClose \/ twice)
        /\ \/ /\ UNCHANGED <<faults, hit>>
              /\ bat' = [bat EXCEPT ![b].err = @ \/ twice,                     \* EBADF on the second close
                                    ![b].ready = IF @ = "nil" THEN "nil" ELSE "closed"]
           \/ /\ CanFail("close") /\ Fault /\ ~twice
              /\ hit' = [hit EXCEPT ![x] = TRUE]
              /\ bat' = [bat EXCEPT ![b].err = TRUE, ![b].faulted = TRUE,
                                    ![b].ready = IF @ = "nil" THEN "nil" ELSE "closed"]
        /\ panic' = (panic \/ bat[b].ready = "closed")                         \* close of closed channel
        /\ pc' = [pc EXCEPT ![x] = after[x],
                            ![NW + b] = IF NW + b # x /\ @ = "armed" THEN "off" ELSE @]     \* timer.Stop()
  /\ UNCHANGED <<dir, ino, progs, opi, myfd, mybat, werr, cerr, after, idx, batchLock, wbatch, res, acked, crashed, restarted>>

(* timer: syncBatch.sync *)
TimerFire(x) == /\ pc[x] = "armed" /\ pc' = [pc EXCEPT ![x] = "tl"]
                /\ UNCHANGED <<fsvars, progs, opi, myfd, mybat, werr, cerr, after, idx, hit, wvars, mvars>>
TimerLock(x) ==
  /\ pc[x] = "tl"
  /\ LET b == x - NW IN
     /\ bat[b].lock = 0
     /\ IF bat[b].ready = "closed"
          THEN pc' = [pc EXCEPT ![x] = "off"] /\ UNCHANGED <<bat, after, mybat>>
          ELSE /\ bat' = [bat EXCEPT ![b].lock = x]
               /\ mybat' = [mybat EXCEPT ![x] = b]
               /\ after' = [after EXCEPT ![x] = "tu"]
               /\ pc' = [pc EXCEPT ![x] = "is1"]
  /\ UNCHANGED <<fsvars, progs, opi, myfd, werr, cerr, idx, hit, batchLock, wbatch, mvars>>
TimerUnlock(x) ==
  /\ pc[x] = "tu"
  /\ bat' = [bat EXCEPT ![x - NW].lock = 0]
  /\ pc' = [pc EXCEPT ![x] = "off"]
  /\ UNCHANGED <<fsvars, progs, opi, myfd, mybat, werr, cerr, after, idx, hit, batchLock, wbatch, mvars>>

-----------------------------------------------------------------------------
(* linuxWriter.writeCombinedFile *)
C1(t) == /\ pc[t] = "c1" /\ batchLock = 0
         /\ batchLock' = t
         /\ pc' = [pc EXCEPT ![t] = "c2"]
         /\ UNCHANGED <<fsvars, progs, opi, myfd, mybat, werr, cerr, after, idx, hit, wbatch, bat, mvars>>

C2(t) ==  \* w.batch == nil ? newSyncBatch : lock the batch, re-create it when it is already synced
  /\ pc[t] = "c2"
  /\ IF wbatch = 0
       THEN pc' = [pc EXCEPT ![t] = "cnew"] /\ UNCHANGED <<bat, mybat>>
       ELSE /\ bat[wbatch].lock = 0
            /\ IF bat[wbatch].ready = "closed"
                 THEN pc' = [pc EXCEPT ![t] = "cnew"] /\ UNCHANGED <<bat, mybat>>
                 ELSE /\ bat' = [bat EXCEPT ![wbatch].lock = t]
                      /\ mybat' = [mybat EXCEPT ![t] = wbatch]
                      /\ pc' = [pc EXCEPT ![t] = "cw"]
  /\ UNCHANGED <<fsvars, progs, opi, myfd, werr, cerr, after, idx, hit, batchLock, wbatch, mvars>>

CNew(t) ==  \* newSyncBatch: open(O_TMPFILE), lock, arm the timer
  /\ pc[t] = "cnew"
  /\ \/ /\ Len(bat) < MaxBat
        /\ LET o == OpenTmpFS(dir, ino, fdt) IN
           /\ ino' = o[2] /\ fdt' = o[3]
           /\ bat' = Append(bat, [Bat0 EXCEPT !.lock = t, !.fd = Len(fdt) + 1, !.ready = "open"])
        /\ wbatch' = Len(bat) + 1
        /\ mybat' = [mybat EXCEPT ![t] = Len(bat) + 1]
        /\ pc' = [pc EXCEPT ![t] = "cw", ![NW + Len(bat) + 1] = "armed"]
        /\ UNCHANGED <<dir, batchLock, res, acked, faults, hit>>
     \/ /\ CanFail("open") /\ Fault
        /\ wbatch' = 0
        /\ batchLock' = IF BugLockLeak THEN batchLock ELSE 0
        /\ hit' = [hit EXCEPT ![t] = TRUE]
        /\ res' = Append(res, [t |-> t, k |-> Op(t).k, as |-> Op(t).as, r |-> "err", blamed |-> TRUE])
        /\ pc' = [pc EXCEPT ![t] = "next"]
        /\ UNCHANGED <<fsvars, bat, mybat, acked>>
  /\ UNCHANGED <<progs, opi, myfd, werr, cerr, after, idx, panic, dblClose, crashed, restarted>>

\* sb.write: writev(prefix, data) then linkat; shared by writeCombinedFile (okpc/failpc) and writeBatch
Writev(x, a, okpc, failpc) ==
  LET b == mybat[x] IN
  \/ /\ ino' = WriteFS(ino, fdt, bat[b].fd, Chunk("mem", a, TRUE))
     /\ bat' = [bat EXCEPT ![b].cnt = @ + 1, ![b].size = @ + Size[a]]
     /\ pc' = [pc EXCEPT ![x] = okpc]
     /\ UNCHANGED <<faults, hit, werr, after>>
  \/ /\ CanFail("write") /\ Fault
     /\ bat' = [bat EXCEPT ![b].err = TRUE, ![b].faulted = TRUE]
     /\ hit' = [hit EXCEPT ![x] = TRUE] /\ werr' = [werr EXCEPT ![x] = TRUE]
     /\ after' = [after EXCEPT ![x] = failpc]
     /\ pc' = [pc EXCEPT ![x] = "is1"]
     /\ UNCHANGED ino
  \/ /\ CanFail("short") /\ Fault                       \* short writev: a torn record stays in the file, "incomplete write"
     /\ ino' = WriteFS(ino, fdt, bat[b].fd, Chunk("mem", a, FALSE))
     /\ bat' = [bat EXCEPT ![b].err = TRUE, ![b].faulted = TRUE]
     /\ hit' = [hit EXCEPT ![x] = TRUE] /\ werr' = [werr EXCEPT ![x] = TRUE]
     /\ after' = [after EXCEPT ![x] = failpc]
     /\ pc' = [pc EXCEPT ![x] = "is1"]
Linkat(x, a, okpc, failpc) ==
  LET b == mybat[x] IN
  \/ /\ dir' = IF dir[Obj(a)] # 0 THEN dir ELSE LinkFS(dir, fdt, bat[b].fd, Obj(a))     \* EEXIST is success
     /\ pc' = [pc EXCEPT ![x] = okpc]
     /\ UNCHANGED <<faults, hit, werr, after, bat>>
  \/ /\ CanFail("link") /\ Fault
     /\ bat' = [bat EXCEPT ![b].err = TRUE, ![b].faulted = TRUE]
     /\ hit' = [hit EXCEPT ![x] = TRUE] /\ werr' = [werr EXCEPT ![x] = TRUE]
     /\ after' = [after EXCEPT ![x] = failpc]
     /\ pc' = [pc EXCEPT ![x] = "is1"]
     /\ UNCHANGED dir

CW(t) == /\ pc[t] = "cw" /\ Writev(t, A1(t), "cl", "ca")
         /\ UNCHANGED <<dir, fdt, progs, opi, myfd, mybat, cerr, idx, batchLock, wbatch, res, acked, panic, dblClose, crashed, restarted>>
CL(t) == /\ pc[t] = "cl" /\ Linkat(t, A1(t), "ca", "ca")
         /\ UNCHANGED <<ino, fdt, progs, opi, myfd, mybat, cerr, idx, batchLock, wbatch, res, acked, panic, dblClose, crashed, restarted>>

CA(t) ==  \* the rotation condition
  /\ pc[t] = "ca"
  /\ LET b == mybat[t]
         full == bat[b].cnt >= CountLimit
         big == bat[b].size >= SizeLimit
         rotate == IF BugPrecedence THEN (~werr[t] /\ full) \/ big ELSE ~werr[t] /\ (full \/ big)
     IN IF rotate THEN /\ after' = [after EXCEPT ![t] = "cu"] /\ pc' = [pc EXCEPT ![t] = "is1"]
                  ELSE /\ pc' = [pc EXCEPT ![t] = "cu"] /\ UNCHANGED after
  /\ UNCHANGED <<fsvars, progs, opi, myfd, mybat, werr, cerr, idx, hit, wvars, mvars>>

CU(t) ==  \* sb.lock.Unlock(); w.batchLock.Unlock(); return err or wait
  /\ pc[t] = "cu"
  /\ bat' = [bat EXCEPT ![mybat[t]].lock = 0]
  /\ batchLock' = 0
  /\ IF werr[t] THEN Finish(t, "err") ELSE pc' = [pc EXCEPT ![t] = "cwait"] /\ UNCHANGED <<res, acked>>
  /\ UNCHANGED <<fsvars, progs, opi, myfd, mybat, werr, cerr, after, idx, hit, wbatch, faults, panic, dblClose, crashed, restarted>>

CWait(t) ==
  /\ pc[t] = "cwait" /\ bat[mybat[t]].ready = "closed"
  /\ Finish(t, IF bat[mybat[t]].err THEN "err" ELSE "ok")
  /\ UNCHANGED <<fsvars, progs, opi, myfd, mybat, werr, cerr, after, idx, hit, wvars, faults, panic, dblClose, crashed, restarted>>

-----------------------------------------------------------------------------
(* linuxWriter.writeBatch *)
B1(t) ==
  /\ pc[t] = "b1"
  /\ \/ /\ Len(bat) < MaxBat
        /\ LET o == OpenTmpFS(dir, ino, fdt) IN ino' = o[2] /\ fdt' = o[3]
        /\ bat' = Append(bat, [Bat0 EXCEPT !.fd = Len(fdt) + 1])
        /\ mybat' = [mybat EXCEPT ![t] = Len(bat) + 1]
        /\ idx' = [idx EXCEPT ![t] = 1]
        /\ pc' = [pc EXCEPT ![t] = "b2"]
        /\ UNCHANGED <<res, acked, faults, hit>>
     \/ /\ CanFail("open") /\ Fault
        /\ hit' = [hit EXCEPT ![t] = TRUE]
        /\ res' = Append(res, [t |-> t, k |-> Op(t).k, as |-> Op(t).as, r |-> "err", blamed |-> TRUE])
        /\ pc' = [pc EXCEPT ![t] = "next"]
        /\ UNCHANGED <<ino, fdt, bat, mybat, idx, acked>>
  /\ UNCHANGED <<dir, progs, opi, myfd, werr, cerr, after, batchLock, wbatch, panic, dblClose, crashed, restarted>>
B2(t) == /\ pc[t] = "b2" /\ Writev(t, Op(t).as[idx[t]], "b3", "bfail")
         /\ UNCHANGED <<dir, fdt, progs, opi, myfd, mybat, cerr, idx, batchLock, wbatch, res, acked, panic, dblClose, crashed, restarted>>
B3(t) == /\ pc[t] = "b3" /\ Linkat(t, Op(t).as[idx[t]], "b4", "bfail")
         /\ UNCHANGED <<ino, fdt, progs, opi, myfd, mybat, cerr, idx, batchLock, wbatch, res, acked, panic, dblClose, crashed, restarted>>
B4(t) == /\ pc[t] = "b4"
         /\ IF idx[t] = Len(Op(t).as)
              THEN /\ after' = [after EXCEPT ![t] = "bend"] /\ pc' = [pc EXCEPT ![t] = "is1"] /\ UNCHANGED idx
              ELSE /\ idx' = [idx EXCEPT ![t] = @ + 1] /\ pc' = [pc EXCEPT ![t] = "b2"] /\ UNCHANGED after
         /\ UNCHANGED <<fsvars, progs, opi, myfd, mybat, werr, cerr, hit, wvars, mvars>>
BEnd(t) == /\ pc[t] \in {"bend", "bfail"}
           /\ Finish(t, IF pc[t] = "bfail" \/ bat[mybat[t]].err THEN "err" ELSE "ok")
           /\ UNCHANGED <<fsvars, progs, opi, myfd, mybat, werr, cerr, after, idx, hit, wvars, faults, panic, dblClose, crashed, restarted>>

-----------------------------------------------------------------------------
(* linuxWriter.writeFile *)
F1(t) ==
  /\ pc[t] = "f1"
  /\ \/ /\ LET o == OpenTmpFS(dir, ino, fdt) IN ino' = o[2] /\ fdt' = o[3]
        /\ myfd' = [myfd EXCEPT ![t] = Len(fdt) + 1]
        /\ pc' = [pc EXCEPT ![t] = "f2"]
        /\ UNCHANGED <<res, acked, faults, hit>>
     \/ /\ CanFail("open") /\ Fault
        /\ hit' = [hit EXCEPT ![t] = TRUE]
        /\ res' = Append(res, [t |-> t, k |-> Op(t).k, as |-> Op(t).as, r |-> "err", blamed |-> TRUE])
        /\ pc' = [pc EXCEPT ![t] = "next"]
        /\ UNCHANGED <<ino, fdt, myfd, acked>>
  /\ UNCHANGED <<dir, progs, opi, mybat, werr, cerr, after, idx, wvars, panic, dblClose, crashed, restarted>>
F2(t) ==
  /\ pc[t] = "f2"
  /\ \/ /\ ino' = WriteFS(ino, fdt, myfd[t], Chunk("raw", A1(t), TRUE))
        /\ pc' = [pc EXCEPT ![t] = "f3"]
        /\ UNCHANGED <<faults, hit, werr>>
     \/ /\ CanFail("write") /\ Fault
        /\ hit' = [hit EXCEPT ![t] = TRUE] /\ werr' = [werr EXCEPT ![t] = TRUE]
        /\ pc' = [pc EXCEPT ![t] = "f4"]
        /\ UNCHANGED ino
     \/ /\ CanFail("short") /\ Fault                    \* "incomplete unix write": never linked
        /\ ino' = WriteFS(ino, fdt, myfd[t], Chunk("raw", A1(t), FALSE))
        /\ hit' = [hit EXCEPT ![t] = TRUE] /\ werr' = [werr EXCEPT ![t] = TRUE]
        /\ pc' = [pc EXCEPT ![t] = "f4"]
  /\ UNCHANGED <<dir, fdt, progs, opi, myfd, mybat, cerr, after, idx, wvars, res, acked, panic, dblClose, crashed, restarted>>
F3(t) ==
  /\ pc[t] = "f3"
  /\ \/ /\ dir' = IF dir[Obj(A1(t))] # 0 THEN dir ELSE LinkFS(dir, fdt, myfd[t], Obj(A1(t)))
        /\ UNCHANGED <<faults, hit, werr>>
     \/ /\ CanFail("link") /\ Fault
        /\ hit' = [hit EXCEPT ![t] = TRUE] /\ werr' = [werr EXCEPT ![t] = TRUE]
        /\ UNCHANGED dir
  /\ pc' = [pc EXCEPT ![t] = "f4"]
  /\ UNCHANGED <<ino, fdt, progs, opi, myfd, mybat, cerr, after, idx, wvars, res, acked, panic, dblClose, crashed, restarted>>
F4(t) ==
  /\ pc[t] = "f4"
  /\ fdt' = CloseFS(fdt, myfd[t])
  /\ \/ /\ UNCHANGED <<faults, hit>> /\ Finish(t, IF werr[t] THEN "err" ELSE "ok")
     \/ /\ CanFail("close") /\ Fault /\ hit' = [hit EXCEPT ![t] = TRUE]
        /\ res' = Append(res, [t |-> t, k |-> Op(t).k, as |-> Op(t).as, r |-> "err", blamed |-> TRUE])
        /\ pc' = [pc EXCEPT ![t] = "next"] /\ UNCHANGED acked
  /\ UNCHANGED <<dir, ino, progs, opi, myfd, mybat, werr, cerr, after, idx, wvars, panic, dblClose, crashed, restarted>>

-----------------------------------------------------------------------------
(* genericWriter.writeData: "p#i" exclusive, write, close, rename *)
GFail(t, keepTmp) ==      \* error return; ENOSPC removes the temporary file, other errors leave it behind
  /\ hit' = [hit EXCEPT ![t] = TRUE]
  /\ res' = Append(res, [t |-> t, k |-> Op(t).k, as |-> Op(t).as, r |-> "err", blamed |-> TRUE])
  /\ pc' = [pc EXCEPT ![t] = "next"]
  /\ dir' = IF keepTmp THEN dir ELSE UnlinkFS(dir, Tmp(A1(t), idx[t]))
G1(t) ==
  /\ pc[t] = "g1"
  /\ LET nm == Tmp(A1(t), idx[t]) IN
     \/ /\ dir[nm] # 0                                           \* EEXIST: next temporary name, give up after 5
        /\ IF idx[t] = MaxTmp
             THEN /\ res' = Append(res, [t |-> t, k |-> Op(t).k, as |-> Op(t).as, r |-> "err", blamed |-> hit[t]])
                  /\ pc' = [pc EXCEPT ![t] = "next"] /\ UNCHANGED idx
             ELSE idx' = [idx EXCEPT ![t] = @ + 1] /\ UNCHANGED <<res, pc>>
        /\ UNCHANGED <<fsvars, myfd, faults, hit>>
     \/ /\ dir[nm] = 0
        /\ LET o == OpenExclFS(dir, ino, fdt, nm) IN dir' = o[1] /\ ino' = o[2] /\ fdt' = o[3]
        /\ myfd' = [myfd EXCEPT ![t] = Len(fdt) + 1]
        /\ pc' = [pc EXCEPT ![t] = "g2"]
        /\ UNCHANGED <<idx, res, faults, hit>>
     \/ /\ dir[nm] = 0 /\ CanFail("open") /\ Fault /\ GFail(t, TRUE)
        /\ UNCHANGED <<ino, fdt, myfd, idx>>
  /\ UNCHANGED <<progs, opi, mybat, werr, cerr, after, wvars, acked, panic, dblClose, crashed, restarted>>
G2(t) ==
  /\ pc[t] = "g2"
  /\ \/ /\ ino' = WriteFS(ino, fdt, myfd[t], Chunk("raw", A1(t), TRUE))
        /\ pc' = [pc EXCEPT ![t] = "g3"]
        /\ UNCHANGED <<dir, fdt, res, faults, hit>>
     \/ /\ CanFail("write") /\ Fault
        /\ fdt' = CloseFS(fdt, myfd[t])
        /\ \E keep \in BOOLEAN : GFail(t, keep)
        /\ UNCHANGED ino
     \/ /\ CanFail("short") /\ Fault                    \* io.ErrShortWrite: the torn temporary file stays behind
        /\ ino' = WriteFS(ino, fdt, myfd[t], Chunk("raw", A1(t), FALSE))
        /\ fdt' = CloseFS(fdt, myfd[t])
        /\ \E keep \in BOOLEAN : GFail(t, keep)
  /\ UNCHANGED <<progs, opi, myfd, mybat, werr, cerr, after, idx, wvars, acked, panic, dblClose, crashed, restarted>>
G3(t) ==
  /\ pc[t] = "g3"
  /\ fdt' = CloseFS(fdt, myfd[t])
  /\ \/ pc' = [pc EXCEPT ![t] = "g4"] /\ UNCHANGED <<dir, res, faults, hit>>
     \/ CanFail("close") /\ Fault /\ GFail(t, TRUE)
  /\ UNCHANGED <<ino, progs, opi, myfd, mybat, werr, cerr, after, idx, wvars, acked, panic, dblClose, crashed, restarted>>
G4(t) ==
  /\ pc[t] = "g4"
  /\ \/ /\ dir' = RenameFS(dir, Tmp(A1(t), idx[t]), Obj(A1(t)))
        /\ Finish(t, "ok") /\ UNCHANGED <<faults, hit>>
     \/ /\ CanFail("rename") /\ Fault /\ GFail(t, TRUE) /\ UNCHANGED acked
  /\ UNCHANGED <<ino, fdt, progs, opi, myfd, mybat, werr, cerr, after, idx, wvars, panic, dblClose, crashed, restarted>>

-----------------------------------------------------------------------------
(* FSTree.Delete: stat, unlink *)
D1(t) ==
  /\ pc[t] = "d1"
  /\ IF dir[Obj(A1(t))] = 0 THEN Finish(t, "nf") ELSE pc' = [pc EXCEPT ![t] = "d2"] /\ UNCHANGED <<res, acked>>
  /\ UNCHANGED <<fsvars, progs, opi, myfd, mybat, werr, cerr, after, idx, hit, wvars, faults, panic, dblClose, crashed, restarted>>
D2(t) ==
  /\ pc[t] = "d2"
  /\ \/ /\ dir' = UnlinkFS(dir, Obj(A1(t)))
        /\ Finish(t, IF dir[Obj(A1(t))] = 0 THEN "nf" ELSE "ok") /\ UNCHANGED <<faults, hit>>
     \/ /\ CanFail("unlink") /\ Fault /\ hit' = [hit EXCEPT ![t] = TRUE]
        /\ res' = Append(res, [t |-> t, k |-> Op(t).k, as |-> Op(t).as, r |-> "err", blamed |-> TRUE])
        /\ pc' = [pc EXCEPT ![t] = "next"] /\ UNCHANGED <<dir, acked>>
  /\ UNCHANGED <<ino, fdt, progs, opi, myfd, mybat, werr, cerr, after, idx, wvars, panic, dblClose, crashed, restarted>>

-----------------------------------------------------------------------------
Crash == /\ CrashOn /\ crashed = "no" /\ ~restarted
         /\ crashed' = "crashed"
         /\ fdt' = [i \in DOMAIN fdt |-> 0]
         /\ UNCHANGED <<dir, ino, pvars, wvars, res, acked, faults, panic, dblClose, restarted>>
Reopen == /\ crashed = "crashed" \/ (panic /\ crashed = "no")          \* restart (+ CleanUpTmp)
          /\ crashed' = "reopened"
          /\ dir' = CleanTmpFS(dir)
          /\ fdt' = [i \in DOMAIN fdt |-> 0]
          /\ UNCHANGED <<ino, pvars, wvars, res, acked, faults, panic, dblClose, restarted>>

(* Restart after a crash WITHOUT clean-up (CleanUpTmp is a maintenance tool, the node does not run it): every
   Put of the interrupted run is retried by the same writers (client retry / replication). *)
PutsOf(p) == SelectSeq(p, LAMBDA o : o.k # "del")
Restart ==
  /\ RetryOn /\ crashed = "crashed" /\ ~restarted
  /\ restarted' = TRUE /\ crashed' = "no"
  /\ progs' = [t \in Writers |-> PutsOf(progs[t])]
  /\ pc' = [x \in Execs |-> IF x \in Writers THEN "next" ELSE "off"]
  /\ opi' = [x \in Writers |-> 0]
  /\ myfd' = [x \in Execs |-> 0] /\ mybat' = [x \in Execs |-> 0]
  /\ werr' = [x \in Execs |-> FALSE] /\ cerr' = [x \in Execs |-> FALSE]
  /\ after' = [x \in Execs |-> ""] /\ idx' = [x \in Execs |-> 0] /\ hit' = [x \in Execs |-> FALSE]
  /\ batchLock' = 0 /\ wbatch' = 0 /\ bat' = [b \in DOMAIN bat |-> [bat[b] EXCEPT !.lock = 0, !.ready = "closed"]]
  /\ UNCHANGED <<fsvars, res, acked, faults, panic, dblClose>>

WriterStep(t) == \/ Fetch(t) \/ C1(t) \/ C2(t) \/ CNew(t) \/ CW(t) \/ CL(t) \/ CA(t) \/ CU(t) \/ CWait(t)
                 \/ B1(t) \/ B2(t) \/ B3(t) \/ B4(t) \/ BEnd(t) \/ F1(t) \/ F2(t) \/ F3(t) \/ F4(t)
                 \/ G1(t) \/ G2(t) \/ G3(t) \/ G4(t) \/ D1(t) \/ D2(t)
TimerStep(x) == TimerFire(x) \/ TimerLock(x) \/ TimerUnlock(x)
AllDone == \A t \in Writers : pc[t] = "done"
Next == \/ /\ Alive
           /\ \/ \E t \in Writers : WriterStep(t)
              \/ \E x \in Timers : TimerStep(x)
              \/ \E x \in Execs : IntSync1(x) \/ IntSync2(x)
        \/ Crash \/ Reopen \/ Restart
        \/ (AllDone \/ crashed = "reopened") /\ UNCHANGED vars        \* termination is not a deadlock
Spec == Init /\ [][Next]_vars

-----------------------------------------------------------------------------
(* C12: at every state - i.e. whatever the crash point - the named files expose for every address either
   nothing or exactly its bytes, and everything acknowledged is there. *)
CrashSafe == \A a \in Addrs : LET r == ReadName(dir, ino, a) IN r \in {0, 1} /\ (a \in acked => r = 1)
\* leftover temporary names are not object names (they do not parse as addresses) and are gone after the clean-up
TmpHidden == crashed = "reopened" => \A nm \in Names : nm.k = "tmp" => dir[nm] = 0
(* C13 *)
NoPanic == ~panic
NoDoubleClose == ~dblClose
Unaffected == \A i \in 1..Len(res) : res[i].r = "err" => res[i].blamed
AffectedFail == \A i \in 1..Len(res) : res[i].blamed => res[i].r # "ok"
TypeOK == /\ faults \in 0..MaxFaults /\ batchLock \in {0} \cup Writers /\ wbatch \in 0..MaxBat
=============================================================================
