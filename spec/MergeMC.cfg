SPECIFICATION MCSpec
CONSTANTS
  KB = 256
  KN = 32
  MaxDigits <- MaxDigitsMC
  BugPlusAfterSign = FALSE
  BugMergeNoRange = FALSE
  BugPrimMulti = FALSE
  BugSplitIDAbsent = FALSE
  BugB58Prefix = FALSE
  BugCursorChecksum = FALSE
  BugAssocMerge = FALSE
  BugAssocAbsent = FALSE
  NObj = 2
  SmallVals = FALSE
  NMax = 2
INVARIANTS MergedIsUnion OneShardIsShard
CHECK_DEADLOCK FALSE
