\* C08 thorough, code as is: epochs (lock expiry), read-only flips, 1 lock, 2 tombstones
SPECIFICATION Spec
CONSTANTS
  NS = 2
  MaxEpoch = 2
  BugH6 = TRUE
  CatSet = "c08x"
  Ops = {"Put", "Bcast", "GC", "Epoch", "SetMode"}
  Modes = {"rw", "ro"}
  HealthyLock = FALSE
  MaxInFlight = 2
  Scenario = "none"
INVARIANTS TypeOK C08Classified
VIEW ViewNoRes
CHECK_DEADLOCK FALSE
