\* C08 thorough, code as is: degraded mode, put faults, expiring object, two tombstones
SPECIFICATION Spec
CONSTANTS
  NS = 2
  MaxEpoch = 3
  BugH6 = TRUE
  CatSet = "c08x"
  Ops = {"Put", "Bcast", "GC", "Epoch", "SetMode", "FailPut"}
  Modes = {"rw", "ro", "dro"}
  HealthyLock = FALSE
  MaxInFlight = 2
  Scenario = "none"
INVARIANTS TypeOK C08Classified
VIEW ViewNoRes
CHECK_DEADLOCK FALSE
