---------------------------- MODULE ReplicateGen ----------------------------
(* History generator for C31 (M->C): Replicate + the list of events taken. Used in two ways:
   - exhaustively (BFS, hist is part of the state): EVERY history of length GenLen over a reduced alphabet
     (one sender, valid requests only, local node always in the container after the first tick);
   - tlc -simulate over the rich alphabet (2 senders, damaged requests, local node leaving the container). *)
EXTENDS Replicate, Json
CONSTANTS GenLen, GenServer     \* GenServer: values the local node's membership may take in a new epoch
VARIABLE hist
GenInit == Init /\ hist = <<>>
GenNext == /\ Len(hist) < GenLen
           /\ \/ \E e \in TickEvents : e.s \in GenServer /\ DoTick(e) /\ hist' = Append(hist, e)
              \/ \E e \in ReqEvents : DoReq(e, ImplOut(e)) /\ hist' = Append(hist, e)
GenSpec == GenInit /\ [][GenNext]_<<vars, hist>>
Emit == Len(hist) = GenLen => PrintT(<<"BEH", ToJson([steps |-> hist])>>)
=============================================================================
