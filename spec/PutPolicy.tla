------------------------------ MODULE PutPolicy ------------------------------
(* C25 - pkg/services/object/put/distributed.go (saveObject, handleREPRule, iterateNodesForObject) and
   ec.go (applyECRule): which nodes a PUT contacts, what it counts and what it finally reports.

   Scenario s (node Local serves the request):
     typ      "REG" | "TOMB" | "LOCK"      (TOMB/LOCK are broadcast)
     trusted  TRUE: the node forms the object itself (slicing, EC encoding; sessionSigner # nil)
              FALSE: object signed by the client (EC rules are not applied by this node)
     rep      sequence of [nodes, n]         REP rules: sorted node list, number of copies
     ec       sequence of [nodes, d, p]      EC rules
     init     [on, limits, max, prefer]      initial placement policy (limits: <<>> or one per rule)
     ok       [Nodes -> {"y", "n"}]          the node accepts / refuses whatever is sent to it
   Rule indexes are 1-based here (code: 0-based); lists = REP lists followed by EC lists.

   Code-shaped state of one saveObject call (record p): res (nodeResults: "none" | "ok" | "fail"),
   stored / processed (nodesCounters per list), left (leftReplicas), main (nodes that acknowledged the object),
   applied (EC rules whose parts were all placed), ecAt (list actually used for an applied EC rule).
   Concurrency: the nodes of one group of handleREPRule are contacted concurrently, but each updates its own
   nodeResults entry and increments one counter under the mutex, and the group is awaited before anything is
   read - the outcome is independent of the completion order, so a group is one step here. The concurrent
   placement of EC parts (applyECRule) is modelled separately in PutEC.tla, which proves the summary used
   here: a rule succeeds iff at least d+p nodes of the list accept, and then all parts are on distinct nodes.

   Deviation switches (record b, TRUE = code as found; all FALSE = fixes/C25-ec-rule-loop.diff):
     ecidx   saveObject indexes encodedECParts (one entry per EC rule) with the index of the rule among ALL
             rules: with REP rules in front the node panics (index out of range) or takes the parts of
             another EC rule.
     dup     special handling of repeated EC rules (same d/p): a later occurrence is skipped in the main loop
             ("already processed") even if the first one is disabled by the initial policy, and when it is
             processed together with the first one its parts go to the FIRST rule's node list, its own limit
             is not looked at.
     sumidx  handleECRule calls sumLimitsSinceRule(ruleIdx+1) with the rule index although the function
             expects a loop position: with PreferLocal reordering a failed EC rule is forgiven although the
             remaining rules cannot reach MaxReplicas.
     nostore the rule loop may end without having contacted any node (every applicable rule is disabled by the
             initial limits, e.g. a client-signed object in a REP+EC container whose initial policy keeps
             only the EC rule) and success is reported; the post-placement hand-off is skipped as well
             because no REP progress exists. Repaired = such a PUT fails (no fix file: design decision).    *)
EXTENDS Integers, Sequences, FiniteSets, TLC

CONSTANTS Nodes, Local

AsFound == [ecidx |-> TRUE, dup |-> TRUE, sumidx |-> TRUE, nostore |-> TRUE]
Repaired == [ecidx |-> FALSE, dup |-> FALSE, sumidx |-> FALSE, nostore |-> FALSE]
Only(x) == [Repaired EXCEPT ![x] = TRUE]

Range(q) == {q[k] : k \in 1..Len(q)}
Min(a, b) == IF a < b THEN a ELSE b
NRep(s) == Len(s.rep)
NEc(s) == Len(s.ec)
List(s, k) == IF k <= NRep(s) THEN s.rep[k].nodes ELSE s.ec[k - NRep(s)].nodes
Parts(r) == r.d + r.p
Good(s, list) == Cardinality({n \in Range(list) : s.ok[n] = "y"})

P0(s) == [res |-> [n \in Nodes |-> "none"],
          stored |-> [k \in 1..(NRep(s) + NEc(s)) |-> 0],
          processed |-> [k \in 1..(NRep(s) + NEc(s)) |-> 0],
          left |-> 0, main |-> {}, applied |-> {}, ecAt |-> <<>>]

-----------------------------------------------------------------------------
(* handleREPRule *)
\* next node group: nodes already contacted for an earlier list are not contacted again - a successful one
\* counts for this list too, a failed one is skipped
RECURSIVE Group(_, _, _, _, _)
Group(p, k, list, rem, grp) ==
  IF p.processed[k] >= Len(list) \/ Len(grp) >= rem THEN [p |-> p, grp |-> grp]
  ELSE LET node == list[p.processed[k] + 1]
           p1 == [p EXCEPT !.processed[k] = @ + 1] IN
       IF p.res[node] = "ok" THEN Group([p1 EXCEPT !.stored[k] = @ + 1], k, list, rem - 1, grp)
       ELSE IF p.res[node] = "fail" THEN Group(p1, k, list, rem, grp)
       ELSE Group(p1, k, list, rem, Append(grp, node))

\* the group is sent and awaited; cnt = FALSE for the extra broadcast (placementVector -1)
Send(p, s, k, grp, cnt) ==
  LET oks == {n \in Range(grp) : s.ok[n] = "y"} IN
  [p EXCEPT !.res = [n \in Nodes |-> IF n \in Range(grp) THEN (IF n \in oks /\ cnt THEN "ok" ELSE "fail") ELSE @[n]],
            !.stored[k] = IF cnt THEN @ + Cardinality(oks) ELSE @,
            !.main = @ \cup oks]

RECURSIVE RepRule(_, _, _, _, _)
\* result: [p, err]
RepRule(p, s, k, minR, maxR) ==
  LET list == List(s, k)
      st == p.stored[k] IN
  IF st >= maxR THEN [p |-> p, err |-> FALSE]
  ELSE LET minReq == IF minR > st THEN minR - st ELSE 0 IN
       IF Len(list) - p.processed[k] < minReq THEN [p |-> p, err |-> TRUE]
       ELSE IF p.processed[k] >= Len(list) THEN [p |-> p, err |-> FALSE]
       ELSE LET g == Group(p, k, list, maxR - st, <<>>) IN
            RepRule(Send(g.p, s, k, g.grp, TRUE), s, k, minR, maxR)

-----------------------------------------------------------------------------
(* TOMBSTONE / LOCK: iterateNodesForObject with broadcast *)
BroadcastCounts(s) == [k \in 1..(NRep(s) + NEc(s)) |->
                         IF k <= NRep(s) THEN s.rep[k].n ELSE Parts(s.ec[k - NRep(s)])]
RECURSIVE BcRules(_, _, _)
BcRules(p, s, k) ==
  IF k > NRep(s) + NEc(s) THEN [p |-> p, res |-> "ok"]
  ELSE LET r == RepRule(p, s, k, BroadcastCounts(s)[k], BroadcastCounts(s)[k]) IN
       IF r.err THEN [p |-> r.p, res |-> IF r.p.stored[k] > 0 THEN "incomplete" ELSE "error"]
       ELSE BcRules(r.p, s, k + 1)
\* additional broadcast to every node not contacted yet; its results are ignored
ExtraBroadcast(p, s) ==
  LET rest == {n \in UNION {Range(List(s, k)) : k \in 1..(NRep(s) + NEc(s))} : p.res[n] = "none"} IN
  [p EXCEPT !.main = @ \cup {n \in rest : s.ok[n] = "y"},
            !.res = [n \in Nodes |-> IF n \in rest THEN "fail" ELSE @[n]]]

-----------------------------------------------------------------------------
(* main rule loop of saveObject *)
UseEc(s) == s.trusted                       \* ecRules = nil for objects sealed by the client
NEcU(s) == IF UseEc(s) THEN NEc(s) ELSE 0
HasLimits(s) == s.init.on /\ Len(s.init.limits) > 0
RepN(s, k) == IF HasLimits(s) THEN s.init.limits[k] ELSE s.rep[k].n
EcLim(s, j) == IF HasLimits(s) THEN s.init.limits[NRep(s) + j] ELSE 1     \* ecLimits = nil: every rule counts 1
EcEnabled(s, j) == ~HasLimits(s) \/ s.init.limits[NRep(s) + j] > 0
MaxR(s) == IF s.init.on THEN s.init.max ELSE 0
LocalIn(s, k) == Local \in Range(List(s, k))

\* slices.SortFunc on < 12 elements = insertion sort, with the comparator of saveObject (which is not an
\* ordering: -1 whenever a holds the local node, else 1 whenever b holds it, else 0)
Cmp(s, a, b) == IF LocalIn(s, a) THEN -1 ELSE IF LocalIn(s, b) THEN 1 ELSE 0
RECURSIVE Sink(_, _, _)
Sink(s, q, j) == IF j > 1 /\ Cmp(s, q[j], q[j - 1]) < 0
                   THEN Sink(s, [q EXCEPT ![j] = q[j - 1], ![j - 1] = q[j]], j - 1) ELSE q
RECURSIVE InsSort(_, _, _)
InsSort(s, q, i) == IF i > Len(q) THEN q ELSE InsSort(s, Sink(s, q, i), i + 1)

SelectSeq2(q, T(_)) == SelectSeq(q, T)
Order(s) ==
  LET all == [k \in 1..(NRep(s) + NEcU(s)) |-> k] IN
  IF MaxR(s) > 0 /\ s.init.prefer
    THEN LET en(k) == IF k <= NRep(s) THEN RepN(s, k) > 0 ELSE EcEnabled(s, k - NRep(s))
         IN InsSort(s, SelectSeq2(all, en), 2)
    ELSE all

Limit(s, k) == IF k <= NRep(s) THEN RepN(s, k) ELSE EcLim(s, k - NRep(s))
RECURSIVE SumFrom(_, _, _)
\* sumLimitsSinceRule(from): from is a 0-based loop position in the code, here positions are 1-based
SumFrom(s, ord, pos) == IF pos > Len(ord) THEN 0 ELSE Limit(s, ord[pos]) + SumFrom(s, ord, pos + 1)

\* applyECRule summarised (see PutEC.tla): success iff enough nodes of the list accept
EcApply(s, listIdx, nparts) == Good(s, List(s, listIdx)) >= nparts

\* handleECRule: listIdx = node list used (1-based), sumPos = 1-based loop position from which the limits of the
\* rules still to come are summed (sumLimitsSinceRule), j = EC rule, nparts = number of part objects
\* result: [p, st] with st \in {"go", "fin", "error", "incomplete"}
HandleEc(p, s, ord, listIdx, sumPos, j, nparts) ==
  IF ~EcApply(s, listIdx, nparts)
    THEN IF MaxR(s) = 0 THEN [p |-> p, st |-> "error"]
         ELSE IF p.left > SumFrom(s, ord, sumPos)
                THEN [p |-> p, st |-> IF MaxR(s) - p.left > 0 THEN "incomplete" ELSE "error"]
                ELSE [p |-> p, st |-> "go"]
    ELSE LET p1 == [p EXCEPT !.applied = @ \cup {j}, !.ecAt = Append(@, <<j, IF listIdx = NRep(s) + j THEN listIdx ELSE 0>>)] IN
         IF MaxR(s) > 0 THEN [p |-> [p1 EXCEPT !.left = @ - 1], st |-> IF p1.left - 1 = 0 THEN "fin" ELSE "go"]
                        ELSE [p |-> p1, st |-> "go"]

SameRule(a, b) == a.d = b.d /\ a.p = b.p
RECURSIVE DupEc(_, _, _, _, _, _, _, _)
\* code as found: the loop over later occurrences j2 > j of the same EC rule (their own limits are not looked
\* at); the code passes the loop position pos-1 as "ruleIdx": it selects the node list AND the summation start
DupEc(p, s, ord, pos, j, j2, nparts, b) ==
  IF j2 > NEc(s) THEN [p |-> p, st |-> "go"]
  ELSE IF ~SameRule(s.ec[j], s.ec[j2]) THEN DupEc(p, s, ord, pos, j, j2 + 1, nparts, b)
  ELSE LET h == HandleEc(p, s, ord, pos, pos + 1, j2, nparts) IN
       IF h.st # "go" THEN h ELSE DupEc(h.p, s, ord, pos, j, j2 + 1, nparts, b)

RECURSIVE Loop(_, _, _, _, _)
\* result: [p, res]; res "any": the code as found places part objects of ANOTHER rule - outcome not modelled
Loop(p, s, ord, pos, b) ==
  IF pos > Len(ord) THEN [p |-> p, res |-> "ok"]
  ELSE LET k == ord[pos] IN
  IF k > NRep(s)
    THEN LET j == k - NRep(s) IN
         IF ~EcEnabled(s, j) \/ (b.dup /\ \E j0 \in 1..(j - 1) : SameRule(s.ec[j0], s.ec[j]))
           THEN Loop(p, s, ord, pos + 1, b)
           ELSE \* payloadParts := t.encodedECParts[ruleIdx]   (as found) / [ecRuleIdx] (repaired)
                LET pidx == IF b.ecidx THEN k ELSE j IN
                IF pidx > NEc(s) THEN [p |-> p, res |-> "panic"]
                ELSE IF pidx # j THEN [p |-> p, res |-> "any"]
                ELSE LET nparts == Parts(s.ec[j])
                         \* sumLimitsSinceRule(ruleIdx+1) as found: the rule index is taken for a loop position
                         h == HandleEc(p, s, ord, k, IF b.sumidx THEN k + 1 ELSE pos + 1, j, nparts) IN
                     IF h.st \in {"error", "incomplete"} THEN [p |-> h.p, res |-> h.st]
                     ELSE IF h.st = "fin" THEN [p |-> h.p, res |-> "ok"]
                     ELSE IF ~b.dup THEN Loop(h.p, s, ord, pos + 1, b)
                     ELSE LET d == DupEc(h.p, s, ord, pos, j, j + 1, nparts, b) IN
                          IF d.st \in {"error", "incomplete"} THEN [p |-> d.p, res |-> d.st]
                          ELSE IF d.st = "fin" THEN [p |-> d.p, res |-> "ok"]
                          ELSE Loop(d.p, s, ord, pos + 1, b)
    ELSE IF RepN(s, k) = 0 THEN Loop(p, s, ord, pos + 1, b)
         ELSE LET sum == SumFrom(s, ord, pos + 1)
                  minR == IF MaxR(s) > 0 THEN (IF p.left > sum THEN p.left - sum ELSE 0) ELSE RepN(s, k)
                  maxR == IF MaxR(s) > 0 THEN Min(RepN(s, k), p.left) ELSE RepN(s, k)
                  r == RepRule(p, s, k, minR, maxR)
                  stored == r.p.stored[k] IN
              IF r.err
                THEN [p |-> r.p,
                      res |-> IF MaxR(s) > 0 THEN (IF MaxR(s) - p.left + stored > 0 THEN "incomplete" ELSE "error")
                                             ELSE (IF stored > 0 THEN "incomplete" ELSE "error")]
                ELSE IF MaxR(s) > 0
                       THEN IF r.p.left <= stored THEN [p |-> r.p, res |-> "ok"]
                            ELSE Loop([r.p EXCEPT !.left = @ - stored], s, ord, pos + 1, b)
                       ELSE Loop(r.p, s, ord, pos + 1, b)

-----------------------------------------------------------------------------
(* saveObject as a function: [res, main, applied, ecAt] *)
Result(x) == [res |-> x.res, main |-> x.p.main, applied |-> x.p.applied, ecAt |-> Range(x.p.ecAt)]
F(s, b) ==
  IF s.typ \in {"TOMB", "LOCK"}
    THEN LET bc == BcRules(P0(s), s, 1) IN
         IF bc.res = "ok" THEN Result([p |-> ExtraBroadcast(bc.p, s), res |-> "ok"])
                          ELSE Result([p |-> bc.p, res |-> bc.res])
  ELSE IF ~s.trusted /\ NRep(s) = 0 THEN Result([p |-> P0(s), res |-> "error"])  \* rejected at Init
  ELSE IF ~s.trusted /\ s.init.on /\ Len(s.init.limits) < NRep(s) THEN Result([p |-> P0(s), res |-> "error"])
  ELSE LET r == Loop([P0(s) EXCEPT !.left = MaxR(s)], s, Order(s), 1, b) IN
       IF ~b.nostore /\ r.res = "ok" /\ r.p.main = {} /\ r.p.applied = {}
         THEN Result([r EXCEPT !.res = "error"]) ELSE Result(r)

-----------------------------------------------------------------------------
(* C25 on observations: res, main = nodes that acknowledged the object, ecAt = set of <<rule, list>> for
   every EC rule all of whose parts were acknowledged by pairwise distinct nodes: list = index of the rule's
   own list if all those nodes lie in it, else 0 (TracePutPolicy.tla computes it from the acknowledgements,
   F computes it from the list the code placed the rule in).                                           *)
Acked(s, main, k) == Cardinality(main \cap Range(List(s, k)))
EcPlaced(s, ecAt, j) == <<j, NRep(s) + j>> \in ecAt
Prop(s, res, main, ecAt) ==
  res = "ok" =>
    IF s.typ \in {"TOMB", "LOCK"}
      THEN \A k \in 1..(NRep(s) + NEc(s)) : Acked(s, main, k) >= BroadcastCounts(s)[k]
    ELSE IF MaxR(s) = 0
      THEN /\ \A k \in 1..NRep(s) : Acked(s, main, k) >= RepN(s, k)
           /\ \A j \in 1..NEcU(s) : EcEnabled(s, j) => EcPlaced(s, ecAt, j)
    ELSE LET RECURSIVE SumRep(_)
             SumRep(k) == IF k > NRep(s) THEN 0 ELSE Min(Acked(s, main, k), RepN(s, k)) + SumRep(k + 1)
             RECURSIVE SumLim(_)
             SumLim(k) == IF k > NRep(s) + NEcU(s) THEN 0 ELSE Limit(s, k) + SumLim(k + 1)
             ecs == Cardinality({j \in 1..NEcU(s) : EcEnabled(s, j) /\ EcPlaced(s, ecAt, j)})
             \* a client-signed object cannot be EC-encoded by the node: the total is capped by what the
             \* applicable rules allow
         IN SumRep(1) + ecs >= Min(MaxR(s), SumLim(1))

\* a successful PUT stored the object (or all parts of one EC rule) somewhere
Stored(res, main, ecAt) == res = "ok" => main # {} \/ ecAt # {}

\* the repaired model satisfies the property
FProp(s) == LET f == F(s, Repaired) IN
            f.res \notin {"panic", "any"} /\ Prop(s, f.res, f.main, f.ecAt) /\ Stored(f.res, f.main, f.ecAt)
\* which deviation makes the code as found differ from the repaired code on s ("" = none)
Deviation(s) == LET fx == F(s, Repaired) IN
                IF F(s, Only("ecidx")) # fx THEN "ecindex"
                ELSE IF F(s, Only("dup")) # fx THEN "dupec"
                ELSE IF F(s, Only("sumidx")) # fx THEN "sumidx"
                ELSE IF F(s, Only("nostore")) # fx THEN "nostore"
                ELSE IF F(s, AsFound) # fx THEN "combined" ELSE ""
=============================================================================
