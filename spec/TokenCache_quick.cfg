SPECIFICATION Spec
CONSTANTS
  MaxT = 3
  MaxE = 3
INVARIANTS TypeOK CacheTransparent
CHECK_DEADLOCK FALSE
