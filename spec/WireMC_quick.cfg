SPECIFICATION Spec
CONSTANTS
  MaxFields = 3
INVARIANTS ObjCanonicalComplete ObjCanonicalTruncated ObjNeverOutOfBuffer ObjUnorderedIsError HdrValues HdrParent HdrNeverOutOfBuffer NestedParentInsideSplit NestedParentCanonical HeadBufferSuffices
CHECK_DEADLOCK FALSE
