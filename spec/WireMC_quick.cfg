SPECIFICATION Spec
CONSTANTS
  MaxFields = 3
INVARIANTS ObjCanonicalComplete ObjCanonicalTruncated ObjNeverOutOfBuffer ObjUnorderedIsError HdrValues HdrParent HdrNeverOutOfBuffer
CHECK_DEADLOCK FALSE
