------------------------------ MODULE FSTreeFS ------------------------------
(* C12 / C13 - the file-system layer shared by the writer model (FSTreeSys.tla) and by the validation of
   recorded system-call traces (TraceFSTreeSys.tla): names, inodes as sequences of written chunks,
   descriptors, the effect of each system call as a pure function, and what a reader of the tree returns
   for an address from the named files (ReadName). *)
EXTENDS Integers, Sequences, FiniteSets, TLC
CONSTANT NA              \* addresses 1..NA

Addrs == 1..NA
MaxTmp == 4
Obj(a) == [k |-> "obj", a |-> a, i |-> 0]
Tmp(a, i) == [k |-> "tmp", a |-> a, i |-> i]
Names == {Obj(a) : a \in Addrs} \cup {Tmp(a, i) : a \in Addrs, i \in 0..MaxTmp}
Chunk(kind, a, full) == [kind |-> kind, a |-> a, full |-> full]      \* kind: "mem" (prefix+data) | "raw"

-----------------------------------------------------------------------------
(* FS layer: pure functions on <<dir, ino, fdt>> *)
NewIno(I) == Append(I, <<>>)
OpenTmpFS(D, I, F) == <<D, NewIno(I), Append(F, Len(I) + 1)>>                 \* new fd = Len(F)+1 -> new anonymous inode
OpenExclFS(D, I, F, nm) == <<[D EXCEPT ![nm] = Len(I) + 1], NewIno(I), Append(F, Len(I) + 1)>>
WriteFS(I, F, fd, ch) == IF F[fd] = 0 THEN I ELSE [I EXCEPT ![F[fd]] = Append(@, ch)]
LinkFS(D, F, fd, nm) == [D EXCEPT ![nm] = F[fd]]
RenameFS(D, n1, n2) == [D EXCEPT ![n2] = D[n1], ![n1] = 0]
UnlinkFS(D, nm) == [D EXCEPT ![nm] = 0]
CloseFS(F, fd) == [F EXCEPT ![fd] = 0]
CleanTmpFS(D) == [nm \in DOMAIN D |-> IF nm.k = "tmp" THEN 0 ELSE D[nm]]

(* what a reader returns for address a from the named files: 1 = exactly a's bytes, 0 = not found, -1 = anything else.
   plain file: the whole content is returned as is; combined file: first member with a's OID. *)
RECURSIVE ScanMem(_, _, _)
ScanMem(c, a, i) == IF i > Len(c) THEN 0
                    ELSE IF c[i].kind # "mem" \/ ~c[i].full THEN -1          \* malformed / truncated member
                    ELSE IF c[i].a = a THEN 1
                    ELSE ScanMem(c, a, i + 1)
ReadName(D, I, a) ==
  LET n == D[Obj(a)] IN
  IF n = 0 THEN 0
  ELSE LET c == I[n] IN
       IF c = <<>> THEN -1                                                    \* empty file served as an object
       ELSE IF c[1].kind = "raw" THEN (IF Len(c) = 1 /\ c[1].a = a /\ c[1].full THEN 1 ELSE -1)
       ELSE ScanMem(c, a, 1)

=============================================================================
