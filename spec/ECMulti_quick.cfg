SPECIFICATION Spec
CONSTANTS
  MRules <- RulesSmall
  MaxRuleSeq = 2
  MaxLen = 6
  PoolCap = 5
  CapMode = "exact"
INVARIANTS NoCrossCorruption PayloadIntact StillDecodable
CHECK_DEADLOCK FALSE
