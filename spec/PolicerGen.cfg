SPECIFICATION GenSpec
CONSTANTS
  Nodes = {1, 2, 3, 4, 5, 6}
  Local = 1
  BugMaintRebalance = FALSE
  RuleShapes = {}
  EcCnrRepLen = 0
  EcLens = {}
  Families = {}
  GenMaxLen = 5
  GenMaxRules = 3
INVARIANTS Emit GenC26
CHECK_DEADLOCK FALSE
