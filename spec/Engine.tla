------------------------------- MODULE Engine -------------------------------
(* Family C - pkg/local_object_storage/engine over 2..4 shards (C08, C20, C19).

   Implementation-shaped: per shard a summary of the metabase (which catalogue objects have
   metadata, the garbage marks, whether the container bucket exists), of the blobstor (which objects
   have a blob), the shard mode and the injected put / read faults.  Engine operations follow the Go
   code: Put of a regular object (HRW order, first shard that takes it), broadcast of LOCK / TOMBSTONE
   objects to ALL shards in ANY order as a sequence of shard steps with the isFatal => rollback branch
   of engine.broadcastObject, Delete (forced GC mark), Drop, per-shard GC pass (expired-object
   collection with the engine call-back + removal of everything GC-marked), epoch tick, shard mode
   change, Evacuate, and the read scans Get (with the degraded / meta-without-blob second pass), Head,
   IsLocked.  Metabase rules summarised here (read from metabase/put.go, exists.go, lock.go, delete.go,
   inhume.go, graveyard.go, iterators.go, list.go):
     inGarbage(x)   = tombstoned if a TOMBSTONE with target x has metadata on the shard,
                      else gcmarked if x carries the DEFAULT garbage mark, else available
     status(x)      = expired (unless locked) | inGarbage(x) (available if locked)
     locked(x)      = a LOCK with target x has metadata on the shard and is not expired
     put TOMBSTONE  = refused with ObjectLocked if target locked, else marks the target (default mark)
     put LOCK       = refused with AlreadyRemoved if target tombstoned (LockNonRegular if not regular)
     delete(x)      = removes x's metadata and x's own garbage mark - NOT the marks x (a tombstone) set
     GetGarbage     = every marked id, locks are not consulted

   Deviation switch BugH6 (TRUE = code as is): the rollback of a refused tombstone leaves the garbage
   marks it set; FALSE = rollback also removes the marks that this very put created.

   Properties are stated at the end with ghost variables (prot, rem, rbm, ptl, ev).                  *)
EXTENDS Integers, Sequences, FiniteSets, TLC

CONSTANTS NS,          \* number of shards
          MaxEpoch,    \* epochs 0..MaxEpoch
          BugH6,       \* deviation switch, see above
          CatSet,      \* name of the catalogue family explored from Init (exhaustive / generator runs)
          Ops,         \* enabled event kinds
          Modes,       \* shard modes SetMode may choose
          HealthyLock, \* TRUE: environment starts LOCK broadcasts only when every shard is read-write and healthy
          MaxInFlight, \* broadcasts in flight at the same time (1 or 2)
          Scenario     \* name of the situation searched by the witness configurations ("none" otherwise)

Shards == 1..NS

VARIABLES cat,                       \* catalogue: sequence of [kind, tgt, exp, ord, pord]; fixed per behaviour
          meta, blob, mark, bkt,     \* per-shard storage summary
          mode, fput, fget,          \* per-shard mode and injected faults
          epoch, gcDone,             \* current epoch; per-shard gc.processedEpoch
          ops,                       \* broadcast operations in flight, indexed by the object being put
          res,                       \* result record of the last completed call
          lastev,                    \* the event taken last (witness extraction; hidden by VIEW)
          prot, rem, rbm, ptl, ev    \* ghosts (properties)

svars == <<meta, blob, mark, bkt>>
\* exhaustive runs of C08 / C20 hide the result of the last call (no invariant reads it)
ViewC19 == <<cat, meta, blob, mark, bkt, mode, fput, fget, epoch, ops, prot, rem, rbm, ptl, ev>>
\* and keep of gc.processedEpoch only what the code compares it with
ViewNoRes == <<cat, meta, blob, mark, bkt, mode, fput, fget, epoch, [s \in Shards |-> gcDone[s] = epoch], ops, prot, rem, rbm, ptl>>
vars == <<cat, meta, blob, mark, bkt, mode, fput, fget, epoch, gcDone, ops, res, lastev, prot, rem, rbm, ptl, ev>>

K == Len(cat)
Ids == 1..K
Kind(x) == cat[x].kind
Tgt(x) == cat[x].tgt
IsReg(x) == Kind(x) \in {"reg", "ec"}
Regs == {x \in Ids : IsReg(x)}
LocksOf(o) == {l \in Ids : Kind(l) = "lock" /\ Tgt(l) = o}
TombsOf(o) == {t \in Ids : Kind(t) = "ts" /\ Tgt(t) = o}

Perms(n) == {p \in [1..n -> 1..n] : \A i, j \in 1..n : i # j => p[i] # p[j]}
IdPerm == [i \in Shards |-> i]

RECURSIVE SetToSeq(_)
SetToSeq(S) == IF S = {} THEN <<>> ELSE LET m == CHOOSE x \in S : \A y \in S : x <= y IN <<m>> \o SetToSeq(S \ {m})
SeqToSet(q) == {q[i] : i \in 1..Len(q)}

(* ------------------------------------------------------------------ world record *)
\* W = storage summary + environment; all semantic operators are pure functions of W (and cat).
World(m, b, k, bk, md, fp, fg, ep) ==
  [meta |-> m, blob |-> b, mark |-> k, bkt |-> bk, mode |-> md, fput |-> fp, fget |-> fg, epoch |-> ep]
Cur == World(meta, blob, mark, bkt, mode, fput, fget, epoch)

NoMeta(W, s) == W.mode[s] = "dro"
ReadOnly(W, s) == W.mode[s] # "rw"

(* ------------------------------------------------------------------ metabase summary *)
ExpiredAt(W, s, x, ep) == x \in W.meta[s] /\ cat[x].exp > 0 /\ ep > cat[x].exp

InGarbage(W, s, x) ==
  IF \E t \in W.meta[s] : Kind(t) = "ts" /\ Tgt(t) = x THEN "ts"
  ELSE IF W.mark[s][x] = "def" THEN "gc" ELSE "avail"

\* metabase.objectLocked(currEpoch): ep = 0 disables the expiration check of the lock
LockedAt(W, s, x, ep) ==
  \E l \in W.meta[s] : Kind(l) = "lock" /\ Tgt(l) = x /\ ~(ep > 0 /\ ExpiredAt(W, s, l, ep)) /\ InGarbage(W, s, l) = "avail"

StatusAt(W, s, x, ep) ==
  IF ExpiredAt(W, s, x, ep)
    THEN (IF LockedAt(W, s, x, ep) THEN "avail" ELSE "expired")
    ELSE LET g == InGarbage(W, s, x) IN IF g # "avail" /\ LockedAt(W, s, x, ep) THEN "avail" ELSE g

\* DB.exists: "true" | "false" | "notfound" (GC-marked) | "removed" | "expired"
MetaExists(W, s, x, ep) ==
  IF ~W.bkt[s] THEN "false"
  ELSE LET st == StatusAt(W, s, x, ep) IN
       CASE st = "gc" -> "notfound"
         [] st = "ts" -> "removed"
         [] st = "expired" -> "expired"
         [] OTHER -> IF x \in W.meta[s] THEN "true" ELSE "false"

\* Shard.Exists(addr, ignoreExpiration): ep = 0 when expiration is ignored
ShardExists(W, s, x, ep) ==
  IF NoMeta(W, s) THEN (IF W.fget[s] THEN "err" ELSE IF x \in W.blob[s] THEN "true" ELSE "false")
  ELSE MetaExists(W, s, x, ep)

\* Shard.Get(addr, skipMeta): "ok" | "notfound" | "removed" | "expired" | "metanoobj" | "err"
ShardGet(W, s, x, skipMeta) ==
  LET skip == skipMeta \/ NoMeta(W, s)
      rd == IF W.fget[s] THEN "err" ELSE IF x \in W.blob[s] THEN "ok" ELSE "notfound"
  IN IF skip THEN rd
     ELSE LET e == MetaExists(W, s, x, W.epoch) IN
          CASE e \in {"notfound", "removed", "expired"} -> e
            [] e = "false" -> "notfound"
            [] OTHER -> IF rd = "ok" THEN "ok" ELSE "metanoobj"

\* Shard.Head(addr, raw=false)
ShardHead(W, s, x) ==
  LET rd == IF W.fget[s] THEN "err" ELSE IF x \in W.blob[s] THEN "ok" ELSE "notfound"
  IN IF NoMeta(W, s) THEN rd
     ELSE LET e == MetaExists(W, s, x, W.epoch) IN
          CASE e \in {"notfound", "removed", "expired"} -> e
            [] e = "false" -> "notfound"
            [] OTHER -> rd

(* ------------------------------------------------------------------ engine reads *)
\* StorageEngine.get: first pass in HRW order, second pass without metadata when a degraded shard was seen
\* or some shard had metadata but no readable blob.
RECURSIVE GetPass2(_, _, _)
GetPass2(W, x, i) ==
  IF i > NS THEN "notfound"
  ELSE LET s == cat[x].ord[i] IN
       IF NoMeta(W, s) THEN GetPass2(W, x, i + 1)
       ELSE IF ShardGet(W, s, x, TRUE) = "ok" THEN "ok" ELSE GetPass2(W, x, i + 1)

RECURSIVE GetPass1(_, _, _, _, _)
GetPass1(W, x, i, hd, wm) ==
  IF i > NS THEN (IF ~hd /\ ~wm THEN "notfound" ELSE GetPass2(W, x, 1))
  ELSE LET s == cat[x].ord[i]
           nm == NoMeta(W, s)
           r == ShardGet(W, s, x, nm)
       IN CASE r = "ok" -> "ok"
            [] r = "removed" -> "removed"
            [] r = "expired" -> "notfound"
            [] r = "metanoobj" -> GetPass1(W, x, i + 1, hd \/ nm, TRUE)
            [] OTHER -> GetPass1(W, x, i + 1, hd \/ nm, wm)
EngineGet(W, x) == GetPass1(W, x, 1, FALSE, FALSE)

RECURSIVE HeadScan(_, _, _)
HeadScan(W, x, i) ==
  IF i > NS THEN "notfound"
  ELSE LET r == ShardHead(W, cat[x].ord[i], x) IN
       CASE r = "ok" -> "ok"
         [] r = "removed" -> "removed"
         [] r = "expired" -> "notfound"
         [] OTHER -> HeadScan(W, x, i + 1)
EngineHead(W, x) == HeadScan(W, x, 1)

\* StorageEngine.isLocked over the given visiting order: "t" | "f" | "e"
RECURSIVE LockScan(_, _, _, _)
LockScan(W, x, ord, i) ==
  IF i > NS THEN "f"
  ELSE LET s == ord[i] IN
       IF NoMeta(W, s) THEN "e"
       ELSE IF W.bkt[s] /\ LockedAt(W, s, x, W.epoch) THEN "t" ELSE LockScan(W, x, ord, i + 1)
EngineIsLocked(W, x, ord) == LockScan(W, x, ord, 1)

\* StorageEngine.existsPhysical: <<exists, errorClass>>
RECURSIVE ExPhys(_, _, _)
ExPhys(W, x, i) ==
  IF i > NS THEN <<FALSE, "ok">>
  ELSE LET e == ShardExists(W, cat[x].ord[i], x, W.epoch) IN
       CASE e = "expired" -> <<TRUE, "ok">>
         [] e = "true" -> <<TRUE, "ok">>
         [] e = "removed" -> <<FALSE, "removed">>
         [] e = "notfound" -> <<FALSE, "notfound">>
         [] OTHER -> ExPhys(W, x, i + 1)
ExistsPhysical(W, x) == ExPhys(W, x, 1)

(* ------------------------------------------------------------------ shard writes (pure: W -> W) *)
SetS(W, s, m, b, k, bk) ==
  [W EXCEPT !.meta[s] = m, !.blob[s] = b, !.mark[s] = k, !.bkt[s] = bk]

\* metabase put of x on shard s (the object is known not to exist there): <<class, W'>>
MetaPut(W, s, x) ==
  LET t == Tgt(x)
      ok == SetS(W, s, W.meta[s] \cup {x}, W.blob[s] \cup {x}, W.mark[s], TRUE)
  IN CASE Kind(x) = "lock" ->
            IF t \in W.meta[s] /\ ~IsReg(t) THEN <<"nonregular", W>>
            ELSE IF StatusAt(W, s, t, W.epoch) = "ts" THEN <<"removed", W>>
            ELSE <<"ok", ok>>
       [] Kind(x) = "ts" ->
            IF t \in W.meta[s] /\ Kind(t) = "ts" THEN <<"err", W>>
            ELSE IF t \in W.meta[s] /\ Kind(t) = "lock" THEN <<"lockremoval", W>>
            ELSE IF LockedAt(W, s, t, W.epoch) THEN <<"locked", W>>
            ELSE <<"ok", [ok EXCEPT !.mark[s][t] = "def"]>>
       [] OTHER -> <<"ok", ok>>

\* engine.putToShard: <<class, W'>>; class "exists" = errExists
PutToShard(W, s, x) ==
  LET e == ShardExists(W, s, x, W.epoch) IN
  CASE e = "expired" -> <<"exists", W>>
    [] e = "true" -> <<"exists", W>>
    [] e \in {"removed", "notfound", "err"} -> <<e, W>>
    [] OTHER -> IF ReadOnly(W, s) THEN <<"readonly", W>>
                ELSE IF W.fput[s] THEN <<"err", W>>
                ELSE MetaPut(W, s, x)

Fatal(c) == c \in {"nonregular", "locked", "removed"}

\* Shard.Delete(cnr, {x}) = deleteObjs: <<class, W'>>
ShardDelete(W, s, x) ==
  IF ReadOnly(W, s) THEN <<"readonly", W>>
  ELSE <<"ok", SetS(W, s, W.meta[s] \ {x}, W.blob[s] \ {x}, [W.mark[s] EXCEPT ![x] = "none"], W.bkt[s])>>

\* Shard.MarkGarbage(cnr, {x}, mk)
ShardMark(W, s, x, mk) ==
  IF ReadOnly(W, s) THEN <<"readonly", W>>
  ELSE IF ~W.bkt[s] THEN <<"ok", W>>
  ELSE LET cur == W.mark[s][x]
           new == IF cur = "none" THEN mk ELSE IF mk = "def" THEN "def" ELSE cur
       IN <<"ok", [W EXCEPT !.mark[s][x] = new]>>

\* engine.processAddrDeleteOnShards for an object that is not a split/EC root; DF = ShardDelete or ShardMark
RECURSIVE AddrDelete(_, _, _, _, _)
AddrDelete(W, x, i, drop, mk) ==
  IF i > NS THEN <<"ok", W>>
  ELSE LET s == cat[x].ord[i]
           e == ShardExists(W, s, x, 0)
       IN CASE e = "removed" -> <<"ok", W>>
            [] e = "true" -> LET r == IF drop THEN ShardDelete(W, s, x) ELSE ShardMark(W, s, x, mk) IN
                             IF r[1] # "ok" THEN <<"fail", r[2]>> ELSE AddrDelete(r[2], x, i + 1, drop, mk)
            [] OTHER -> AddrDelete(W, x, i + 1, drop, mk)

\* StorageEngine.Put of a regular object: <<class, W'>>
RECURSIVE PutScan(_, _, _)
PutScan(W, x, i) ==
  IF i > NS THEN <<"fail", W>>
  ELSE LET r == PutToShard(W, cat[x].pord[i], x) IN
       IF r[1] \in {"ok", "exists"} THEN <<"ok", r[2]>> ELSE PutScan(W, x, i + 1)
EnginePutReg(W, x) ==
  LET ep == ExistsPhysical(W, x) IN
  IF ep[2] # "ok" THEN <<"fail", W>> ELSE IF ep[1] THEN <<"ok", W>> ELSE PutScan(W, x, 1)

(* ------------------------------------------------------------------ GC pass of one shard *)
\* engine.processExpiredObjects over a list of addresses; ord = visiting order of isLocked
RECURSIVE ExpiredCB(_, _, _)
ExpiredCB(W, lst, ord) ==
  IF lst = <<>> THEN W
  ELSE LET x == Head(lst) IN
       IF EngineIsLocked(W, x, ord) = "t" THEN ExpiredCB(W, Tail(lst), ord)
       ELSE ExpiredCB(AddrDelete(W, x, 1, TRUE, "def")[2], Tail(lst), ord)

RECURSIVE DeleteAll(_, _, _)
DeleteAll(W, s, lst) == IF lst = <<>> THEN W ELSE DeleteAll(ShardDelete(W, s, Head(lst))[2], s, Tail(lst))

\* ids ordered by (expiration epoch, id): order of metabase.IterateExpired
RECURSIVE ExpOrder(_)
ExpOrder(S) == IF S = {} THEN <<>>
               ELSE LET m == CHOOSE x \in S : \A y \in S : cat[x].exp < cat[y].exp \/ (cat[x].exp = cat[y].exp /\ x <= y)
                    IN <<m>> \o ExpOrder(S \ {m})

ExpiredSet(W, s) == {x \in W.meta[s] : cat[x].exp > 0 /\ cat[x].exp < W.epoch /\ ~LockedAt(W, s, x, W.epoch)}

\* <<W', newGcDone>>
GCPass(W, s, ord, done) ==
  IF W.mode[s] # "rw" THEN <<W, done>>
  ELSE LET E == IF done = W.epoch THEN {} ELSE ExpiredSet(W, s)
           nd == IF done # W.epoch /\ E = {} THEN W.epoch ELSE done
           tsE == {x \in E : Kind(x) = "ts"}
           W1 == DeleteAll(W, s, SetToSeq(tsE))
           W2 == ExpiredCB(W1, ExpOrder(E \ tsE), ord)
           G == IF W2.bkt[s] THEN {x \in Ids : W2.mark[s][x] # "none"} ELSE {}
       IN <<DeleteAll(W2, s, SetToSeq(G)), nd>>

(* ------------------------------------------------------------------ evacuation *)
\* targets of x in HRW order (EC parts: by parent ID), evacuated shards skipped: <<class, W'>>
RECURSIVE EvPut(_, _, _, _)
EvPut(W, x, srcs, i) ==
  IF i > NS THEN <<"none", W>>
  ELSE LET t == cat[x].pord[i] IN
       IF t \in srcs THEN EvPut(W, x, srcs, i + 1)
       ELSE LET r == PutToShard(W, t, x) IN
            IF r[1] \in {"ok", "exists"} THEN r ELSE EvPut(W, x, srcs, i + 1)

\* objects of one source shard; acc = [W, cnt, handled (in call order, once per source copy), fail]
RECURSIVE EvObjs(_, _, _, _, _, _, _)
EvObjs(acc, src, lst, srcs, ign, fh, fhe) ==
  IF lst = <<>> \/ acc.fail THEN acc
  ELSE LET x == Head(lst) IN
       IF ShardGet(acc.W, src, x, FALSE) # "ok"
         THEN (IF ign THEN EvObjs(acc, src, Tail(lst), srcs, ign, fh, fhe) ELSE [acc EXCEPT !.fail = TRUE])
         ELSE LET r == EvPut(acc.W, x, srcs, 1) IN
              CASE r[1] = "ok" -> EvObjs([acc EXCEPT !.W = r[2], !.cnt = @ + 1], src, Tail(lst), srcs, ign, fh, fhe)
                [] r[1] = "exists" -> EvObjs(acc, src, Tail(lst), srcs, ign, fh, fhe)
                \* no shard took the object: the fault handler decides; its error aborts the evacuation (ignoreErrors does not apply)
                [] OTHER -> IF fh /\ ~fhe THEN EvObjs([acc EXCEPT !.cnt = @ + 1, !.handled = Append(@, x)], src, Tail(lst), srcs, ign, fh, fhe)
                            ELSE [acc EXCEPT !.fail = TRUE]

\* metabase.ListWithCursor: physical objects that are not tombstoned / default-marked, in id order
EvList(W, s) == SetToSeq({x \in W.meta[s] : InGarbage(W, s, x) = "avail"})

RECURSIVE EvShards(_, _, _, _, _, _)
EvShards(acc, q, srcs, ign, fh, fhe) ==
  IF q = <<>> \/ acc.fail THEN acc
  ELSE LET s == Head(q) IN
       IF NoMeta(acc.W, s) THEN EvShards(acc, Tail(q), srcs, ign, fh, fhe)
       ELSE EvShards(EvObjs(acc, s, EvList(acc.W, s), srcs, ign, fh, fhe), Tail(q), srcs, ign, fh, fhe)

EvacuateF(W, q, ign, fh, fhe) ==
  LET srcs == SeqToSet(q) IN
  IF (\E s \in srcs : ~ReadOnly(W, s)) \/ (NS - Cardinality(srcs) < 1 /\ ~fh)
    THEN [W |-> W, cnt |-> 0, handled |-> <<>>, fail |-> TRUE]
    ELSE EvShards([W |-> W, cnt |-> 0, handled |-> <<>>, fail |-> FALSE], q, srcs, ign, fh, fhe)

(* ------------------------------------------------------------------ state machine *)
NoOp == [st |-> "idle", ord |-> <<>>, i |-> 0, good |-> <<>>, nm |-> {}, pre |-> FALSE]
InFlight == {x \in Ids : ops[x].st \in {"put", "rb"}}

EmptyEv == [on |-> FALSE, lost |-> {}, changed |-> {}, srcs |-> {}]

InitWith(c) ==
  /\ cat = c
  /\ meta = [s \in Shards |-> {}] /\ blob = [s \in Shards |-> {}]
  /\ mark = [s \in Shards |-> [x \in 1..Len(c) |-> "none"]]
  /\ bkt = [s \in Shards |-> FALSE]
  /\ mode = [s \in Shards |-> "rw"] /\ fput = [s \in Shards |-> FALSE] /\ fget = [s \in Shards |-> FALSE]
  /\ epoch = 0 /\ gcDone = [s \in Shards |-> 0]
  /\ ops = [x \in 1..Len(c) |-> NoOp]
  /\ res = [c |-> "none"] /\ lastev = [ev |-> "none"]
  /\ prot = {} /\ rem = {} /\ rbm = [s \in Shards |-> {}] /\ ptl = {} /\ ev = EmptyEv

Install(W) == /\ meta' = W.meta /\ blob' = W.blob /\ mark' = W.mark /\ bkt' = W.bkt

\* ghost bookkeeping when a broadcast of x terminates with class c in world W; pre = the target of a LOCK was
\* retrievable when the request arrived ("a lock for an object it stores": retrievable at request and at acceptance)
Accept(x, c, W, pre) ==
  /\ prot' = IF Kind(x) = "lock" /\ c = "ok" /\ pre /\ EngineGet(W, Tgt(x)) = "ok" THEN prot \cup {x} ELSE prot
  /\ rem' = IF Kind(x) = "ts" /\ c = "ok" THEN rem \cup {Tgt(x)} ELSE rem

OkFail(c) == IF c = "ok" THEN "ok" ELSE "fail"

DoPut(x) ==
  /\ IsReg(x) /\ InFlight = {}
  /\ LET r == EnginePutReg(Cur, x) IN
       /\ Install(r[2]) /\ res' = [c |-> r[1]]
       \* a copy stored after a removal of the object was accepted (e.g. after GC collected it): the per-object notion
       \* "removed" of C20 is undetermined from here on (the engine's marks are per copy)
       /\ ptl' = IF r[1] = "ok" /\ r[2] # Cur /\ x \in rem THEN ptl \cup {x} ELSE ptl
  /\ UNCHANGED <<cat, mode, fput, fget, epoch, gcDone, ops, prot, rem, rbm>> /\ ev' = EmptyEv

DoBStart(x, ord) ==
  /\ ~IsReg(x) /\ ops[x].st = "idle" /\ Cardinality(InFlight) < MaxInFlight
  /\ LET ep == ExistsPhysical(Cur, x)
         pre == Kind(x) = "lock" /\ EngineGet(Cur, Tgt(x)) = "ok" IN
       IF ep[2] # "ok" \/ ep[1]
         THEN LET c == IF ep[2] # "ok" THEN "fail" ELSE "ok" IN
              /\ res' = [c |-> c] /\ Accept(x, c, Cur, pre) /\ UNCHANGED ops
         ELSE /\ ops' = [ops EXCEPT ![x] = [st |-> "put", ord |-> ord, i |-> 1, good |-> <<>>, nm |-> {}, pre |-> pre]]
              /\ res' = [c |-> "started"] /\ UNCHANGED <<prot, rem>>
  /\ UNCHANGED <<cat, svars, mode, fput, fget, epoch, gcDone, rbm, ptl>> /\ ev' = EmptyEv

\* one shard step of the broadcast loop, or one shard of the rollback loop
DoBStep(x) ==
  /\ ops[x].st \in {"put", "rb"}
  /\ LET op == ops[x] IN
     IF op.st = "put"
       THEN LET s == op.ord[op.i]
                r == PutToShard(Cur, s, x)
                c == r[1]
                W == r[2]
                good == IF c \in {"ok", "exists"} THEN Append(op.good, s) ELSE op.good
                nm == IF c = "ok" /\ Kind(x) = "ts" /\ mark[s][Tgt(x)] # "def" THEN op.nm \cup {s} ELSE op.nm
            IN /\ Install(W)
               /\ IF Fatal(c) /\ good # <<>>
                    THEN /\ ops' = [ops EXCEPT ![x] = [op EXCEPT !.st = "rb", !.i = 1]]
                         /\ res' = [c |-> "started"] /\ UNCHANGED <<prot, rem>>
                    ELSE IF Fatal(c) \/ op.i = NS
                      THEN LET fc == IF Fatal(c) \/ good = <<>> THEN "fail" ELSE "ok" IN
                           /\ ops' = [ops EXCEPT ![x] = NoOp]
                           /\ res' = [c |-> fc] /\ Accept(x, fc, W, op.pre)
                      ELSE /\ ops' = [ops EXCEPT ![x] = [op EXCEPT !.i = @ + 1, !.good = good, !.nm = nm]]
                           /\ res' = [c |-> "started"] /\ UNCHANGED <<prot, rem>>
               /\ UNCHANGED rbm
       ELSE LET g == op.good[op.i]
                t == Tgt(x)
                W0 == ShardDelete(Cur, g, x)[2]
                undo == Kind(x) = "ts" /\ g \in op.nm /\ ~ReadOnly(Cur, g)
                W == IF undo /\ ~BugH6 THEN [W0 EXCEPT !.mark[g][t] = "none"] ELSE W0
            IN /\ Install(W)
               /\ rbm' = IF undo /\ BugH6 THEN [rbm EXCEPT ![g] = @ \cup {t}] ELSE rbm
               /\ IF op.i = Len(op.good)
                    THEN /\ ops' = [ops EXCEPT ![x] = NoOp] /\ res' = [c |-> "fail"]
                    ELSE /\ ops' = [ops EXCEPT ![x] = [op EXCEPT !.i = @ + 1]] /\ res' = [c |-> "started"]
               /\ UNCHANGED <<prot, rem>>
  /\ UNCHANGED <<cat, mode, fput, fget, epoch, gcDone, ptl>> /\ ev' = EmptyEv

DoDelete(x, mk) ==
  /\ IsReg(x) /\ InFlight = {}
  /\ LET r == AddrDelete(Cur, x, 1, FALSE, mk) IN
       /\ Install(r[2]) /\ res' = [c |-> r[1]]
       /\ rem' = IF r[1] = "ok" /\ mk = "def" THEN rem \cup {x} ELSE rem
       \* a removal that reported failure after changing some shard leaves the removal status undetermined
       /\ ptl' = IF r[1] # "ok" /\ r[2] # Cur THEN ptl \cup {x} ELSE ptl
  /\ UNCHANGED <<cat, mode, fput, fget, epoch, gcDone, ops, prot, rbm>> /\ ev' = EmptyEv

DoDrop(x) ==
  /\ IsReg(x) /\ InFlight = {}
  /\ LET r == AddrDelete(Cur, x, 1, TRUE, "def") IN
       /\ Install(r[2]) /\ res' = [c |-> r[1]]
       /\ rem' = IF r[1] = "ok" THEN rem \cup {x} ELSE rem
       /\ ptl' = IF r[1] # "ok" /\ r[2] # Cur THEN ptl \cup {x} ELSE ptl
  /\ UNCHANGED <<cat, mode, fput, fget, epoch, gcDone, ops, prot, rbm>> /\ ev' = EmptyEv

DoGC(s, ord) ==
  /\ LET r == GCPass(Cur, s, ord, gcDone[s]) IN
       /\ Install(r[1]) /\ gcDone' = [gcDone EXCEPT ![s] = r[2]]
  /\ res' = [c |-> "ok"]
  /\ UNCHANGED <<cat, mode, fput, fget, epoch, ops, prot, rem, rbm, ptl>> /\ ev' = EmptyEv

DoEpoch(e) ==
  /\ e > epoch /\ e <= MaxEpoch
  /\ InFlight = {}   \* explored scope: epochs tick between engine operations (see notes: lock over a tombstone of an expired target)
  /\ epoch' = e /\ res' = [c |-> "ok"]
  /\ UNCHANGED <<cat, svars, mode, fput, fget, gcDone, ops, prot, rem, rbm, ptl>> /\ ev' = EmptyEv

DoSetMode(s, m) ==
  /\ InFlight = {} /\ mode[s] # m
  /\ mode' = [mode EXCEPT ![s] = m] /\ res' = [c |-> "ok"]
  /\ UNCHANGED <<cat, svars, fput, fget, epoch, gcDone, ops, prot, rem, rbm, ptl>> /\ ev' = EmptyEv

DoFail(s, fp, fg) ==
  /\ InFlight = {} /\ (fput[s] # fp \/ fget[s] # fg)
  /\ fput' = [fput EXCEPT ![s] = fp] /\ fget' = [fget EXCEPT ![s] = fg] /\ res' = [c |-> "ok"]
  /\ UNCHANGED <<cat, svars, mode, epoch, gcDone, ops, prot, rem, rbm, ptl>> /\ ev' = EmptyEv

\* what the engine serves when the listed shards cannot be read (their blob reads fail)
Without(W, S) == [W EXCEPT !.fget = [s \in Shards |-> W.fget[s] \/ s \in S]]

\* IsLocked answers "e" (error) when it meets a degraded shard before a shard with the lock: that is "unknown", not a status
LockChanged(a, b) == a # "e" /\ b # "e" /\ a # b

DoEvacuate(q, ign, fh, fhe) ==
  /\ InFlight = {}
  /\ LET W0 == Cur
         srcs == SeqToSet(q)
         r == EvacuateF(W0, q, ign, fh, fhe)
         W1 == r.W
         roSrcs == {s \in srcs : W0.mode[s] = "ro"}
         avail == {x \in Ids : \E s \in roSrcs : ShardGet(W0, s, x, FALSE) = "ok"}
         remo == [x \in Ids |-> EngineGet(Without(W1, srcs), x)]
     IN /\ Install(W1)
        /\ res' = [c |-> IF r.fail THEN "fail" ELSE "ok", cnt |-> r.cnt, handled |-> r.handled,
                   rem |-> IF r.fail THEN <<>> ELSE remo]
        /\ ev' = IF r.fail THEN EmptyEv
                 ELSE [on |-> TRUE,
                       lost |-> {x \in avail \ SeqToSet(r.handled) : remo[x] # "ok"},
                       changed |-> {x \in Regs : EngineGet(W0, x) # EngineGet(W1, x)
                                                  \/ LockChanged(EngineIsLocked(W0, x, IdPerm), EngineIsLocked(W1, x, IdPerm))},
                       srcs |-> srcs]
  /\ UNCHANGED <<cat, mode, fput, fget, epoch, gcDone, ops, prot, rem, rbm, ptl>>

(* ------------------------------------------------------------------ events *)
Step(e) ==
  CASE e.ev = "Put" -> DoPut(e.o)
    [] e.ev = "BStart" -> DoBStart(e.o, e.ord)
    [] e.ev = "BStep" -> DoBStep(e.o)
    [] e.ev = "Delete" -> DoDelete(e.o, e.m)
    [] e.ev = "Drop" -> DoDrop(e.o)
    [] e.ev = "GC" -> DoGC(e.s, e.ord)
    [] e.ev = "Epoch" -> DoEpoch(e.ep)
    [] e.ev = "SetMode" -> DoSetMode(e.s, e.m)
    [] e.ev = "Fail" -> DoFail(e.s, e.fp, e.fg)
    [] e.ev = "Evacuate" -> DoEvacuate(e.srcs, e.ign, e.fh, e.fhe)

Obj(k, t, x, o) == [kind |-> k, tgt |-> t, exp |-> x, ord |-> o, pord |-> o]

\* catalogue families (object ids = positions)
Catalogues ==
  CASE CatSet = "c08" ->   \* 1 object, 1 lock (expires at MaxEpoch - 1), 1 tombstone
         {<<Obj("reg", 0, 0, IdPerm), Obj("lock", 1, MaxEpoch - 1, IdPerm), Obj("ts", 1, 0, IdPerm)>>}
    [] CatSet = "c08x" ->  \* 1 lock, 2 tombstones (objects with an expiration epoch of their own: see notes)
         {<<Obj("reg", 0, 0, IdPerm), Obj("lock", 1, MaxEpoch - 1, IdPerm), Obj("ts", 1, 0, IdPerm), Obj("ts", 1, 0, IdPerm)>>}
    [] CatSet = "c08g" ->  \* generator: all orders
         {<<Obj("reg", 0, 0, IdPerm), Obj("lock", 1, 2, p), Obj("ts", 1, 0, q), Obj("ts", 1, 0, q)>> : p \in Perms(NS), q \in Perms(NS)}

    [] CatSet = "c20" ->   \* plain object, EC part (put order by parent ID differs from read order), tombstone of the plain object
         {<<Obj("reg", 0, 0, IdPerm), [Obj("ec", 0, 0, IdPerm) EXCEPT !.pord = [i \in Shards |-> NS + 1 - i]], Obj("ts", 1, 0, IdPerm)>>}
    [] CatSet = "c20s" ->  \* plain object and its tombstone
         {<<Obj("reg", 0, 0, IdPerm), Obj("ts", 1, 0, IdPerm)>>}
    [] CatSet = "c20e" ->  \* expiring object and its tombstone
         {<<Obj("reg", 0, 1, IdPerm), Obj("ts", 1, 0, IdPerm)>>}
    [] CatSet = "c20x" ->  \* + expiring plain object
         {<<Obj("reg", 0, x, IdPerm), [Obj("ec", 0, 0, IdPerm) EXCEPT !.pord = [i \in Shards |-> NS + 1 - i]], Obj("ts", 1, 0, IdPerm)>> : x \in {0, 1}}
    [] CatSet = "c20g" ->
         {<<Obj("reg", 0, x, p), [Obj("ec", 0, 0, q) EXCEPT !.pord = r], Obj("ts", 1, 0, IdPerm), Obj("ts", 2, 0, IdPerm)>> :
              x \in {0, 1}, p \in Perms(NS), q \in Perms(NS), r \in Perms(NS)}
    [] CatSet = "c19s" ->  \* plain object, its lock, its tombstone
         {<<Obj("reg", 0, 0, IdPerm), Obj("lock", 1, 0, p), Obj("ts", 1, 0, q)>> : p \in Perms(NS), q \in Perms(NS)}
    [] CatSet = "c19t" ->  \* plain object, its lock, its tombstone; fixed orders
         {<<Obj("reg", 0, 0, IdPerm), Obj("lock", 1, 0, IdPerm), Obj("ts", 1, 0, [i \in Shards |-> NS + 1 - i])>>}
    [] CatSet = "c19l" ->  \* plain object, its lock, an EC part: nothing is ever removed
         {<<Obj("reg", 0, 0, IdPerm), Obj("lock", 1, 0, p), [Obj("ec", 0, 0, IdPerm) EXCEPT !.pord = [i \in Shards |-> NS + 1 - i]]>> : p \in Perms(NS)}
    [] CatSet = "c19" ->   \* plain object, lock on it, EC part, tombstone of the EC part
         {<<Obj("reg", 0, 0, IdPerm), Obj("lock", 1, 0, p), [Obj("ec", 0, 0, IdPerm) EXCEPT !.pord = [i \in Shards |-> NS + 1 - i]], Obj("ts", 3, 0, q)>> :
              p \in Perms(NS), q \in Perms(NS)}
    [] CatSet = "c19g" ->
         {<<Obj("reg", 0, 0, a), Obj("lock", 1, 0, p), [Obj("ec", 0, 0, IdPerm) EXCEPT !.pord = c], Obj("ts", 3, 0, [i \in Shards |-> NS + 1 - i])>> :
              a \in Perms(NS), c \in Perms(NS), p \in Perms(NS)}

SrcSeqs == {SetToSeq(S) : S \in (SUBSET Shards) \ {{}}}

Events ==
  (IF "Put" \in Ops THEN [ev : {"Put"}, o : Regs] ELSE {})
  \cup (IF "Bcast" \in Ops THEN [ev : {"BStart"}, o : Ids \ Regs, ord : Perms(NS)] \cup [ev : {"BStep"}, o : Ids \ Regs] ELSE {})
  \cup (IF "Delete" \in Ops THEN [ev : {"Delete"}, o : Regs, m : {"def"}] ELSE {})
  \cup (IF "DeleteRed" \in Ops THEN [ev : {"Delete"}, o : Regs, m : {"red"}] ELSE {})
  \cup (IF "Drop" \in Ops THEN [ev : {"Drop"}, o : Regs] ELSE {})
  \cup (IF "GC" \in Ops THEN [ev : {"GC"}, s : Shards, ord : Perms(NS)] ELSE {})
  \cup (IF "Epoch" \in Ops THEN [ev : {"Epoch"}, ep : 1..MaxEpoch] ELSE {})
  \cup (IF "SetMode" \in Ops THEN [ev : {"SetMode"}, s : Shards, m : Modes] ELSE {})
  \cup (IF "SetMode1" \in Ops THEN [ev : {"SetMode"}, s : {1}, m : Modes] ELSE {})   \* only shard 1 changes its mode
  \cup (IF "FailPut" \in Ops THEN [ev : {"Fail"}, s : Shards, fp : BOOLEAN, fg : {FALSE}] ELSE {})
  \cup (IF "FailGet" \in Ops THEN [ev : {"Fail"}, s : Shards, fp : {FALSE}, fg : BOOLEAN] ELSE {})
  \* fh = a fault handler is given, fhe = it returns an error
  \cup (IF "Evacuate" \in Ops THEN [ev : {"Evacuate"}, srcs : SrcSeqs, ign : BOOLEAN, fh : BOOLEAN, fhe : {FALSE}]
                                   \cup [ev : {"Evacuate"}, srcs : SrcSeqs, ign : BOOLEAN, fh : {TRUE}, fhe : {TRUE}] ELSE {})
  \cup (IF "EvacuateQ" \in Ops THEN [ev : {"Evacuate"}, srcs : SrcSeqs, ign : {FALSE}, fh : BOOLEAN, fhe : {FALSE}] ELSE {})   \* quick: errors never ignored

\* environment restriction used by the "repaired world" configuration
EnvOK(e) ==
  \* Evacuate of a shard that is not read-only is refused without any effect: not explored
  /\ (e.ev = "Evacuate" => \A i \in 1..Len(e.srcs) : mode[e.srcs[i]] # "rw")
  /\ (HealthyLock /\ e.ev = "BStart" /\ Kind(e.o) = "lock") => \A s \in Shards : mode[s] = "rw" /\ ~fput[s]

Init == \E c \in Catalogues : InitWith(c)
Next == \E e \in Events : EnvOK(e) /\ Step(e) /\ lastev' = e
Spec == Init /\ [][Next]_vars

\* schedules the harness can impose on the real engine (Put gates only): the rollback loop of a refused
\* broadcast is not interleaved with other events
RollingBack == {x \in Ids : ops[x].st = "rb"}
Replayable(e) == RollingBack # {} => (e.ev = "BStep" /\ e.o \in RollingBack)
NextR == \E e \in Events : EnvOK(e) /\ Replayable(e) /\ Step(e) /\ lastev' = e
SpecR == Init /\ [][NextR]_vars

(* ------------------------------------------------------------------ observation (compared with the real engine) *)
MarkCode(W, s, x) ==
  IF W.mark[s][x] = "none" THEN "n"
  ELSE IF W.mark[s][x] = "def" \/ InGarbage(W, s, x) = "ts" THEN "d" ELSE "r"

ObsShard(W, s) ==
  IF NoMeta(W, s)
    THEN [mode |-> W.mode[s], blob |-> SetToSeq(W.blob[s]), meta |-> <<>>, mark |-> [x \in Ids |-> "n"], bkt |-> FALSE]
    ELSE [mode |-> W.mode[s], blob |-> SetToSeq(W.blob[s]), meta |-> SetToSeq(W.meta[s]),
          mark |-> [x \in Ids |-> MarkCode(W, s, x)], bkt |-> W.bkt[s]]

ObsOf(W) == [get |-> [x \in Ids |-> EngineGet(W, x)],
             head |-> [x \in Ids |-> EngineHead(W, x)],
             lk |-> [x \in Ids |-> EngineIsLocked(W, x, IdPerm)],
             sh |-> [s \in Shards |-> ObsShard(W, s)]]

(* ------------------------------------------------------------------ properties *)
TypeOK ==
  /\ \A s \in Shards : meta[s] \subseteq Ids /\ blob[s] \subseteq Ids /\ mode[s] \in {"rw", "ro", "dro"}
  /\ epoch \in 0..MaxEpoch

\* ---- C08: an object locked through the engine stays retrievable until the lock expires
LockValid(l) == cat[l].exp = 0 \/ epoch <= cat[l].exp
Protected(o) == \E l \in prot : Tgt(l) = o /\ LockValid(l)

\* known finding H6: a garbage mark set on the object by a tombstone put that was rolled back
KF_H6(o) == \E s \in Shards : o \in rbm[s]
\* known finding "partial lock": the accepted, still valid lock is not stored on every shard
KF_PartialLock(o) == \E l \in prot : Tgt(l) = o /\ LockValid(l) /\ \E s \in Shards : l \notin meta[s]

C08Strict == \A o \in Regs : Protected(o) => EngineGet(Cur, o) = "ok"
C08Classified == \A o \in Regs : Protected(o) => EngineGet(Cur, o) = "ok" \/ KF_H6(o) \/ KF_PartialLock(o)
C08Class(o) == IF ~Protected(o) \/ EngineGet(Cur, o) = "ok" THEN "none"
               ELSE IF KF_H6(o) THEN "H6" ELSE IF KF_PartialLock(o) THEN "partial-lock" ELSE "unknown"

\* ---- C20: an engine read returns an object exactly when it is stored on some readable shard and not removed
StoredReadable(o) == \E s \in Shards : o \in blob[s] /\ ~fget[s]
ExpiredNow(o) == cat[o].exp > 0 /\ epoch > cat[o].exp
Removed(o) == o \in rem \/ ExpiredNow(o)
Ref(o) == StoredReadable(o) /\ ~Removed(o)
HasRemovalRecord(s, o) == (\E t \in meta[s] : Kind(t) = "ts" /\ Tgt(t) = o) \/ mark[s][o] = "def"
\* known finding "degraded": a shard without metabase serves blobs / triggers the second pass that ignores removal marks
KF_Degraded == \E s \in Shards : mode[s] = "dro"
\* known finding "partial removal": the accepted removal left a copy on a shard that could not record it
KF_PartialRemoval(o) == \E s \in Shards : o \in blob[s] /\ ~HasRemovalRecord(s, o)
C20Class(o, r) ==
  IF (r = "ok") = Ref(o) \/ o \in ptl THEN "none"
  ELSE IF r = "ok"                                  \* a removed object is served
    THEN (IF KF_Degraded THEN "degraded" ELSE IF o \in rem /\ KF_PartialRemoval(o) THEN "partial-removal" ELSE "unknown")
    ELSE (IF KF_H6(o) THEN "H6" ELSE "unknown")    \* a stored, not removed object is hidden
Quiescent == InFlight = {}
C20Classes == IF Quiescent THEN {C20Class(o, EngineGet(Cur, o)) : o \in Regs} \cup {C20Class(o, EngineHead(Cur, o)) : o \in Regs} ELSE {}
C20Strict == C20Classes \subseteq {"none"}
C20Classified == "unknown" \notin C20Classes

\* ---- C19: a successful evacuation keeps every available object available from the remaining shards,
\*           and changes nobody's removal / lock status (sources unchanged: they are read-only, checked on disk)
KF_PartialTS(o) == \E t \in Ids : Kind(t) = "ts" /\ Tgt(t) = o /\ (\E s \in Shards : t \in meta[s]) /\ (\E s \in Shards : t \notin meta[s])
C19Class(x) ==
  IF ~ev.on \/ (x \notin ev.lost /\ x \notin ev.changed) THEN "none"
  ELSE IF KF_H6(x) THEN "H6"
  ELSE IF IsReg(x) /\ (KF_PartialTS(x) \/ x \in rem) THEN "partial-removal"
  ELSE "unknown"
C19Classes == {C19Class(x) : x \in Ids}
C19Strict == C19Classes \subseteq {"none"}
C19Classified == "unknown" \notin C19Classes

(* ------------------------------------------------------------------ witness search
   NoScenario is expected to FAIL: TLC's shortest counterexample (events in lastev) is a script replayed on the
   real engine.  Scenarios are the listed findings and situations in which a specific branch decides. *)
LastIs(k) == lastev.ev = k
ScenarioHit ==
  /\ InFlight = {}
  /\ CASE Scenario = "H6" ->          \* a locked object lost through a rolled-back tombstone
             \E o \in Regs : Protected(o) /\ EngineGet(Cur, o) # "ok" /\ KF_H6(o) /\ ~KF_PartialLock(o)
        [] Scenario = "H6seq" ->       \* same, lock missing on a shard
             \E o \in Regs : Protected(o) /\ EngineGet(Cur, o) # "ok" /\ KF_H6(o) /\ LastIs("GC")
        [] Scenario = "lock-expired" ->      \* the lock expired, the object was then removed by a tombstone and GC
             LastIs("GC") /\ \E l \in prot : ~LockValid(l) /\ \A s \in Shards : Tgt(l) \notin blob[s] /\ l \notin meta[s]
        [] Scenario = "second-tombstone" ->  \* a tombstone refused although its target already carries a garbage mark
             LastIs("BStep") /\ res.c = "fail" /\ Kind(lastev.o) = "ts"
               /\ \E s \in Shards : mark[s][Tgt(lastev.o)] = "def" /\ LockedAt(Cur, s, Tgt(lastev.o), epoch)
        [] Scenario = "lock-refused" ->      \* a lock refused because its target is tombstoned on some shard, rolled back
             LastIs("BStep") /\ res.c = "fail" /\ Kind(lastev.o) = "lock" /\ (\E s \in Shards : \E t \in meta[s] : Kind(t) = "ts")
               /\ \A s \in Shards : lastev.o \notin meta[s]
        [] Scenario = "degraded-read" ->     \* C20: a removed object served because some shard is degraded
             "degraded" \in C20Classes
        [] Scenario = "partial-removal" ->   \* C20: a removed object served by a shard that missed the removal
             "partial-removal" \in C20Classes
        [] Scenario = "removed-behind-degraded" ->  \* C20: the shard that knows the tombstone follows a degraded one in HRW order
             \E o \in Regs : EngineGet(Cur, o) = "removed" /\ mode[cat[o].ord[1]] = "dro" /\ (\E s \in Shards : o \in blob[s] /\ mode[s] # "dro")
        [] Scenario = "put-after-tombstone" ->      \* C20: Put of an object whose tombstone is stored on a later shard only is refused
             LastIs("Put") /\ res.c = "fail" /\ lastev.o \in rem
               /\ \E t \in Ids : Kind(t) = "ts" /\ Tgt(t) = lastev.o /\ t \notin meta[cat[lastev.o].pord[1]] /\ mode[cat[lastev.o].pord[1]] = "rw"
                                  /\ (\E s \in Shards : t \in meta[s])
        [] Scenario = "second-pass" ->       \* C20: Get succeeds only in the second (metadata-less) pass
             \E o \in Regs : EngineGet(Cur, o) = "ok" /\ EngineHead(Cur, o) # "ok" /\ Ref(o)
        [] Scenario = "two-copies-removed" ->  \* C20: Delete has to mark both copies of an object
             LastIs("Delete") /\ res.c = "ok" /\ \E o \in Regs : Cardinality({s \in Shards : mark[s][o] = "def" /\ o \in blob[s]}) >= 2
        [] Scenario = "ev-lock-moved" ->     \* C19: evacuation moved a lock and its target
             ev.on /\ res.cnt >= 2 /\ \E l \in Ids : Kind(l) = "lock" /\ (\E s \in ev.srcs : l \in meta[s]) /\ (\E s \in Shards \ ev.srcs : l \in meta[s])
        [] Scenario = "ev-handler" ->        \* C19: the fault handler took an object
             ev.on /\ res.handled # <<>>
        [] Scenario = "ev-lock-travels" ->   \* C08: the only copy of a LOCK and its target are moved together
             ev.on /\ res.cnt = 2 /\ (\A s \in Shards : \A t \in meta[s] : Kind(t) # "ts")
               /\ \E l \in Ids : Kind(l) = "lock" /\ (\E s \in ev.srcs : l \in meta[s] /\ Tgt(l) \in blob[s])
                                   /\ (\E s \in Shards \ ev.srcs : l \in meta[s] /\ Tgt(l) \in blob[s])
        [] Scenario = "ev-two-sources" ->    \* C19: an object held by two evacuated shards (and by no other) is moved
             ev.on /\ Cardinality(ev.srcs) >= 2 /\ res.cnt >= 1
               /\ \E x \in Ids : Cardinality({s \in ev.srcs : x \in blob[s]}) >= 2 /\ Cardinality({s \in Shards \ ev.srcs : x \in blob[s]}) = 1
                                  /\ cat[x].pord[NS] \notin ev.srcs      \* every source meets the other source first
                                  /\ res.cnt = Cardinality({y \in Ids : \E s \in Shards \ ev.srcs : y \in blob[s]})
        [] Scenario = "ev-handler-error" ->  \* C19: the fault handler refuses an object although errors are ignored => evacuation fails
             LastIs("Evacuate") /\ lastev.fhe /\ lastev.ign /\ res.c = "fail"
        [] Scenario = "ev-partial-removal" -> "partial-removal" \in C19Classes
        [] OTHER -> FALSE
NoScenario == ~ScenarioHit
=============================================================================
