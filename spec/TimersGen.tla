----------------------------- MODULE TimersGen -----------------------------
(* Behaviour generator for M->C replay: Timers + a history of the events taken. *)
EXTENDS Timers, Json
CONSTANT GenLen
VARIABLE hist
GenInit == Init /\ hist = <<>>
GenNext == \E e \in Events : Step(e) /\ hist' = Append(hist, e)
GenSpec == GenInit /\ [][GenNext]_<<vars, hist>>
Emit == Len(hist) = GenLen => PrintT(<<"BEH", ToJson([steps |-> hist])>>)
=============================================================================
