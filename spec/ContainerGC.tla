---------------------------- MODULE ContainerGC ----------------------------
(* C47 - when does a storage node discard a container's objects?
   Three code paths, each a stateless decision per container (plus, for the shard path, a history of
   epoch events):
     engine   StorageEngine.Init -> deleteNotFoundContainers (engine/container.go):
              containerSource.Get(cnr); errors.As(err, ContainerNotFound) => InhumeContainer
     shard    Shard.setEpochEventHandler (shard/gc.go): payments enabled, UnpaidSince(cnr) without
              error, unpaidSince >= 0 and  ne.epoch - uint64(unpaidSince) >= 3  => DeleteContainer
     policer  Policer.processObject (policer/check.go): network.GetNodesForObject fails with an error
              for which containercore.IsErrNotFound holds => deleteLocalObject
   Inputs (the property's universe): epoch 0..10, unpaidSince -1..12, payments on/off, container source
   answer found / notFound / transient error, payment-check error yes/no.

   Deviation switch BugEpochWrap (hypothesis H1, reproduced):
     TRUE  = the code as it is: the subtraction is on uint64, so for unpaidSince > epoch it wraps to a
             huge number and the container is discarded;
     FALSE = repaired code (fixes/C47-unpaid-epoch-wrap.diff): a mark newer than the processed epoch is
             skipped.                                                                                *)
EXTENDS Integers, Sequences, FiniteSets, TLC

CONSTANTS MaxEpoch,      \* epochs 0..MaxEpoch
          MaxUnpaid,     \* unpaidSince ranges over -1..MaxUnpaid (-1 = paid)
          HistLens,      \* lengths of epoch histories enumerated by the model for the shard path
          BugEpochWrap

Paths == {"engine", "shard", "policer"}
Sources == {"found", "notFound", "transient"}
Grace == 3                \* maxUnpaidEpochDelay

\* uint64(a) - uint64(b) >= k  for 0 <= a, b < 2^31 and small k: if a < b the difference wraps to
\* 2^64 - (b - a), which is >= k  (TLC integers are 32-bit, so the wrapped value itself is not built)
Sub64Ge(a, b, k) == IF a >= b THEN a - b >= k ELSE TRUE

-----------------------------------------------------------------------------
(* the code *)

\* one setEpochEventHandler(e) call, for one container
ShardStep(e, unpaid, payOn, payErr) ==
  /\ payOn                      \* !PaymentsDisabled()
  /\ ~payErr                    \* UnpaidSince returned no error
  /\ unpaid >= 0
  /\ IF BugEpochWrap THEN Sub64Ge(e, unpaid, Grace)
     ELSE unpaid <= e /\ e - unpaid >= Grace

\* errors.As(err, new(apistatus.ContainerNotFound)) on the source's answer
IsNotFound(src) == src = "notFound"

Discard(in) ==
  CASE in.path = "engine" -> IsNotFound(in.src)
    [] in.path = "policer" -> IsNotFound(in.src)
    [] in.path = "shard" -> \E i \in DOMAIN in.epochs : ShardStep(in.epochs[i], in.unpaid, in.pay_on, in.pay_err)

-----------------------------------------------------------------------------
(* the property *)

LongUnpaidAt(e, in) ==
  in.pay_on /\ ~in.pay_err /\ 0 <= in.unpaid /\ in.unpaid <= e /\ e - in.unpaid >= Grace
Allowed(in) == in.src = "notFound" \/ \E i \in DOMAIN in.epochs : LongUnpaidAt(in.epochs[i], in)
Prop(in, discarded) == discarded => Allowed(in)

\* known-finding class: shard path, payments on and answered, some processed epoch is older than the mark
KFEpochWrap(in) ==
  /\ in.path = "shard" /\ in.pay_on /\ ~in.pay_err
  /\ \E i \in DOMAIN in.epochs : in.unpaid > in.epochs[i]
PropOrKF(in, discarded) == Prop(in, discarded) \/ (BugEpochWrap /\ KFEpochWrap(in))

-----------------------------------------------------------------------------
(* exhaustive model over the universe *)
VARIABLES inp, phase, disc
vars == <<inp, phase, disc>>

Epochs == 0..MaxEpoch
Hists == UNION {[1..k -> Epochs] : k \in HistLens}

Init ==
  /\ inp \in [path : Paths, epochs : Hists, unpaid : -1..MaxUnpaid, pay_on : BOOLEAN,
              src : Sources, pay_err : BOOLEAN]
  /\ (inp.path # "shard" => Len(inp.epochs) = 1)
  /\ phase = "in" /\ disc = FALSE
Decide == phase = "in" /\ phase' = "out" /\ disc' = Discard(inp) /\ UNCHANGED inp
Next == Decide
Spec == Init /\ [][Next]_vars

PropertyHolds == phase = "out" => PropOrKF(inp, disc)
\* the finding class is exactly where the pure property fails
KFExact == phase = "out" => (Prop(inp, disc) <=> ~(BugEpochWrap /\ KFEpochWrap(inp) /\ ~Allowed(inp)))
\* not part of C47 but keeps the model honest: the legal discards do happen
DiscardsWhenDue == phase = "out" =>
  /\ (inp.path \in {"engine", "policer"} /\ inp.src = "notFound") => disc
  /\ (inp.path = "shard" /\ \E i \in DOMAIN inp.epochs : LongUnpaidAt(inp.epochs[i], inp)) => disc
=============================================================================
