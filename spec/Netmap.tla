------------------------------- MODULE Netmap -------------------------------
(* C38 - pkg/innerring/processors/netmap: process_peers.go (processAddNode),
   nodevalidation/validator.go (CompositeValidator), process_epoch.go (processNewEpoch,
   processNewEpochTick).

   Part 1 (stateless decision): admission of a network map candidate.
     AdmitCode  - the decision as the code takes it (guard, script test run, conversion, validators
                  one after another with return at the first error);
     AdmitRef   - the property as stated: approve iff alphabet /\ request tx valid /\ EVERY
                  configured validator accepts.
   Part 2 (histories): epoch counter, NewEpoch notifications, epoch timer ticks, changes of the
     alphabet membership. Implementation state: counter (Server.epochCounter), alpha (what
     IsAlphabet answers: "yes", "no", "err" = index lookup fails). Output of a step: calls = the
     epochs passed to netmap.newEpoch during the step. Monitor: chainEpoch = the epoch the chain
     last announced (or the one read at start-up).                                              *)
EXTENDS Integers, Sequences, FiniteSets, TLC

CONSTANTS MaxEpoch         \* epochs range over 0..MaxEpoch

\* validator names in configuration order (must equal vnames in harness/cmd/irproc/c38.go)
VNames == <<"state", "structure", "domains", "locode", "ext">>

VSet == {VNames[i] : i \in 1..Len(VNames)}

-----------------------------------------------------------------------------
(* Part 1 *)
RECURSIVE Composite(_, _)
Composite(cfg, verdict) ==
  IF cfg = <<>> THEN TRUE
  ELSE IF ~verdict[Head(cfg)] THEN FALSE
  ELSE Composite(Tail(cfg), verdict)

\* processAddNode
AdmitCode(in) ==
  IF in.alpha # "yes" THEN FALSE                 \* !IsAlphabet(): lookup error counts as "no"
  ELSE IF in.script # "halt" THEN FALSE          \* IsValidScript: err != nil || !ok
  ELSE IF ~in.parse THEN FALSE                   \* Node2Info
  ELSE Composite(in.cfg, in.verdict)             \* nodeValidator.Verify

AdmitRef(in) ==
  /\ in.alpha = "yes"
  /\ in.script = "halt"
  /\ in.parse
  /\ \A i \in 1..Len(in.cfg) : in.verdict[in.cfg[i]]

\* the listed property (only-if direction)
AdmitProp(in, approve) ==
  approve => /\ in.alpha = "yes"
             /\ in.script = "halt"
             /\ \A i \in 1..Len(in.cfg) : in.verdict[in.cfg[i]]

\* all sub-sequences of VNames (configurations keep the configuration order)
RECURSIVE SubSeqs(_)
SubSeqs(s) == IF s = <<>> THEN {<<>>}
              ELSE LET r == SubSeqs(Tail(s)) IN r \cup {<<Head(s)>> \o x : x \in r}

AdmInputs == [alpha : {"yes", "no", "err"}, script : {"halt", "fault", "err"}, parse : BOOLEAN,
              cfg : SubSeqs(VNames), verdict : [VSet -> BOOLEAN]]

-----------------------------------------------------------------------------
(* Part 2 *)
VARIABLES counter, alpha, calls,      \* implementation state / output
          chainEpoch, lastEv,         \* monitors
          ain, aout                   \* part 1: chosen input and decision ("none" before the step)
vars == <<counter, alpha, calls, chainEpoch, lastEv, ain, aout>>

Alphas == {"yes", "no", "err"}

NoAdm == [alpha |-> "no", script |-> "err", parse |-> FALSE, cfg |-> <<>>, verdict |-> [v \in VSet |-> FALSE]]

InitVals(e0, a) == [counter |-> e0, alpha |-> a, calls |-> <<>>, chainEpoch |-> e0, lastEv |-> "Init"]
SetAll(v) == /\ counter' = v.counter /\ alpha' = v.alpha /\ calls' = v.calls
             /\ chainEpoch' = v.chainEpoch /\ lastEv' = v.lastEv

InitTick == /\ \E e0 \in 0..MaxEpoch, a \in Alphas :
                 /\ counter = e0 /\ alpha = a /\ chainEpoch = e0
            /\ calls = <<>> /\ lastEv = "Init"
            /\ ain = NoAdm /\ aout = "none"

\* handleNewEpoch -> processNewEpoch: SetEpochCounter(ev.EpochNumber()); never sends newEpoch.
\* fail = which chain read inside processNewEpoch fails (epoch duration, tx height, network map): the epoch
\* counter follows the notification in every case - a failed read must not keep the node in the old epoch.
Fails == {"none", "netmap", "height", "duration"}
DoNewEpoch(e) ==
  /\ counter' = e
  /\ chainEpoch' = e
  /\ calls' = <<>>
  /\ lastEv' = "NewEpoch"
  /\ UNCHANGED alpha

\* HandleNewEpochTick -> processNewEpochTick
DoTick ==
  /\ calls' = IF alpha # "yes" THEN <<>> ELSE <<counter + 1>>
  /\ lastEv' = "Tick"
  /\ UNCHANGED <<counter, alpha, chainEpoch>>

\* the committee changes / the lookup starts or stops failing
DoSetAlpha(a) ==
  /\ alpha' = a
  /\ calls' = <<>>
  /\ lastEv' = "SetAlpha"
  /\ UNCHANGED <<counter, chainEpoch>>

TickEvents == [ev : {"NewEpoch"}, e : 0..MaxEpoch, fail : Fails] \cup [ev : {"Tick"}] \cup [ev : {"SetAlpha"}, a : Alphas]

Step(e) == CASE e.ev = "NewEpoch" -> DoNewEpoch(e.e)
             [] e.ev = "Tick" -> DoTick
             [] e.ev = "SetAlpha" -> DoSetAlpha(e.a)

NextTick == (\E e \in TickEvents : Step(e)) /\ UNCHANGED <<ain, aout>>
SpecTick == InitTick /\ [][NextTick]_vars

\* C38 epoch half: an alphabet node asks for exactly chainEpoch+1 at its tick, exactly once; nobody
\* else asks; nothing is asked outside a tick.
TickRule ==
  /\ lastEv = "Tick" /\ alpha = "yes" => calls = <<chainEpoch + 1>>
  /\ lastEv = "Tick" /\ alpha # "yes" => calls = <<>>
  /\ lastEv # "Tick" => calls = <<>>
CounterFollowsChain == counter = chainEpoch

-----------------------------------------------------------------------------
(* Part 1 as a two-state model so that TLC enumerates every abstract input *)
InitAdm == /\ ain \in AdmInputs /\ aout = "none"
           /\ counter = 0 /\ alpha = "no" /\ calls = <<>> /\ chainEpoch = 0 /\ lastEv = "Init"
NextAdm == /\ aout = "none"
           /\ aout' = IF AdmitCode(ain) THEN "yes" ELSE "no"
           /\ UNCHANGED <<ain, counter, alpha, calls, chainEpoch, lastEv>>
SpecAdm == InitAdm /\ [][NextAdm]_vars

AdmCodeIsRef == aout # "none" => ((aout = "yes") = AdmitRef(ain))
AdmProperty  == aout # "none" => AdmitProp(ain, aout = "yes")
=============================================================================
