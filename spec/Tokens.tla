------------------------------- MODULE Tokens -------------------------------
(* C30 - session and bearer tokens are honoured only when valid for the request.

   Anchors: pkg/services/object/acl/v2/service.go (VerifySessionV1TokenMessage,
            VerifySessionTokenMessage, VerifyBearerTokenMessage, decodeAndVerify*Common,
            verifySessionTokenAgainstRequest), util.go (assertVerb, assertSessionRelation),
            internal/crypto/tokens.go (AuthenticateToken, AuthenticateTokenV2),
            neofs-sdk-go session/v2 Token.Validate (delegation chain).

   Abstract token/request description `i` (the record the Go harness emits):
     kind    "v1" | "v2" | "bearer"
     wf      the message decodes and its fields are structurally valid
     scheme  "sha512" | "rfc6979" | "wc" | "n3" | "unsupported"
     sig     "ok" | "bad": an ECDSA signature made by the issuer's key over exactly the body now carried
     n3ok    (scheme n3) the FS chain says the witness verifies for the issuer account
     iat, nbf, exp   lifetime claims (v1, bearer: epochs; v2: seconds)
     cur     (v1, bearer) current epoch;  nowMs (v2) chain time in milliseconds (same origin as claims)
     v1:  cnr (token container = request container), obj "any" | "in" | "notin" (token object list),
          objZero (request is not bound to an object), tv / rv token / request verb (SDK numbers)
     v2:  ctxs = sequence of [c: "wild" | "same" | "other", verbs: set of verb numbers], rv,
          chain = sequence of origin (delegating) tokens, outermost first:
                  [sig: "ok" | "bad", subj, narrow, verbs, final]
   `Honoured` is implementation-shaped; the P* operators restate the property.                *)
EXTENDS Integers, Sequences, FiniteSets, TLC

\* session.ObjectVerb / sessionv2.Verb numbering
VPut == 1  VGet == 2  VHead == 3  VSearch == 4  VDelete == 5  VRange == 6  VHash == 7
ObjVerbs == 1..7
MaxDelegationDepth == 4

SigOK(i) == CASE i.scheme \in {"sha512", "rfc6979", "wc"} -> i.sig = "ok"
              [] i.scheme = "n3" -> i.n3ok
              [] OTHER -> FALSE                         \* ErrUnsupportedScheme

(* session.Object.ExpiredAt / ValidAt, bearer.Token.ValidAt *)
EpochLifeOK(i) == i.nbf <= i.cur /\ i.iat <= i.cur /\ i.cur <= i.exp

(* assertVerb: the relaxations are a constant table *)
VerbOKV1(tv, rv) ==
  CASE rv = VHead   -> tv \in {VHead, VGet, VDelete, VRange}
    [] rv = VSearch -> tv \in {VSearch, VDelete}
    [] OTHER        -> tv = rv

(* assertSessionRelation *)
RelOKV1(i) == /\ i.cnr
              /\ (i.tv = VDelete \/ i.objZero \/ i.obj \in {"any", "in"})

(* VerifySessionTokenMessage: chain time rounded to the nearest second (Go time.Round, half up) *)
NowSec(i) == (i.nowMs + 500) \div 1000
TimeLifeAt(i, t) == i.iat <= t /\ i.nbf <= t /\ t <= i.exp
TimeLifeOK(i) == TimeLifeAt(i, NowSec(i))

(* sessionv2.Token.AssertVerb *)
Has(vs, v) == \E j \in 1..Len(vs) : vs[j] = v          \* verbs are sequences (JSON arrays)
CtxOK(i) == \E k \in 1..Len(i.ctxs) : i.ctxs[k].c \in {"wild", "same"} /\ Has(i.ctxs[k].verbs, i.rv)

(* Token.Validate + AuthenticateTokenV2 over the origin chain *)
ChainOK(ch) == /\ Len(ch) <= MaxDelegationDepth
               /\ \A k \in 1..Len(ch) : ch[k].sig = "ok" /\ ch[k].subj /\ ch[k].narrow /\ ch[k].verbs /\ ~ch[k].final

Honoured(i) ==
  CASE i.kind = "v1"     -> i.wf /\ SigOK(i) /\ EpochLifeOK(i) /\ RelOKV1(i) /\ VerbOKV1(i.tv, i.rv)
    [] i.kind = "bearer" -> i.wf /\ SigOK(i) /\ EpochLifeOK(i)
    [] i.kind = "v2"     -> i.wf /\ ChainOK(i.chain) /\ SigOK(i) /\ TimeLifeOK(i) /\ CtxOK(i)

(* What record validation demands of the real verdict.  How a sub-second chain time is mapped to the
   whole-second claims (the code rounds to the nearest second) is incidental: inside the second that
   contains `now` either neighbouring whole second may be used, everything else is exact.          *)
HonouredAt(i, t) == i.wf /\ ChainOK(i.chain) /\ SigOK(i) /\ TimeLifeAt(i, t) /\ CtxOK(i)
Admissible(i, ok) ==
  IF i.kind = "v2"
    THEN \E t \in {i.nowMs \div 1000, (i.nowMs + 999) \div 1000} : ok = HonouredAt(i, t)
    ELSE ok = Honoured(i)

-----------------------------------------------------------------------------
(* Declarative side *)
\* request verbs a V1 token verb authorises: itself plus the read-only helpers its operation needs
Implied(tv) == CASE tv = VGet    -> {VGet, VHead}
                 [] tv = VDelete -> {VDelete, VHead, VSearch}
                 [] tv = VRange  -> {VRange, VHead}
                 [] OTHER        -> {tv}
ReadOnly == {VGet, VHead, VSearch, VRange, VHash}

PVerbTable == \A tv \in 0..8, rv \in ObjVerbs :
                /\ VerbOKV1(tv, rv) = (rv \in Implied(tv))
                /\ (rv \in {VPut, VDelete} /\ VerbOKV1(tv, rv)) => tv = rv   \* a mutating request needs its own verb
                /\ (VerbOKV1(tv, rv) /\ tv # rv) => rv \in ReadOnly /\ tv \in ObjVerbs
ASSUME PVerbTable

\* the property: honoured => signed, in its validity period, applicable
PHonouredOnlyIf(i) ==
  Honoured(i) =>
    /\ i.wf /\ SigOK(i)
    /\ i.kind \in {"v1", "bearer"} => (i.nbf <= i.cur /\ i.cur <= i.exp)
    /\ i.kind = "v2" => (i.nbf <= NowSec(i) /\ NowSec(i) <= i.exp
                         /\ \A k \in 1..Len(i.chain) : i.chain[k].sig = "ok")
    /\ i.kind = "v1" => (i.cnr /\ i.rv \in Implied(i.tv) /\ (i.obj = "notin" => (i.objZero \/ i.tv = VDelete)))
    /\ i.kind = "v2" => \E k \in 1..Len(i.ctxs) : i.ctxs[k].c # "other" /\ Has(i.ctxs[k].verbs, i.rv)
\* any change of a signed field (sig becomes "bad" under an ECDSA scheme) makes the token rejected
PSignedFieldChange(i) == i.scheme \in {"sha512", "rfc6979", "wc"} => ~Honoured([i EXCEPT !.sig = "bad"])
\* a token valid now stays rejected outside [nbf, exp]
PWindow(i) == (i.kind \in {"v1", "bearer"} /\ Honoured(i)) =>
                 /\ ~Honoured([i EXCEPT !.cur = i.exp + 1])
                 /\ (i.nbf > 0 => ~Honoured([i EXCEPT !.cur = i.nbf - 1]))

-----------------------------------------------------------------------------
(* Model: exhaustive universe of abstract inputs, seeds expanded in one step (see ACL.tla) *)
CONSTANTS Epochs,     \* values of cur (epochs); claims range over cur-1..cur+1
          Big         \* TRUE: full verb x relation product for every authentication class
VARIABLES inp, ph
vars == <<inp, ph>>

AuthU == [wf : BOOLEAN, scheme : {"sha512", "rfc6979", "wc", "n3", "unsupported"}, sig : {"ok", "bad"}, n3ok : BOOLEAN]
GoodAuth == {[wf |-> TRUE, scheme |-> "sha512", sig |-> "ok", n3ok |-> FALSE]}
Around(c) == {x \in {c - 1, c, c + 1} : x >= 0}
LifeU(c) == [iat : Around(c), nbf : Around(c), exp : Around(c)]
GoodLife(c) == {[iat |-> c, nbf |-> c, exp |-> c]}
RelU == [cnr : BOOLEAN, obj : {"any", "in", "notin"}, objZero : BOOLEAN, tv : 0..8, rv : ObjVerbs]
GoodRel == {[cnr |-> TRUE, obj |-> "any", objZero |-> FALSE, tv |-> VGet, rv |-> VGet]}

MkV1(a, c, lf, r) == [kind |-> "v1", wf |-> a.wf, scheme |-> a.scheme, sig |-> a.sig, n3ok |-> a.n3ok, cur |-> c,
                      iat |-> lf.iat, nbf |-> lf.nbf, exp |-> lf.exp, cnr |-> r.cnr, obj |-> r.obj, objZero |-> r.objZero,
                      tv |-> r.tv, rv |-> r.rv]
MkBearer(a, c, lf) == [kind |-> "bearer", wf |-> a.wf, scheme |-> a.scheme, sig |-> a.sig, n3ok |-> a.n3ok, cur |-> c,
                       iat |-> lf.iat, nbf |-> lf.nbf, exp |-> lf.exp]

NowU == {-1500, -1000, -501, -500, -499, -1, 0, 1, 499, 500, 501, 999, 1000, 1499, 1500}
SecU == [iat : -1..1, nbf : -1..1, exp : -1..1]
VerbSets == {<< >>, <<VGet>>, <<VHead>>, <<VGet, VHead>>, <<VPut, VDelete>>, <<1, 2, 3, 4, 5, 6, 7>>, <<8, 9>>}
CtxU == [c : {"wild", "same", "other"}, verbs : VerbSets]
CtxsU == {<<a>> : a \in CtxU} \cup {<<a, b>> : a \in CtxU, b \in [c : {"same", "other"}, verbs : {<<VGet>>, <<VPut, VDelete>>}]}
Layer(s, su, n, v, f) == [sig |-> s, subj |-> su, narrow |-> n, verbs |-> v, final |-> f]
GoodLayer == Layer("ok", TRUE, TRUE, TRUE, FALSE)
LayerU == [sig : {"ok", "bad"}, subj : BOOLEAN, narrow : BOOLEAN, verbs : BOOLEAN, final : BOOLEAN]
ChainU == {<< >>} \cup {<<a>> : a \in LayerU} \cup {<<GoodLayer, a>> : a \in LayerU} \cup {<<a, GoodLayer>> : a \in LayerU}
          \cup {<<GoodLayer, GoodLayer, GoodLayer, GoodLayer>>, <<GoodLayer, GoodLayer, GoodLayer, GoodLayer, GoodLayer>>}
MkV2(a, now, lf, cx, rv, ch) == [kind |-> "v2", wf |-> a.wf, scheme |-> a.scheme, sig |-> a.sig, n3ok |-> a.n3ok, nowMs |-> now,
                                 iat |-> lf.iat, nbf |-> lf.nbf, exp |-> lf.exp, ctxs |-> cx, rv |-> rv, chain |-> ch]
GoodCtxs == {<<[c |-> "same", verbs |-> <<VGet>>]>>}

\* seeds are <<slice, authentication class>> so that TLC workers share the enumeration
Seeds == ({"v1-auth", "bearer", "v2-life"} \X AuthU)
         \cup ({"v1-rel"} \X (IF Big THEN AuthU ELSE GoodAuth))
         \cup ({"v2-ctx"} \X GoodAuth)
         \cup ({"v2-chain"} \X [wf : {TRUE}, scheme : {"sha512"}, sig : {"ok", "bad"}, n3ok : {FALSE}])
Expand(sd) ==
  LET s == sd[1] a == sd[2] IN
  CASE s = "v1-auth" -> UNION {{MkV1(a, c, lf, r) : lf \in LifeU(c), r \in GoodRel} : c \in Epochs}
    [] s = "v1-rel"  -> UNION {{MkV1(a, c, lf, r) : lf \in GoodLife(c), r \in RelU} : c \in Epochs}
    [] s = "bearer"  -> UNION {{MkBearer(a, c, lf) : lf \in LifeU(c)} : c \in Epochs}
    [] s = "v2-life" -> {MkV2(a, now, lf, cx, VGet, << >>) : now \in NowU, lf \in SecU, cx \in GoodCtxs}
    [] s = "v2-ctx"  -> {MkV2(a, 0, [iat |-> 0, nbf |-> 0, exp |-> 0], cx, rv, << >>) : cx \in CtxsU, rv \in ObjVerbs}
    [] s = "v2-chain"-> {MkV2(a, 0, [iat |-> 0, nbf |-> 0, exp |-> 0], cx, VGet, ch) : cx \in GoodCtxs, ch \in ChainU}

Init == ph = 0 /\ inp \in Seeds
Next == ph = 0 /\ ph' = 1 /\ inp' \in Expand(inp)
Spec == Init /\ [][Next]_vars

InvHonouredOnlyIf    == ph = 1 => PHonouredOnlyIf(inp)
InvSignedFieldChange == ph = 1 => PSignedFieldChange(inp)
InvWindow            == ph = 1 => PWindow(inp)
InvType              == ph = 1 => Honoured(inp) \in BOOLEAN /\ Admissible(inp, Honoured(inp))
=============================================================================
