SPECIFICATION Spec
CONSTANTS
  N = 4
  D = 1
  P = 1
INVARIANTS SuccessIffEnoughNodes DistinctAcceptingNodes PlacedOnAccepting OneTryPerNode
CHECK_DEADLOCK FALSE
