SPECIFICATION Spec
CONSTANTS
  N = 4
  ClientChecksMembership = FALSE
INVARIANTS NonMembersSilent
CHECK_DEADLOCK FALSE
