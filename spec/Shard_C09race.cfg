SPECIFICATION Spec
CONSTANTS
  Objs = {1, 3}
  WCs = {TRUE}
  Batches = {2}
  MaxEpoch = 3
  Ops = {"Put", "GC", "Flush", "Epoch", "MarkDef", "Resync", "FlushRace"}
  Faults = {"crash"}
  Modes = {}
  BugH9 = TRUE
  BugH10 = TRUE
  BugMetaStale = TRUE
  BugH11 = FALSE
  KRounds = 12
INVARIANTS TypeOK C09ModKF C15ModKF
VIEW ExhView
CHECK_DEADLOCK FALSE
