\* C08 thorough, 3 shards, code as is: LOCK || TOMBSTONE in every visiting order, one shard may be read-only
SPECIFICATION Spec
CONSTANTS
  NS = 3
  MaxEpoch = 1
  BugH6 = TRUE
  CatSet = "c08"
  Ops = {"Put", "Bcast", "GC", "SetMode1"}
  Modes = {"rw", "ro"}
  HealthyLock = FALSE
  MaxInFlight = 2
  Scenario = "none"
INVARIANTS TypeOK C08Classified
VIEW ViewNoRes
CHECK_DEADLOCK FALSE
