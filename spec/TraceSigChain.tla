--------------------------- MODULE TraceSigChain ---------------------------
(* C33 record validation: for every record {in, out} produced by the real
   internal/crypto.VerifyRequestSignatures*: out.ok = Accept(in); and, for steps of TLC-generated
   manipulation scripts, out.ok = the verdict of the structural model (in.model). *)
EXTENDS SigChain, Json
Recs == ndJsonDeserialize("trace.ndjson")
VARIABLE l
TraceInit == l = 1 /\ req = 0 /\ steps = 0
TraceNext == l <= Len(Recs) /\ l' = l + 1 /\ UNCHANGED <<req, steps>>
TraceSpec == TraceInit /\ [][TraceNext]_<<l, req, steps>>
Good(r) == /\ Accept(r.in) = r.out.ok
           /\ r.in.model # "none" => (r.out.ok = (r.in.model = "accept"))
RecOK == l > Len(Recs) \/ Good(Recs[l])
CONSTANT ListBad
BadRecs == {i \in 1..Len(Recs) : ~Good(Recs[i])}
ASSUME ListBad => PrintT(<<"BADRECS", BadRecs>>)
=============================================================================
