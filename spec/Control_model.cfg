SPECIFICATION Spec
CONSTANTS
  Strict = TRUE
INVARIANTS C32_NoSideEffectUnlessAuthorised C32_RejectedUnlessAuthorised GroundTruthConsistent
CHECK_DEADLOCK FALSE
