------------------------------- MODULE Control -------------------------------
(* C32 - pkg/services/control/server (storage node) and pkg/services/control/ir/server (inner ring):
   every control call is   Call(srv, m, sig) -> isValidRequest -> [handler: Dep* / Change] -> Reply.

     Call(srv, m, sig, auth)  sig  = how the request was signed: none | wrongkey | keymismatch | badsig |
                                     emptysig | garbage | badbody | ownkey | valid | valid2 | replay
                              auth = GROUND TRUTH: the request carries a valid signature, over its body, of a
                                     configured administrator key (for the inner ring the server's own key is
                                     white-listed by construction of ir/server.New)
     Dep(name)                a recording dependency was called (health checker, node state, notary manager,
                              blobstor of the real engine)
     Change                   the state digest (shard modes, object status in every shard, listing, files)
                              differs after the call
     Reply(kind, resp)        kind = ok | denied (gRPC PermissionDenied) | error (anything else); resp = a
                              response message / stream element was produced

   Strict = TRUE : the handler part is reachable only for an authorised call (model, explored exhaustively).
   Strict = FALSE: no guard, the monitors record; recorded traces of the real servers are judged by the
                   invariants.                                                                          *)
EXTENDS Integers, Sequences, FiniteSets, TLC

CONSTANT Strict

Servers == {"node", "ir"}
SigClasses == {"none", "wrongkey", "keymismatch", "badsig", "emptysig", "garbage", "badbody", "ownkey", "valid", "valid2", "replay"}
\* "replay": the administrator's key with a signature that was valid for an EARLIER request of the same server instance;
\* it authorises the present request iff it covers exactly the same bytes (the signature covers the body only) - the
\* harness computes that (auth), the spec cannot derive it from the class name
\* ground truth used in the exhaustive run (the harness computes the same for the recorded calls)
Authorised(srv, sig) == sig \in {"valid", "valid2"} \/ (sig = "ownkey" /\ srv = "ir")

VARIABLES pc, srv, sig, auth,
          touched,     \* a dependency was called or the state changed during the current call
          kind, resp   \* reply
vars == <<pc, srv, sig, auth, touched, kind, resp>>

Init == pc = "idle" /\ srv = "node" /\ sig = "valid" /\ auth = TRUE /\ touched = FALSE /\ kind = "ok" /\ resp = FALSE

G(g) == Strict => g

Call(e) == /\ pc \in {"idle", "done"}
           /\ pc' = "run" /\ srv' = e.srv /\ sig' = e.sig /\ auth' = e.auth
           /\ touched' = FALSE /\ kind' = "ok" /\ resp' = FALSE
Touch(e) == /\ pc = "run"
            /\ G(auth)
            /\ touched' = TRUE
            /\ UNCHANGED <<pc, srv, sig, auth, kind, resp>>
Reply(e) == /\ pc = "run"
            /\ G(IF auth THEN e.kind # "denied" ELSE e.kind = "denied" /\ ~e.resp)
            /\ pc' = "done" /\ kind' = e.kind /\ resp' = e.resp
            /\ UNCHANGED <<srv, sig, auth, touched>>

Step(e) == CASE e.ev = "Call"   -> Call(e)
             [] e.ev = "Dep"    -> Touch(e)
             [] e.ev = "Change" -> Touch(e)
             [] e.ev = "Reply"  -> Reply(e)

CallEvents == {[ev |-> "Call", srv |-> s, m |-> "any", sig |-> c, auth |-> Authorised(s, c)] : s \in Servers, c \in SigClasses \ {"replay"}}
              \cup {[ev |-> "Call", srv |-> s, m |-> "any", sig |-> "replay", auth |-> a] : s \in Servers, a \in BOOLEAN}
RunEvents == [ev : {"Dep"}, name : {"dep"}] \cup {[ev |-> "Change"]}
             \cup [ev : {"Reply"}, kind : {"ok", "denied", "error"}, resp : BOOLEAN]
Next == \/ pc = "idle" /\ \E e \in CallEvents : Step(e)
        \/ pc = "run" /\ \E e \in RunEvents : Step(e)
Spec == Init /\ [][Next]_vars

\* C32
C32_NoSideEffectUnlessAuthorised == touched => auth
C32_RejectedUnlessAuthorised == (pc = "done" /\ ~auth) => (kind # "ok" /\ ~resp)
\* the ground truth of the recorded call agrees with the spec's table
GroundTruthConsistent == (pc # "idle" /\ sig # "replay") => (auth = Authorised(srv, sig))
=============================================================================
