----------------------------- MODULE EngineList -----------------------------
(* C06, engine half - pkg/local_object_storage/engine/list.go: StorageEngine.ListWithCursor merges the
   per-shard listings (each shard lists what Metabase.tla's Listed says) in WHATEVER order the shards are
   visited. Code-shaped: every shard returns its first n ids after the cursor, mergeListResults merges
   two sorted lists truncating at n and accumulating holder shards. Reference (property): the page is the
   first n ids, in order, of the union after the cursor, each exactly once, with ALL shards listing it
   recorded as holders; the listing ends exactly when nothing is left; the next cursor is the last id.  *)
EXTENDS Integers, Sequences, FiniteSets, TLC

CONSTANTS NS, NO
Shards == 1..NS
Objs == 1..NO

MinOf(X) == CHOOSE x \in X : \A y \in X : x <= y
RECURSIVE Sorted(_)
Sorted(X) == IF X = {} THEN <<>> ELSE <<MinOf(X)>> \o Sorted(X \ {MinOf(X)})
Take(q, n) == SubSeq(q, 1, IF Len(q) < n THEN Len(q) ELSE n)

\* shard.ListWithCursor(n, cursor): first n listed ids strictly after the cursor object
ShardPage(L, from, n) == Take(Sorted({i \in L : i > from}), n)

\* mergeListResults(a, b, shard, n): a = merged so far (items [id, holders]), b = ids of shard s
RECURSIVE Merge(_, _, _, _, _)
Merge(a, b, s, n, out) ==
  IF Len(out) >= n \/ (a = <<>> /\ b = <<>>) THEN out
  ELSE IF a = <<>> THEN Merge(a, Tail(b), s, n, Append(out, [id |-> Head(b), holders |-> <<s>>]))
  ELSE IF b = <<>> THEN Merge(Tail(a), b, s, n, Append(out, Head(a)))
  ELSE IF Head(a).id > Head(b) THEN Merge(a, Tail(b), s, n, Append(out, [id |-> Head(b), holders |-> <<s>>]))
  ELSE IF Head(a).id = Head(b) THEN Merge(Tail(a), Tail(b), s, n, Append(out, [id |-> Head(a).id, holders |-> Append(Head(a).holders, s)]))
  ELSE Merge(Tail(a), b, s, n, Append(out, Head(a)))

RECURSIVE EngineFold(_, _, _, _, _)
EngineFold(listed, order, from, n, acc) ==
  IF order = <<>> THEN acc
  ELSE LET s == Head(order) res == ShardPage(listed[s], from, n) IN
       EngineFold(listed, Tail(order), from, n, IF res = <<>> THEN acc ELSE Merge(acc, res, s, n, <<>>))
\* StorageEngine.ListWithCursor
EnginePage(listed, order, from, n) == EngineFold(listed, order, from, n, <<>>)

\* reference
Union(listed) == UNION {listed[s] : s \in Shards}
RefIds(listed, from, n) == Take(Sorted({i \in Union(listed) : i > from}), n)
Holders(listed, i) == {s \in Shards : i \in listed[s]}
SetOfSeq(q) == {q[k] : k \in 1..Len(q)}

PageOK(listed, order, from, n) ==
  LET pg == EnginePage(listed, order, from, n) ref == RefIds(listed, from, n) IN
  /\ [k \in 1..Len(pg) |-> pg[k].id] = ref                                           \* same ids, same order, once each
  /\ \A k \in 1..Len(pg) : /\ SetOfSeq(pg[k].holders) = Holders(listed, pg[k].id)   \* all holder shards recorded ...
                           /\ Len(pg[k].holders) = Cardinality(Holders(listed, pg[k].id)) \* ... once each

\* exhaustive model check: every distribution, visiting order, cursor and page size
VARIABLES listed, order, from, n
Perms == {p \in [1..NS -> Shards] : \A a, b \in 1..NS : a # b => p[a] # p[b]}
Init == listed \in [Shards -> SUBSET Objs] /\ order \in Perms /\ from \in 0..NO /\ n \in 1..(NO + 1)
Next == UNCHANGED <<listed, order, from, n>>
Spec == Init /\ [][Next]_<<listed, order, from, n>>
C06_EnginePageMatchesUnion == PageOK(listed, order, from, n)
=============================================================================
