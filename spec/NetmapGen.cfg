SPECIFICATION GenSpec
CONSTANTS
  MaxEpoch = 6
  GenLen = 14
INVARIANTS Emit
CHECK_DEADLOCK FALSE
