SPECIFICATION ScanSpec
CONSTANTS
  BufN = 20480
  Pref = 38
  Lens = {300, 20404, 20405, 20414, 20422, 20423, 20442, 20444, 20479, 20480, 20481, 40960}
  MaxMembers = 3
  BugRefill = FALSE
  BugPrefixEOF = FALSE
  BugExactLimit = TRUE
INVARIANTS NoOverrun
CHECK_DEADLOCK FALSE
