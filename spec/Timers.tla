------------------------------- MODULE Timers -------------------------------
(* C40 - pkg/timers/timer.go: EpochTimers.
   Implementation-shaped state (nextTick, done, dNext, dDone) with one action per public call
   (each call runs under the timer's mutex, so a call is one atomic step), plus monitor variables
   (armed, sched, dSched, maxSeen, cnt) that state the property declaratively:
     after a Reset every handler has fired exactly once iff some observed block time since that
     Reset reached its scheduled time, and never more than once.                                  *)
EXTENDS Integers, Sequences, FiniteSets, TLC

CONSTANTS MaxT,      \* block times / reset times range over 0..MaxT
          Durs       \* epoch durations

\* sub-epoch fractions <<mul, div>>; must equal `deltas` in harness/cmd/timers/main.go
Deltas == << <<1, 2>>, <<1, 3>>, <<2, 3>>, <<1, 1>> >>
ND == Len(Deltas)
EHandlers == <<"e1", "e2">>
DName(i) == "d" \o ToString(i)
Handlers == {EHandlers[i] : i \in 1..Len(EHandlers)} \cup {DName(i) : i \in 1..ND}

VARIABLES nextTick, done, dNext, dDone,     \* as in the Go struct
          fired,                             \* output of the last call: handler ids in firing order
          armed, sched, maxSeen, cnt         \* monitor (property) variables
vars == <<nextTick, done, dNext, dDone, fired, armed, sched, maxSeen, cnt>>

InitVals == [nextTick |-> 0, done |-> FALSE, dNext |-> [i \in 1..ND |-> 0], dDone |-> [i \in 1..ND |-> FALSE],
             fired |-> <<>>, armed |-> FALSE, sched |-> [h \in Handlers |-> 0], maxSeen |-> -1,
             cnt |-> [h \in Handlers |-> 0]]
SetAll(v) == /\ nextTick' = v.nextTick /\ done' = v.done /\ dNext' = v.dNext /\ dDone' = v.dDone
             /\ fired' = v.fired /\ armed' = v.armed /\ sched' = v.sched /\ maxSeen' = v.maxSeen /\ cnt' = v.cnt
Init == /\ nextTick = 0 /\ done = FALSE /\ dNext = [i \in 1..ND |-> 0] /\ dDone = [i \in 1..ND |-> FALSE]
        /\ fired = <<>> /\ armed = FALSE /\ sched = [h \in Handlers |-> 0] /\ maxSeen = -1
        /\ cnt = [h \in Handlers |-> 0]

Frac(d, i) == (d * Deltas[i][1]) \div Deltas[i][2]

\* EpochTimers.Reset(lastTick, dur)
DoReset(t, d) ==
  /\ nextTick' = t + d
  /\ done' = FALSE
  /\ dNext' = [i \in 1..ND |-> t + Frac(d, i)]
  /\ dDone' = [i \in 1..ND |-> FALSE]
  /\ fired' = <<>>
  \* monitor: reference schedule
  /\ armed' = TRUE
  /\ sched' = [h \in Handlers |-> IF h \in {"e1", "e2"} THEN t + d
                                  ELSE LET i == CHOOSE j \in 1..ND : DName(j) = h IN t + Frac(d, i)]
  /\ maxSeen' = -1
  /\ cnt' = [h \in Handlers |-> 0]

SelectIdx(P(_)) == LET RECURSIVE Go(_)
                       Go(i) == IF i > ND THEN <<>> ELSE (IF P(i) THEN <<DName(i)>> ELSE <<>>) \o Go(i + 1)
                   IN Go(1)

\* EpochTimers.UpdateTime(curr)
DoUpdate(t) ==
  /\ UNCHANGED <<nextTick, dNext, armed, sched>>
  /\ maxSeen' = IF t > maxSeen THEN t ELSE maxSeen
  /\ IF done
       THEN /\ fired' = <<>>
            /\ UNCHANGED <<done, dDone>>
       ELSE LET eFire == nextTick <= t
                dFire(i) == ~dDone[i] /\ dNext[i] <= t
            IN /\ fired' = (IF eFire THEN EHandlers ELSE <<>>) \o SelectIdx(dFire)
               /\ done' = eFire
               /\ dDone' = [i \in 1..ND |-> dDone[i] \/ dFire(i)]
  /\ cnt' = [h \in Handlers |-> cnt[h] + Cardinality({k \in 1..Len(fired') : fired'[k] = h})]

Events == [ev : {"Reset"}, t : 0..MaxT, d : Durs] \cup [ev : {"Update"}, t : 0..MaxT]

Step(e) == CASE e.ev = "Reset" -> DoReset(e.t, e.d)
             [] e.ev = "Update" -> DoUpdate(e.t)

Next == \E e \in Events : Step(e)
Spec == Init /\ [][Next]_vars

-----------------------------------------------------------------------------
(* C40 *)
TypeOK == /\ nextTick \in Nat /\ done \in BOOLEAN /\ maxSeen \in Int /\ \A h \in Handlers : cnt[h] \in Nat

\* exactly once, at the first observed time reaching the schedule, nothing again before the next reset
FiresExactlyOnceWhenDue ==
  armed => \A h \in Handlers : cnt[h] = (IF maxSeen >= sched[h] THEN 1 ELSE 0)

\* a handler that fires in a step fires because the time of THIS step reached its schedule
FiredNowWasDue ==
  armed => \A k \in 1..Len(fired) : maxSeen >= sched[fired[k]]

\* new-epoch handlers fire before sub-epoch ones and in registration order (observable order of effects)
NoDuplicatesInOneCall == \A j, k \in 1..Len(fired) : j # k => fired[j] # fired[k]
=============================================================================
