SPECIFICATION Rounds
CONSTANTS
  Nodes = {1, 2, 3, 4}
  Local = 1
  BugMaintRebalance = FALSE
  RuleShapes = {}
  EcCnrRepLen = 0
  EcLens = {}
  Families = {}
  N = 4
  Reps = {1, 2}
  RuleCounts = {2}
  ListLens = {1, 2}
  MaxRounds = 3
INVARIANTS NeverEmpty TaskOK ConvergedInTime
CHECK_DEADLOCK FALSE
