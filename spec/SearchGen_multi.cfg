SPECIFICATION MCSpec
CONSTANTS
  KB = 256
  KN = 32
  MaxDigits <- MaxDigitsMC
  BugPlusAfterSign = FALSE
  BugMergeNoRange = FALSE
  BugPrimMulti = FALSE
  BugSplitIDAbsent = FALSE
  BugB58Prefix = FALSE
  Profile = "multi"
  NMax = 3
  Big = TRUE
INVARIANTS Emit
CHECK_DEADLOCK FALSE
