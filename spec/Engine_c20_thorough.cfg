\* C20 thorough: plain object (expiring or not) + EC part (put order by parent ID) + tombstone, epochs
SPECIFICATION Spec
CONSTANTS
  NS = 2
  MaxEpoch = 2
  BugH6 = TRUE
  CatSet = "c20x"
  Ops = {"Put", "Bcast", "Delete", "Drop", "GC", "SetMode", "FailGet", "Epoch"}
  Modes = {"rw", "ro", "dro"}
  HealthyLock = FALSE
  MaxInFlight = 1
  Scenario = "none"
INVARIANTS TypeOK C20Classified
VIEW ViewNoRes
CHECK_DEADLOCK FALSE
