\* C20 thorough: plain object + EC part (put order by parent ID) + tombstone, read and write faults
SPECIFICATION Spec
CONSTANTS
  NS = 2
  MaxEpoch = 1
  BugH6 = TRUE
  CatSet = "c20"
  Ops = {"Put", "Bcast", "Delete", "Drop", "GC", "SetMode", "FailGet", "FailPut"}
  Modes = {"rw", "ro", "dro"}
  HealthyLock = FALSE
  MaxInFlight = 1
  Scenario = "none"
INVARIANTS TypeOK C20Classified
VIEW ViewNoRes
CHECK_DEADLOCK FALSE
