SPECIFICATION Spec
CONSTANTS
  Objs = {1, 2, 3}
  WCs = {TRUE}
  Batches = {1}
  MaxEpoch = 2
  Ops = {"Put", "Delete", "GC", "Flush", "Epoch", "MarkRed"}
  Faults = {"crash"}
  Modes = {}
  BugH9 = TRUE
  BugH10 = TRUE
  BugMetaStale = TRUE
  BugH11 = FALSE
  KRounds = 12
INVARIANTS TypeOK C15ModKF
VIEW ExhView
CHECK_DEADLOCK FALSE
