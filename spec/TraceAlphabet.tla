---------------------------- MODULE TraceAlphabet ----------------------------
(* Record validation for C35: one record per (event, node state) delivered to a fully wired inner ring
   node. RecProp = the listed property (authority transactions only from members, nothing repeated);
   RecCode = the counts equal the code-shaped prediction (drift detector).                       *)
(* RecCode never fails: a record on which the real decision differs from the code-shaped one WITHOUT
   breaking the property is printed as <<"DRIFT", index>> (model drift, reported by the check as exit 2);
   this way a property violation later in the file is not masked by an earlier drift.            *)
EXTENDS Alphabet, Json
Trace == ndJsonDeserialize("trace.ndjson")
VARIABLE l
TraceInit == l = 1 /\ ev = "timer:epoch" /\ st = [alphaIdx |-> -1, irIdx |-> -1, lookup |-> "ok", again |-> FALSE] /\ auth = -1
TraceNext == l <= Len(Trace) /\ l' = l + 1 /\ UNCHANGED vars
TraceSpec == TraceInit /\ [][TraceNext]_<<vars, l>>
RecProp == l > Len(Trace) \/ Prop(Trace[l].in.st, Trace[l].out.auth, Trace[l].out.dups)
RecCode == \/ l > Len(Trace)
           \/ /\ Trace[l].in.ev \in Events
              /\ Trace[l].out.auth <= AuthCount(Trace[l].in.ev, Trace[l].in.st)
              /\ Trace[l].out.auth >= AuthCountMin(Trace[l].in.ev, Trace[l].in.st)
              /\ Trace[l].out.own = OwnCount(Trace[l].in.ev, Trace[l].in.st)
           \/ PrintT(<<"DRIFT", l>>)
=============================================================================
