\* C08 thorough, repaired world (BugH6 = FALSE, locks placed on healthy shards): C08 holds
SPECIFICATION Spec
CONSTANTS
  NS = 2
  MaxEpoch = 2
  BugH6 = FALSE
  CatSet = "c08x"
  Ops = {"Put", "Bcast", "GC", "Epoch", "SetMode", "FailPut"}
  Modes = {"rw", "ro", "dro"}
  HealthyLock = TRUE
  MaxInFlight = 2
  Scenario = "none"
INVARIANTS TypeOK C08Strict
VIEW ViewNoRes
CHECK_DEADLOCK FALSE
