SPECIFICATION TraceSpec
CONSTANTS
  MaxParts = 1000
  MaxNodes = 100000
INVARIANTS PropOnRecords CodeIsSpec
CHECK_DEADLOCK FALSE
