------------------------------ MODULE SearchMC ------------------------------
(* C03 - TLC: on every small corpus and query the implementation-shaped paging (Search!ImplPages: index walk,
   seek key, early stops, cursor = last returned key) yields exactly the reference result (Search!RefPages:
   available matching objects, ordered by first requested attribute then OID, chopped into pages), for every
   page size. With the deviation switches on, they may differ only inside the known-finding query classes.
   Profiles (constant Profile) keep each run small:
     "filters"  one object, every pair of filters (semantics of all matchers, integer rule, absence)
     "paging"   three objects with colliding / prefix-related / integer values, one filter, page sizes 1..3
     "multi"    two objects, two filters on the primary attribute                                           *)
EXTENDS Search

CONSTANTS Profile, NMax, Big
VARIABLES corpus, q

S(str) == str   \* documentation only
va == <<97>>
vab == <<97, 98>>
vb == <<98>>
vx == <<120>>
v0 == <<48>>
v7 == <<55>>
v10 == <<49, 48>>
vp07 == <<43, 48, 55>>
vm1 == <<45, 49>>
ve == <<>>
vpp7 == <<43, 43, 55>>
MaxDigitsMC == <<9, 9>>          \* integers are |v| <= 99 in the model

Absent == <<0>>                    \* marker (not a printable value)
Attr(k, v) == [k |-> k, db |-> v, str |-> v]
Obj(id, av, a, b) == [id |-> id, avail |-> av,
                      attrs |-> (IF a = Absent THEN <<>> ELSE <<Attr("a", a)>>) \o (IF b = Absent THEN <<>> ELSE <<Attr("b", b)>>)]

AVals == CASE Profile = "filters" -> IF Big THEN {va, vab, vb, v0, v7, vp07, vm1, v10, vpp7, Absent} ELSE {va, vab, v7, vp07, vm1, Absent}
           [] Profile = "paging" -> IF Big THEN {va, vab, v7, vp07, vm1, Absent} ELSE {va, vab, v7, vp07, Absent}
           [] Profile = "multi" -> {va, vab, vb, v7, v0, vm1}
BVals == CASE Profile = "filters" -> {Absent, vx, v0}
           [] OTHER -> {Absent}
Avails == IF Profile = "multi" THEN {TRUE} ELSE BOOLEAN
NObj == CASE Profile = "filters" -> 1 [] Profile = "paging" -> 3 [] Profile = "multi" -> 2

Corpora == CASE NObj = 1 -> {{Obj(1, av, a, b)} : av \in Avails, a \in AVals, b \in BVals}
             [] NObj = 2 -> {{Obj(1, av1, a1, Absent), Obj(2, av2, a2, Absent)} : av1 \in Avails, av2 \in Avails, a1 \in AVals, a2 \in AVals}
             [] NObj = 3 -> {{Obj(1, c[1][1], c[1][2], Absent), Obj(2, c[2][1], c[2][2], Absent), Obj(3, c[3][1], c[3][2], Absent)} :
                             c \in [1..3 -> Avails \X AVals]}

Ops == {"EQ", "NE", "PREFIX", "GT", "GE", "LT", "LE"}
FV == CASE Profile = "filters" -> IF Big THEN {va, v7, vp07} ELSE {va, v7}
        [] Profile = "paging" -> {va, v7}
        [] Profile = "multi" -> IF Big THEN {va, vb, v7, v0} ELSE {va, v7, v0}
Flt(k, op, v) == [k |-> k, op |-> op, val |-> v, hasbin |-> FALSE, bin |-> <<>>, primok |-> TRUE, primdb |-> v, nonattr |-> FALSE, b58 |-> FALSE]
F1 == {Flt("a", op, v) : op \in Ops, v \in FV} \cup {Flt("a", "NOT_PRESENT", ve)}
F2 == CASE Profile = "filters" -> F1 \cup {Flt("b", "EQ", vx), Flt("b", "NE", vx), Flt("b", "NOT_PRESENT", ve)}
        [] Profile = "multi" -> F1
        [] OTHER -> {}
AT == CASE Profile = "filters" -> {<<>>, <<"a">>, <<"a", "b">>}
        [] Profile = "paging" -> {<<>>, <<"a">>}
        [] Profile = "multi" -> {<<"a">>}
Queries == (IF Profile = "multi" THEN {} ELSE {[fs |-> <<>>, attrs |-> <<>>]} \cup {[fs |-> <<f>>, attrs |-> at] : f \in F1, at \in AT})
           \cup {[fs |-> <<f, g>>, attrs |-> at] : f \in F1, g \in F2, at \in AT}

NoQ == [fs |-> <<>>, attrs |-> <<"-">>]     \* "no query chosen yet"
\* one trivial initial state; corpora and queries are enumerated by Next (worker threads)
MCInit == corpus = {} /\ q = NoQ
MCNext == \/ corpus = {} /\ corpus' \in Corpora /\ UNCHANGED q
          \/ corpus # {} /\ q = NoQ /\ q' \in Queries /\ UNCHANGED corpus
MCSpec == MCInit /\ [][MCNext]_<<corpus, q>>

KFExcuse(qq) == (BugPrimMulti /\ MultiPrimClass(qq)) \/ (BugSplitIDAbsent /\ SplitIDClass(qq)) \/ (BugB58Prefix /\ B58PrefixClass(qq)) \/ (BugPlusAfterSign /\ PlusSignCorpus(corpus))

\* C03 on the model: for every page size the implementation-shaped pages are the reference pages, every page
\* but the last is full, no page is longer than n
PagesAreExpected ==
  q # NoQ => (KFExcuse(q) \/ \A n \in 1..NMax :
    LET impl == ImplPages(corpus, q, n)
    IN /\ SamePages(impl, RefPages(corpus, q, n))
       /\ \A i \in 1..Len(impl.pages) : Len(impl.pages[i]) <= n /\ (i < Len(impl.pages) => Len(impl.pages[i]) = n))
\* the reference itself is what the property says
RefIsSound ==
  q # NoQ /\ ~NumInvalid(q) =>
    LET e == Expected(corpus, q)
    IN /\ \A i, j \in 1..Len(e) : i # j => e[i].id # e[j].id
       /\ {e[i].id : i \in 1..Len(e)} = {o.id : o \in Hits(corpus, q)}
       /\ \A i \in 1..Len(e) : Len(e[i].vals) = Len(q.attrs)
=============================================================================
