---------------------------- MODULE AlphabetHist ----------------------------
(* C35, histories of the index cache - pkg/innerring/indexer.go (innerRingIndexer.update / reset).
   The indexer answers from its cache while the last SUCCESSFUL refresh is younger than the time-out;
   otherwise it asks the chain; a failed lookup returns an error (Server getters: -1) and leaves cache
   and time stamp alone, so the next query asks the chain again. Start-up and reset() = no valid cache.
   The harness runs the node with a long time-out; expiry is driven explicitly (Expire = reset()).

   chain   true state of the node on the chain (positions, failing lookup)
   cache   [valid, alpha, ir]
   Deliver(e): the event handlers query the indexer (any number of times: the first successful query
   fills the cache), guards are evaluated on that view, the morph client signs on the TRUE state.
   Property: authority transactions only when the view held by a correct indexer says "member" (or the
   node is a member right now) - a failed lookup must never turn into "index 0" or a stale membership.
   Staleness inside the time-out after a SUCCESSFUL refresh is the documented design of the cache and is
   part of the model (not judged here).                                                            *)
EXTENDS Alphabet

VARIABLES chain, cache, hauth, hmember, hview
hvars == <<chain, cache, hauth, hmember, hview>>

NoCache == [valid |-> FALSE, alpha |-> -1, ir |-> -1]
Fresh(c) == IF c.lookup = "ok" THEN [alpha |-> c.alphaIdx, ir |-> c.irIdx] ELSE [alpha |-> -1, ir |-> -1]
View(c, ca) == IF ca.valid THEN [alpha |-> ca.alpha, ir |-> ca.ir] ELSE Fresh(c)
CacheAfter(c, ca) == IF ca.valid \/ c.lookup # "ok" THEN ca ELSE [valid |-> TRUE, alpha |-> c.alphaIdx, ir |-> c.irIdx]
WithView(c, v) == [alphaIdx |-> c.alphaIdx, irIdx |-> c.irIdx, lookup |-> c.lookup, again |-> FALSE, view |-> v]

HistEvents == {"main:neofs.Deposit", "timer:epoch", "fs:balance.Lock", "start:vote"}
ChainStates == [alphaIdx : {-1, 0, 2}, irIdx : {-1, 0, 5}, lookup : {"ok", "irErr", "cmErr"}]

DoChain(c) == chain' = c /\ UNCHANGED <<cache, hauth, hmember, hview>>
DoExpire == cache' = NoCache /\ UNCHANGED <<chain, hauth, hmember, hview>>
DoDeliver(e) ==
  LET v == View(chain, cache) IN
    /\ cache' = CacheAfter(chain, cache)
    /\ hauth' = AuthCount(e, WithView(chain, v))
    /\ hview' = v
    /\ hmember' = Member(chain)
    /\ UNCHANGED chain

HInit == /\ chain \in ChainStates /\ cache = NoCache /\ hauth = 0 /\ hmember = FALSE /\ hview = [alpha |-> -1, ir |-> -1]
         /\ ev = "timer:epoch" /\ st = [alphaIdx |-> -1, irIdx |-> -1, lookup |-> "ok", again |-> FALSE] /\ auth = -1
HNext == /\ UNCHANGED vars
         /\ \/ \E c \in ChainStates : DoChain(c)
            \/ DoExpire
            \/ \E e \in HistEvents : DoDeliver(e)
HSpec == HInit /\ [][HNext]_<<vars, hvars>>

HistProp == hauth > 0 => (hview.alpha >= 0 \/ hmember)
\* a failed lookup never leaves a valid cache behind; a valid cache always stems from a successful lookup
CacheSound == cache.valid => cache.alpha >= -1
=============================================================================
