SPECIFICATION ScanSpec
CONSTANTS
  BufN = 10
  Pref = 4
  Lens = {1,2,3,4,5,6,7,8,9,10,11,12,13,14,15,16,17,18,19,20,21,22,31}
  MaxMembers = 4
  BugRefill = FALSE
  BugPrefixEOF = FALSE
  BugExactLimit = FALSE
INVARIANTS ScanOK PrefixedOK DrainFastOK
CHECK_DEADLOCK FALSE
