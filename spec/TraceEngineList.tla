--------------------------- MODULE TraceEngineList ---------------------------
(* Record validation: every recorded engine listing call of the real StorageEngine must return exactly
   what the code-shaped EnginePage returns for the recorded per-shard listings, visiting order, cursor and
   page size, AND satisfy the reference PageOK; next cursor = last id; end reported iff the page is empty. *)
EXTENDS EngineList, Json
Recs == ndJsonDeserialize("trace.ndjson")
VARIABLE l
ListedOf(r) == [s \in Shards |-> SetOfSeq(r.listed[s])]
RowOK(row, item) == row[1] = item.id /\ SubSeq(row, 2, Len(row)) = item.holders
RecOK(r) ==
  LET L == ListedOf(r) pg == EnginePage(L, r.order, r.from, r.n) IN
  /\ Len(r.out) = Len(pg)
  /\ \A k \in 1..Len(pg) : RowOK(r.out[k], pg[k])
  /\ PageOK(L, r.order, r.from, r.n)
  /\ r.end = (pg = <<>>)
  /\ (pg # <<>> => r.next = pg[Len(pg)].id)
TInit == l = 1 /\ listed = <<>> /\ order = <<>> /\ from = 0 /\ n = 0
TNext == l <= Len(Recs) /\ l' = l + 1 /\ UNCHANGED <<listed, order, from, n>>
TSpec == TInit /\ [][TNext]_<<l, listed, order, from, n>>
C06_RecordOK == l > Len(Recs) \/ RecOK(Recs[l])
=============================================================================
