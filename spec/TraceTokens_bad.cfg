SPECIFICATION TraceSpec
CONSTANTS
  Epochs = {1}
  Big = FALSE
  ListBad = TRUE

CHECK_DEADLOCK FALSE
