---------------------------- MODULE TraceECCode ----------------------------
(* C21 record validation. Records are produced by the REAL iec.Encode / Decode / DecodeRange / DecodeIndexes
   and the REAL putsvc modifyECParentObject (harness/cmd/ec eccode). One step per record (index l).
     PropOnRecords : the C21 statement evaluated on the record                       (=> VIOLATION)
     CodeIsSpec    : outcome = the closed forms proved equal to the operational model by ECCodeMC
                     (a mismatch with the property intact = model out of date => exit 2)             *)
EXTENDS ECCode, Json
Recs == ndJsonDeserialize("trace.ndjson")
VARIABLES l,      \* index of the record examined in this state
          drift   \* index of the first record whose outcome differs from the closed forms (0 = none)

SetOf(s) == {s[i] : i \in 1..Len(s)}
Enough(r) == r.len > 0 /\ Cardinality(SetOf(r.miss)) <= r.m

EncProp(r) == /\ ~r.err
              /\ r.n = r.k + r.m /\ Len(r.plen) = r.n
              /\ \A i \in 1..Len(r.plen) : r.plen[i] = r.plen[1]                  \* equal part lengths
              /\ r.hashN = r.n /\ r.hashOK                                        \* announced hashes match
              /\ r.dataOK                                                         \* data parts carry the payload
EncSpec(r) == /\ \A i \in 1..Len(r.plen) : r.plen[i] = PartLen(r.k, r.len)        \* ceil(len/k), 0 for empty
              /\ r.padZero

DecProp(r) == /\ Enough(r) => r.ok /\ r.eq                                        \* any >= k parts decode to the payload
              /\ r.ok => r.eq                                                     \* never a wrong payload
DecSpec(r) == r.ok = DecodeDefined(r.k, r.m, r.len, SetOf(r.miss))

Req(r) == IF r.kind = "rng" THEN r.from..r.to ELSE SetOf(r.idxs)
ReconProp(r) == /\ Enough(r) => r.ok /\ r.reqEq                                   \* requested parts restored exactly
                /\ r.ok => r.reqEq
                /\ r.presSame                                                     \* parts that were present are not modified
ReconSpec(r) == /\ r.ok = ReconDefined(r.k, r.m, r.len, SetOf(r.miss), Req(r))
                /\ r.othersNil

MultiProp(r) == /\ ~r.err
                /\ \A i \in 1..Len(r.per) : /\ r.per[i].lensEq          \* equal part lengths
                                            /\ r.per[i].hashOK          \* announced hashes match the parts AFTER all rules
                                            /\ r.per[i].fresh           \* no encoding corrupted by the others
                                            /\ r.per[i].decOK           \* payload restored with parts lost
                /\ Len(r.per) = Len(r.rules)
                /\ r.attrOK /\ r.payloadSame
\* ordered rule sequence x many lengths: nothing may be wrong for any rule at any length
MSeqProp(r) == \A i \in 1..Len(r.lens) : r.bad[i] = <<>> /\ ~r.gen[i]
\* the memory model, given the spare capacity the target really handed to the EC library, predicts exactly the
\* corrupted rules
MSeqSpec(r) == \A i \in 1..Len(r.lens) : SetOf(r.bad[i]) = MultiCorrupted(r.rules, r.lens[i], r.slack[i])
MultiSpec(r) == {i \in 1..Len(r.per) : ~r.per[i].fresh} = MultiCorrupted(r.rules, r.len, r.slack)

Prop(r) == CASE r.kind = "enc" -> EncProp(r)
             [] r.kind = "dec" -> DecProp(r)
             [] r.kind \in {"rng", "idx"} -> ReconProp(r)
             [] r.kind = "multi" -> MultiProp(r)
             [] r.kind = "mseq" -> MSeqProp(r)
SpecEq(r) == CASE r.kind = "enc" -> EncSpec(r)
               [] r.kind = "dec" -> DecSpec(r)
               [] r.kind \in {"rng", "idx"} -> ReconSpec(r)
               [] r.kind = "multi" -> MultiSpec(r)
               [] r.kind = "mseq" -> MSeqSpec(r)

TraceInit == l = 1 /\ drift = 0
TraceNext == /\ l <= Len(Recs) /\ l' = l + 1
             /\ drift' = IF drift = 0 /\ ~SpecEq(Recs[l]) THEN l ELSE drift
TraceSpec == TraceInit /\ [][TraceNext]_<<l, drift>>

\* checked on every record first; CodeIsSpec is decided only after ALL records passed the property
PropOnRecords == l > Len(Recs) \/ Prop(Recs[l])
CodeIsSpec    == l <= Len(Recs) \/ drift = 0
=============================================================================
