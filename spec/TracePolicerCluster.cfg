SPECIFICATION TraceSpec
CONSTANTS
  Nodes = {1, 2, 3, 4, 5, 6}
  Local = 1
  BugMaintRebalance = FALSE
  RuleShapes = {}
  EcCnrRepLen = 0
  EcLens = {}
  Families = {}
  N = 6
  Reps = {1}
  RuleCounts = {1}
  ListLens = {1}
  MaxRounds = 3
  NEvents = 1
INVARIANTS TraceNotStuck ReportedOK ConvergedAtEnd TaskOK NeverEmptyT
CHECK_DEADLOCK FALSE
