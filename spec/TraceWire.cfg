SPECIFICATION TraceSpec
INVARIANTS PropOnRecords CodeIsSpec
CHECK_DEADLOCK FALSE
