SPECIFICATION TraceSpec
CONSTANTS
  NKeys = 8
  CurSizes = {1}
  MaxExtra = 0
  BugIRDup = TRUE
INVARIANTS RecOK RecProp
CHECK_DEADLOCK FALSE
