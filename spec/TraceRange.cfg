SPECIFICATION Spec
CONSTANTS
  AllowAsIs = TRUE
INVARIANTS RecOK
CHECK_DEADLOCK FALSE
