SPECIFICATION GenSpec
CONSTANTS
  Objs = {1}
  WCs = {FALSE}
  Batches = {2}
  MaxEpoch = 0
  Ops = {"Put", "SetMode"}
  Faults = {"blob", "meta"}
  Modes = {"RW", "RO"}
  BugH9 = TRUE
  BugH10 = TRUE
  BugMetaStale = TRUE
  BugH11 = FALSE
  KRounds = 12
  MaxSets = 4
  GenLen = 5
  Crashes = {0}
  Fails = {0}
INVARIANTS CexC43
CONSTRAINT Bounded
VIEW GenView
CHECK_DEADLOCK FALSE
