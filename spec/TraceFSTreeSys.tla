-------------------------- MODULE TraceFSTreeSys --------------------------
(* C12 / C13 - validation of recorded system-call traces of the real FSTree writers.

   The trace is the strace log of a worker process (one event per system call on the tree, in completion
   order, with the real result or the injected error), the acknowledgements of the worker (begin / result of
   every operation), how the process ended, and what a second process read back after reopening the tree.
   The system calls are applied to the file-system layer of the model (FSTreeFS.tla); then
     CrashSafeT  at EVERY prefix of the real call sequence the named files expose, for every address, nothing
                 or exactly its bytes, and every acknowledged object (C12: every crash point of this run);
     PropOK      the real read-back after the end / kill of the process satisfies the same statement, iteration
                 lists exactly the readable objects, temporary files never show up and are gone after CleanUpTmp;
                 every Put retried on the restarted tree (before any clean-up) that reports success is readable;
     PredOK      the read-back is what the model predicts for the state at the end (binding of the crash model;
                 a mismatch is model drift, not a verdict);
     ExitOK      the process ended normally and answered every operation (C13: no panic, no hang), or was
                 killed by the injected SIGKILL;
     BlameOK     an operation reports an error only if a call of its own or of its batch file failed (C13);
     AffectedOK  an operation with a failed call of its own or of its batch file does not report success (C13);
     FSOK        the results of link / exclusive open / unlink agree with the model's name table (drift).
   Known deviations (accepted only when the model of the code as found predicts them, printed as "KF"):
     a panic after linkat failed on the write that took a timed batch over its size limit (BugPrecedence),
     a hang after the O_TMPFILE open of a new timed batch failed (BugLockLeak).                         *)
EXTENDS FSTreeFS, Json

Trace == ndJsonDeserialize("trace.ndjson")
MaxFd == 255
Fds == 0..MaxFd

VARIABLES dir, ino, fdt, l, nn, szlim, acked, inflight, fuzzy, fdsize, fdmem, fdtimed, blame, openFails,
          expPanic, expHang, okCrash, okProp, okPred, okExit, okBlame, okAffected, okFS
tvars == <<dir, ino, fdt, l, nn, szlim, acked, inflight, fuzzy, fdsize, fdmem, fdtimed, blame, openFails,
           expPanic, expHang, okCrash, okProp, okPred, okExit, okBlame, okAffected, okFS>>

SeqSet(s) == {s[i] : i \in 1..Len(s)}
CrashSafeNow(D, I, ack) == \A a \in 1..nn : LET r == ReadName(D, I, a) IN r \in {0, 1} /\ (a \in ack => r = 1)

TraceInit ==
  /\ dir = [nm \in Names |-> 0] /\ ino = <<>> /\ fdt = [f \in Fds |-> 0]
  /\ l = 1 /\ nn = 0 /\ szlim = 0 /\ acked = {} /\ inflight = <<>> /\ fuzzy = {}
  /\ fdsize = [f \in Fds |-> 0] /\ fdmem = [f \in Fds |-> {}] /\ fdtimed = [f \in Fds |-> FALSE]
  /\ blame = {} /\ openFails = 0 /\ expPanic = FALSE /\ expHang = FALSE
  /\ okCrash = TRUE /\ okProp = TRUE /\ okPred = TRUE /\ okExit = TRUE /\ okBlame = TRUE /\ okAffected = TRUE /\ okFS = TRUE

Reset(e) ==
  /\ dir' = [nm \in Names |-> 0] /\ ino' = <<>> /\ fdt' = [f \in Fds |-> 0]
  /\ nn' = e.n /\ szlim' = e.szlim /\ acked' = {} /\ inflight' = <<>> /\ fuzzy' = {}
  /\ fdsize' = [f \in Fds |-> 0] /\ fdmem' = [f \in Fds |-> {}] /\ fdtimed' = [f \in Fds |-> FALSE]
  /\ blame' = {} /\ openFails' = 0 /\ expPanic' = FALSE /\ expHang' = FALSE
  /\ okCrash' = TRUE /\ okProp' = TRUE /\ okPred' = TRUE /\ okExit' = TRUE /\ okBlame' = TRUE /\ okAffected' = TRUE /\ okFS' = (e.n <= NA)

PutInFlight == \E i \in 1..Len(inflight) : inflight[i].k = "put"
BatchInFlight == \E i \in 1..Len(inflight) : inflight[i].k = "batch"

\* one system call
Sys(e) ==
  LET ok == e.ret = "ok"
      failed == e.ret = "err"
      unknown == e.ret = "unknown"
  IN
  /\ CASE e.sc = "opentmp" ->
            /\ IF ok THEN /\ ino' = Append(ino, <<>>) /\ fdt' = [fdt EXCEPT ![e.fd] = Len(ino) + 1]
                          /\ fdsize' = [fdsize EXCEPT ![e.fd] = 0] /\ fdmem' = [fdmem EXCEPT ![e.fd] = {}]
                          /\ fdtimed' = [fdtimed EXCEPT ![e.fd] = e.batch /\ PutInFlight /\ ~BatchInFlight]
                     ELSE UNCHANGED <<ino, fdt, fdsize, fdmem, fdtimed>>
            /\ openFails' = IF failed THEN openFails + 1 ELSE openFails
            \* the open of a new timed batch failed: the code as found keeps batchLock
            /\ expHang' = (expHang \/ (failed /\ e.batch /\ PutInFlight /\ ~BatchInFlight))
            /\ UNCHANGED <<dir, fuzzy, blame, expPanic, okFS>>
       [] e.sc = "openexcl" ->
            /\ IF ok THEN /\ dir' = [dir EXCEPT ![e.name] = Len(ino) + 1] /\ ino' = Append(ino, <<>>)
                          /\ fdt' = [fdt EXCEPT ![e.fd] = Len(ino) + 1]
                          /\ fdsize' = [fdsize EXCEPT ![e.fd] = 0] /\ fdmem' = [fdmem EXCEPT ![e.fd] = {e.name.a}]
                     ELSE UNCHANGED <<dir, ino, fdt, fdsize, fdmem>>
            /\ okFS' = (okFS /\ (ok => dir[e.name] = 0) /\ (e.ret = "eexist" => dir[e.name] # 0))
            /\ blame' = IF failed THEN blame \cup {e.name.a} ELSE blame
            /\ UNCHANGED <<fuzzy, fdtimed, openFails, expPanic, expHang>>
       [] e.sc \in {"writev", "write"} ->
            /\ IF ok THEN ino' = WriteFS(ino, fdt, e.fd, Chunk(IF e.sc = "writev" THEN "mem" ELSE "raw", e.a, e.full))
                     ELSE UNCHANGED ino
            /\ fdsize' = IF ok THEN [fdsize EXCEPT ![e.fd] = @ + e.len] ELSE fdsize
            /\ fdmem' = [fdmem EXCEPT ![e.fd] = @ \cup {e.a}]
            /\ blame' = IF failed \/ (ok /\ ~e.full) THEN blame \cup fdmem[e.fd] \cup {e.a} ELSE blame
            /\ UNCHANGED <<dir, fdt, fuzzy, fdtimed, openFails, expPanic, expHang, okFS>>
       [] e.sc = "link" ->
            /\ dir' = IF ok THEN LinkFS(dir, fdt, e.fd, e.name) ELSE dir
            /\ okFS' = (okFS /\ (ok => dir[e.name] = 0 /\ fdt[e.fd] # 0) /\ (e.ret = "eexist" => dir[e.name] # 0))
            /\ fuzzy' = IF unknown THEN fuzzy \cup {e.name.a} ELSE fuzzy
            /\ blame' = IF failed THEN blame \cup fdmem[e.fd] \cup {e.name.a} ELSE blame
            \* linkat failed on the write that took a timed batch over the size limit: the code as found panics
            /\ expPanic' = (expPanic \/ (failed /\ fdtimed[e.fd] /\ fdsize[e.fd] >= szlim))
            /\ UNCHANGED <<ino, fdt, fdsize, fdmem, fdtimed, openFails, expHang>>
       [] e.sc = "rename" ->
            /\ dir' = IF ok THEN RenameFS(dir, e.from, e.to) ELSE dir
            /\ okFS' = (okFS /\ (ok => dir[e.from] # 0))
            /\ fuzzy' = IF unknown THEN fuzzy \cup {e.to.a} ELSE fuzzy
            /\ blame' = IF failed THEN blame \cup {e.to.a} ELSE blame
            /\ UNCHANGED <<ino, fdt, fdsize, fdmem, fdtimed, openFails, expPanic, expHang>>
       [] e.sc = "unlink" ->
            /\ dir' = IF ok THEN UnlinkFS(dir, e.name) ELSE dir
            /\ okFS' = (okFS /\ (ok => dir[e.name] # 0) /\ (e.ret = "enoent" => dir[e.name] = 0))
            /\ fuzzy' = IF unknown THEN fuzzy \cup {e.name.a} ELSE fuzzy
            /\ blame' = IF failed THEN blame \cup {e.name.a} ELSE blame
            /\ UNCHANGED <<ino, fdt, fdsize, fdmem, fdtimed, openFails, expPanic, expHang>>
       [] e.sc = "fdatasync" ->
            /\ blame' = IF failed THEN blame \cup fdmem[e.fd] ELSE blame
            /\ UNCHANGED <<dir, ino, fdt, fuzzy, fdsize, fdmem, fdtimed, openFails, expPanic, expHang, okFS>>
       [] e.sc = "close" ->
            /\ fdt' = IF unknown THEN fdt ELSE [fdt EXCEPT ![e.fd] = 0]
            /\ blame' = IF failed THEN blame \cup fdmem[e.fd] ELSE blame
            /\ UNCHANGED <<dir, ino, fuzzy, fdsize, fdmem, fdtimed, openFails, expPanic, expHang, okFS>>
  /\ UNCHANGED <<nn, szlim, acked, inflight, okProp, okPred, okExit, okBlame, okAffected>>

Begin(e) ==
  /\ inflight' = Append(inflight, [k |-> e.k, as |-> e.as])
  /\ acked' = IF e.k = "del" THEN acked \ SeqSet(e.as) ELSE acked
  /\ UNCHANGED <<dir, ino, fdt, nn, szlim, fuzzy, fdsize, fdmem, fdtimed, blame, openFails, expPanic, expHang,
                 okProp, okPred, okExit, okBlame, okAffected, okFS>>

Result(e) ==
  LET mine == {i \in 1..Len(inflight) : inflight[i].k = e.k /\ inflight[i].as = e.as}
      blamed == SeqSet(e.as) \cap blame # {}
  IN
  /\ inflight' = IF mine = {} THEN inflight
                 ELSE LET i == CHOOSE i \in mine : TRUE IN [j \in 1..(Len(inflight) - 1) |-> IF j < i THEN inflight[j] ELSE inflight[j + 1]]
  /\ acked' = IF e.r = "ok" /\ e.k # "del" THEN acked \cup SeqSet(e.as) ELSE acked
  /\ okExit' = (okExit /\ mine # {})
  \* an affected operation (a call of its own or of its batch file failed) must not report success
  /\ okAffected' = (okAffected /\ (e.r = "ok" => ~blamed))
  /\ blame' = blame \ SeqSet(e.as)
  /\ IF e.r = "err" /\ ~blamed
       THEN /\ okBlame' = (okBlame /\ openFails > 0)
            /\ openFails' = IF openFails > 0 THEN openFails - 1 ELSE 0
       ELSE UNCHANGED <<okBlame, openFails>>
  /\ UNCHANGED <<dir, ino, fdt, nn, szlim, fuzzy, fdsize, fdmem, fdtimed, expPanic, expHang, okProp, okPred, okFS>>

Exit(e) ==
  /\ okExit' = /\ okExit
               /\ CASE e.st = "ok" -> inflight = <<>>
                    [] e.st = "killed" -> TRUE
                    [] e.st = "panic" -> expPanic /\ PrintT(<<"KF", "linkat-fail-size-crossing-double-intsync", l>>)
                    [] e.st = "hang" -> expHang /\ PrintT(<<"KF", "batchlock-leak-newsyncbatch-failure", l>>)
                    [] OTHER -> FALSE
  /\ fdt' = [f \in Fds |-> 0]
  /\ UNCHANGED <<dir, ino, nn, szlim, acked, inflight, fuzzy, fdsize, fdmem, fdtimed, blame, openFails, expPanic, expHang,
                 okProp, okPred, okBlame, okAffected, okFS>>

PassOK(p, ack) ==      \* one read-back pass satisfies the property
  /\ Len(p.res) = nn /\ Len(p.it) = nn /\ Len(p.ita) = nn
  /\ \A a \in 1..nn : /\ p.res[a] \in {0, 1} /\ (a \in ack => p.res[a] = 1)
                      /\ p.it[a] = p.res[a] /\ p.ita[a] = p.res[a]
Verify(e) ==
  \* before: right after the restart; retry: every Put of the job repeated on the restarted tree (no clean-up yet) -
  \* a Put that reports success must be readable, whatever the crashed run left behind; after: after CleanUpTmp
  /\ okProp' = /\ PassOK(e.before, acked)
               /\ Len(e.retry.put) = nn
               /\ PassOK(e.retry, acked \cup {a \in 1..nn : e.retry.put[a] = "ok"})
               /\ \A a \in 1..nn : e.retry.put[a] \in {"ok", "err"}
               /\ PassOK(e.after, acked)
               /\ e.cleanup = "ok" /\ e.after.tmpfiles = 0
               /\ \A a \in 1..nn : e.after.res[a] = e.retry.res[a]
  /\ okPred' = \A a \in (1..nn) \ fuzzy : e.before.res[a] = ReadName(dir, ino, a)
  /\ dir' = CleanTmpFS(dir)
  /\ UNCHANGED <<ino, fdt, nn, szlim, acked, inflight, fuzzy, fdsize, fdmem, fdtimed, blame, openFails, expPanic, expHang,
                 okExit, okBlame, okAffected, okFS>>

TraceNext ==
  /\ l <= Len(Trace)
  /\ l' = l + 1
  /\ LET e == Trace[l] IN
     /\ CASE e.ev = "Init" -> Reset(e)
          [] e.ev = "sys" -> Sys(e)
          [] e.ev = "begin" -> Begin(e)
          [] e.ev = "res" -> Result(e)
          [] e.ev = "exit" -> Exit(e)
          [] e.ev = "verify" -> Verify(e)
     /\ okCrash' = IF e.ev = "Init" THEN TRUE ELSE okCrash /\ CrashSafeNow(dir', ino', acked')

TraceSpec == TraceInit /\ [][TraceNext]_tvars

CrashSafeT == okCrash
PropOK == okProp
ExitOK == okExit
BlameOK == okBlame
AffectedOK == okAffected
PredOK == okPred
FSOK == okFS
=============================================================================
