---------------------------- MODULE TraceTokens ----------------------------
(* C30 record validation: for every record {in, out} produced by the real acl/v2.Service token
   verification, Admissible(in, out.ok): out.ok = Honoured(in), up to the sub-second rounding of V2 chain time. *)
EXTENDS Tokens, Json
Recs == ndJsonDeserialize("trace.ndjson")
VARIABLE l
TraceInit == l = 1 /\ inp = 0 /\ ph = 0
TraceNext == l <= Len(Recs) /\ l' = l + 1 /\ UNCHANGED <<inp, ph>>
TraceSpec == TraceInit /\ [][TraceNext]_<<l, inp, ph>>
RecOK == l > Len(Recs) \/ Admissible(Recs[l].in, Recs[l].out.ok)
CONSTANT ListBad
BadRecs == {i \in 1..Len(Recs) : ~Admissible(Recs[i].in, Recs[i].out.ok)}
ASSUME ListBad => PrintT(<<"BADRECS", BadRecs>>)
=============================================================================
