------------------------------ MODULE TraceWire ------------------------------
(* C41 record validation. One record per materialised layout (level "obj": object message, "hdr": header
   message), with one run per truncation point `cut`: the outcome of the REAL fast paths on the first `cut` bytes
   and whether their results decode to the same values as full decoding of the complete message (`agree`).
     PropOnRecords : no panic; for encodings of objects (enc) fast paths succeed on the complete message and agree
                     with full decoding; on truncations they fail or still agree; bounds never leave the buffer.
     CodeIsSpec    : error flags / bounds / values equal the implementation-shaped operators of Wire.tla
                     (checked after all records passed the property: drift => exit 2, not a verdict).      *)
EXTENDS Wire, Json
Recs == ndJsonDeserialize("trace.ndjson")
VARIABLES l, drift

B3(b, k) == <<b[3 * k - 2], b[3 * k - 1], b[3 * k]>>
Tri(x) == [err |-> x.err, id |-> B3(x.b, 1), sig |-> B3(x.b, 2), hdr |-> B3(x.b, 3)]
Norm(r) == IF r.err THEN Err3 ELSE r

ObjRunProp(rec, run) ==
  /\ ~run.panic
  /\ ~run.nb.err => AllWithin(Tri(run.nb), run.cut)
  /\ ~run.pb.err => AllWithin(Tri(run.pb), run.cut)
  /\ ~run.ex.err => run.ex.pfx <= run.cut
  /\ (rec.enc /\ rec.fullOK) =>
       /\ ~run.nb.err => run.nb.agree
       /\ ~run.ex.err => run.ex.agree
       /\ ~run.pb.err => run.pb.agree
       /\ run.cut = rec.total => ~run.nb.err /\ ~run.ex.err /\ ~run.pb.err
HdrRunProp(rec, run) ==
  /\ ~run.panic
  /\ ~run.pb.err => AllWithin(Tri(run.pb), run.cut)
  /\ (rec.enc /\ rec.fullOK) =>
       /\ ~run.pl.err => run.pl.agree
       /\ ~run.ty.err => run.ty.agree
       /\ ~run.pb.err => run.pb.agree
       /\ run.cut = rec.total /\ rec.total > 0 => ~run.pl.err /\ ~run.ty.err /\ ~run.pb.err
\* fstree head paths on a stored (possibly compressed) object agree with full decoding (Get)
FsProp(rec) == /\ ~rec.fs.panic
               /\ rec.fs.getOK => /\ rec.fs.headOK /\ rec.fs.headEq
                                   /\ rec.fs.streamOK /\ rec.fs.streamEq
                                   /\ rec.fs.rhOK /\ rec.fs.rhCovers
                                   /\ rec.fs.partsOK /\ rec.fs.partsEq
FsSpec(rec) == rec.fs.getOK => (rec.fs.headOK = ~HeadRead(rec.fields)[1])
Prop(rec) == IF rec.level = "fs" THEN FsProp(rec)
             ELSE \A j \in 1..Len(rec.runs) :
                    IF rec.level = "obj" THEN ObjRunProp(rec, rec.runs[j]) ELSE HdrRunProp(rec, rec.runs[j])

ObjRunSpec(rec, run) ==
  /\ Norm(Tri(run.nb)) = NonPayloadBounds(rec.fields, run.cut)
  /\ Norm(Tri(run.pb)) = ParentBoundsObj(rec.fields, run.cut)
  /\ LET e == Extract(rec.fields, run.cut) IN
       \* nested decoding errors are outside the structural model: only when the model says "ok" must the code agree
       IF e[1] THEN run.ex.err ELSE (run.ex.err \/ run.ex.pfx = e[2])
HdrRunSpec(rec, run) ==
  /\ Norm(Tri(run.pb)) = ParentBoundsHdr(rec.fields, run.cut)
  /\ LET p == VarintField(rec.fields, run.cut, 5) IN run.pl.err = p[1] /\ (~p[1] => run.pl.v = p[2])
  /\ LET t == VarintField(rec.fields, run.cut, 7) IN run.ty.err = t[1] /\ (~t[1] => run.ty.v = t[2])
SpecEq(rec) == IF rec.level = "fs" THEN FsSpec(rec)
               ELSE \A j \in 1..Len(rec.runs) :
                      IF rec.level = "obj" THEN ObjRunSpec(rec, rec.runs[j]) ELSE HdrRunSpec(rec, rec.runs[j])

TraceInit == l = 1 /\ drift = 0
TraceNext == /\ l <= Len(Recs) /\ l' = l + 1
             /\ drift' = IF drift = 0 /\ ~SpecEq(Recs[l]) THEN l ELSE drift
TraceSpec == TraceInit /\ [][TraceNext]_<<l, drift>>
PropOnRecords == l > Len(Recs) \/ Prop(Recs[l])
CodeIsSpec    == l <= Len(Recs) \/ drift = 0
=============================================================================
