---------------------------- MODULE TraceFSTree ----------------------------
(* C->M trace validation for C10. Every recorded call of the real FSTree is the spec's event with the
   logged arguments; the result of every call and of every read of the audit after each mutator must be
   the one the abstract map `store` demands (ResOK - the verdict). The layout read back from the disk
   is adopted into `loc` and must be one the model allows (LayOK - model drift, not a verdict).
   Deviations listed as known findings: a read may instead return what the code as found returns
   according to spec/FSTreeScan.tla (bugRefill / bugExactLimit / bugPrefixEOF); each such event is printed as
   <<"KF", signature, index>> and reported by the check through the known-findings protocol. *)
EXTENDS FSTree, Json
CONSTANT AllowAsIs
Trace == ndJsonDeserialize("trace.ndjson")
VARIABLES l, nn, okRes, okLay, okScript
tvars == <<vars, l, nn, okRes, okLay, okScript>>

Adopt(L, lay) == [a \in Addrs |-> IF \E i \in 1..Len(lay) : lay[i].a = a
                                    THEN lay[CHOOSE i \in 1..Len(lay) : lay[i].a = a].f ELSE L[a]]

ModelEvent(e) == CASE e.ev = "Put" -> [ev |-> "Put", m |-> e.m]
                   [] e.ev = "PutBatch" -> [ev |-> "PutBatch", file |-> e.items]
                   [] e.ev = "ParPut" -> [ev |-> "ParPut", items |-> e.items, groups |-> <<>>]
                   [] OTHER -> [ev |-> e.ev, a |-> e.a]

\* what a read may return: the stored version; or, flagged, the outcome of the code as found
AsIsSig(api, a, r) ==
  IF r = -4 /\ ReadImpl(TRUE, FALSE, FALSE, api, loc[a], a) = -4 THEN "readheader-refill-overflow"
  ELSE IF r = -1 /\ ReadImpl(FALSE, TRUE, FALSE, api, loc[a], a) = -1 THEN "exact-buffer-member-overrun"
  ELSE IF r = -1 /\ ReadImpl(FALSE, FALSE, TRUE, api, loc[a], a) = -1 THEN "prefixed-reader-early-eof"
  ELSE ""
ReadOK(api, a, r, idx) ==
  \/ r = store[a]
  \/ /\ AllowAsIs
     /\ AsIsSig(api, a, r) # ""
     /\ PrintT(<<"KF", AsIsSig(api, a, r), idx, a, api>>)

TraceInit == /\ store = [a \in Addrs |-> 0] /\ loc = [a \in Addrs |-> NoFile]
             /\ cnt = 0 /\ thr = 0 /\ writer = "" /\ l = 1 /\ nn = 0
             /\ okRes = TRUE /\ okLay = TRUE /\ okScript = TRUE

TraceNext ==
  /\ l <= Len(Trace)
  /\ l' = l + 1
  /\ LET e == Trace[l] IN
     CASE e.ev = "Init" ->
            /\ store' = [a \in Addrs |-> 0] /\ loc' = [a \in Addrs |-> NoFile]
            /\ cnt' = e.cnt /\ thr' = e.thr /\ writer' = e.writer /\ nn' = e.n
            /\ okRes' = TRUE /\ okLay' = TRUE /\ okScript' = (e.n <= NA)
       [] e.ev \in {"Put", "PutBatch", "ParPut", "Delete", "PutEmpty"} ->
            LET me == ModelEvent(e)
                L2 == Adopt(loc, e.lay)
            IN /\ store' = NextStore(store, me)
               /\ loc' = L2
               /\ okScript' = Valid(store, me)
               /\ okLay' = ValidLayout(loc, me, L2)
               /\ okRes' = IF e.ev = "ParPut" THEN \A i \in 1..Len(e.res) : e.res[i] = 1
                           ELSE e.res = MutRes(store, me)
               /\ UNCHANGED <<cnt, thr, writer, nn>>
       [] e.ev = "Read" ->
            /\ okRes' = ReadOK(e.api, e.a, e.res, l)
            /\ UNCHANGED <<vars, nn, okLay, okScript>>
       [] e.ev = "Iterate" ->
            /\ okRes' = (Len(e.res) = nn /\ \A a \in 1..nn : e.res[a] = store[a])
            /\ UNCHANGED <<vars, nn, okLay, okScript>>
       [] e.ev = "Audit" ->
            /\ okRes' = /\ Len(e.res) = nn /\ Len(e.it) = nn
                        /\ \A a \in 1..nn : ReadOK(e.apis[a], a, e.res[a], l)
                        /\ \A a \in 1..nn : e.it[a] = store[a]
            /\ UNCHANGED <<vars, nn, okLay, okScript>>

TraceSpec == TraceInit /\ [][TraceNext]_tvars

ResOK == okRes          \* the property (verdict)
LayOK == okLay          \* the model's layout policy (drift => infrastructure error)
ScriptOK == okScript    \* the driver respected the script assumptions
=============================================================================
