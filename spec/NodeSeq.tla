------------------------------- MODULE NodeSeq -------------------------------
(* C22 - internal/ec/policy.go: NodeSequenceForPart(partIdx, totalParts, nodes).

   Implementation-shaped definition (the two nested loops of the Go iterator):

       for shift := 0; shift <= totalParts-1; shift++ {
           for i := (partIdx + shift) % totalParts; i < nodes; i += totalParts { yield(i) }
       }

   and the property stated declaratively next to it:
     (P1) the yielded list is a permutation of 0..nodes-1 (every node index exactly once);
     (P2) nodes >= totalParts  =>  part p starts at node p, hence distinct parts start at distinct nodes.

   The model check enumerates every (totalParts, nodes) pair of the bounded universe and, for each,
   every part index 0..totalParts-1.                                                                *)
EXTENDS Integers, Sequences, FiniteSets, TLC

CONSTANTS MaxParts,   \* totalParts ranges over 1..MaxParts
          MaxNodes    \* nodes ranges over 0..MaxNodes

\* inner loop: for i := start; i < n; i += t
RECURSIVE Inner(_, _, _)
Inner(i, t, n) == IF i < n THEN <<i>> \o Inner(i + t, t, n) ELSE <<>>

\* outer loop: for shift := from; shift <= t-1; shift++
RECURSIVE Outer(_, _, _, _)
Outer(shift, p, t, n) ==
  IF shift <= t - 1 THEN Inner((p + shift) % t, t, n) \o Outer(shift + 1, p, t, n) ELSE <<>>

NodeSeq(p, t, n) == Outer(0, p, t, n)

\* all sequences of one (t, n) pair, indexed by part index + 1
AllSeqs(t, n) == [q \in 1..t |-> NodeSeq(q - 1, t, n)]

-----------------------------------------------------------------------------
(* Declarative property, over an arbitrary family ss of sequences (index = part + 1) so that the
   same operators are evaluated on the model's sequences and on sequences recorded from real code. *)
IsPermutation(s, n) == /\ Len(s) = n
                       /\ {s[k] : k \in 1..Len(s)} = 0..(n - 1)

P1_Permutation(ss, t, n) == \A q \in 1..t : IsPermutation(ss[q], n)

P2_OwnStart(ss, t, n) == n >= t => \A q \in 1..t : Len(ss[q]) > 0 /\ ss[q][1] = q - 1

P2_DistinctStarts(ss, t, n) ==
  n >= t => \A q1, q2 \in 1..t : q1 # q2 => (Len(ss[q1]) > 0 /\ Len(ss[q2]) > 0 /\ ss[q1][1] # ss[q2][1])

-----------------------------------------------------------------------------
(* Enumeration as a (terminating) state machine: pick t, then pick n; two levels so that TLC's
   workers share the work.                                                                      *)
VARIABLES t, n, seqs
vars == <<t, n, seqs>>

Init == t = 0 /\ n = -1 /\ seqs = <<>>
PickT == t = 0 /\ \E tt \in 1..MaxParts : t' = tt /\ UNCHANGED <<n, seqs>>
PickN == t > 0 /\ n = -1 /\ \E nn \in 0..MaxNodes : n' = nn /\ seqs' = AllSeqs(t, nn) /\ UNCHANGED t
Next == PickT \/ PickN
Spec == Init /\ [][Next]_vars

Done == n >= 0
Permutation    == Done => P1_Permutation(seqs, t, n)
OwnStart       == Done => P2_OwnStart(seqs, t, n)
DistinctStarts == Done => P2_DistinctStarts(seqs, t, n)
=============================================================================
