SPECIFICATION TraceSpec
CONSTANTS
  NKeys = 8
  CurSizes = {1}
  MaxExtra = 0
  BugIRDup = FALSE
INVARIANTS RecOK RecProp
CHECK_DEADLOCK FALSE
