------------------------------- MODULE IntStr -------------------------------
(* C05 (and the "integer" rule of C03/C04): decimal-integer strings and the signed fixed-width index key,
   over SEQUENCES (strings = sequences of byte codes, numbers = sequences of decimal digit values, keys =
   sequences of bytes), so nothing depends on the width of TLC's integers.

   Reference (declarative) definitions:  WellFormed, Norm, InRange, IsInt, CmpNum, Print, Key, DecodeKey.
   Implementation-shaped readers, one per place of the Go code that reads a decimal integer:
     ImplParseDecimal      signed256.Int.SetFromDecimal -> holiman/uint256 Int.SetFromDecimal
     ImplSplit             objectcore.splitIntString
     ImplParseNormalized   signed256.ParseNormalizedDecimal
     ImplFilterValue       objectcore.parseIntFilters (splitIntString + range test + ParseNormalizedDecimal)
     ImplCompareIntStrings objectcore.compareIntStrings (used by MergeSearchResults)
   Signed256MC.tla checks with TLC that the readers agree with the reference on every string over a small
   alphabet; TraceSigned256.tla checks records produced by the real Go functions against them.

   Deviation switches (TRUE = the code as found, FALSE = repaired):
     BugPlusAfterSign  uint256's SetFromDecimal strips one leading '+' itself, so SetFromDecimal accepts
                       "++1", "-+1" (sign followed by '+').
     BugMergeNoRange   compareIntStrings has no range test: digit strings above 2^256-1 are compared.       *)
EXTENDS Integers, Sequences

CONSTANTS MaxDigits,          \* digit values of the largest magnitude (2^256-1 in the real cfg)
          KB, KN,             \* key: byte base (256) and number of magnitude bytes (32)
          BugPlusAfterSign, BugMergeNoRange

Plus == 43
Minus == 45
IsDigit(c) == c >= 48 /\ c <= 57
AllDigits(s) == \A i \in 1..Len(s) : IsDigit(s[i])
Drop(s, k) == SubSeq(s, k + 1, Len(s))
DigVals(s) == [i \in 1..Len(s) |-> s[i] - 48]
Chars(d) == [i \in 1..Len(d) |-> d[i] + 48]
Reverse(s) == [i \in 1..Len(s) |-> s[Len(s) + 1 - i]]

RECURSIVE FirstNot(_, _, _)
FirstNot(d, z, i) == IF i > Len(d) THEN i ELSE IF d[i] # z THEN i ELSE FirstNot(d, z, i + 1)
\* digit values without leading zeros; zero is <<0>>
StripZeros(d) == LET k == FirstNot(d, 0, 1) IN IF k > Len(d) THEN <<0>> ELSE SubSeq(d, k, Len(d))

\* bytes.Compare / strings.Compare
RECURSIVE LexCmp(_, _, _)
LexCmp(s, t, i) == IF i > Len(s) /\ i > Len(t) THEN 0
                   ELSE IF i > Len(s) THEN -1
                   ELSE IF i > Len(t) THEN 1
                   ELSE IF s[i] < t[i] THEN -1
                   ELSE IF s[i] > t[i] THEN 1
                   ELSE LexCmp(s, t, i + 1)
BytesCmp(s, t) == LexCmp(s, t, 1)
\* magnitudes without leading zeros: shorter is smaller, equal length => lexicographic
CmpMag(m, n) == IF Len(m) # Len(n) THEN (IF Len(m) < Len(n) THEN -1 ELSE 1) ELSE BytesCmp(m, n)

-----------------------------------------------------------------------------
(* reference *)
HasSign(s) == Len(s) > 0 /\ (s[1] = Plus \/ s[1] = Minus)
Body(s) == IF HasSign(s) THEN Drop(s, 1) ELSE s
WellFormed(s) == Len(Body(s)) > 0 /\ AllDigits(Body(s))           \* optionally signed, at least one digit
MkNum(neg, mag) == [neg |-> neg /\ mag # <<0>>, mag |-> mag]
Norm(s) == MkNum(HasSign(s) /\ s[1] = Minus, StripZeros(DigVals(Body(s))))   \* value of a well-formed s
InRange(n) == CmpMag(n.mag, MaxDigits) <= 0
IsInt(s) == WellFormed(s) /\ InRange(Norm(s))
CmpNum(m, n) == IF m.neg # n.neg THEN (IF m.neg THEN -1 ELSE 1)
                ELSE IF m.neg THEN -CmpMag(m.mag, n.mag) ELSE CmpMag(m.mag, n.mag)
PrintNum(n) == (IF n.neg THEN <<Minus>> ELSE <<>>) \o Chars(n.mag)    \* Int.String

-----------------------------------------------------------------------------
(* base conversion on digit sequences: big-endian digits in base `from` -> little-endian digits in base `to`,
   no leading zeros, zero = <<>> *)
RECURSIVE MulAddG(_, _, _, _, _, _)
MulAddG(le, i, carry, acc, mul, base) ==
  IF i > Len(le)
    THEN IF carry = 0 THEN acc ELSE MulAddG(le, i, carry \div base, Append(acc, carry % base), mul, base)
    ELSE LET t == le[i] * mul + carry IN MulAddG(le, i + 1, t \div base, Append(acc, t % base), mul, base)
RECURSIVE ToBaseLE(_, _, _, _, _)
ToBaseLE(be, j, acc, from, to) ==
  IF j > Len(be) THEN acc ELSE ToBaseLE(be, j + 1, MulAddG(acc, 1, be[j], <<>>, from, to), from, to)

\* decimal digits are grouped into limbs of six (base 10^6) so that a 78-digit number is 13 limbs: every
\* intermediate product stays far below 2^31
LimbBase == 1000000
RECURSIVE ValOf(_, _, _, _)
ValOf(d, i, j, acc) == IF i > j THEN acc ELSE ValOf(d, i + 1, j, acc * 10 + d[i])
DigitsToLimbs(d) == LET n == Len(d)
                        nl == (n + 5) \div 6
                        r == n - 6 * (nl - 1)
                    IN [j \in 1..nl |-> IF j = 1 THEN ValOf(d, 1, r, 0)
                                        ELSE ValOf(d, r + 6 * (j - 2) + 1, r + 6 * (j - 1), 0)]
Limb6(v) == <<(v \div 100000) % 10, (v \div 10000) % 10, (v \div 1000) % 10, (v \div 100) % 10, (v \div 10) % 10, v % 10>>
LimbsToDigits(be) == StripZeros([i \in 1..(6 * Len(be)) |-> Limb6(be[((i - 1) \div 6) + 1])[((i - 1) % 6) + 1]])

\* Bytes32(|v|): KN big-endian bytes (only for magnitudes in range)
MagBytes(mag) == LET le == ToBaseLE(DigitsToLimbs(mag), 1, <<>>, LimbBase, KB)
                 IN [i \in 1..KN |-> IF KN + 1 - i <= Len(le) THEN le[KN + 1 - i] ELSE 0]
InvBytes(bs) == [i \in 1..Len(bs) |-> KB - 1 - bs[i]]
\* Int.FillBytes / EncodeBytes / IntBytes
Key(n) == <<IF n.neg THEN 0 ELSE 1>> \o (IF n.neg THEN InvBytes(MagBytes(n.mag)) ELSE MagBytes(n.mag))
\* DecodeBytes
KeyWellFormed(k) == Len(k) = KN + 1 /\ (k[1] = 0 \/ k[1] = 1)
DecodeKey(k) == LET bs == IF k[1] = 0 THEN InvBytes(Drop(k, 1)) ELSE Drop(k, 1)
                    le == ToBaseLE(bs, 1, <<>>, KB, LimbBase)
                IN MkNum(k[1] = 0, IF le = <<>> THEN <<0>> ELSE LimbsToDigits(Reverse(le)))

-----------------------------------------------------------------------------
(* implementation-shaped readers; results: [ok, neg, mag] *)
Fail == [ok |-> FALSE, neg |-> FALSE, mag |-> <<>>]
Ok(n) == [ok |-> TRUE, neg |-> n.neg, mag |-> n.mag]
Val(r) == [neg |-> r.neg, mag |-> r.mag]

\* uint256.Int.SetFromDecimal: one optional '+', leading zeros dropped, length/lexicographic range test,
\* then chunks of 19 characters through strconv.ParseUint (digits only)
ImplUintParse(t0) ==
  LET t == IF BugPlusAfterSign /\ Len(t0) > 0 /\ t0[1] = Plus THEN Drop(t0, 1) ELSE t0
  IN IF Len(t) = 0 \/ ~AllDigits(t) THEN Fail
     ELSE LET m == StripZeros(DigVals(t)) IN IF CmpMag(m, MaxDigits) > 0 THEN Fail ELSE Ok(MkNum(FALSE, m))

\* signed256.Int.SetFromDecimal / ParseDecimal (also meta.parseInt, CalculateCursor, MetaDataKVHandler)
ImplParseDecimal(s) ==
  IF Len(s) = 0 THEN Fail
  ELSE LET t == IF s[1] = Plus \/ s[1] = Minus THEN Drop(s, 1) ELSE s
       IN IF Len(t) = 0 THEN Fail
          ELSE LET u == ImplUintParse(t) IN IF ~u.ok THEN Fail ELSE Ok(MkNum(s[1] = Minus, u.mag))

\* objectcore.splitIntString: [ok, neg, dig] with dig = characters
FailS == [ok |-> FALSE, neg |-> FALSE, dig |-> <<>>]
ImplSplit(s) ==
  IF Len(s) = 0 THEN FailS
  ELSE LET i0 == IF s[1] = Plus \/ s[1] = Minus THEN 2 ELSE 1
       IN IF i0 = Len(s) + 1 THEN FailS
          ELSE LET start == FirstNot(s, 48, i0)
                   rest == SubSeq(s, start, Len(s))
               IN IF ~AllDigits(rest) THEN FailS
                  ELSE IF start = Len(s) + 1 THEN [ok |-> TRUE, neg |-> FALSE, dig |-> <<48>>]
                  ELSE [ok |-> TRUE, neg |-> s[1] = Minus, dig |-> rest]

\* signed256.ParseNormalizedDecimal(neg, digits)
ImplParseNormalized(neg, dg) ==
  IF Len(dg) = 0 \/ ~AllDigits(dg) THEN Fail
  ELSE LET m == StripZeros(DigVals(dg)) IN IF CmpMag(m, MaxDigits) > 0 THEN Fail ELSE Ok(MkNum(neg, m))

\* objectcore.parseIntFilters: value of a numeric filter (compareNormalizedDigits against the limits first)
ImplFilterValue(s) ==
  LET sp == ImplSplit(s)
  IN IF ~sp.ok THEN Fail
     ELSE IF CmpMag(DigVals(sp.dig), MaxDigits) > 0 THEN Fail
     ELSE ImplParseNormalized(sp.neg, sp.dig)

\* objectcore.compareIntStrings: [ok, c]
ImplCompareIntStrings(s, t) ==
  LET ss == ImplSplit(s)
      st == ImplSplit(t)
  IN IF ~ss.ok \/ ~st.ok THEN [ok |-> FALSE, c |-> 0]
     ELSE IF ~BugMergeNoRange /\ (CmpMag(DigVals(ss.dig), MaxDigits) > 0 \/ CmpMag(DigVals(st.dig), MaxDigits) > 0)
       THEN [ok |-> FALSE, c |-> 0]
     ELSE [ok |-> TRUE, c |->
            IF ss.neg # st.neg THEN (IF ss.neg THEN -1 ELSE 1)
            ELSE IF Len(ss.dig) # Len(st.dig)
              THEN (IF Len(ss.dig) < Len(st.dig) THEN (IF ss.neg THEN 1 ELSE -1) ELSE (IF ss.neg THEN -1 ELSE 1))
            ELSE IF ss.neg THEN -BytesCmp(ss.dig, st.dig) ELSE BytesCmp(ss.dig, st.dig)]

\* the input class of the known finding BugPlusAfterSign: a sign, one more '+', then a well-formed in-range rest
PlusAfterSignClass(s) == Len(s) >= 3 /\ (s[1] = Plus \/ s[1] = Minus) /\ s[2] = Plus /\ AllDigits(Drop(s, 2))
=============================================================================
