SPECIFICATION TraceSpec
CONSTANTS
  MaxLayers = 3
  MaxSteps = 0
  ListBad = TRUE

CHECK_DEADLOCK FALSE
