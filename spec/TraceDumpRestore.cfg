SPECIFICATION TraceSpec
CONSTANTS
  NRec = 3
  MaxCuts = 5
  BugH4 = TRUE
INVARIANTS Accept
CHECK_DEADLOCK FALSE
