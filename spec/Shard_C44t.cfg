SPECIFICATION LiveSpec
CONSTANTS
  Objs = {2, 4, 5}
  WCs = {TRUE}
  Batches = {1}
  MaxEpoch = 3
  Ops = {"Put", "GC", "Epoch", "MarkDef", "InhumeCnr", "Quiesce"}
  Faults = {}
  Modes = {}
  BugH9 = TRUE
  BugH10 = TRUE
  BugMetaStale = TRUE
  BugH11 = FALSE
  KRounds = 8
INVARIANTS TypeOK C44Bound
PROPERTIES C44Live C44Stable
CHECK_DEADLOCK FALSE
