SPECIFICATION TraceSpec
CONSTANTS
  OpsU = {"get"}
  Sliced = TRUE
  TabLen = 2
  CheckTables = FALSE
  ListBad = FALSE
INVARIANTS RecOK RecServedOnlyIf
CHECK_DEADLOCK FALSE
