---------------------------- MODULE Signed256MC ----------------------------
(* C05 - TLC side, small width (M = KB^KN - 1, e.g. 4^4-1 = 255): everything that Apalache proves on numbers
   (Signed256.tla) is tied to the sequence-level operators of IntStr.tla that judge the real Go records:
     * FillBytes (sign byte, big-endian magnitude, per-byte inversion) is the number pair Enc of Signed256,
       bytes.Compare on it is numeric order, DecodeKey inverts it, Key computed from decimal digits equals it;
     * every implementation-shaped decimal reader accepts exactly IsInt and returns Norm; compareIntStrings is
       numeric order and equals key order; print/parse round-trips.
   Two cfgs: *_pairs (all x, y in -M..M) and *_strings (all strings over a small alphabet).              *)
EXTENDS Signed256, IntStr, TLC

CONSTANTS Alphabet, LS, LS2, Mode       \* Mode = "pairs" | "strings"
VARIABLES s, s2

MaxDigits255 == <<2, 5, 5>>
MaxDigits63 == <<6, 3>>

Strs(L) == UNION {[1..n -> Alphabet] : n \in 0..L}

\* the universe is enumerated by Next from ONE trivial initial state: TLC's workers share the work and nothing
\* heavy is evaluated on the JVM's main thread (small stack)
MCInit == x = -M /\ y = -M /\ a = 0 /\ b = 0 /\ s = <<>> /\ s2 = <<>>
MCNext == IF Mode = "pairs"
            THEN \/ y < M /\ y' = y + 1 /\ UNCHANGED <<x, a, b, s, s2>>
                 \/ y = -M /\ x < M /\ x' = x + 1 /\ UNCHANGED <<y, a, b, s, s2>>
            ELSE \/ Len(s) < LS /\ (\E c \in Alphabet : s' = Append(s, c)) /\ UNCHANGED <<x, y, a, b, s2>>
                 \/ Len(s2) < LS2 /\ (\E c \in Alphabet : s2' = Append(s2, c)) /\ UNCHANGED <<x, y, a, b, s>>
MCSpec == MCInit /\ [][MCNext]_<<x, y, a, b, s, s2>>

RECURSIVE Pow(_, _)
Pow(k, n) == IF n = 0 THEN 1 ELSE k * Pow(k, n - 1)
Sign(v) == IF v < 0 THEN -1 ELSE IF v > 0 THEN 1 ELSE 0

RECURSIVE IntOfMagR(_, _, _)
IntOfMagR(d, i, acc) == IF i > Len(d) THEN acc ELSE IntOfMagR(d, i + 1, acc * 10 + d[i])
IntOf(n) == IF n.neg THEN -IntOfMagR(n.mag, 1, 0) ELSE IntOfMagR(n.mag, 1, 0)
RECURSIVE MagOfInt(_)
MagOfInt(v) == IF v < 10 THEN <<v>> ELSE Append(MagOfInt(v \div 10), v % 10)
NumOfInt(v) == MkNum(v < 0, MagOfInt(Abs(v)))

BytesOfInt(m) == [i \in 1..KN |-> (m \div Pow(KB, KN - i)) % KB]
EncBytes(v) == <<Enc(v)[1]>> \o BytesOfInt(Enc(v)[2])                  \* the number pair rendered as bytes
EncImpl(v) == <<IF v < 0 THEN 0 ELSE 1>> \o                              \* Int.FillBytes, literally
              (IF v < 0 THEN InvBytes(BytesOfInt(Abs(v))) ELSE BytesOfInt(Abs(v)))

ASSUME M = Pow(KB, KN) - 1
ASSUME IntOfMagR(MaxDigits, 1, 0) = M /\ StripZeros(MaxDigits) = MaxDigits

(* ---- pairs ---- *)
P_IntLevel == InvTLC
P_FillBytesIsEnc == EncImpl(x) = EncBytes(x)
P_BytesOrder == /\ (BytesCmp(EncImpl(x), EncImpl(y)) < 0) <=> (x < y)
                /\ (BytesCmp(EncImpl(x), EncImpl(y)) = 0) <=> (x = y)
                /\ (BytesCmp(EncImpl(x), EncImpl(y)) < 0) <=> KeyLess(Enc(x), Enc(y))
P_KeyOfDigits == Key(NumOfInt(x)) = EncImpl(x)
P_DecodeInverse == KeyWellFormed(EncImpl(x)) /\ DecodeKey(EncImpl(x)) = NumOfInt(x) /\ IntOf(DecodeKey(EncImpl(x))) = Dec(Enc(x))
P_CmpNumIsNumeric == CmpNum(NumOfInt(x), NumOfInt(y)) = Sign(x - y)
P_RangeIsM == InRange(NumOfInt(x)) /\ ~InRange(NumOfInt(M + 1 + Abs(x)))
P_PrintParse == LET n == NumOfInt(x)
                    p == PrintNum(n)
                IN /\ IsInt(p) /\ Norm(p) = n
                   /\ ImplParseDecimal(p) = Ok(n)
                   /\ ImplFilterValue(p) = Ok(n)
                   /\ IntOf(n) = x
PairsInv == P_IntLevel /\ P_FillBytesIsEnc /\ P_BytesOrder /\ P_KeyOfDigits /\ P_DecodeInverse
            /\ P_CmpNumIsNumeric /\ P_RangeIsM /\ P_PrintParse

(* ---- strings ---- *)
KF(t) == BugPlusAfterSign /\ PlusAfterSignClass(t)
S_AcceptExactly == (ImplParseDecimal(s).ok <=> IsInt(s)) \/ KF(s)
S_SplitAcceptsWellFormed == ImplSplit(s).ok <=> WellFormed(s)
S_FilterAcceptsExactly == ImplFilterValue(s).ok <=> IsInt(s)
S_NormalizedAcceptsExactly ==
  LET sp == ImplSplit(s) IN sp.ok => (ImplParseNormalized(sp.neg, sp.dig).ok <=> IsInt(s))
S_ReadersAgree ==
  IsInt(s) => LET sp == ImplSplit(s)
              IN /\ ImplParseDecimal(s) = Ok(Norm(s))
                 /\ ImplFilterValue(s) = Ok(Norm(s))
                 /\ ImplParseNormalized(sp.neg, sp.dig) = Ok(Norm(s))
                 /\ MkNum(sp.neg, StripZeros(DigVals(sp.dig))) = Norm(s)
S_RoundTrip ==
  IsInt(s) => LET n == Norm(s)
                  p == PrintNum(n)
              IN /\ IsInt(p) /\ Norm(p) = n /\ PrintNum(Norm(p)) = p /\ ImplParseDecimal(p) = Ok(n)
                 /\ (~HasSign(p) \/ p[1] = Minus)
S_KeyOfString ==
  IsInt(s) => /\ Key(Norm(s)) = EncImpl(IntOf(Norm(s)))
              /\ DecodeKey(Key(Norm(s))) = Norm(s)
S_Compare ==
  LET c == ImplCompareIntStrings(s, s2)
  IN /\ c.ok <=> IF BugMergeNoRange THEN WellFormed(s) /\ WellFormed(s2) ELSE IsInt(s) /\ IsInt(s2)
     /\ (IsInt(s) /\ IsInt(s2)) =>
          /\ c.c = CmpNum(Norm(s), Norm(s2))
          /\ c.c = Sign(IntOf(Norm(s)) - IntOf(Norm(s2)))
          /\ c.c = BytesCmp(Key(Norm(s)), Key(Norm(s2)))
StringsInv == S_AcceptExactly /\ S_SplitAcceptsWellFormed /\ S_FilterAcceptsExactly /\ S_NormalizedAcceptsExactly
              /\ S_ReadersAgree /\ S_RoundTrip /\ S_KeyOfString /\ S_Compare

\* anti-vacuity: the interesting classes are present in the enumerated strings
ClassesPresent == /\ \E t \in Strs(LS) : IsInt(t) /\ HasSign(t)
                  /\ \E t \in Strs(LS) : WellFormed(t) /\ ~IsInt(t)
                  /\ \E t \in Strs(LS) : PlusAfterSignClass(t)
                  /\ \E t \in Strs(LS) : IsInt(t) /\ Norm(t).mag = MaxDigits
=============================================================================
