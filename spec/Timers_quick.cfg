SPECIFICATION Spec
CONSTANTS
  MaxT = 6
  Durs = {1, 3, 4}
INVARIANTS TypeOK FiresExactlyOnceWhenDue FiredNowWasDue NoDuplicatesInOneCall
CHECK_DEADLOCK FALSE
