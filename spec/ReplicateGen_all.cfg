SPECIFICATION GenSpec
CONSTANTS
  MaxEpoch = 5
  NSenders = 1
  RSigs = {"ok"}
  RSchemes = {"sha512"}
  RObjs = {"valid"}
  RCnrs = {"known"}
  GenLen = 5
  GenServer = {TRUE}
INVARIANTS Emit
CHECK_DEADLOCK FALSE
