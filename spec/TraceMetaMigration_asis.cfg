SPECIFICATION TraceSpec
CONSTANTS
  Worlds = {}
  BugCursorLeak = TRUE
  MaxInt = 1000000
INVARIANTS ExactlyOneFormat HomoPaired OtherUntouched ReadyIsCurrent KnownFindings
POSTCONDITION TraceAccepted
CHECK_DEADLOCK FALSE
ALIAS Compact
