SPECIFICATION TraceSpec
CONSTANTS
  Worlds = {}
  BugCursorLeak = TRUE
  MaxInt = 1000000
INVARIANTS TraceNotStuck ExactlyOneFormat HomoPaired OtherUntouched ReadyIsCurrent KnownFindings
CHECK_DEADLOCK FALSE
