------------------------------- MODULE Shard -------------------------------
(* Family `sharda` (C09, C15, C44, C14, C43) - pkg/local_object_storage/shard.

   One shard = blobstor (FSTree) + optional write-cache + metabase (bbolt) + GC + modes.
   The model is implementation-shaped: every public operation of shard.Shard is a small
   *program* of micro-steps (one micro-step = one component call of the Go code: write-cache
   put, blob put, metabase transaction, cache delete, blob delete ...).  The program counter
   `pc` is a stack of pending micro-steps; `Step` executes the head, `Crash` drops the stack
   and all volatile state (process crash: files stay as written).  Micro-steps that only
   compute (iterate the metabase, expand a GC pass into deletions) push further micro-steps.

   The whole state is ONE record variable `S` so that the same pure functions are used by
     - Next        (exhaustive TLC, one micro-step per action),
     - ShardGen    (TLC -simulate: operation-level behaviours for the Go harness),
     - TraceShard  (validation of traces recorded from the real shard.Shard).

   Objects are the fixed catalogue `Cat` (must equal `catalogue` in harness/cmd/sharda/world.go).
   Address order = numeric order (the harness sorts the real CIDs/OIDs accordingly).        *)
EXTENDS Integers, Sequences, FiniteSets, TLC

CONSTANTS Objs,      \* ids used by Next (subset of Ids)
          WCs,       \* subset of BOOLEAN: write-cache configurations explored
          Batches,   \* set of rmBatchSize values explored
          MaxEpoch,  \* epochs 0..MaxEpoch
          Ops,       \* operation kinds enabled in Next
          Faults,    \* subset of {"crash", "delfail", "flushfail", "wc", "blob", "meta"}
          Modes,     \* target modes of SetMode in Next
          BugH9,     \* TRUE: as-is (crash between metabase and blob step of deleteObjs leaves the blob)
          BugH10,    \* TRUE: as-is (setModeStorage short-circuits on the REPORTED mode)
          BugMetaStale, \* TRUE: as-is (DB.SetMode failure leaves a closed bolt under the old mode)
          BugH11,    \* TRUE: DB.put re-indexes an already stored, garbage-marked object (before commit 1fde943); FALSE: no-op
          KRounds    \* C44 bounded form: GC passes after the last expiration epoch within which everything is gone

Cat == << [typ |-> "REG",  c |-> 1, tgt |-> 0, exp |-> 0],
          [typ |-> "REG",  c |-> 1, tgt |-> 0, exp |-> 1],
          [typ |-> "TS",   c |-> 1, tgt |-> 1, exp |-> 2],
          [typ |-> "LOCK", c |-> 1, tgt |-> 2, exp |-> 2],
          [typ |-> "REG",  c |-> 2, tgt |-> 0, exp |-> 0],
          [typ |-> "REG",  c |-> 2, tgt |-> 0, exp |-> 1],
          [typ |-> "REG",  c |-> 1, tgt |-> 0, exp |-> 1],
          [typ |-> "LOCK", c |-> 1, tgt |-> 7, exp |-> 0] >>    \* a lock that never expires
Ids  == 1..Len(Cat)
LastExp == 2                     \* largest expiration epoch of the catalogue
Cnrs == {1, 2}
NC   == 2

VARIABLE S
vars == <<S>>

Min(a, b) == IF a < b THEN a ELSE b
RECURSIVE AscSeq(_)
AscSeq(s) == IF s = {} THEN <<>> ELSE LET m == CHOOSE x \in s : \A y \in s : x <= y IN <<m>> \o AscSeq(s \ {m})
SortBy(s0, K(_)) == LET RECURSIVE Go(_)
                        Go(s) == IF s = {} THEN <<>> ELSE LET m == CHOOSE x \in s : \A y \in s : K(x) <= K(y) IN <<m>> \o Go(s \ {m})
                    IN Go(s0)
FirstN(q, n) == SubSeq(q, 1, Min(n, Len(q)))
Range(q) == {q[i] : i \in 1..Len(q)}
Fold(F(_, _), acc0, q0) == LET RECURSIVE Go(_, _)
                               Go(acc, q) == IF q = <<>> THEN acc ELSE Go(F(acc, Head(q)), Tail(q))
                           IN Go(acc0, q0)

-----------------------------------------------------------------------------
(* Modes *)
RO(m)     == m \in {"RO", "DEGRO"}      \* mode.ReadOnly()
NoMeta(m) == m \in {"DEG", "DEGRO"}     \* mode.NoMetabase()

-----------------------------------------------------------------------------
(* Metabase: m = [stored, garb, cnr].  Pure functions mirroring pkg/local_object_storage/metabase. *)
EmptyMeta == [stored |-> [a \in Ids |-> FALSE], garb |-> [a \in Ids |-> "none"], cnr |-> [c \in Cnrs |-> "none"]]

IsExp(m, a, e)  == m.stored[a] /\ Cat[a].exp > 0 /\ e > Cat[a].exp                \* isExpired
TombOf(m, a)    == {t \in Ids : Cat[t].typ = "TS" /\ Cat[t].tgt = a /\ m.stored[t]}
InGarb(m, a)    == IF TombOf(m, a) # {} THEN "tomb" ELSE IF m.garb[a] = "def" THEN "gc" ELSE "avail"   \* inGarbage
Locked(m, a, e) == \E l \in Ids : /\ Cat[l].typ = "LOCK" /\ Cat[l].tgt = a /\ m.stored[l]               \* objectLocked
                                  /\ ~(e > 0 /\ IsExp(m, l, e)) /\ InGarb(m, l) = "avail"
Status(m, a, e) == IF IsExp(m, a, e) THEN (IF Locked(m, a, e) THEN "avail" ELSE "expired")              \* objectStatusDirect
                   ELSE LET g == InGarb(m, a) IN IF g # "avail" /\ Locked(m, a, e) THEN "avail" ELSE g

\* DB.Exists / db.exists: "true" | "false" | "nf" (ObjectNotFound error) | "removed" | "expired"
ExistsC(m, a, e) ==
  LET c == Cat[a].c IN
  IF m.cnr[c] = "none" THEN "false"
  ELSE IF m.cnr[c] = "dead" THEN "nf"
  ELSE LET s == Status(m, a, e) IN
       IF s = "gc" THEN "nf" ELSE IF s = "tomb" THEN "removed" ELSE IF s = "expired" THEN "expired"
       ELSE IF m.stored[a] THEN "true" ELSE "false"

\* db.put.  keep = TRUE for PutBatch (resync): skipped objects do not roll the transaction back,
\* so a bucket created for a skipped object stays.
MetaPut(m, a, e, keep) ==
  LET c  == Cat[a].c
      t  == Cat[a].tgt
      ex == ExistsC(m, a, e)
      mb == [m EXCEPT !.cnr[c] = "live"]
      fail(r) == [m |-> IF keep THEN mb ELSE m, res |-> r]
  IN IF m.cnr[c] = "dead" THEN [m |-> m, res |-> "removed"]
     ELSE IF ex = "true" THEN [m |-> m, res |-> "ok"]
     ELSE IF ex \in {"removed", "expired"} THEN [m |-> m, res |-> ex]
     ELSE IF ~BugH11 /\ ex = "nf" /\ m.stored[a] THEN [m |-> m, res |-> "ok"]     \* garbage-marked but already indexed
     ELSE CASE Cat[a].typ = "REG"  -> [m |-> [mb EXCEPT !.stored[a] = TRUE], res |-> "ok"]
            [] Cat[a].typ = "TS"   ->
                 IF m.stored[t] /\ Cat[t].typ # "REG" THEN fail("err")
                 ELSE IF Locked(m, t, e) THEN fail("locked")
                 ELSE [m |-> [mb EXCEPT !.stored[a] = TRUE, !.garb[t] = "def"], res |-> "ok"]
            [] Cat[a].typ = "LOCK" ->
                 IF m.stored[t] /\ Cat[t].typ # "REG" THEN fail("err")
                 ELSE IF Status(m, t, e) = "tomb" THEN fail("removed")
                 ELSE [m |-> [mb EXCEPT !.stored[a] = TRUE], res |-> "ok"]

\* DB.Delete (deleteMetadata removes the header and the garbage key, stored or not)
MetaDel(m, ids) == [m EXCEPT !.stored = [a \in Ids |-> IF a \in ids THEN FALSE ELSE @[a]],
                             !.garb   = [a \in Ids |-> IF a \in ids THEN "none" ELSE @[a]]]

\* DB.MarkGarbage (forced, ignores locks); mk in {"def", "red"}
MetaMark(m, c, ids, mk) ==
  IF m.cnr[c] # "live" THEN m
  ELSE [m EXCEPT !.garb = [a \in Ids |-> IF a \notin ids THEN @[a]
                                         ELSE IF @[a] = "none" THEN mk
                                         ELSE IF mk = "def" THEN "def" ELSE @[a]]]

MetaInhumeCnr(m, c) == [m EXCEPT !.cnr[c] = "dead"]
MetaDeleteCnr(m, c) == [m EXCEPT !.cnr[c] = "none",
                                 !.stored = [a \in Ids |-> IF Cat[a].c = c THEN FALSE ELSE @[a]],
                                 !.garb   = [a \in Ids |-> IF Cat[a].c = c THEN "none" ELSE @[a]]]

\* DB.GetGarbage(limit): sequence of bins [c, ids]; empty ids = empty removed container
BinOf(m, c, limit) ==
  FirstN(AscSeq(IF m.cnr[c] = "dead" THEN {a \in Ids : Cat[a].c = c /\ m.stored[a]}
                 ELSE {a \in Ids : Cat[a].c = c /\ m.garb[a] # "none"}), limit)
RECURSIVE GG(_, _, _, _, _)
GG(m, limit, c, num, acc) ==
  IF c > NC THEN acc
  ELSE IF m.cnr[c] = "none" THEN GG(m, limit, c + 1, num, acc)
  ELSE LET objs == BinOf(m, c, limit) IN
       IF objs # <<>>
         THEN IF num + Len(objs) >= limit THEN Append(acc, [c |-> c, ids |-> objs])
              ELSE GG(m, limit, c + 1, num + Len(objs), Append(acc, [c |-> c, ids |-> objs]))
       ELSE IF m.cnr[c] = "dead" THEN GG(m, limit, c + 1, num, Append(acc, [c |-> c, ids |-> <<>>]))
       ELSE GG(m, limit, c + 1, num, acc)
GetGarbage(m, limit) == GG(m, limit, 1, 0, <<>>)

\* DB.IterateExpired(epoch) cut at `limit` handler calls: ids in (container, expiration, id) order
ExpKey(a) == Cat[a].exp * 100 + a
ExpiredIn(m, c, e) == IF m.cnr[c] # "live" THEN <<>>
                      ELSE SelectSeq(SortBy({a \in Ids : Cat[a].c = c /\ m.stored[a] /\ Cat[a].exp > 0 /\ Cat[a].exp < e}, ExpKey),
                                     LAMBDA a : ~Locked(m, a, e))
IterExpired(m, e, limit) == FirstN(ExpiredIn(m, 1, e) \o ExpiredIn(m, 2, e), limit)

\* DB.ResyncFromBlobstor: Reset + PutBatch of every blob in iteration order `order`
Resynced(order, e) == Fold(LAMBDA m, a : MetaPut(m, a, e, TRUE).m, EmptyMeta, order)

-----------------------------------------------------------------------------
(* Shard state *)
MS(k, c, ids, a) == [k |-> k, c |-> c, ids |-> ids, a |-> a]      \* micro-step
NoCh == [a |-> 0, ok |-> TRUE]                                     \* default choice of a micro-step

InitS(wc, batch) ==
  [hasWC |-> wc, batch |-> batch,
   blob |-> [a \in Ids |-> FALSE], wc |-> [a \in Ids |-> FALSE], m |-> EmptyMeta,       \* persistent
   epoch |-> 0,                                                                      \* network (EpochState)
   gcEpoch |-> 0, procEpoch |-> 0,                                                   \* gc.currentEpoch / processedEpoch
   mode |-> "RW", wcMode |-> "RW", blobRO |-> FALSE, metaMode |-> "RW", metaOpen |-> TRUE,
   pc |-> <<>>, res |-> "ok", cached |-> FALSE,
   \* history / monitor variables
   removed |-> [a \in Ids |-> FALSE],   \* a's metadata was deleted by deleteObjs and nobody uploaded a since
   kf |-> [a \in Ids |-> "none"],       \* how a's blob became an orphan (signature of known finding H9)
   kf15 |-> [a \in Ids |-> "none"],     \* why an available a lost its only copy (signature of the C15 known finding)
   hold |-> 0,                          \* address a paused explicit flush has READ from the cache and not yet put (0 = none)
   lastSet |-> "none",                  \* C43: outcome of the last SetMode of this instance
   quiet |-> FALSE,                     \* C44: users stopped; only epochs and GC passes from now on
   passes |-> 0]                        \* C44: complete GC passes since quiet in the last epoch (MaxEpoch > LastExp)

Init == S \in {InitS(w, b) : w \in WCs, b \in Batches}

WcOn(s)   == s.hasWC /\ s.wcMode = "RW"                 \* write-cache accepts Put/Delete
\* metaOpen = FALSE under a non-degraded metabase mode: DB.SetMode failed after closing bolt, db.boltDB is nil and
\* every transaction dereferences it ("panic"); mode checks of the write paths come first
MetaErr(s) == IF NoMeta(s.metaMode) THEN "deg" ELSE IF ~s.metaOpen THEN "panic" ELSE "ok"      \* read access
MetaWErr(s) == IF NoMeta(s.metaMode) THEN "deg" ELSE IF RO(s.metaMode) THEN "ro" ELSE IF ~s.metaOpen THEN "panic" ELSE "ok"

HasData(s, a) == s.blob[a] \/ (s.hasWC /\ s.wc[a])
\* the metabase reports a as available (Shard.Exists = true)
MetaAvail(s, a) == ~NoMeta(s.mode) /\ MetaErr(s) = "ok" /\ ExistsC(s.m, a, s.epoch) = "true"

Push(s, q) == [s EXCEPT !.pc = q \o @]
Abort(s, r) == [s EXCEPT !.pc = <<>>, !.res = r]

DelProg(c, ids) == << MS("del", c, ids, 0) >>

(* One micro-step.  `s` already has the head popped.  ch = [a, ok] is the choice / observed outcome
   of the step (which object a flush takes next, whether an injected blobstor fault hit). *)
Exec(s, ms, ch) ==
  CASE ms.k = "put" ->          \* Shard.Put: mode check
         IF RO(s.mode) THEN Abort(s, "ro") ELSE Push(s, << MS("putdata", 0, <<>>, ms.a), MS("putmeta", 0, <<>>, ms.a) >>)
    [] ms.k = "putdata" ->      \* write-cache put, else blobstor put
         IF WcOn(s) THEN [s EXCEPT !.wc[ms.a] = TRUE, !.cached = TRUE, !.removed[ms.a] = FALSE, !.kf[ms.a] = "none", !.kf15[ms.a] = "none"]
         ELSE IF s.blobRO THEN Abort(s, "ro")        \* common.ErrReadOnly of the blobstor
         ELSE [s EXCEPT !.blob[ms.a] = TRUE, !.cached = FALSE, !.removed[ms.a] = FALSE, !.kf[ms.a] = "none", !.kf15[ms.a] = "none"]
    [] ms.k = "putmeta" ->      \* metaBase.PutCounted, rollback of the data on failure
         IF NoMeta(s.mode) THEN s
         ELSE LET we == MetaWErr(s)
                  r  == IF we = "ok" THEN MetaPut(s.m, ms.a, s.epoch, FALSE) ELSE [m |-> s.m, res |-> we]
              IN IF r.res = "ok" THEN [s EXCEPT !.m = r.m]
                 ELSE LET wc2 == IF s.cached /\ WcOn(s) THEN FALSE ELSE s.wc[ms.a]
                          bl2 == IF s.blobRO THEN s.blob[ms.a] ELSE FALSE
                      IN [s EXCEPT !.res = r.res, !.wc[ms.a] = wc2, !.blob[ms.a] = bl2,
                                   \* the rollback deletes "what this put wrote" - also the data an EARLIER put of the same,
                                   \* still indexed object wrote (re-put rejected as expired / removed)
                                   !.kf15[ms.a] = IF s.m.stored[ms.a] /\ ~bl2 /\ ~(s.hasWC /\ wc2) THEN "putrollback" ELSE @]
    [] ms.k = "del" ->          \* deleteObjs: mode checks
         IF RO(s.mode) THEN [s EXCEPT !.res = "ro"]
         ELSE IF NoMeta(s.mode) THEN [s EXCEPT !.res = "deg"]
         ELSE IF ms.ids = <<>> THEN s
         ELSE Push(s, << MS("delwc", ms.c, ms.ids, 0), MS("delmeta", ms.c, ms.ids, 0) >>)
    [] ms.k = "delwc" ->
         IF WcOn(s) THEN [s EXCEPT !.wc = [a \in Ids |-> IF a \in Range(ms.ids) THEN FALSE ELSE @[a]],
                                   \* the only copy of an object goes BEFORE its metabase record; until that record is deleted
                                   \* it is (redundant copy, direct delete) or may become (expired, then locked) available
                                   !.kf15 = [a \in Ids |-> IF a \in Range(ms.ids) /\ s.wc[a] /\ ~s.blob[a] /\ s.m.stored[a]
                                                            THEN "wcfirst" ELSE @[a]]]
         ELSE s
    [] ms.k = "delmeta" ->
         LET we == MetaWErr(s) IN
         IF we # "ok" THEN [s EXCEPT !.res = we]
         ELSE IF s.m.cnr[ms.c] = "none" THEN s
         ELSE Push([s EXCEPT !.m = MetaDel(s.m, Range(ms.ids)),
                             !.removed = [a \in Ids |-> IF a \in Range(ms.ids) /\ s.m.stored[a] THEN TRUE ELSE @[a]],
                             !.kf15    = [a \in Ids |-> IF a \in Range(ms.ids) THEN "none" ELSE @[a]]],
                   [i \in 1..Len(ms.ids) |-> MS("delblob", ms.c, <<>>, ms.ids[i])])
    [] ms.k = "delblob" ->      \* blobStor.Delete; errors are only logged
         IF s.blobRO \/ ~ch.ok THEN [s EXCEPT !.kf[ms.a] = IF s.blob[ms.a] THEN "delfail" ELSE @]
         ELSE [s EXCEPT !.blob[ms.a] = FALSE]
    [] ms.k = "gc" ->           \* removeGarbage
         IF s.mode # "RW" THEN s ELSE Push(s, << MS("gcexp", 0, <<>>, 0), MS("gcgarb", 0, <<>>, 0), MS("gcend", 0, <<>>, 0) >>)
    [] ms.k = "gcend" ->        \* (monitor only) a whole pass is over
         IF s.quiet /\ s.epoch = MaxEpoch /\ s.gcEpoch = s.epoch /\ s.passes < KRounds THEN [s EXCEPT !.passes = @ + 1] ELSE s
    [] ms.k = "gcexp" ->        \* collectExpiredObjects
         IF NoMeta(s.mode) \/ s.procEpoch = s.gcEpoch THEN s
         ELSE IF s.procEpoch > s.gcEpoch THEN [s EXCEPT !.procEpoch = s.gcEpoch]
         ELSE IF MetaErr(s) # "ok" THEN [s EXCEPT !.procEpoch = s.gcEpoch]     \* iterate error is logged, collected = 0
         ELSE LET L    == IterExpired(s.m, s.gcEpoch, s.batch)
                  ts(c) == SelectSeq(L, LAMBDA a : Cat[a].typ = "TS" /\ Cat[a].c = c)
                  rest == SelectSeq(L, LAMBDA a : Cat[a].typ # "TS")
                  bins == (IF ts(1) # <<>> THEN DelProg(1, ts(1)) ELSE <<>>) \o (IF ts(2) # <<>> THEN DelProg(2, ts(2)) ELSE <<>>)
              IN Push([s EXCEPT !.procEpoch = IF L = <<>> THEN s.gcEpoch ELSE @],
                      bins \o (IF rest # <<>> THEN << MS("cb", 0, rest, 0) >> ELSE <<>>))
    [] ms.k = "cb" ->           \* expired-objects callback (engine.processExpiredObjects): one address at a time
         IF ms.ids = <<>> THEN s
         ELSE LET a == Head(ms.ids)
                  go == MetaErr(s) = "ok" /\ ~Locked(s.m, a, s.epoch) /\ ExistsC(s.m, a, 0) = "true"
              IN Push(s, (IF go THEN DelProg(Cat[a].c, <<a>>) ELSE <<>>) \o << MS("cb", 0, Tail(ms.ids), 0) >>)
    [] ms.k = "gcgarb" ->       \* GetGarbage + per-bin deletion
         IF MetaErr(s) # "ok" THEN s
         ELSE LET bins == GetGarbage(s.m, s.batch)
                  prog(b) == IF b.ids = <<>> THEN << MS("delcnr", b.c, <<>>, 0) >> ELSE DelProg(b.c, b.ids)
              IN Push(s, Fold(LAMBDA acc, b : acc \o prog(b), <<>>, bins))
    [] ms.k = "delcnr" ->
         IF MetaWErr(s) # "ok" THEN s ELSE [s EXCEPT !.m = MetaDeleteCnr(s.m, ms.c)]
    [] ms.k = "flush" ->        \* Shard.FlushWriteCache(false)
         IF ~s.hasWC THEN Abort(s, "nowc")
         ELSE IF RO(s.mode) THEN Abort(s, "ro")
         ELSE IF NoMeta(s.mode) THEN Abort(s, "deg")
         ELSE Push(s, << MS("flushloop", 0, AscSeq({a \in Ids : s.wc[a]}), 0) >>)
    [] ms.k = "flushloop" ->    \* flushSingle of the next address (iteration order of the cache is free)
         IF ms.ids = <<>> THEN s
         ELSE LET a == IF ch.a \in Range(ms.ids) THEN ch.a ELSE Head(ms.ids)
                  rest == SelectSeq(ms.ids, LAMBDA x : x # a)
              IN IF s.blobRO THEN Abort(s, "ro") ELSE IF ~ch.ok THEN Abort(s, "err")
                 ELSE Push([s EXCEPT !.blob[a] = TRUE], << MS("flushdel", 0, <<>>, a), MS("flushloop", 0, rest, 0) >>)
    [] ms.k = "flushdel" ->
         IF s.wcMode = "RW" THEN [s EXCEPT !.wc[ms.a] = FALSE] ELSE s

Pop(s) == [s EXCEPT !.pc = Tail(@)]
StepCh(s, ch) == Exec(Pop(s), Head(s.pc), ch)

\* choices that matter for the head micro-step
Choices(s) ==
  LET h == Head(s.pc) IN
  IF h.k = "delblob" THEN {[a |-> 0, ok |-> TRUE]} \cup (IF "delfail" \in Faults THEN {[a |-> 0, ok |-> FALSE]} ELSE {})
  ELSE IF h.k = "flushloop" /\ h.ids # <<>>
    THEN {[a |-> x, ok |-> TRUE] : x \in Range(h.ids)} \cup (IF "flushfail" \in Faults THEN {[a |-> Head(h.ids), ok |-> FALSE]} ELSE {})
  ELSE {NoCh}

-----------------------------------------------------------------------------
(* Operations started from the idle state *)
Prog(o) ==
  CASE o.op = "Put"    -> << MS("put", 0, <<>>, o.a) >>
    [] o.op = "Delete" -> DelProg(o.c, o.ids)
    [] o.op = "GC"     -> << MS("gc", 0, <<>>, 0) >>
    [] o.op = "Flush"  -> << MS("flush", 0, <<>>, 0) >>

StartOp(s, o) == [s EXCEPT !.pc = Prog(o), !.res = "ok"]

\* gc event handler (payments disabled): stores the epoch; the harness advances EpochState with it
DoEpoch(s, e) == [s EXCEPT !.epoch = e, !.gcEpoch = e]

\* Shard.MarkGarbage
DoMark(s, c, ids, mk) ==
  IF RO(s.mode) THEN [s EXCEPT !.res = "ro"]
  ELSE IF NoMeta(s.mode) THEN [s EXCEPT !.res = "deg"]
  ELSE IF MetaWErr(s) # "ok" THEN [s EXCEPT !.res = MetaWErr(s)]
  ELSE LET m2 == MetaMark(s.m, c, ids, mk)
           drop(a) == mk = "def" /\ a \in ids /\ WcOn(s)
       IN [s EXCEPT !.res = "ok", !.m = m2,
                    !.wc = [a \in Ids |-> IF drop(a) THEN FALSE ELSE @[a]],
                    \* forced mark: the cache copy is dropped at once, the record stays until GC; a lock (already there or
                    \* stored later) overrides the mark and makes the record available
                    !.kf15 = [a \in Ids |-> IF drop(a) /\ s.wc[a] /\ ~s.blob[a] /\ s.m.stored[a]
                                             THEN "marklocked" ELSE @[a]]]

\* Shard.InhumeContainer
DoInhumeCnr(s, c) ==
  IF RO(s.mode) THEN [s EXCEPT !.res = "ro"]
  ELSE IF NoMeta(s.mode) THEN [s EXCEPT !.res = "deg"]
  ELSE IF MetaWErr(s) # "ok" THEN [s EXCEPT !.res = MetaWErr(s)]
  ELSE [s EXCEPT !.res = "ok", !.m = MetaInhumeCnr(s.m, c)]

(* Flush-versus-delete schedule: FlushWriteCache runs concurrently with other requests; it is paused between reading
   object a from the cache (flushSingle: c.getObject) and c.storage.Put.  `pre` = addresses it flushed before reaching a,
   `post` = addresses it flushes after a; both as observed (the iteration order of the cache directory is free). *)
FlushAll(s, ids) == [s EXCEPT !.blob = [x \in Ids |-> IF x \in ids /\ s.wc[x] THEN TRUE ELSE @[x]],
                              !.wc   = [x \in Ids |-> IF x \in ids /\ s.wcMode = "RW" THEN FALSE ELSE @[x]]]
CanHold(s, a) == s.pc = <<>> /\ s.hold = 0 /\ s.hasWC /\ s.wc[a] /\ s.mode = "RW" /\ ~s.blobRO
DoFlushHold(s, a, pre) == [FlushAll(s, pre) EXCEPT !.hold = a, !.res = "ok"]
DoFlushRelease(s, post) ==
  LET a == s.hold
      t == [s EXCEPT !.blob[a] = TRUE,                                 \* the bytes read earlier are put now ...
                     !.wc[a] = FALSE,                                   \* ... and the cache entry (if still there) is dropped
                     !.kf[a] = IF ~s.m.stored[a] /\ s.removed[a] THEN "flushrace" ELSE @,
                     !.hold = 0, !.res = "ok"]
  IN FlushAll(t, post)

\* offline `neofs-lancet meta resync` between two runs of the node (shard closed, reopened afterwards)
Restart(s) == [s EXCEPT !.pc = <<>>, !.res = "ok", !.gcEpoch = 0, !.procEpoch = 0, !.lastSet = "none",
                        !.mode = "RW", !.wcMode = "RW", !.blobRO = FALSE, !.metaMode = "RW", !.metaOpen = TRUE]
DoResync(s, order) == [Restart(s) EXCEPT !.m = Resynced(order, s.epoch),
                                         !.kf15 = [a \in Ids |-> "none"]]

\* process crash + restart.  Pending blob deletions of an interrupted deleteObjs stay on disk (as-is).
PendingDel(s) == {s.pc[i].a : i \in {j \in 1..Len(s.pc) : s.pc[j].k = "delblob"}}
DoCrash(s) ==
  LET pend == PendingDel(s) IN
  [Restart(s) EXCEPT !.blob = [a \in Ids |-> IF ~BugH9 /\ a \in pend THEN FALSE ELSE @[a]],
                     !.kf   = [a \in Ids |-> IF BugH9 /\ a \in pend /\ s.blob[a] THEN "crashdel" ELSE @[a]]]

(* Shard.SetMode(m) with an injected component failure `fault` in {"none","wc","blob","meta"}:
   components switch one after another (the whole call holds the shard's write lock, so it is one
   action), the first failing one stops the sequence and the reported mode stays.                  *)
SwitchMeta(s, m, fault) ==
  IF s.metaMode = m /\ (BugMetaStale \/ s.metaOpen \/ NoMeta(m)) THEN [s |-> s, ok |-> TRUE]     \* db.mode == m: nothing to do
  ELSE IF NoMeta(m) THEN [s |-> [s EXCEPT !.metaMode = m, !.metaOpen = FALSE], ok |-> TRUE]
  ELSE IF fault = "meta" THEN            \* bolt closed, Open fails (Open(true) has already stored mode RO)
       [s |-> [s EXCEPT !.metaOpen = FALSE,
                        !.metaMode = IF ~BugMetaStale THEN "DEGRO" ELSE IF m = "RO" THEN "RO" ELSE @], ok |-> FALSE]
  ELSE [s |-> [s EXCEPT !.metaMode = m, !.metaOpen = TRUE], ok |-> TRUE]
SwitchBlob(s, m, fault) ==
  IF (BugH10 /\ s.mode = m) \/ (~BugH10 /\ s.blobRO = RO(m)) THEN [s |-> s, ok |-> TRUE]
  ELSE IF fault = "blob" THEN [s |-> s, ok |-> FALSE]
  ELSE [s |-> [s EXCEPT !.blobRO = RO(m)], ok |-> TRUE]
SwitchWC(s, m, fault) ==
  LET needFlush == NoMeta(m) /\ ~NoMeta(s.wcMode)
      inWC == {a \in Ids : s.wc[a]}
  IN IF needFlush /\ inWC # {} /\ s.blobRO THEN [s |-> s, ok |-> FALSE]        \* flush(true) aborts on the first put error
     ELSE LET f == IF needFlush
                   THEN [s EXCEPT !.blob = [a \in Ids |-> @[a] \/ s.wc[a]],
                                  !.wc = [a \in Ids |-> IF s.wcMode = "RW" THEN FALSE ELSE @[a]]]
                   ELSE s
          IN IF NoMeta(m) THEN [s |-> [f EXCEPT !.wcMode = m], ok |-> TRUE]
             ELSE IF fault = "wc" THEN [s |-> f, ok |-> FALSE]
             ELSE [s |-> [f EXCEPT !.wcMode = m], ok |-> TRUE]
Switch(comp, s, m, fault) == CASE comp = "meta" -> SwitchMeta(s, m, fault)
                               [] comp = "blob" -> SwitchBlob(s, m, fault)
                               [] comp = "wc"   -> SwitchWC(s, m, fault)
CompOrder(s, m) == LET w == IF s.hasWC THEN <<"wc">> ELSE <<>> IN
                   IF m = "RW" THEN <<"meta", "blob">> \o w ELSE w \o <<"blob", "meta">>
DoSetMode(s, m, fault) ==
  LET r == Fold(LAMBDA acc, comp : IF acc.ok THEN Switch(comp, acc.s, m, fault) ELSE acc,
                [s |-> s, ok |-> TRUE], CompOrder(s, m))
  IN IF r.ok THEN [r.s EXCEPT !.mode = m, !.res = "ok", !.lastSet = "ok"] ELSE [r.s EXCEPT !.res = "err", !.lastSet = "err"]

-----------------------------------------------------------------------------
(* Observations (what the harness projects from the real shard after every event) *)
\* Shard.Exists(addr, false)
ExistsObs(s, a) ==
  IF NoMeta(s.mode) THEN (IF s.blob[a] THEN "true" ELSE "false")
  ELSE IF MetaErr(s) # "ok" THEN MetaErr(s)
  ELSE ExistsC(s.m, a, s.epoch)
\* Shard.Get(addr, false) succeeds with the right bytes (fetchObjectData)
Readable(s, a) ==
  IF NoMeta(s.mode) THEN (s.hasWC /\ s.wc[a]) \/ s.blob[a]
  ELSE IF MetaErr(s) # "ok" THEN FALSE
  ELSE LET ex == ExistsC(s.m, a, s.epoch) IN
       ex \in {"true", "false"} /\ ((s.hasWC /\ s.wc[a]) \/ (ex = "true" /\ s.blob[a]))

-----------------------------------------------------------------------------
(* Next-state relation for exhaustive checking: one micro-step (or one atomic operation) per action *)
Idle(s) == s.pc = <<>>
UserOps ==
  {[op |-> "Put", a |-> a] : a \in Objs}
  \cup {[op |-> "Delete", c |-> Cat[a].c, ids |-> <<a>>] : a \in Objs}
  \cup {[op |-> "GC"], [op |-> "Flush"]}

\* C44: after Quiesce only GC passes and epoch ticks happen
AllowedNow(o) == (~S.quiet \/ o = "GC") /\ (S.hold # 0 => o # "Flush")
Tick == Idle(S) /\ "Epoch" \in Ops /\ S.epoch < MaxEpoch /\ S' = DoEpoch(S, S.epoch + 1)
GCProgress == \/ Idle(S) /\ "GC" \in Ops /\ S' = StartOp(S, [op |-> "GC"])
              \/ ~Idle(S) /\ \E ch \in Choices(S) : S' = StepCh(S, ch)

Next ==
  \/ /\ Idle(S)
     /\ \/ \E o \in {u \in UserOps : u.op \in Ops /\ AllowedNow(u.op)} : S' = StartOp(S, o)
        \/ Tick
        \/ "FlushRace" \in Ops /\ S.hold = 0 /\ \E a \in Objs : CanHold(S, a) /\ S' = DoFlushHold(S, a, {})
        \/ "FlushRace" \in Ops /\ S.hold # 0 /\ S' = DoFlushRelease(S, {x \in Ids : S.wc[x] /\ x # S.hold})
        \/ "Quiesce" \in Ops /\ ~S.quiet /\ S.epoch < MaxEpoch /\ S' = [S EXCEPT !.quiet = TRUE]   \* epochs keep advancing afterwards
  \/ /\ Idle(S) /\ ~S.quiet
     /\ \/ "MarkDef" \in Ops /\ \E a \in Objs : S' = DoMark(S, Cat[a].c, {a}, "def")
        \/ "MarkRed" \in Ops /\ \E a \in Objs : S' = DoMark(S, Cat[a].c, {a}, "red")
        \/ "InhumeCnr" \in Ops /\ \E c \in {Cat[a].c : a \in Objs} : S' = DoInhumeCnr(S, c)
        \/ "Resync" \in Ops /\ S.hold = 0 /\ \E order \in {AscSeq({a \in Ids : S.blob[a]}), SortBy({a \in Ids : S.blob[a]}, LAMBDA a : 0 - a)} :
               S' = DoResync(S, order)
        \/ "SetMode" \in Ops /\ \E m \in Modes, f \in ({"none"} \cup (Faults \cap {"wc", "blob", "meta"})) :
               (f \in {"wc", "meta"} => ~NoMeta(m)) /\ S' = DoSetMode(S, m, f)
  \/ ~Idle(S) /\ \E ch \in Choices(S) : S' = StepCh(S, ch)
  \/ "crash" \in Faults /\ S.hold = 0 /\ S' = DoCrash(S)

Spec == Init /\ [][Next]_vars

RunAll(s0) == LET RECURSIVE Go(_)
                  Go(s) == IF s.pc = <<>> THEN s ELSE Go(StepCh(s, NoCh))
              IN Go(s0)

\* VIEW for the exhaustive runs: result / scratch fields of a finished operation never influence the future
ExhView == [S EXCEPT !.res = IF Idle(S) THEN "ok" ELSE @, !.cached = IF Idle(S) THEN FALSE ELSE @]

-----------------------------------------------------------------------------
(* Properties *)
TypeOK ==
  /\ S.epoch \in 0..MaxEpoch /\ S.gcEpoch \in 0..MaxEpoch /\ S.procEpoch \in 0..MaxEpoch
  /\ \A a \in Ids : S.m.garb[a] \in {"none", "def", "red"}
  /\ \A c \in Cnrs : S.m.cnr[c] \in {"none", "live", "dead"}
  /\ \A c \in Cnrs : S.m.cnr[c] = "none" => \A a \in Ids : Cat[a].c = c => ~S.m.stored[a] /\ S.m.garb[a] = "none"

\* C09: a removed object is never readable again without a new upload
\* C44: nothing is left to collect
Clean(s) ==
  /\ \A a \in Ids : s.m.garb[a] = "none"                                        \* tombstoned / garbage-marked: gone
  /\ \A c \in Cnrs : s.m.cnr[c] # "dead"                                         \* removed containers: gone
  /\ \A a \in Ids : ~(s.m.stored[a] /\ Cat[a].exp > 0 /\ Cat[a].exp < s.epoch /\ ~Locked(s.m, a, s.epoch))  \* expired (objects, tombstones, locks)
  /\ \A a \in Ids : (s.blob[a] \/ s.wc[a]) => s.m.stored[a]                     \* ... from the blobstor and the cache as well
\* temporal form (checked with SPECIFICATION LiveSpec: weak fairness of GC progress, strong fairness of the epoch tick)
LiveSpec == Init /\ [][Next]_vars /\ WF_vars(GCProgress) /\ SF_vars(Tick)
C44Live == [](S.quiet => <>(Clean(S)))
C44Stable == [](S.quiet /\ S.epoch = MaxEpoch /\ Clean(S) /\ Idle(S) => [](Clean(S)))
\* bounded form used on real code: KRounds complete passes after the last expiration epoch suffice
C44Bound == S.passes >= KRounds => Clean(S)

(* C43: the shard behaves as its REPORTED mode says.  Declaratively: every probe (result of a modifying request,
   Exists / Get of every object) gives what it would give if all components really were in the reported mode. *)
Ideal(s) == [s EXCEPT !.wcMode = s.mode, !.blobRO = RO(s.mode), !.metaMode = s.mode, !.metaOpen = ~NoMeta(s.mode)]
ProbeRes(s, o) == RunAll(StartOp(s, o)).res
Probes(s) == [put  |-> [a \in Ids |-> ProbeRes(s, [op |-> "Put", a |-> a])],
              del  |-> [a \in Ids |-> ProbeRes(s, [op |-> "Delete", c |-> Cat[a].c, ids |-> <<a>>])],
              mark |-> [a \in Ids |-> DoMark(s, Cat[a].c, {a}, "red").res],
              ex   |-> [a \in Ids |-> ExistsObs(s, a)],
              rd   |-> [a \in Ids |-> Readable(s, a)]]
Matches(s) == Probes(s) = Probes(Ideal(s))
Deviating(s) == {c \in {"wc", "blob", "meta"} :
                   CASE c = "wc"   -> s.hasWC /\ s.wcMode # s.mode
                     [] c = "blob" -> s.blobRO # RO(s.mode)
                     [] c = "meta" -> s.metaMode # s.mode \/ s.metaOpen # ~NoMeta(s.mode)}
C43Strict  == Idle(S) => Matches(S)
\* ... modulo the documented non-atomic switch: after a FAILED SetMode components may disagree until the switch is
\* re-issued ("all mode changing operations are idempotent", docs/shard-modes.md)
C43AfterOK == Idle(S) /\ S.lastSet # "err" => Matches(S)
\* mode changes never lose data or metadata
C43Keeps == [][ (S'.mode # S.mode \/ S'.wcMode # S.wcMode \/ S'.blobRO # S.blobRO \/ S'.metaMode # S.metaMode \/ S'.lastSet # S.lastSet) /\ S'.lastSet # "none"
                => S'.m = S.m /\ \A a \in Ids : HasData(S, a) => HasData(S', a) ]_vars

(* C14: read-only modes never change stored data; every modifying request fails with a mode error; reads per
   the mode table of docs/shard-modes.md (read-only: as in read-write, metabase available; degraded-read-only: without
   the metabase, i.e. whatever the blobstor / write-cache hold) *)
Persist(s) == <<s.blob, s.wc, s.m>>
C14Unchanged == [][RO(S.mode) /\ RO(S'.mode) => Persist(S') = Persist(S)]_vars
ModeErr == {"ro", "deg"}
C14Rejects == Idle(S) /\ RO(S.mode) =>
  /\ \A a \in Ids : /\ ProbeRes(S, [op |-> "Put", a |-> a]) \in ModeErr
                     /\ ProbeRes(S, [op |-> "Delete", c |-> Cat[a].c, ids |-> <<a>>]) \in ModeErr
                     /\ DoMark(S, Cat[a].c, {a}, "def").res \in ModeErr /\ DoMark(S, Cat[a].c, {a}, "red").res \in ModeErr
  /\ \A c \in Cnrs : DoInhumeCnr(S, c).res \in ModeErr
  /\ ProbeRes(S, [op |-> "Flush"]) \in ModeErr \cup {"nowc"}
  /\ RunAll(StartOp(S, [op |-> "GC"])) = [S EXCEPT !.res = "ok"]           \* a GC pass does nothing at all
AsRW(s) == [s EXCEPT !.mode = "RW", !.wcMode = "RW", !.blobRO = FALSE, !.metaMode = "RW", !.metaOpen = TRUE]
C14ReadsRO == S.mode = "RO" /\ Deviating(S) = {} =>
                \A a \in Ids : Readable(S, a) = Readable(AsRW(S), a) /\ ExistsObs(S, a) = ExistsObs(AsRW(S), a)
C14ReadsDEGRO == S.mode = "DEGRO" /\ Deviating(S) = {} =>
                \A a \in Ids : Readable(S, a) = HasData(S, a) /\ ExistsObs(S, a) = (IF S.blob[a] THEN "true" ELSE "false")

C09Strict == \A a \in Ids : S.removed[a] => ~Readable(S, a)
\* ... modulo the known finding H9: the only way back is an orphan blob left by an interrupted / failed
\* blob deletion, re-indexed by a metabase resync
C09ModKF  == \A a \in Ids : S.removed[a] /\ Readable(S, a) => S.kf[a] # "none"

\* C15: whatever the metabase reports as available is readable (holds in EVERY state, hence after
\* a crash at any step boundary)
C15Strict == \A a \in Ids : MetaAvail(S, a) => HasData(S, a) /\ Readable(S, a)
\* ... modulo the known finding: deleteObjs (and a forced MarkGarbage) drop the write-cache copy of an object
\* BEFORE its metabase record goes, so a crash in between leaves an available record without data
C15ModKF  == \A a \in Ids : MetaAvail(S, a) => (HasData(S, a) /\ Readable(S, a)) \/ S.kf15[a] # "none"
=============================================================================
