SPECIFICATION Spec
CONSTANTS
  N = 4
  ClientChecksMembership = TRUE
INVARIANTS NonMembersSilent MembersAct
CHECK_DEADLOCK FALSE
