SPECIFICATION Spec
CONSTANTS
  Addrs = {1}
  Threshold = 1
  MaxCount = 2
  MaxBSize = 100
  MaxCache = 1
  NW = 1
  Procs = {1, 2}
  Ops = {"put", "del", "get", "flush", "setmode", "reopen"}
  Modes = {"rw", "ro", "deg"}
  Shard = TRUE
  Markers = FALSE
  MaxFail = 1
  MaxCalls = 4
  BugH3 = TRUE
  BugAlias = TRUE
  BugErrLeak = TRUE
  BugSplit = TRUE
INVARIANTS TypeOK ReadYourWritesKF DurableKF FlushedInBlobKF
CHECK_DEADLOCK FALSE
