\* C19 quick, code as is: after every successful Evacuate the lost / changed sets are empty or classified
SPECIFICATION Spec
CONSTANTS
  NS = 2
  MaxEpoch = 1
  BugH6 = TRUE
  CatSet = "c19s"
  Ops = {"Put", "Bcast", "SetMode", "EvacuateQ"}
  Modes = {"rw", "ro"}
  HealthyLock = FALSE
  MaxInFlight = 1
  Scenario = "none"
INVARIANTS TypeOK C19Classified
VIEW ViewC19
CHECK_DEADLOCK FALSE
