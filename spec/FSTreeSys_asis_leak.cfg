SPECIFICATION Spec
CONSTANTS
  NA = 4
  Size <- SizeU
  ProgChoices <- ProgsFaultC
  CountLimit = 2
  SizeLimit = 3
  NoSync = FALSE
  MaxFaults = 1
  FaultCalls = {"open"}
  RetryOn = FALSE
  CrashOn = FALSE
  BugPrecedence = FALSE
  BugLockLeak = TRUE
INVARIANTS NoPanic
CHECK_DEADLOCK TRUE
