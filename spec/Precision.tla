------------------------------ MODULE Precision ------------------------------
(* C39 - pkg/util/precision/converter.go: Fixed8Converter (base precision 8, target precision p).
   Checked with Apalache: amounts are 64-bit (TLC integers are 32-bit), SMT integers are unbounded.

   Code-shaped part: NewConverter(p) computes factor = 10^|p-8|; ToBalancePrecision / ToFixed8 do the
   arithmetic on big.Int (exact; big.Int.Div is floor division for a positive divisor) and then return
   big.Int.Int64(), which keeps the low 64 bits of |x| reinterpreted as int64 and negated for x < 0.
   The factor is a literal in each of the 19 instances (p = 0..18), so every formula is linear.

   Deviation switch BugWrap: TRUE = the code as it is (Int64() wraps silently);
   FALSE = ideal conversion (what C39 demands inside the supported range): no wrap.

   Property C39:
     A  whenever no conversion step leaves int64, the round trip Fixed8 -> balance -> Fixed8 gives at
        most the original amount, and exactly the original amount for p >= 8       (all int64 n);
     B  for 0 <= n < 2^53 no conversion (either direction, and the round trip) overflows or changes sign:
        the result is the exact mathematical value.
   Known-finding class (as-is code): B fails exactly when the multiplication leaves int64:
        ToBalancePrecision: p >= 12 /\ n * 10^(p-8) >= 2^63 ; ToFixed8: p <= 4 /\ n * 10^(8-p) >= 2^63.  *)
EXTENDS Integers

CONSTANT
  \* @type: Bool;
  BugWrap

VARIABLES
  \* @type: Int;
  p,       \* target (balance contract) precision
  \* @type: Int;
  n        \* amount

TwoTo53 == 9007199254740992
TwoTo63 == 9223372036854775808
TwoTo64 == 18446744073709551616
IsInt64(x) == -TwoTo63 <= x /\ x < TwoTo63
InRange(x) == 0 <= x /\ x < TwoTo53          \* the supported range of amounts

\* big.Int.Int64(): low 64 bits of |x| as int64, negated (in int64 arithmetic) when x < 0
Low64Signed(a) == LET low == a % TwoTo64 IN IF low >= TwoTo63 THEN low - TwoTo64 ELSE low
\* (the first test is redundant - the wrap formula is the identity on int64 values - but lets the SMT
\* solver skip the div/mod terms whenever a hypothesis says the value fits)
Int64Of(x) ==
  IF ~BugWrap \/ IsInt64(x) THEN x
  ELSE IF x >= 0 THEN Low64Signed(x)
       ELSE LET v == Low64Signed(-x) IN IF v = -TwoTo63 THEN v ELSE -v

\* conversions for one precision: f = 10^|q-8| is passed as a literal
\* c.toTarget: Div when base > target, else Mul ; c.toBase: Div when base < target, else Mul
\* floor division written with non-negative operands only (big.Int.Div is Euclidean = floor for f > 0;
\* tools disagree on \div of a negative dividend, so it is never used)
FloorDiv(x, f) == IF x >= 0 THEN x \div f ELSE -(((-x) + f - 1) \div f)
IdealToBalance(q, f, x) == IF q < 8 THEN FloorDiv(x, f) ELSE x * f
IdealToFixed8(q, f, x) == IF q > 8 THEN FloorDiv(x, f) ELSE x * f
ToBalance(q, f, x) == Int64Of(IdealToBalance(q, f, x))
ToFixed8(q, f, x) == Int64Of(IdealToFixed8(q, f, x))
RoundTrip(q, f, x) == ToFixed8(q, f, ToBalance(q, f, x))

-----------------------------------------------------------------------------
\* property on (input, outputs); used on the model (outputs = functions) and on records (outputs logged)
\* tb = ToBalancePrecision(x), tf = ToFixed8(x), rt = ToFixed8(ToBalancePrecision(x))
PropA(q, f, x, tb, rt) ==
  (IsInt64(IdealToBalance(q, f, x)) /\ IsInt64(IdealToFixed8(q, f, IdealToBalance(q, f, x)))) =>
     (rt <= x /\ (q >= 8 => rt = x))
PropB(q, f, x, tb, tf, rt) ==
  InRange(x) =>
     /\ tb = IdealToBalance(q, f, x) /\ tb >= 0
     /\ tf = IdealToFixed8(q, f, x) /\ tf >= 0
     /\ rt = IdealToFixed8(q, f, IdealToBalance(q, f, x)) /\ rt >= 0 /\ rt <= x
\* the known-finding class: an in-range amount whose multiplication leaves int64
KFWrapBalance(q, f, x) == InRange(x) /\ q >= 12 /\ x * f >= TwoTo63
KFWrapFixed8(q, f, x) == InRange(x) /\ q <= 4 /\ x * f >= TwoTo63
KFWrap(q, f, x) == KFWrapBalance(q, f, x) \/ KFWrapFixed8(q, f, x)
Prop(q, f, x, tb, tf, rt) == PropA(q, f, x, tb, rt) /\ PropB(q, f, x, tb, tf, rt)
PropOrKF(q, f, x, tb, tf, rt) ==
  /\ PropA(q, f, x, tb, rt)
  /\ PropB(q, f, x, tb, tf, rt) \/ (BugWrap /\ KFWrap(q, f, x))

\* instantiate an operator for the 19 precisions with literal factors
\* @type: (Int, (Int, Int) => Bool) => Bool;
ForPrecision(q, P(_, _)) ==
  /\ q = 0 => P(0, 100000000)
  /\ q = 1 => P(1, 10000000)
  /\ q = 2 => P(2, 1000000)
  /\ q = 3 => P(3, 100000)
  /\ q = 4 => P(4, 10000)
  /\ q = 5 => P(5, 1000)
  /\ q = 6 => P(6, 100)
  /\ q = 7 => P(7, 10)
  /\ q = 8 => P(8, 1)
  /\ q = 9 => P(9, 10)
  /\ q = 10 => P(10, 100)
  /\ q = 11 => P(11, 1000)
  /\ q = 12 => P(12, 10000)
  /\ q = 13 => P(13, 100000)
  /\ q = 14 => P(14, 1000000)
  /\ q = 15 => P(15, 10000000)
  /\ q = 16 => P(16, 100000000)
  /\ q = 17 => P(17, 1000000000)
  /\ q = 18 => P(18, 10000000000)

-----------------------------------------------------------------------------
\* symbolic model: one state = one (p, n), all int64 n, p in 0..18
CInitAsIs == BugWrap = TRUE
CInitIdeal == BugWrap = FALSE

Init == p \in 0..18 /\ n \in Int /\ IsInt64(n)
Next == UNCHANGED <<p, n>>

ModelProp(q, f) == Prop(q, f, n, ToBalance(q, f, n), ToFixed8(q, f, n), RoundTrip(q, f, n))
ModelPropOrKF(q, f) == PropOrKF(q, f, n, ToBalance(q, f, n), ToFixed8(q, f, n), RoundTrip(q, f, n))
\* B fails exactly on the known-finding class (documents the finding precisely)
ModelKFExact(q, f) ==
  PropB(q, f, n, ToBalance(q, f, n), ToFixed8(q, f, n), RoundTrip(q, f, n)) <=> ~(BugWrap /\ KFWrap(q, f, n))
ModelA(q, f) == PropA(q, f, n, ToBalance(q, f, n), RoundTrip(q, f, n))

PropertyHolds == ForPrecision(p, ModelPropOrKF)          \* must hold in both worlds
KFExact == ForPrecision(p, ModelKFExact)                  \* must hold in both worlds
PureProperty == ForPrecision(p, ModelProp)                \* holds for BugWrap = FALSE; canary for TRUE
\* canaries (must be refuted; show that the quantified domain is not empty)
CanaryBig == ~(p = 18 /\ n = TwoTo63 - 1)
CanaryRange == ~(p = 3 /\ n = TwoTo53 - 1)

-----------------------------------------------------------------------------
\* record validation: PrecisionRecs.tla is generated from the records of the real converter and consists
\* of literal applications Rec(p, f, n, tb, tf, rt); f is only a hint, the spec checks f = 10^|p-8|
Factor(q) ==
  IF q = 8 THEN 1 ELSE IF q = 7 \/ q = 9 THEN 10 ELSE IF q = 6 \/ q = 10 THEN 100
  ELSE IF q = 5 \/ q = 11 THEN 1000 ELSE IF q = 4 \/ q = 12 THEN 10000
  ELSE IF q = 3 \/ q = 13 THEN 100000 ELSE IF q = 2 \/ q = 14 THEN 1000000
  ELSE IF q = 1 \/ q = 15 THEN 10000000 ELSE IF q = 0 \/ q = 16 THEN 100000000
  ELSE IF q = 17 THEN 1000000000 ELSE 10000000000
FactorsAgree == ForPrecision(p, LAMBDA q, f : Factor(q) = f)      \* Factor = the literals of ForPrecision
RecOK(q, f, x, tb, tf, rt) ==
  tb = ToBalance(q, f, x) /\ tf = ToFixed8(q, f, x) /\ rt = ToFixed8(q, f, tb)
\* @type: (Int, Int, Int, Int, Int, Int) => Bool;
Rec(q, f, x, tb, tf, rt) ==
  /\ 0 <= q /\ q <= 18 /\ f = Factor(q) /\ IsInt64(x)
  /\ RecOK(q, f, x, tb, tf, rt)           \* the real converter returned what the code-shaped spec returns
  /\ PropOrKF(q, f, x, tb, tf, rt)        \* and the recorded outputs satisfy C39 (or are in the finding class)
=============================================================================
