SPECIFICATION Spec
CONSTANTS
  BufN = 8
  Pref = 3
  NA = 3
  VLen <- VLenScaled
  Thrs = {12}
  CountLimits = {1, 2, 3}
  Writers = {"linux", "generic"}
  MaxItems = 3
  ZMems <- ZMemsScaled
  UZ = 20
  Chunk = 2
  BugPrefixEOF = FALSE
  BugRefill = FALSE
  BugExactLimit = FALSE
INVARIANTS TypeOK Refines IterOK
CHECK_DEADLOCK FALSE
