--------------------------- MODULE TraceValidation ---------------------------
(* C24, record validation: every record {in: scenario, out: observation} of the REAL put pipeline / replication
   validation is classified:
     ok        observation = Accept(in) of the repaired code, and the property holds on the observations
     kfBenign  the code as found is in the named class (error of a mid-stream child swallowed), property holds
     kfViol    same class, property false on the observations (crash, inconsistent object stored, success
               with pieces that do not reassemble)
     propviol  observation = Accept(in) but the property is false; bad: observation # Accept(in)             *)
EXTENDS Validation, Json

Recs == ndJsonDeserialize("trace.ndjson")
CONSTANTS Chunk, NRecs
VARIABLE l

Same(o, a) == o.res = a.res /\ o.stored = a.stored
Class(rec) ==
  LET x == rec.in
      o == rec.out
      holds == PropObs(x, o)
      fx == Accept(x, FALSE)
      as == Accept(x, TRUE)
  IN IF Same(o, fx) /\ holds THEN "ok"
     ELSE IF as.any THEN (IF holds THEN "kfBenign" ELSE "kfViol")
     ELSE IF Same(o, fx) THEN "propviol" ELSE "bad"

TraceInit == /\ l \in {1 + j * Chunk : j \in 0..((NRecs - 1) \div Chunk)}
             /\ v = 0 /\ ph = "trace" /\ k = 0 /\ written = 0 /\ hashed = TRUE /\ res = "" /\ stored = FALSE
TraceNext ==
  /\ l > 0 /\ l <= NRecs
  /\ LET cl == Class(Recs[l]) IN IF cl = "ok" THEN TRUE ELSE PrintT(<<"REC", l, cl>>)
  /\ l' = IF l % Chunk = 0 \/ l = NRecs THEN 0 ELSE l + 1
  /\ UNCHANGED vars
TraceSpec == TraceInit /\ [][TraceNext]_<<vars, l>>
AllRead == l = NRecs => Len(Recs) = NRecs
=============================================================================
