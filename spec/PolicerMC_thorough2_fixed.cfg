SPECIFICATION Spec
CONSTANTS
  L = L
  n1 = n1
  n2 = n2
  n3 = n3
  n4 = n4
  n5 = n5
  Nodes = {L, n1, n2}
  Local = L
  RuleShapes <- ShapesTwo3
  EcCnrRepLen = 2
  EcLens = {3, 4, 5}
  Families = {"rep"}
  BugMaintRebalance = FALSE
SYMMETRY Sym2
INVARIANTS TypeOK C26 MachineIsF ConfirmedAreReal StoredAreReal KfOnlyWithMaint LockLinkKept
CHECK_DEADLOCK FALSE
