------------------------------ MODULE Replicate ------------------------------
(* C31 - pkg/services/object/server.go, Server.Replicate.

   PART 1 - the decision on ONE request (stateless).
   Abstract input of a replication request:
     sig    "ok" | "bad" | "otherkey"    signature over the object ID verifies with the presented key
     scheme "sha512" | "rfc6979" | "walletconnect" | "n3" | "unknown"
     client "cur" | "prev" | "none"      the presented key is a container node now / only in the previous epoch / not
     server "cur" | "prev" | "none"      the local node ...
     obj    "valid" | "badpayload" | "badheader" | "nochecksum"   (full validation of the object)
     cnr    "known" | "unknown"
   Output: ok (status OK), stored (the object reached the local storage).
   Impl(in) follows the order of the checks in the handler (one early return per check); Accept(in) is the
   property's reference: accepted iff signed (supported scheme) by a node of the object's container in the
   current or previous epoch, the local node belongs to the container NOW, the object passes full validation.

   PART 2 - ONE server instance over time (state machine).
   Epochs advance (Tick chooses who belongs to the container in the new epoch: every sender, the local node);
   requests arrive in between. The implementation keeps NO memory between requests: the answer to a request
   is Impl applied to the input derived from the membership AT THE TIME OF THE REQUEST. The invariants judge
   the last answer against the stateless reference, so any server-side memory across requests (caches of
   earlier membership checks, ...) that changes a verdict falsifies them on a recorded history.          *)
EXTENDS Integers, Sequences, FiniteSets, TLC

Sigs    == {"ok", "bad", "otherkey"}
Schemes == {"sha512", "rfc6979", "walletconnect", "n3", "unknown"}
Members == {"cur", "prev", "none"}
Objs    == {"valid", "badpayload", "badheader", "nochecksum"}
Cnrs    == {"known", "unknown"}
Inputs  == [sig : Sigs, scheme : Schemes, client : Members, server : Members, obj : Objs, cnr : Cnrs]

SupportedScheme(s) == s \in {"sha512", "rfc6979", "walletconnect"}

\* the property's reference
Accept(i) == /\ i.sig = "ok" /\ SupportedScheme(i.scheme)
             /\ i.cnr = "known"
             /\ i.client \in {"cur", "prev"}
             /\ i.server = "cur"
             /\ i.obj = "valid"

\* the handler, check by check (stage at which it returns)
Impl(i) ==
  IF ~SupportedScheme(i.scheme)   THEN [ok |-> FALSE, stored |-> FALSE, stage |-> "scheme"]
  ELSE IF i.sig # "ok"            THEN [ok |-> FALSE, stored |-> FALSE, stage |-> "signature"]
  ELSE IF i.cnr # "known"         THEN [ok |-> FALSE, stored |-> FALSE, stage |-> "container"]
  ELSE IF i.server # "cur"        THEN [ok |-> FALSE, stored |-> FALSE, stage |-> "server-not-in-container"]
  ELSE IF i.client = "none"       THEN [ok |-> FALSE, stored |-> FALSE, stage |-> "client-not-in-container"]
  ELSE IF i.obj # "valid"         THEN [ok |-> FALSE, stored |-> FALSE, stage |-> "object-validation"]
  ELSE                                 [ok |-> TRUE,  stored |-> TRUE,  stage |-> "stored"]

-----------------------------------------------------------------------------
CONSTANTS MaxEpoch,                    \* epochs 0..MaxEpoch
          NSenders,                    \* senders 1..NSenders
          RSigs, RSchemes, RObjs, RCnrs \* request alphabet of the exhaustive / generating runs

Senders == 1..NSenders

VARIABLES epoch,
          curC, prevC,      \* [Senders -> BOOLEAN]: sender is a container node in the current / previous epoch
          curS, prevS,      \* the local node ...
          has, in, out      \* the last request: derived abstract input and the answer
vars == <<epoch, curC, prevC, curS, prevS, has, in, out>>

NoIn == [sig |-> "bad", scheme |-> "unknown", client |-> "none", server |-> "none", obj |-> "nochecksum", cnr |-> "unknown"]
NoOut == [ok |-> FALSE, stored |-> FALSE, present |-> FALSE]

Init == /\ epoch = 0
        /\ curC = [s \in Senders |-> FALSE] /\ prevC = [s \in Senders |-> FALSE]
        /\ curS = FALSE /\ prevS = FALSE
        /\ has = FALSE /\ in = NoIn /\ out = NoOut

Member(c, p) == IF c THEN "cur" ELSE IF p THEN "prev" ELSE "none"

\* the abstract input of request e = what is TRUE about it at the time it arrives
ReqIn(e) == [sig |-> e.sig, scheme |-> e.scheme, client |-> Member(curC[e.snd], prevC[e.snd]),
             server |-> Member(curS, prevS), obj |-> e.obj, cnr |-> e.cnr]

\* new epoch: e.c[s] / e.s say who belongs to the container in it
DoTick(e) == /\ epoch' = epoch + 1
             /\ prevC' = curC /\ curC' = [s \in Senders |-> e.c[s]]
             /\ prevS' = curS /\ curS' = e.s
             /\ UNCHANGED <<has, in, out>>

\* request e answered with o
DoReq(e, o) == /\ has' = TRUE /\ in' = ReqIn(e) /\ out' = o
               /\ UNCHANGED <<epoch, curC, prevC, curS, prevS>>

\* the implementation: no memory between requests
ImplOut(e) == LET r == Impl(ReqIn(e)) IN [ok |-> r.ok, stored |-> r.stored, present |-> r.stored]

TickEvents == [ev : {"Tick"}, c : [Senders -> BOOLEAN], s : BOOLEAN]
ReqEvents  == [ev : {"Req"}, snd : Senders, sig : RSigs, scheme : RSchemes, obj : RObjs, cnr : RCnrs]

Next == \/ epoch < MaxEpoch /\ \E e \in TickEvents : DoTick(e)
        \/ \E e \in ReqEvents : DoReq(e, ImplOut(e))
Spec == Init /\ [][Next]_vars

-----------------------------------------------------------------------------
(* C31 *)
\* judged on the last answered request (model and recorded histories)
OkOnlyIfAccepted == has => (out.ok => Accept(in))
StoredOnlyIfAccepted == has => ((out.stored \/ out.present) => Accept(in))
OkMeansStored == has => (out.ok => (out.stored /\ out.present))
\* not part of the property (an answer that refuses MORE than the reference): reported as drift
AcceptedWhenAllChecksPass == has => (Accept(in) => out.ok)

\* in every reachable membership situation, for EVERY request of the full input space, the check-by-check
\* handler agrees with the reference
\* (evaluated in the request-free states only: they already cover every reachable membership situation)
AllRequestsAgree ==
  has \/ \A snd \in Senders, sg \in Sigs, sc \in Schemes, ob \in Objs, cn \in Cnrs :
    LET i == ReqIn([snd |-> snd, sig |-> sg, scheme |-> sc, obj |-> ob, cnr |-> cn])
        r == Impl(i)
    IN (r.ok <=> Accept(i)) /\ (r.stored => Accept(i)) /\ (r.ok => r.stored)
=============================================================================
