------------------------------ MODULE Replicate ------------------------------
(* C31 - pkg/services/object/server.go, Server.Replicate.

   Abstract input of a replication request:
     sig    "ok" | "bad" | "otherkey"    signature over the object ID verifies with the presented key
     scheme "sha512" | "rfc6979" | "walletconnect" | "n3" | "unknown"
     client "cur" | "prev" | "none"      the presented key is a container node now / only in the previous epoch / not
     server "cur" | "prev" | "none"      the local node ...
     obj    "valid" | "badpayload" | "badheader" | "nochecksum"   (full validation of the object)
     cnr    "known" | "unknown"
   Output: ok (status OK), stored (the object reached the local storage).

   Impl(in) follows the order of the checks in the handler (one early return per check) and says at which
   stage the request is refused; Accept(in) is the property's reference: the request is accepted iff it is
   signed (supported scheme) by a node of the object's container in the current or previous epoch, the local
   node belongs to the container NOW, and the object passes full validation. TLC checks on all inputs that
   the two agree, and every record produced by the real handler is compared with Accept.              *)
EXTENDS Integers, Sequences, FiniteSets, TLC

Sigs    == {"ok", "bad", "otherkey"}
Schemes == {"sha512", "rfc6979", "walletconnect", "n3", "unknown"}
Members == {"cur", "prev", "none"}
Objs    == {"valid", "badpayload", "badheader", "nochecksum"}
Cnrs    == {"known", "unknown"}
Inputs  == [sig : Sigs, scheme : Schemes, client : Members, server : Members, obj : Objs, cnr : Cnrs]

SupportedScheme(s) == s \in {"sha512", "rfc6979", "walletconnect"}

\* the property's reference
Accept(in) == /\ in.sig = "ok" /\ SupportedScheme(in.scheme)
              /\ in.cnr = "known"
              /\ in.client \in {"cur", "prev"}
              /\ in.server = "cur"
              /\ in.obj = "valid"

\* the handler, check by check (stage at which it returns)
Impl(in) ==
  IF ~SupportedScheme(in.scheme)   THEN [ok |-> FALSE, stored |-> FALSE, stage |-> "scheme"]
  ELSE IF in.sig # "ok"            THEN [ok |-> FALSE, stored |-> FALSE, stage |-> "signature"]
  ELSE IF in.cnr # "known"         THEN [ok |-> FALSE, stored |-> FALSE, stage |-> "container"]
  ELSE IF in.server # "cur"        THEN [ok |-> FALSE, stored |-> FALSE, stage |-> "server-not-in-container"]
  ELSE IF in.client = "none"       THEN [ok |-> FALSE, stored |-> FALSE, stage |-> "client-not-in-container"]
  ELSE IF in.obj # "valid"         THEN [ok |-> FALSE, stored |-> FALSE, stage |-> "object-validation"]
  ELSE                                  [ok |-> TRUE,  stored |-> TRUE,  stage |-> "stored"]

VARIABLES in, out
vars == <<in, out>>
Init == in \in Inputs /\ out = Impl(in)
Next == UNCHANGED vars
Spec == Init /\ [][Next]_vars

\* C31 on the model
AcceptIffAllChecks == out.ok <=> Accept(in)
StoredOnlyIfAccepted == out.stored => Accept(in)
AcceptedIsStored == out.ok => out.stored
=============================================================================
