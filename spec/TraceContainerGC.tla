------------------------- MODULE TraceContainerGC -------------------------
(* C47 record validation: one INITIAL state per record of `irgov c47` (l = record index). A record is one
   container taken through one path of the real code: RecOK compares the observed outcome ("object of the
   container no longer available") with the code-shaped decision, RecProp evaluates C47 on it. *)
EXTENDS ContainerGC, Json

Recs == ndJsonDeserialize("trace.ndjson")
VARIABLE l

In(r) == [path |-> r.path, epochs |-> r.epochs, unpaid |-> r.unpaid, pay_on |-> r.pay_on, src |-> r.src,
          pay_err |-> r.pay_err]
InUniverse(r) ==
  /\ r.path \in Paths /\ r.src \in Sources /\ r.pay_on \in BOOLEAN /\ r.pay_err \in BOOLEAN
  /\ r.unpaid \in -1..MaxUnpaid
  /\ Len(r.epochs) >= 1 /\ \A i \in DOMAIN r.epochs : r.epochs[i] \in 0..MaxEpoch
  /\ r.discarded \in BOOLEAN

RecOK == InUniverse(Recs[l]) /\ Recs[l].discarded = Discard(In(Recs[l]))
RecProp == PropOrKF(In(Recs[l]), Recs[l].discarded)

TraceInit == l \in 1..Len(Recs) /\ inp = [path |-> "none"] /\ phase = "rec" /\ disc = FALSE
TraceNext == UNCHANGED <<vars, l>>
TraceSpec == TraceInit /\ [][TraceNext]_<<vars, l>>
=============================================================================
