------------------------- MODULE TraceAlphabetList -------------------------
(* C36 record validation: every record written by `irgov c36` (one call of the real newAlphabetList +
   updateInnerRing, exactly as processAlphabetSync chains them) is compared with the code-shaped spec
   function (RecOK) and the declarative C36 property is evaluated on the RECORDED output (RecProp).
   One INITIAL state per record (l = record index), no transitions: TLC evaluates both invariants on
   every record and a counterexample names the record (value of l).
   Outputs are compared as bags (how often each key occurs): the property does not speak about order,
   and processAlphabetSync sorts the lists before they are used.                                   *)
EXTENDS AlphabetList, Json

Recs == ndJsonDeserialize("trace.ndjson")
VARIABLE l

RecOut(r) == [proposed |-> r.proposed, alpha |-> r.alpha, irOut |-> r.ir_out]

\* the universe stated by the property (anything else in a record is a harness bug -> rejected too)
InUniverse(r) ==
  /\ Range(r.cur) \subseteq Keys /\ Range(r.main) \subseteq Keys /\ Range(r.ir) \subseteq Keys
  /\ NoDup(r.cur) /\ NoDup(r.main) /\ NoDup(r.ir)
  /\ Len(r.cur) >= 1 /\ Len(r.main) >= Len(r.cur)
  /\ Range(r.cur) \subseteq Range(r.ir)

SameAsSpec(r) ==
  LET s == Compute(Range(r.cur), Range(r.main), r.ir)
  IN /\ ~r.err
     /\ r.proposed = s.proposed
     /\ Range(r.alpha) \subseteq Keys /\ Range(r.ir_out) \subseteq Keys
     /\ Bag(r.alpha) = Bag(s.alpha)
     /\ Bag(r.ir_out) = Bag(s.irOut)

RecOK == (InUniverse(Recs[l]) /\ SameAsSpec(Recs[l]))
RecProp ==
  LET r == Recs[l] IN ~r.err /\ PropOrKF(Range(r.cur), Range(r.main), r.ir, RecOut(r))

\* the model variables of AlphabetList are not used here; they are frozen
TraceInit == l \in 1..Len(Recs) /\ cur = {} /\ main = {} /\ ext = {} /\ phase = "rec" /\ out = NoOut
TraceNext == UNCHANGED <<vars, l>>
TraceSpec == TraceInit /\ [][TraceNext]_<<vars, l>>
=============================================================================
