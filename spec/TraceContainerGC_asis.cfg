SPECIFICATION TraceSpec
CONSTANTS
  MaxEpoch = 10
  MaxUnpaid = 12
  HistLens = {1}
  BugEpochWrap = TRUE
INVARIANTS RecOK RecProp
CHECK_DEADLOCK FALSE
