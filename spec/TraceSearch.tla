---------------------------- MODULE TraceSearch ----------------------------
(* C03 - validation of real search sessions (harness `search c03run`, real meta.DB).
   Trace: {"ev":"Corpus","objs":[...]} followed by {"ev":"Search","c":<line of its corpus>,"q":..,"n":..,"res":..,
   "pages":[{"items":[{"id":..,"vals":[..]}],"more":..}]} - one state per event (index l), judged by invariants:
     EvOK    the real pages are the pages of the implementation-shaped model (Search!ImplPages, deviation switches
             as configured), the session stops, no page is longer than n
     PropOK  C03 itself: the real pages are the reference pages (Search!RefPages), except inside the query class
             of a known finding whose switch is on
   Events are independent, so they are checked in chunks by several workers.                                 *)
EXTENDS Search, Json

MaxDigitsFull == <<1, 1, 5, 7, 9, 2, 0, 8, 9, 2, 3, 7, 3, 1, 6, 1, 9, 5, 4, 2, 3, 5, 7, 0, 9, 8, 5, 0, 0, 8, 6, 8, 7, 9, 0, 7, 8, 5, 3, 2, 6, 9, 9, 8, 4, 6, 6, 5, 6, 4, 0, 5, 6, 4, 0, 3, 9, 4, 5, 7, 5, 8, 4, 0, 0, 7, 9, 1, 3, 1, 2, 9, 6, 3, 9, 9, 3, 5>>

Trace == ndJsonDeserialize("trace.ndjson")
CONSTANT Chunk
VARIABLE l

CorpusOf(e) == LET objs == Trace[e.c].objs IN {objs[i] : i \in 1..Len(objs)}
Real(e) == [res |-> e.res,
            pages |-> [i \in 1..Len(e.pages) |-> e.pages[i].items]]
KFExcuse(q, C) == (BugPlusAfterSign /\ PlusSignCorpus(C)) \/ (BugPrimMulti /\ MultiPrimClass(q)) \/ (BugSplitIDAbsent /\ SplitIDClass(q)) \/ (BugB58Prefix /\ B58PrefixClass(q))

SessionShape(e) ==
  /\ \A i \in 1..Len(e.pages) : Len(e.pages[i].items) <= e.n /\ (e.pages[i].more => Len(e.pages[i].items) = e.n)
  /\ e.res = "ok" => (Len(e.pages) >= 1 /\ ~e.pages[Len(e.pages)].more /\ \A i \in 1..(Len(e.pages) - 1) : e.pages[i].more)

SearchOK(e, model) ==
  IF model.res = "invalid" THEN e.res = "invalid"
  ELSE IF e.res = "invalid" THEN PrimUndecodable(e.q)
  ELSE IF PrimUndecodable(e.q) THEN e.res = "ok" /\ SessionShape(e)
  ELSE /\ e.res \in {"ok", "error", "panic"}
       /\ SamePages(Real(e), model)
       /\ SessionShape(e)
       /\ Len(e.pages) <= Len(model.pages) + 1

EvOKAt(e) == IF e.ev = "Corpus"
               THEN \A i, j \in 1..Len(e.objs) : i # j => e.objs[i].id # e.objs[j].id
               ELSE SearchOK(e, ImplPages(CorpusOf(e), e.q, e.n))

PropOKAt(e) == IF e.ev = "Corpus" THEN TRUE
               ELSE LET ref == RefPages(CorpusOf(e), e.q, e.n)
                    IN \/ KFExcuse(e.q, CorpusOf(e))
                       \/ (e.res = "invalid" /\ (ref.res = "invalid" \/ PrimUndecodable(e.q)))
                       \/ (e.res = "ok" /\ SamePages(Real(e), ref) /\ SessionShape(e))

\* the single initial state is trivial on purpose (TLC evaluates initial states on the small main-thread stack)
TraceInit == l = 0
TraceNext == \/ l = 0 /\ l' \in {1 + k * Chunk : k \in 0..((Len(Trace) - 1) \div Chunk)}
             \/ l > 0 /\ l < Len(Trace) /\ l % Chunk # 0 /\ l' = l + 1
TraceSpec == TraceInit /\ [][TraceNext]_l
EvOK == l = 0 \/ EvOKAt(Trace[l])
PropOK == l = 0 \/ PropOKAt(Trace[l])
=============================================================================
