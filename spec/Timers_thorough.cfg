SPECIFICATION Spec
CONSTANTS
  MaxT = 12
  Durs = {1, 2, 3, 4, 6, 7}
INVARIANTS TypeOK FiresExactlyOnceWhenDue FiredNowWasDue NoDuplicatesInOneCall
CHECK_DEADLOCK FALSE
