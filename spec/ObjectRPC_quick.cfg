SPECIFICATION Spec
CONSTANTS
  Strict = TRUE
  MSigs = {"ok", "forged"}
  MToks = {"none", "expired"}
INVARIANTS TypeOK C29_NoEffectForFailingRequest C29_ChecksPrecedeEffects C29_HeaderEACLBeforeData C29_ErrorStatusForFailingRequest C45_MaintenanceRefusal
CHECK_DEADLOCK FALSE
