---------------------------- MODULE TraceMerge ----------------------------
(* C04 - validation of real merged search sessions (harness `search c04run`): a real StorageEngine with 1-4
   shards holding overlapping copies ("engine": StorageEngine.Search) and the same shards acting as container
   nodes merged the way Server.ProcessSearch does ("nodes"). One state per event; invariants:
     EvOK    real pages = pages of the implementation-shaped model (Merge!MergedPages with the configured switches)
     PropOK  C04 itself: real pages = pages of ONE search over the union (Search!RefPages), every cursor accepted,
             the session stops - except inside the class of a known finding whose switch is on.              *)
EXTENDS Merge, Json

MaxDigitsFull == <<1, 1, 5, 7, 9, 2, 0, 8, 9, 2, 3, 7, 3, 1, 6, 1, 9, 5, 4, 2, 3, 5, 7, 0, 9, 8, 5, 0, 0, 8, 6, 8, 7, 9, 0, 7, 8, 5, 3, 2, 6, 9, 9, 8, 4, 6, 6, 5, 6, 4, 0, 5, 6, 4, 0, 3, 9, 4, 5, 7, 5, 8, 4, 0, 0, 7, 9, 1, 3, 1, 2, 9, 6, 3, 9, 9, 3, 5>>

Trace == ndJsonDeserialize("trace.ndjson")
CONSTANT Chunk
VARIABLE l

SetOf(seq) == {seq[i] : i \in 1..Len(seq)}
CorpusOf(e) == LET objs == Trace[e.c].objs IN {[id |-> objs[i].id, avail |-> objs[i].avail, attrs |-> objs[i].attrs, shards |-> SetOf(objs[i].shards)] : i \in 1..Len(objs)}
NS(e) == Trace[e.c].nshards
Real(e) == [res |-> e.res, pages |-> [i \in 1..Len(e.pages) |-> e.pages[i].items]]
Merged(e) == ~(NS(e) = 1 /\ e.mode = "engine")
KFExcuse(e) == Merged(e) /\ ((BugCursorChecksum /\ ChecksumClass(e.q)) \/ (BugAssocMerge /\ AssocClass(e.q)) \/ (BugAssocAbsent /\ AssocAbsentClass(e.q)))
Havoc(e) == Merged(e) /\ ((BugAssocMerge /\ AssocClass(e.q)) \/ (BugAssocAbsent /\ AssocAbsentClass(e.q)))

SessionShape(e) ==
  /\ \A i \in 1..Len(e.pages) : Len(e.pages[i].items) <= e.n /\ (e.pages[i].more => Len(e.pages[i].items) = e.n)
  /\ e.res = "ok" => (Len(e.pages) >= 1 /\ ~e.pages[Len(e.pages)].more /\ \A i \in 1..(Len(e.pages) - 1) : e.pages[i].more)

SearchOK(e, model) ==
  IF model.res = "invalid" THEN e.res = "invalid"
  ELSE IF e.res = "invalid" THEN PrimUndecodable(e.q)
  ELSE IF PrimUndecodable(e.q) THEN e.res = "ok" /\ SessionShape(e)
  ELSE /\ e.res \in {"ok", "error", "panic", "badcursor"}
       /\ SamePages(Real(e), model)
       /\ SessionShape(e)
       /\ Len(e.pages) <= Len(model.pages) + 1

EvOKAt(e) == IF e.ev = "Corpus"
               THEN \A i, j \in 1..Len(e.objs) : i # j => e.objs[i].id # e.objs[j].id
               ELSE Havoc(e) \/ SearchOK(e, MergedPages(CorpusOf(e), NS(e), e.q, e.n, e.mode))

PropOKAt(e) == IF e.ev = "Corpus" THEN TRUE
               ELSE LET ref == RefPages(CorpusOf(e), e.q, e.n)
                    IN \/ KFExcuse(e)
                       \/ (e.res = "invalid" /\ (ref.res = "invalid" \/ PrimUndecodable(e.q)))
                       \/ (e.res = "ok" /\ SamePages(Real(e), ref) /\ SessionShape(e))

TraceInit == l = 0
TraceNext == \/ l = 0 /\ l' \in {1 + k * Chunk : k \in 0..((Len(Trace) - 1) \div Chunk)}
             \/ l > 0 /\ l < Len(Trace) /\ l % Chunk # 0 /\ l' = l + 1
TraceSpec == TraceInit /\ [][TraceNext]_l
EvOK == l = 0 \/ EvOKAt(Trace[l])
PropOK == l = 0 \/ PropOKAt(Trace[l])
=============================================================================
