---- MODULE Alphabet_TTrace_1790040859 ----
EXTENDS Alphabet, Sequences, TLCExt, Toolbox, Naturals, TLC

_expression ==
    LET Alphabet_TEExpression == INSTANCE Alphabet_TEExpression
    IN Alphabet_TEExpression!expression
----

_trace ==
    LET Alphabet_TETrace == INSTANCE Alphabet_TETrace
    IN Alphabet_TETrace!trace
----

_inv ==
    ~(
        TLCGet("level") = Len(_TETrace)
        /\
        ev = ("fs:netmap.NewEpoch/mapChanged")
        /\
        st = ([alphaIdx |-> -1, irIdx |-> -1, lookup |-> "ok", again |-> FALSE])
        /\
        auth = (1)
    )
----

_init ==
    /\ ev = _TETrace[1].ev
    /\ st = _TETrace[1].st
    /\ auth = _TETrace[1].auth
----

_next ==
    /\ \E i,j \in DOMAIN _TETrace:
        /\ \/ /\ j = i + 1
              /\ i = TLCGet("level")
        /\ ev  = _TETrace[i].ev
        /\ ev' = _TETrace[j].ev
        /\ st  = _TETrace[i].st
        /\ st' = _TETrace[j].st
        /\ auth  = _TETrace[i].auth
        /\ auth' = _TETrace[j].auth

\* Uncomment the ASSUME below to write the states of the error trace
\* to the given file in Json format. Note that you can pass any tuple
\* to `JsonSerialize`. For example, a sub-sequence of _TETrace.
    \* ASSUME
    \*     LET J == INSTANCE Json
    \*         IN J!JsonSerialize("Alphabet_TTrace_1790040859.json", _TETrace)

=============================================================================

 Note that you can extract this module `Alphabet_TEExpression`
  to a dedicated file to reuse `expression` (the module in the 
  dedicated `Alphabet_TEExpression.tla` file takes precedence 
  over the module `Alphabet_TEExpression` below).

---- MODULE Alphabet_TEExpression ----
EXTENDS Alphabet, Sequences, TLCExt, Toolbox, Naturals, TLC

expression == 
    [
        \* To hide variables of the `Alphabet` spec from the error trace,
        \* remove the variables below.  The trace will be written in the order
        \* of the fields of this record.
        ev |-> ev
        ,st |-> st
        ,auth |-> auth
        
        \* Put additional constant-, state-, and action-level expressions here:
        \* ,_stateNumber |-> _TEPosition
        \* ,_evUnchanged |-> ev = ev'
        
        \* Format the `ev` variable as Json value.
        \* ,_evJson |->
        \*     LET J == INSTANCE Json
        \*     IN J!ToJson(ev)
        
        \* Lastly, you may build expressions over arbitrary sets of states by
        \* leveraging the _TETrace operator.  For example, this is how to
        \* count the number of times a spec variable changed up to the current
        \* state in the trace.
        \* ,_evModCount |->
        \*     LET F[s \in DOMAIN _TETrace] ==
        \*         IF s = 1 THEN 0
        \*         ELSE IF _TETrace[s].ev # _TETrace[s-1].ev
        \*             THEN 1 + F[s-1] ELSE F[s-1]
        \*     IN F[_TEPosition - 1]
    ]

=============================================================================



Parsing and semantic processing can take forever if the trace below is long.
 In this case, it is advised to uncomment the module below to deserialize the
 trace from a generated binary file.

\*
\*---- MODULE Alphabet_TETrace ----
\*EXTENDS Alphabet, IOUtils, TLC
\*
\*trace == IODeserialize("Alphabet_TTrace_1790040859.bin", TRUE)
\*
\*=============================================================================
\*

---- MODULE Alphabet_TETrace ----
EXTENDS Alphabet, TLC

trace == 
    <<
    ([ev |-> "fs:netmap.NewEpoch/mapChanged",st |-> [alphaIdx |-> -1, irIdx |-> -1, lookup |-> "ok", again |-> FALSE],auth |-> -1]),
    ([ev |-> "fs:netmap.NewEpoch/mapChanged",st |-> [alphaIdx |-> -1, irIdx |-> -1, lookup |-> "ok", again |-> FALSE],auth |-> 1])
    >>
----


=============================================================================

---- CONFIG Alphabet_TTrace_1790040859 ----
CONSTANTS
    N = 4
    ClientChecksMembership = FALSE

INVARIANT
    _inv

CHECK_DEADLOCK
    \* CHECK_DEADLOCK off because of PROPERTY or INVARIANT above.
    FALSE

INIT
    _init

NEXT
    _next

CONSTANT
    _TETrace <- _trace

ALIAS
    _expression
=============================================================================
\* Generated on Tue Sep 22 01:34:25 UTC 2026