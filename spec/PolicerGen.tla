----------------------------- MODULE PolicerGen -----------------------------
(* Scenario generator for the M->C replay of C26 (tlc -simulate): the placement (object type, REP rules, EC
   rule, EC part) is built node by node, then the Policer state machine runs and resolves exactly the inputs
   it looks at. The final scenario is printed; inputs still "?" were never looked at by the model - the
   harness fills them with seeded random values, so a real policer that does look at them is caught by
   the record validation.                                                                              *)
EXTENDS Policer, Json
CONSTANTS GenMaxLen, GenMaxRules
VARIABLE g     \* builder state
gvars == <<vars, g>>

G0 == [fl |-> "?", typ |-> "REG", rep |-> <<>>, ec |-> <<>>, cur |-> <<>>, want |-> "?"]

GenInit == /\ g = G0
           /\ s = Base("REG", <<>>, <<>>, "none", NoPart, "none")
           /\ pc = "build" /\ r = 0 /\ i = 0 /\ c = Ctx0 /\ e = ECtx0 /\ out = NoOut

GPick == /\ pc = "build" /\ g.fl = "?"
         /\ \E fl \in {"rep", "rep", "eccnr", "ecpart"}, t \in Types, w \in {"rep", "ec"} :
              g' = [g EXCEPT !.fl = fl, !.typ = IF fl = "ecpart" THEN "REG" ELSE t,
                             !.want = IF fl = "rep" THEN "rep" ELSE IF fl = "ecpart" THEN "ec" ELSE w]
         /\ UNCHANGED vars

GAppend == /\ pc = "build" /\ g.want \in {"rep", "ec"} /\ Len(g.cur) < GenMaxLen
           /\ \E x \in Nodes \ Range(g.cur) : g' = [g EXCEPT !.cur = Append(@, x)]
           /\ UNCHANGED vars

GClose == /\ pc = "build" /\ Len(g.cur) >= 1
          /\ \/ /\ g.want = "rep"
                /\ \E n \in 1..Len(g.cur), more \in BOOLEAN :
                     g' = [g EXCEPT !.rep = Append(@, [nodes |-> g.cur, n |-> n]), !.cur = <<>>,
                                    !.want = IF g.fl = "eccnr" THEN "ec"
                                             ELSE IF more /\ Len(g.rep) + 1 < GenMaxRules THEN "rep" ELSE "done"]
             \/ /\ g.want = "ec"
                /\ \E dp \in {<<1, 1>>, <<2, 1>>, <<3, 1>>} :
                     /\ dp[1] + dp[2] <= Len(g.cur)
                     /\ g' = [g EXCEPT !.ec = Append(@, [nodes |-> g.cur, d |-> dp[1], p |-> dp[2]]), !.cur = <<>>,
                                       !.want = "done"]
          /\ UNCHANGED vars

GFinish == /\ pc = "build" /\ g.want = "done"
           /\ \E ri \in 0..Len(g.ec), pi \in 0..4 :
                s' = IF g.fl = "ecpart" THEN Base("REG", g.rep, g.ec, "ok", [rule |-> ri, idx |-> pi], "none")
                                         ELSE Base(g.typ, g.rep, g.ec, "none", NoPart, "none")
           /\ pc' = "start"
           /\ UNCHANGED <<r, i, c, e, out, g>>

GenNext == GPick \/ GAppend \/ GClose \/ GFinish \/ (Next /\ UNCHANGED g)
GenSpec == GenInit /\ [][GenNext]_gvars

Emit == pc = "done" => PrintT(<<"BEH", ToJson(s)>>)
\* the generated behaviours obey the repaired model (sanity of the generator itself)
GenC26 == C26
=============================================================================
