SPECIFICATION Spec
CONSTANTS
  NKeys = 8
  CurSizes = {4, 5, 6, 7}
  MaxExtra = 2
  BugIRDup = FALSE
INVARIANTS PropertyHolds RawListNoDup KFExact
CHECK_DEADLOCK FALSE
