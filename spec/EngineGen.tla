----------------------------- MODULE EngineGen -----------------------------
(* Behaviour generator for M->C replay: Engine + the history of events taken.
   Schedules are restricted to what the harness can impose on the real engine with Put gates only:
   once a broadcast hit its fatal error, its rollback steps run without other events in between
   (the real loop cannot be paused there); scripts never end while a broadcast is in flight (after GenLen
   events only the remaining shard steps are taken). *)
EXTENDS Engine, Json
CONSTANTS GenLen, Witness
VARIABLES hist, done
ReplayableG(e) == /\ Replayable(e)
                  /\ Len(hist) >= GenLen => e.ev = "BStep"
                  \* start by storing something: random walks that begin with removals of nothing are useless
                  /\ Len(hist) = 0 => e.ev = "Put"
\* skip events that neither change the state nor return a result worth comparing (idle GC passes ...)
Productive(e) == \/ e.ev \in {"Put", "BStart", "BStep", "Delete", "Drop", "Evacuate"}
                 \/ <<meta, blob, mark, bkt, mode, fput, fget, epoch>>' # <<meta, blob, mark, bkt, mode, fput, fget, epoch>>
GenInit == Init /\ hist = <<>> /\ done = FALSE
GenNext == /\ ~done
           /\ \E e \in Events : EnvOK(e) /\ ReplayableG(e) /\ Step(e) /\ Productive(e) /\ hist' = Append(hist, e) /\ lastev' = e
           /\ done' = (Len(hist') >= GenLen /\ \A x \in Ids : ops'[x].st = "idle")
GenSpec == GenInit /\ [][GenNext]_<<vars, hist, done>>
\* scripts that exhibit a listed known finding (printed as soon as it shows, between operations)
WitnessHit == CASE Witness = "H6" -> \E o \in Regs : C08Class(o) = "H6"
                [] OTHER -> FALSE
EmitWitness == (Witness # "none" /\ ~done /\ InFlight = {} /\ WitnessHit) =>
                 PrintT(<<"BEH", ToJson([n |-> NS, cat |-> cat, steps |-> hist, tag |-> Witness])>>)
Emit == done => PrintT(<<"BEH", ToJson([n |-> NS, cat |-> cat, steps |-> hist, tag |-> ""])>>)
=============================================================================
