SPECIFICATION GenSpec
CONSTANTS
  MaxEpoch = 7
  NSenders = 1
  RSigs = {"ok"}
  RSchemes = {"sha512"}
  RObjs = {"valid"}
  RCnrs = {"known"}
  GenLen = 7
  GenServer = {TRUE}
INVARIANTS Emit
CHECK_DEADLOCK FALSE
