----------------------------- MODULE Signed256 -----------------------------
(* C05 - internal/signed256/signed256.go: the index key of a signed integer v, |v| <= M = 2^256-1, seen as
   numbers: a sign byte (0 negative, 1 non-negative) followed by the 256-bit magnitude, bit-wise inverted for
   negatives (Int.FillBytes: dst[0] = sign; dst[1:] = Bytes32(|v|); negative => every byte ^= 0xFF, i.e.
   magnitude' = M - |v|). DecodeBytes is the inverse; keys are compared as (sign, magnitude') pairs, which is
   what bytes.Compare does on fixed-length big-endian keys (lemma ByteStep below + TLC lemma at small width in
   Signed256MC.tla).

   Checked by Apalache for ALL pairs x, y in [-M, M] over unbounded integers (Signed256Apa.tla, which adds
   the 256-bit literals TLC cannot parse: --cinit=CInit --init=InitApa --inv=Inv --length=0), and by TLC
   exhaustively for a small M (Signed256MC.tla).

   Second part (variables a, b; operators in Signed256Apa.tla): the induction step that lifts "compare the first byte, then the rest" to
   numbers, for every byte position P = 256^k, k = 1..31, at full width:
     a, b < 256*P  =>  (a < b  <=>  hi(a) < hi(b) \/ (hi(a) = hi(b) /\ lo(a) < lo(b)))
   and inverting every byte of a (k+1)-byte number is 256*P-1-a, byte by byte.                              *)
EXTENDS Integers

CONSTANT
  \* @type: Int;
  M

VARIABLES
  \* @type: Int;
  x,
  \* @type: Int;
  y,
  \* @type: Int;
  a,
  \* @type: Int;
  b

Abs(v) == IF v < 0 THEN -v ELSE v

\* Int.FillBytes / EncodeBytes as a pair <<sign byte, magnitude field as a number>>
\* @type: (Int) => <<Int, Int>>;
Enc(v) == IF v < 0 THEN <<0, M - Abs(v)>> ELSE <<1, v>>

\* DecodeBytes (sign byte already checked to be 0 or 1); "-0" is normalised to 0
\* @type: (<<Int, Int>>) => Int;
Dec(k) == IF k[1] = 0 THEN -(M - k[2]) ELSE k[2]

\* bytes.Compare(k1, k2) < 0 on the fixed-length key
\* @type: (<<Int, Int>>, <<Int, Int>>) => Bool;
KeyLess(k1, k2) == k1[1] < k2[1] \/ (k1[1] = k2[1] /\ k1[2] < k2[2])

InitApa == /\ x \in Int /\ y \in Int /\ a \in Int /\ b \in Int
           /\ -M <= x /\ x <= M /\ -M <= y /\ y <= M
           /\ 0 <= a /\ a <= M /\ 0 <= b /\ b <= M
InitTLC == x \in -M..M /\ y \in -M..M /\ a = 0 /\ b = 0
Next == UNCHANGED <<x, y, a, b>>

-----------------------------------------------------------------------------
(* C05, first sentence and second sentence *)
Lossless == Dec(Enc(x)) = x
FitsField == Enc(x)[2] >= 0 /\ Enc(x)[2] <= M /\ Enc(x)[1] \in {0, 1}
OrderPreserved == (x < y) <=> KeyLess(Enc(x), Enc(y))
Injective == (Enc(x) = Enc(y)) <=> (x = y)

InvTLC == Lossless /\ FitsField /\ OrderPreserved /\ Injective
=============================================================================
