SPECIFICATION Spec
CONSTANTS
  MaxK = 4
  MaxM = 2
  MaxLen = 5
  RangeK = 5
INVARIANTS EncodeIsRef EqualLengths ConcatTruncates DecodeFromAnySufficientSubset DecodeClosedForm PartialRange PartialIndexes
CHECK_DEADLOCK FALSE
