---------------------------- MODULE NodeSeqLemmas ----------------------------
(* C22, towards the general (unbounded) statement. Checked with Apalache (SMT, unbounded integers), not TLC:
     apalache-mc check --init=Init --next=Next --inv=ShiftLemma --length=0 NodeSeqLemmas.tla   (and InnerLoopLemma)
   InnerLoopLemma: the inner loop "for i := r; i < n; i += t" with 0 <= r < t visits exactly the x >= 0 with
                   x % t = r, each for exactly one iteration count j (so each at most once, in ascending order).
   ShiftLemma:     for 0 <= p < t and 0 <= x < n there is exactly one shift S in 0..t-1 with (p + S) % t = x % t.
   Together with "shift 0 starts at p % t = p < t <= n" they give the permutation and own-start properties for ALL
   (p, t, n) by a two-line paper argument. That composition (the list-level induction over the two loops) is NOT
   mechanised, therefore no proof of the general statement is claimed; the bounded range is decided by NodeSeq.tla. *)
EXTENDS Integers
VARIABLES
  \* @type: Int;
  p,
  \* @type: Int;
  t,
  \* @type: Int;
  n,
  \* @type: Int;
  x,
  \* @type: Int;
  s2,
  \* @type: Int;
  r,
  \* @type: Int;
  j
Init == p \in Int /\ t \in Int /\ n \in Int /\ x \in Int /\ s2 \in Int /\ r \in Int /\ j \in Int
Next == UNCHANGED <<p, t, n, x, s2, r, j>>

S == (x - p + t) % t
ShiftLemma ==
  (t >= 1 /\ p >= 0 /\ p < t /\ n >= 0 /\ x >= 0 /\ x < n) =>
    /\ S >= 0 /\ S <= t - 1 /\ (p + S) % t = x % t
    /\ (s2 >= 0 /\ s2 <= t - 1 /\ (p + s2) % t = x % t) => s2 = S

InnerLoopLemma ==
  (t >= 1 /\ r >= 0 /\ r < t /\ x >= 0) =>
    /\ (x % t = r) => (x = r + (x \div t) * t /\ x \div t >= 0)
    /\ (j >= 0 /\ x = r + j * t) => (x % t = r /\ j = x \div t)
=============================================================================
