SPECIFICATION TraceSpec
CONSTANTS
  OpsU = {"get"}
  Sliced = TRUE
  TabLen = 2
  CheckTables = FALSE
  ListBad = TRUE

CHECK_DEADLOCK FALSE
