SPECIFICATION GenSpec
CONSTANTS
  Objs = {1, 3}
  WCs = {FALSE}
  Batches = {2}
  MaxEpoch = 3
  Ops = {"Put", "GC", "Epoch", "Resync"}
  Faults = {"crash"}
  Modes = {}
  BugH9 = TRUE
  BugH10 = TRUE
  BugMetaStale = TRUE
  BugH11 = FALSE
  KRounds = 12
  MaxSets = 4
  GenLen = 8
  Crashes = {0, 1, 2, 3}
  Fails = {0}
INVARIANTS CexC09
CONSTRAINT Bounded
VIEW GenView
CHECK_DEADLOCK FALSE
