------------------------------ MODULE MergeMC ------------------------------
(* C04 - TLC: for every small corpus spread over two shards (with overlapping copies), every single-filter
   query and page size, the merged paging (Merge!MergedPages: per-shard pages, MergeSearchResults, recomputed
   cursor, next request) equals the pages of ONE search over the union (Search!RefPages), in both merge paths
   ("engine" and "nodes"). With the deviation switches on they may differ only in the known-finding classes. *)
EXTENDS Merge

CONSTANTS NObj, NMax, SmallVals
VARIABLES corpus, q

va == <<97>>
vab == <<97, 98>>
v7 == <<55>>
vp07 == <<43, 48, 55>>
vm1 == <<45, 49>>
ve == <<>>
MaxDigitsMC == <<9, 9>>
Absent == <<0>>
Attr(k, v) == [k |-> k, db |-> v, str |-> v]
Obj(id, av, a, sh) == [id |-> id, avail |-> av, shards |-> sh, attrs |-> IF a = Absent THEN <<>> ELSE <<Attr("a", a)>>]
AVals == IF SmallVals THEN {va, v7, Absent} ELSE {va, vab, v7, vp07, Absent}
ShardSets == {{1}, {2}, {1, 2}}
Corpora == {{Obj(i, c[i][1], c[i][2], c[i][3]) : i \in 1..NObj} : c \in [1..NObj -> BOOLEAN \X AVals \X ShardSets]}

Ops == {"EQ", "NE", "PREFIX", "GT", "GE", "LT", "LE"}
Flt(k, op, v) == [k |-> k, op |-> op, val |-> v, hasbin |-> FALSE, bin |-> <<>>, primok |-> TRUE, primdb |-> v, nonattr |-> FALSE, b58 |-> FALSE]
F1 == {Flt("a", op, v) : op \in Ops, v \in {va, v7}} \cup {Flt("a", "NOT_PRESENT", ve)}
Queries == {[fs |-> <<>>, attrs |-> <<>>]} \cup {[fs |-> <<f>>, attrs |-> at] : f \in F1, at \in {<<>>, <<"a">>}}

NoQ == [fs |-> <<>>, attrs |-> <<"-">>]
MCInit == corpus = {} /\ q = NoQ
MCNext == \/ corpus = {} /\ corpus' \in Corpora /\ UNCHANGED q
          \/ corpus # {} /\ q = NoQ /\ q' \in Queries /\ UNCHANGED corpus
MCSpec == MCInit /\ [][MCNext]_<<corpus, q>>

KFExcuse(qq) == (BugCursorChecksum /\ ChecksumClass(qq)) \/ (BugAssocMerge /\ AssocClass(qq))

MergedIsUnion ==
  q # NoQ => (KFExcuse(q) \/ \A n \in 1..NMax : \A mode \in {"engine", "nodes"} :
    LET m == MergedPages(corpus, 2, q, n, mode)
    IN /\ SamePages(m, RefPages(corpus, q, n))
       /\ \A i \in 1..Len(m.pages) : Len(m.pages[i]) <= n /\ (i < Len(m.pages) => Len(m.pages[i]) = n))
\* one shard: the engine returns the shard's own pages
OneShardIsShard ==
  q # NoQ => \A n \in 1..NMax : SamePages(MergedPages({[o EXCEPT !.shards = {1}] : o \in corpus}, 1, q, n, "engine"), ImplPages(corpus, q, n))
=============================================================================
