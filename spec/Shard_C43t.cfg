SPECIFICATION Spec
CONSTANTS
  Objs = {1, 2}
  WCs = {FALSE, TRUE}
  Batches = {2}
  MaxEpoch = 0
  Ops = {"Put", "Delete", "MarkDef", "GC", "Flush", "SetMode"}
  Faults = {"wc", "blob", "meta"}
  Modes = {"RW", "RO", "DEGRO"}
  BugH9 = TRUE
  BugH10 = FALSE
  BugMetaStale = FALSE
  BugH11 = FALSE
  KRounds = 12
INVARIANTS TypeOK C43AfterOK
PROPERTIES C43Keeps
VIEW ExhView
CHECK_DEADLOCK FALSE
