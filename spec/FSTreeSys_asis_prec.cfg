SPECIFICATION Spec
CONSTANTS
  NA = 4
  Size <- SizeU
  ProgChoices <- ProgsFaultC
  CountLimit = 2
  SizeLimit = 3
  NoSync = FALSE
  MaxFaults = 1
  FaultCalls = {"link"}
  RetryOn = FALSE
  CrashOn = FALSE
  BugPrecedence = TRUE
  BugLockLeak = FALSE
INVARIANTS NoPanic
CHECK_DEADLOCK FALSE
