SPECIFICATION VSpec
CONSTANTS
  BugWriteErrorSwallowed = FALSE
  MaxDecl = 4
  MaxChunk = 2
  MaxChunks = 4
  NetMax = 3
INVARIANTS StoredOnlyValid MachineIsAccept
CHECK_DEADLOCK FALSE
