SPECIFICATION VSpec
CONSTANTS
  BugWriteErrorSwallowed = FALSE
  MaxDecl = 5
  MaxChunk = 3
  MaxChunks = 4
  NetMax = 3
INVARIANTS StoredOnlyValid MachineIsAccept
CHECK_DEADLOCK FALSE
