----------------------------- MODULE TraceShard -----------------------------
(* C->M trace validation for Shard.tla.  The Go harness (harness/cmd/sharda) drives a REAL shard.Shard and
   records one event per observable step boundary (verifhook points, blobstor decorator calls, operation
   returns, crashes + reopen), each with a projection of the real state taken through the shard's APIs:
     st.b[a]  blob of a present in the blobstor          st.w[a]  a present in the write-cache
     st.s[a]  metabase has a's header                     st.g[a]  metabase has a garbage key for a
     st.x[a]  class of Shard.Exists(a)                    st.r[a]  Shard.Get(a) returns a's bytes
     st.cn[c] container bucket state none|live|dead       st.mode  Shard.GetMode()
   An event is accepted iff the model can take the same step (running the non-observable micro-steps in
   between) and ends in a state with EXACTLY this projection and the same operation result.  All property
   invariants of Shard.tla are evaluated on every recorded state.                                         *)
EXTENDS Shard, Json

Trace == ndJsonDeserialize("trace.ndjson")
VARIABLE l

Match(h, e) ==
  CASE e.k = "putdata"  -> h.k = "putdata" /\ h.a = e.a
    [] e.k = "delwc"    -> h.k = "delwc" /\ h.c = e.c /\ h.ids = e.ids
    [] e.k = "delmeta"  -> h.k = "delmeta" /\ h.c = e.c /\ h.ids = e.ids
    [] e.k = "delblob"  -> h.k = "delblob" /\ h.a = e.a
    [] e.k = "flushput" -> h.k = "flushloop" /\ e.a \in Range(h.ids)
    [] OTHER -> FALSE

RECURSIVE CanAdv(_, _)
CanAdv(s, e) == s.pc # <<>> /\ (Match(Head(s.pc), e) \/ CanAdv(StepCh(s, NoCh), e))
RECURSIVE Adv(_, _)
Adv(s, e) == IF Match(Head(s.pc), e) THEN StepCh(s, [a |-> e.a, ok |-> e.ok]) ELSE Adv(StepCh(s, NoCh), e)

DoOp(s, e) ==
  CASE e.op = "Epoch"     -> [DoEpoch(s, e.e) EXCEPT !.res = "ok"]
    [] e.op = "Mark"      -> DoMark(s, e.c, Range(e.ids), e.mk)
    [] e.op = "InhumeCnr" -> DoInhumeCnr(s, e.c)
    [] e.op = "Resync"    -> DoResync(s, e.ids)
    [] e.op = "SetMode"   -> DoSetMode(s, e.m, e.fault)
    [] e.op = "Quiesce"   -> [s EXCEPT !.quiet = TRUE, !.res = "ok"]
    [] e.op = "FlushHold"    -> DoFlushHold(s, e.a, Range(e.ids))
    [] e.op = "FlushRelease" -> DoFlushRelease(s, Range(e.ids))
    [] e.op = "RoOp"      -> [s EXCEPT !.res = "ro"]          \* request that exists only to be rejected in a read-only mode (see Cand)
    [] e.op = "ExpectClean" -> [s EXCEPT !.res = "ok"]       \* C44 bounded form: enabled only if nothing is left (see Cand)

\* candidate successor for event e (no comparison with the observation yet); Stuck = model cannot follow
Stuck == [stuck |-> TRUE]
Cand(s, e) ==
  CASE e.ev = "Init"  -> InitS(e.wc, e.batch)
    [] e.ev = "Start" -> IF Idle(s) THEN StartOp(s, [op |-> e.op, a |-> e.a, c |-> e.c, ids |-> e.ids]) ELSE Stuck
    [] e.ev = "At"    -> IF CanAdv(s, e) THEN Adv(s, e) ELSE Stuck
    [] e.ev = "End"   -> RunAll(s)
    [] e.ev = "Crash" -> IF s.hold = 0 THEN DoCrash(s) ELSE Stuck
    [] e.ev = "Do"    -> IF Idle(s) /\ (e.op = "Epoch" => e.e > s.epoch) /\ (e.op = "ExpectClean" => Clean(s)) /\ (e.op = "RoOp" => RO(s.mode))
                            /\ (e.op = "FlushHold" => CanHold(s, e.a)) /\ (e.op = "FlushRelease" => s.hold # 0)
                            /\ (e.op \in {"Resync", "SetMode"} => s.hold = 0)
                         THEN DoOp(s, e) ELSE Stuck

HasObs(e) == e.ev \in {"At", "End", "Crash", "Do"}
HasRes(e) == e.ev \in {"End", "Do"}

\* set of mismatches between model state s and the real projection st
Mismatch(s, e) ==
  LET st == e.st IN
  {<<"blob", a, s.blob[a], st.b[a]>> : a \in {x \in Ids : s.blob[x] # st.b[x]}}
  \cup {<<"wc", a, s.hasWC /\ s.wc[a], st.w[a]>> : a \in {x \in Ids : (s.hasWC /\ s.wc[x]) # st.w[x]}}
  \* the metabase can be inspected only while it is usable
  \cup (IF MetaErr(s) # "ok" THEN {} ELSE
        {<<"stored", a, s.m.stored[a], st.s[a]>> : a \in {x \in Ids : s.m.stored[x] # st.s[x]}}
        \cup {<<"garbkey", a, s.m.garb[a], st.g[a]>> : a \in {x \in Ids : (s.m.garb[x] # "none") # st.g[x]}}
        \cup {<<"cnr", c, s.m.cnr[c], st.cn[c]>> : c \in {x \in Cnrs : s.m.cnr[x] # st.cn[x]}})
  \cup {<<"exists", a, ExistsObs(s, a), st.x[a]>> : a \in {x \in Ids : ExistsObs(s, x) # st.x[x]}}
  \cup {<<"readable", a, Readable(s, a), st.r[a]>> : a \in {x \in Ids : Readable(s, x) # st.r[x]}}
  \cup (IF s.mode # st.mode THEN {<<"mode", 0, s.mode, st.mode>>} ELSE {})
  \cup (IF HasRes(e) /\ s.res # e.res THEN {<<"res", 0, s.res, e.res>>} ELSE {})

\* C14: digests of the on-disk state (file tree of blobstor and write-cache, logical dump of bbolt) taken by the
\* harness before / after the operation must be equal while the shard stays in read-only modes
DigestDiff(s, c, e) == IF "d0" \in DOMAIN e /\ RO(s.mode) /\ RO(c.mode) /\ e.d0 # e.d1 THEN {<<"digest", 0, e.d0, e.d1>>} ELSE {}
Accepts(s, e) == LET c == Cand(s, e) IN c # Stuck /\ (HasObs(e) => Mismatch(c, e) = {} /\ DigestDiff(s, c, e) = {})

TraceInit == S = InitS(FALSE, 1) /\ l = 1
TraceNext == /\ l <= Len(Trace)
             /\ Accepts(S, Trace[l])
             /\ S' = Cand(S, Trace[l])
             /\ l' = l + 1
TraceSpec == TraceInit /\ [][TraceNext]_<<S, l>>

\* rejected event: print why (model cannot follow / which projected fields differ), then fail
TraceNotStuck ==
  l <= Len(Trace) =>
    \/ Accepts(S, Trace[l])
    \/ LET c == Cand(S, Trace[l]) IN
       PrintT(<<"STUCK", l, IF c = Stuck THEN {<<"nostep", 0, 0, 0>>} ELSE Mismatch(c, Trace[l]) \cup DigestDiff(S, c, Trace[l])>>) /\ FALSE

\* property invariants of the trace cfgs: as in Shard.tla, but a violation names the event (position l - 1 = last event applied)
At(name, P) == P \/ (PrintT(<<"STUCK", l - 1, {<<name, 0, 0, 0>>}>>) /\ FALSE)
C09ModKFT == At("C09ModKF", C09ModKF)
C09StrictT == At("C09Strict", C09Strict)
C15ModKFT == At("C15ModKF", C15ModKF)
C43AfterOKT == At("C43AfterOK", C43AfterOK)
C14RejectsT == At("C14Rejects", C14Rejects)
C14ReadsROT == At("C14ReadsRO", C14ReadsRO)
C14ReadsDEGROT == At("C14ReadsDEGRO", C14ReadsDEGRO)

\* "notes": never false; print when the STRICT property is false on a recorded real state although the
\* known-finding-tolerant invariant holds (the check turns the lines into KNOWN-FINDING / VIOLATION verdicts)
C09Note == C09Strict \/ PrintT(<<"KF", "C09", l - 1, {<<a, S.kf[a]>> : a \in {x \in Ids : S.removed[x] /\ Readable(S, x)}}>>)
C43Note == C43Strict \/ PrintT(<<"KF", "C43", l - 1, {<<c, S.lastSet>> : c \in Deviating(S)}>>)
C15Note == C15Strict \/ PrintT(<<"KF", "C15", l - 1, {<<a, S.kf15[a]>> : a \in {x \in Ids : MetaAvail(S, x) /\ ~(HasData(S, x) /\ Readable(S, x))}}>>)
=============================================================================
