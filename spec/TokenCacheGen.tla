--------------------------- MODULE TokenCacheGen ---------------------------
(* M->C behaviours for the cache half of C30: TokenCache + history of events. *)
EXTENDS TokenCache, Json
CONSTANT GenLen
VARIABLE hist
GenInit == Init /\ hist = << >>
GenNext == \E e \in Events : Step(e) /\ hist' = Append(hist, e)
GenSpec == GenInit /\ [][GenNext]_<<vars, hist>>
Emit == Len(hist) = GenLen => PrintT(<<"BEH", ToJson([cat |-> Cat, steps |-> hist])>>)
=============================================================================
