------------------------------ MODULE SigChain ------------------------------
(* C33 - request signature chains are accepted only if every layer verifies; the only exemption
   is the one-hop request from an authenticated peer.

   Anchors: internal/crypto/requests.go (VerifyRequestSignatures / ...WithContext / ...N3,
            requestNeedsSignature), neofs-sdk-go crypto/proto.go (VerifyRequestWithBufferN3,
            needsOriginSig), pkg/network/peerauth (IsTrustedPeer).

   Two levels.
   (1) `Accept(i)` over an abstract input i (what the Go harness records):
         entry    "plain" | "ctx" | "n3"   VerifyRequestSignatures / ...WithContext / ...N3
         ver      "legacy" (meta nil, no version, or API < 2.25: origin signatures) | "new" (>= 2.25)
         metaNil, ttl, trusted, nMeta (1 + number of nested meta origins)
         layers   outermost first: [meta, origin, body], each "ok" | "bad" | "missing"
   (2) a structural model of signed requests: a signature is [p, over, good] - present, the CONTENT it
       was made over, and whether value/key/scheme are untouched.  Honest signing builds a chain;
       `Next` applies the manipulations of the property statement (change a signed part, break / remove /
       swap / copy signatures, drop / swap layers, drop a meta layer, honest re-signing).  TLC explores
       every request reachable with <= MaxSteps manipulations and checks that the flag-level `Accept`
       of the abstraction of a request holds exactly for honestly signed requests.               *)
EXTENDS Integers, Sequences, FiniteSets, TLC

-----------------------------------------------------------------------------
(* (1) decision over flags *)
NeedsSignature(i) == Len(i.layers) > 0 \/ i.metaNil \/ i.ttl # 1 \/ ~i.trusted   \* requestNeedsSignature
Exempt(i) == i.entry # "plain" /\ ~NeedsSignature(i)

VerifyLegacy(i) ==
  LET n == Len(i.layers) IN
  /\ n >= 1                                             \* errMissingVerifyHdr
  /\ n = i.nMeta                                        \* errWrongVerifyHdrNum
  /\ \A k \in 1..n : /\ i.layers[k].meta = "ok"
                     /\ i.layers[k].origin = "ok"
                     /\ (k < n => i.layers[k].body = "missing")   \* errNonOriginBodySig
                     /\ (k = n => i.layers[k].body = "ok")
(* API >= 2.25: "all requests are original" - only the outermost layer is looked at *)
VerifyNew(i) == Len(i.layers) >= 1 /\ i.layers[1].meta = "ok" /\ i.layers[1].body = "ok"

Accept(i) == Exempt(i) \/ (IF i.ver = "legacy" THEN VerifyLegacy(i) ELSE VerifyNew(i))

(* the exemption is exactly: no verification header, TTL 1, authenticated peer, context-aware entry *)
FlagU == {"ok", "bad", "missing"}
ASSUME ExemptionIsNarrow ==
  \A e \in {"plain", "ctx", "n3"}, v \in {"legacy", "new"}, mn \in BOOLEAN, t \in 0..2, tr \in BOOLEAN,
     ls \in {<< >>, <<[meta |-> "ok", origin |-> "ok", body |-> "ok"]>>, <<[meta |-> "bad", origin |-> "ok", body |-> "ok"]>>} :
     LET i == [entry |-> e, ver |-> v, metaNil |-> mn, ttl |-> t, trusted |-> tr, nMeta |-> 1, layers |-> ls] IN
     /\ Exempt(i) = (e # "plain" /\ ls = << >> /\ ~mn /\ t = 1 /\ tr)
     /\ (Len(ls) = 0 /\ ~Exempt(i)) => ~Accept(i)          \* an unsigned request is never accepted otherwise
     /\ (Len(ls) > 0) => (Accept(i) = (ls[1].meta = "ok")) \* a header present is always verified, peer or not

-----------------------------------------------------------------------------
(* (2) structural model *)
CONSTANTS MaxLayers, MaxSteps
VARIABLES req, steps
vars == <<req, steps>>

NoC == [t |-> "-", ms |-> << >>, ls |-> << >>, b |-> 0]
C(t, ms, ls, b) == [t |-> t, ms |-> ms, ls |-> ls, b |-> b]
NoSig == [p |-> FALSE, over |-> NoC, good |-> FALSE]
Sig(c) == [p |-> TRUE, over |-> c, good |-> TRUE]

(* contents: the body; the k-th meta header WITH its nested origins; the verification header below layer k *)
BodyC(r) == C("B", << >>, << >>, r.body)
MetaC(r, k) == C("M", IF k <= Len(r.metas) THEN SubSeq(r.metas, k, Len(r.metas)) ELSE << >>, << >>, 0)
VHC(r, k) == C("V", << >>, SubSeq(r.layers, k + 1, Len(r.layers)), 0)

(* honest signing (neofscrypto.SignRequestWithBuffer), innermost first *)
RECURSIVE Build(_, _, _, _, _)
Build(ver, k, n, metas, body) ==
  LET mc == C("M", SubSeq(metas, k, n), << >>, 0) bc == C("B", << >>, << >>, body) IN
  IF ver = "new"
    THEN <<[m |-> Sig(mc), o |-> NoSig, b |-> Sig(bc)]>> \o (IF k = n THEN << >> ELSE Build(ver, k + 1, n, metas, body))
    ELSE IF k = n THEN <<[m |-> Sig(mc), o |-> Sig(C("V", << >>, << >>, 0)), b |-> Sig(bc)]>>
         ELSE LET inner == Build(ver, k + 1, n, metas, body) IN
              <<[m |-> Sig(mc), o |-> Sig(C("V", << >>, inner, 0)), b |-> NoSig]>> \o inner
HonestReq(ver, n, body) == LET metas == [k \in 1..n |-> k] IN
  [ver |-> ver, body |-> body, metas |-> metas, layers |-> Build(ver, 1, n, metas, body)]
IsHonest(r) == Len(r.metas) >= 1 /\ r.layers = Build(r.ver, 1, Len(r.metas), r.metas, r.body)

Flag(s, c) == IF ~s.p THEN "missing" ELSE IF s.good /\ s.over = c THEN "ok" ELSE "bad"
Abs(r) == [entry |-> "plain", ver |-> r.ver, metaNil |-> FALSE, ttl |-> 2, trusted |-> FALSE,
           nMeta |-> IF Len(r.metas) = 0 THEN 1 ELSE Len(r.metas),
           layers |-> [k \in 1..Len(r.layers) |->
                         [meta |-> Flag(r.layers[k].m, MetaC(r, k)), origin |-> Flag(r.layers[k].o, VHC(r, k)),
                          body |-> Flag(r.layers[k].b, BodyC(r))]]]

Fields == {"m", "o", "b"}
Get(l, f) == CASE f = "m" -> l.m [] f = "o" -> l.o [] f = "b" -> l.b
Put(l, f, s) == CASE f = "m" -> [l EXCEPT !.m = s] [] f = "o" -> [l EXCEPT !.o = s] [] f = "b" -> [l EXCEPT !.b = s]
Remove(s, k) == SubSeq(s, 1, k - 1) \o SubSeq(s, k + 1, Len(s))

(* one manipulation; e is an event record (the Go harness executes the same catalogue on real requests) *)
Step(e) ==
  LET n == Len(req.layers) IN
  CASE e.op = "FlipBody"   -> req' = [req EXCEPT !.body = req.body + 1]
    [] e.op = "FlipMeta"   -> e.k <= Len(req.metas) /\ req' = [req EXCEPT !.metas[e.k] = req.metas[e.k] + 10]
    [] e.op = "BreakSig"   -> e.k <= n /\ Get(req.layers[e.k], e.f).p /\ Get(req.layers[e.k], e.f).good
                              /\ req' = [req EXCEPT !.layers[e.k] = Put(@, e.f, [Get(@, e.f) EXCEPT !.good = FALSE])]
    [] e.op = "RemoveSig"  -> e.k <= n /\ Get(req.layers[e.k], e.f).p
                              /\ req' = [req EXCEPT !.layers[e.k] = Put(@, e.f, NoSig)]
    [] e.op = "DropLayer"  -> e.k <= n /\ req' = [req EXCEPT !.layers = Remove(@, e.k)]
    [] e.op = "DropMeta"   -> e.k <= Len(req.metas) /\ Len(req.metas) > 1 /\ req' = [req EXCEPT !.metas = Remove(@, e.k)]
    [] e.op = "SwapLayers" -> e.k < e.j /\ e.j <= n
                              /\ req' = [req EXCEPT !.layers = [@ EXCEPT ![e.k] = req.layers[e.j], ![e.j] = req.layers[e.k]]]
    [] e.op = "CopySig"    -> e.k <= n /\ e.j <= n /\ <<e.j, e.g>> # <<e.k, e.f>>   \* slot (j, g) := signature of slot (k, f)
                              /\ req' = [req EXCEPT !.layers[e.j] = Put(@, e.g, Get(req.layers[e.k], e.f))]
    [] e.op = "SwapSigs"   -> e.k <= n /\ e.f # e.g
                              /\ req' = [req EXCEPT !.layers[e.k] = Put(Put(@, e.f, Get(@, e.g)), e.g, Get(req.layers[e.k], e.f))]
    [] e.op = "Resign"     -> n < MaxLayers /\ Len(req.metas) < MaxLayers   \* an honest hop wraps and signs what it got
                              /\ LET id == 100 + steps
                                     ms == <<id>> \o req.metas
                                     mc == C("M", ms, << >>, 0) IN
                                 req' = [req EXCEPT !.metas = ms,
                                           !.layers = IF req.ver = "new"
                                                        THEN <<[m |-> Sig(mc), o |-> NoSig, b |-> Sig(BodyC(req))]>> \o @
                                                        ELSE <<[m |-> Sig(mc), o |-> Sig(C("V", << >>, req.layers, 0)),
                                                                b |-> IF n = 0 THEN Sig(BodyC(req)) ELSE NoSig]>> \o @]

Events == [op : {"FlipBody", "Resign"}]
          \cup [op : {"FlipMeta", "DropLayer", "DropMeta"}, k : 1..MaxLayers]
          \cup [op : {"BreakSig", "RemoveSig"}, k : 1..MaxLayers, f : Fields]
          \cup [op : {"SwapLayers"}, k : 1..MaxLayers, j : 1..MaxLayers]
          \cup [op : {"CopySig"}, k : 1..MaxLayers, f : Fields, j : 1..MaxLayers, g : Fields]
          \cup [op : {"SwapSigs"}, k : 1..MaxLayers, f : Fields, g : Fields]

Init == steps = 0 /\ req \in {HonestReq(v, n, 0) : v \in {"legacy", "new"}, n \in 1..MaxLayers}
Next == steps < MaxSteps /\ steps' = steps + 1 /\ \E e \in Events : Step(e)
Spec == Init /\ [][Next]_vars

(* every request accepted under the legacy protocol is an honestly signed chain over exactly its present
   body, meta headers and inner verification headers - and vice versa *)
InvLegacyAcceptIffHonest == req.ver = "legacy" => (Accept(Abs(req)) = IsHonest(req))
(* API >= 2.25: accepted iff the receiving hop's signatures cover the present body and the whole nested
   meta header; inner verification headers are unsigned data by protocol *)
InvNewAcceptIffOuterCovers ==
  req.ver = "new" => (Accept(Abs(req)) = (/\ Len(req.layers) >= 1
                                           /\ req.layers[1].m = Sig(MetaC(req, 1))
                                           /\ req.layers[1].b = Sig(BodyC(req))))
(* whatever was done, a request whose body or outermost meta header differs from what the outermost
   signer signed is rejected (both protocols) *)
InvSignedPartsCovered ==
  Accept(Abs(req)) => /\ req.layers[1].m.good /\ req.layers[1].m.over = MetaC(req, 1)
                      /\ \E k \in 1..Len(req.layers) : req.layers[k].b.good /\ req.layers[k].b.over = BodyC(req)
=============================================================================
