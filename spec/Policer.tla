------------------------------- MODULE Policer -------------------------------
(* C26 - pkg/services/policer/{check.go,ec.go} + pkg/services/replicator/process.go.

   One policy check of ONE locally stored object (Policer.processObject), code-shaped:
     processObject  -> Pre / EffRules / Decide
     processNodes   -> StartRule / LoopCond / Visit / EndRule   (shortage, candidates, uncheckedCopies,
                       needLocalCopy, localNodeInContainer, node cache)
     HandleTask     -> Repl (candidates in order until the requested quantity is reached)
     processECPartByRule -> EcVisit / EcEnd over NodeSequenceForPart
   The same operators are used in two ways:
     * as a state machine (one action per visited node / per replication task / final decision) in which
       every input that the code has not looked at yet is unresolved ("?") and is chosen when it is first
       needed - TLC explores all placements x answers exhaustively (Policer_*.cfg);
     * folded into the function F(s) of a fully resolved scenario s - used to validate the records
       produced by the REAL policer (TracePolicer.tla).
   Node answers: has | nfOk | nfFail (404, replication to it would succeed / fail) | maint (status
   NODE_UNDER_MAINTENANCE) | err (unreachable), plus the netmap maintenance flag nm ("y"/"n").

   Deviation switch BugMaintRebalance: TRUE models the tree as found (the "some copies are on maintenance
   nodes, keep the local one" rule is the last arm of an if / else-if chain and is skipped whenever a
   replication task is issued in the same pass), FALSE models the repaired code
   (fixes/C26-maintenance-copy-kept-on-replication.diff).                                              *)
EXTENDS Integers, Sequences, FiniteSets, TLC

CONSTANTS Nodes,              \* node identifiers (the local one included)
          Local,              \* identifier of the node running the policer
          BugMaintRebalance

Types == {"REG", "TOMB", "LOCK", "LINK"}
Answers == {"has", "nfOk", "nfFail", "maint", "err"}
Range(q) == {q[k] : k \in 1..Len(q)}

-----------------------------------------------------------------------------
(* processObject, structure level.  s.attr: "none" (no EC attributes), "ok" (s.part = [rule, idx]),
   "bad" (undecodable); s.neterr: result of GetNodesForObject: "none" | "notfound" | "other".
   s.rep : sequence of [nodes, n]; s.ec : sequence of [nodes, d, p].                                  *)
Pre(s) ==
  IF s.attr = "bad" THEN "skip"
  ELSE IF s.neterr = "notfound" THEN "delDefault"
  ELSE IF s.neterr = "other" THEN "skip"
  ELSE IF s.attr = "ok" THEN (IF Len(s.ec) > 0 THEN "ecpart" ELSE "delDefault")
  ELSE IF Len(s.ec) > 0 /\ s.typ = "REG" /\ Len(s.rep) = 0 THEN "delDefault"
  ELSE "rep"

\* replication rules actually walked for a non-EC object
EffRules(s) ==
  IF Len(s.ec) > 0 /\ s.typ \in {"TOMB", "LOCK", "LINK"}
    THEN s.rep \o [k \in 1..Len(s.ec) |-> [nodes |-> s.ec[k].nodes,
                                            n |-> IF s.typ = "TOMB" THEN Len(s.ec[k].nodes) ELSE 0]]
    ELSE s.rep

\* what the policy demands of rule k (LOCK/LINK: every node of the list)
Required(s, rule) == IF s.typ \in {"LOCK", "LINK"} THEN Len(rule.nodes) ELSE rule.n

Ctx0 == [shortage |-> 0, cands |-> <<>>, unchecked |-> 0, cache |-> [n \in Nodes |-> "none"],
         needLocal |-> FALSE, localIn |-> FALSE,
         headok |-> {}, stored |-> {}, tasks |-> <<>>, kf |-> FALSE]

StartRule(c, s, rule) == [c EXCEPT !.shortage = Required(s, rule), !.cands = <<>>, !.unchecked = 0]

LoopCond(c, rule, i) == (~c.localIn \/ c.shortage > 0) /\ i <= Len(rule.nodes)

Maint(c, node) == [c EXCEPT !.cache[node] = "holder", !.shortage = @ - 1, !.unchecked = @ + 1]

\* one iteration of the processNodes loop; nm / ans are the (resolved) inputs of this node
Visit(c, node, nm, ans) ==
  LET c1 == [c EXCEPT !.localIn = @ \/ (node = Local)] IN
  IF c.shortage = 0 THEN c1
  ELSE IF node = Local THEN [c1 EXCEPT !.needLocal = TRUE, !.shortage = @ - 1]
  ELSE IF nm = "y" THEN Maint(c1, node)
  ELSE IF c.cache[node] = "cand" THEN [c1 EXCEPT !.cands = Append(@, node)]
  ELSE IF c.cache[node] = "holder" THEN c1
  ELSE CASE ans \in {"nfOk", "nfFail"} -> [c1 EXCEPT !.cache[node] = "cand", !.cands = Append(@, node)]
         [] ans = "maint" -> Maint(c1, node)
         [] ans = "err"   -> c1
         [] ans = "has"   -> [c1 EXCEPT !.shortage = @ - 1, !.cache[node] = "holder", !.headok = @ \cup {node}]

\* which inputs Visit looks at (used for lazy resolution in the state machine)
NeedsNm(c, node)  == c.shortage > 0 /\ node # Local
NeedsAns(c, node, nm) == NeedsNm(c, node) /\ nm = "n" /\ c.cache[node] = "none"

\* Replicator.HandleTask: nodes in order while quantity > 0; result = nodes that stored the object
RECURSIVE Repl(_, _, _, _, _)
Repl(ans, cands, j, q, acc) ==
  IF j > Len(cands) \/ q = 0 THEN acc
  ELSE IF ans[cands[j]] = "nfOk" THEN Repl(ans, cands, j + 1, q - 1, Append(acc, cands[j]))
  ELSE Repl(ans, cands, j + 1, q, acc)

\* tail of processNodes.  As found (bug): "keep the local copy because some counted copies are on
\* maintenance nodes" is the last arm of the if / else-if chain, so it is skipped whenever a replication
\* task is issued.  Repaired: it is evaluated after the chain and the copies on maintenance nodes may be
\* compensated one for one by the replicas that have just been made.
EndRule(c, ans, bug) ==
  LET replBranch == c.shortage > 0 \/ Len(c.cands) > 0
      q  == IF c.shortage > 0 THEN c.shortage ELSE Len(c.cands)
      ok == IF replBranch THEN Repl(ans, c.cands, 1, q, <<>>) ELSE <<>>
      c1 == IF replBranch
              THEN [c EXCEPT !.tasks = Append(@, [q |-> q, nodes |-> c.cands, ok |-> ok]),
                             !.cache = [n \in Nodes |-> IF n \in Range(ok) THEN "holder" ELSE @[n]],
                             !.stored = @ \cup Range(ok)]
              ELSE c
      keep == IF bug THEN c.unchecked > 0 /\ ~replBranch ELSE c.unchecked > Len(ok)
  IN [c1 EXCEPT !.needLocal = @ \/ keep, !.kf = @ \/ (c.unchecked > 0 /\ replBranch)]

AtLeastOneHolder(c) == \E n \in Nodes : c.cache[n] = "holder"

\* tail of processObject: [del |-> "none" | "redundant" | "default", dedup |-> BOOLEAN]
Decide(c, s) ==
  IF ~c.needLocal
    THEN IF ~c.localIn /\ (s.inNetmap = "n" \/ ~AtLeastOneHolder(c))
           THEN [del |-> "none", dedup |-> FALSE]
           ELSE [del |-> "redundant", dedup |-> FALSE]
    ELSE [del |-> "none", dedup |-> s.shards >= 2 /\ s.typ = "REG"]

-----------------------------------------------------------------------------
(* processECPartByRule *)
RECURSIVE SeqShift(_, _, _, _)
\* 0-based node indexes for one shift: st, st+T, st+2T ... < n
SeqShift(st, T, n, acc) == IF st >= n THEN acc ELSE SeqShift(st + T, T, n, Append(acc, st))
RECURSIVE NodeSeqFrom(_, _, _, _)
NodeSeqFrom(pi, T, n, sh) == IF sh > T - 1 THEN <<>>
                             ELSE SeqShift((pi + sh) % T, T, n, <<>>) \o NodeSeqFrom(pi, T, n, sh + 1)
NodeSequenceForPart(pi, T, n) == NodeSeqFrom(pi, T, n, 0)

EcPre(s) ==
  IF s.part.rule >= Len(s.ec) THEN "delDefault"
  ELSE IF s.part.idx >= s.ec[s.part.rule + 1].d + s.ec[s.part.rule + 1].p THEN "delDefault"
  ELSE "walk"
EcRule(s) == s.ec[s.part.rule + 1]
EcOrder(s) == LET r == EcRule(s)
                  sq == NodeSequenceForPart(s.part.idx, r.d + r.p, Len(r.nodes))
              IN [k \in 1..Len(sq) |-> r.nodes[sq[k] + 1]]

ECtx0 == [cands |-> <<>>, maint |-> FALSE, state |-> "walk", headok |-> {}, stored |-> {}, tasks |-> <<>>]
\* state: "walk" | "hold" | "drop" | "end" (loop left through break / exhaustion)
EcVisit(e, node, ans) ==
  IF node = Local THEN [e EXCEPT !.state = IF Len(e.cands) = 0 THEN "hold" ELSE "end"]
  ELSE CASE ans = "has" -> [e EXCEPT !.state = "drop", !.headok = @ \cup {node}]
         [] ans = "maint" -> [e EXCEPT !.maint = TRUE]
         [] ans \in {"nfOk", "nfFail"} -> [e EXCEPT !.cands = Append(@, node)]
         [] ans = "err" -> e
EcEnd(e, ans) ==
  IF e.maint \/ Len(e.cands) = 0 THEN [e EXCEPT !.state = "hold"]
  ELSE LET ok == Repl(ans, e.cands, 1, 1, <<>>) IN
       [e EXCEPT !.tasks = Append(@, [q |-> 1, nodes |-> e.cands, ok |-> ok]),
                 !.stored = @ \cup Range(ok),
                 !.state = IF Len(ok) > 0 THEN "drop" ELSE "hold"]

-----------------------------------------------------------------------------
(* The whole decision as a function of a fully resolved scenario (s.nm, s.ans total) and of the
   deviation switch. *)
RECURSIVE WalkNodes(_, _, _, _, _)
WalkNodes(c, s, rule, i, bug) ==
  IF LoopCond(c, rule, i)
    THEN WalkNodes(Visit(c, rule.nodes[i], s.nm[rule.nodes[i]], s.ans[rule.nodes[i]]), s, rule, i + 1, bug)
    ELSE EndRule(c, s.ans, bug)
RECURSIVE WalkRules(_, _, _, _, _)
WalkRules(c, s, rules, k, bug) ==
  IF k > Len(rules) THEN c
  ELSE WalkRules(WalkNodes(StartRule(c, s, rules[k]), s, rules[k], 1, bug), s, rules, k + 1, bug)
RECURSIVE EcWalk(_, _, _, _)
EcWalk(e, s, ord, j) ==
  IF e.state # "walk" THEN e
  ELSE IF j > Len(ord) THEN [e EXCEPT !.state = "end"]
  ELSE EcWalk(EcVisit(e, ord[j], s.ans[ord[j]]), s, ord, j + 1)

Out(del, dedup, tasks, headok, stored, kf) ==
  [del |-> del, dedup |-> dedup, tasks |-> tasks, headok |-> headok, stored |-> stored, kf |-> kf]

F(s, bug) ==
  LET pre == Pre(s) IN
  CASE pre = "skip" -> Out("none", FALSE, <<>>, {}, {}, FALSE)
    [] pre = "delDefault" -> Out("default", FALSE, <<>>, {}, {}, FALSE)
    [] pre = "rep" ->
         LET c == WalkRules(Ctx0, s, EffRules(s), 1, bug)
             d == Decide(c, s)
         IN Out(d.del, d.dedup, c.tasks, c.headok, c.stored, c.kf)
    [] pre = "ecpart" ->
         IF EcPre(s) = "delDefault" THEN Out("default", FALSE, <<>>, {}, {}, FALSE)
         ELSE LET e0 == EcWalk(ECtx0, s, EcOrder(s), 1)
                  e == IF e0.state = "end" THEN EcEnd(e0, s.ans) ELSE e0
              IN Out(IF e.state = "drop" THEN "redundant" ELSE "none", FALSE, e.tasks, e.headok, e.stored, FALSE)

-----------------------------------------------------------------------------
(* C26 stated on OBSERVATIONS only (who answered HEAD with a header, who stored a replica, what was
   deleted) and on the policy (s) - independent of the shape of the code above.                        *)
Lists(s) == {r.nodes : r \in Range(EffRules(s))}
PropRep(s, del, headok, stored) ==
  LET conf == (headok \cup stored) \ {Local}
      rules == EffRules(s)
      inCnr == \E k \in 1..Len(rules) : Local \in Range(rules[k].nodes)
  IN del # "none" =>
       /\ \A k \in 1..Len(rules) : Local \in Range(rules[k].nodes) =>
             Cardinality(conf \cap Range(rules[k].nodes)) >= Required(s, rules[k])
       /\ ~inCnr => s.inNetmap = "y" /\ conf # {}
       /\ s.typ \in {"LOCK", "LINK"} => ~inCnr
PropEc(s, del, headok, stored) ==
  del # "none" => ((headok \cup stored) \ {Local}) \cap Range(EcRule(s).nodes) # {}
\* objects the storage policy does not apply to (garbage by construction) are outside the property
Prop(s, del, headok, stored) ==
  CASE Pre(s) = "rep" -> PropRep(s, del, headok, stored)
    [] Pre(s) = "ecpart" /\ EcPre(s) = "walk" -> PropEc(s, del, headok, stored)
    [] OTHER -> TRUE

-----------------------------------------------------------------------------
(* State machine with lazy resolution of inputs. *)
VARIABLES s,      \* scenario; s.nm / s.ans / s.inNetmap ("y"/"n") may still be "?", s.shards 0
          pc,     \* "start" | "node" | "decide" | "ecnode" | "ecend" | "done"
          r, i,   \* current rule / position
          c,      \* processNodes context (Ctx0 shape)
          e,      \* EC walk context (ECtx0 shape)
          out     \* result (Out shape) once pc = "done"
vars == <<s, pc, r, i, c, e, out>>

NoOut == Out("none", FALSE, <<>>, {}, {}, FALSE)

Start ==
  /\ pc = "start"
  /\ LET pre == Pre(s) IN
     CASE pre = "skip" -> pc' = "done" /\ out' = NoOut /\ UNCHANGED <<r, i, c, e>>
       [] pre = "delDefault" -> pc' = "done" /\ out' = [NoOut EXCEPT !.del = "default"] /\ UNCHANGED <<r, i, c, e>>
       [] pre = "rep" ->
            IF Len(EffRules(s)) = 0
              THEN pc' = "decide" /\ UNCHANGED <<r, i, c, e, out>>
              ELSE pc' = "node" /\ r' = 1 /\ i' = 1 /\ c' = StartRule(Ctx0, s, EffRules(s)[1]) /\ UNCHANGED <<e, out>>
       [] pre = "ecpart" ->
            IF EcPre(s) = "delDefault"
              THEN pc' = "done" /\ out' = [NoOut EXCEPT !.del = "default"] /\ UNCHANGED <<r, i, c, e>>
              ELSE pc' = "ecnode" /\ i' = 1 /\ UNCHANGED <<r, c, e, out>>
  /\ UNCHANGED s

\* one iteration of the loop of processNodes
NodeStep ==
  /\ pc = "node"
  /\ LoopCond(c, EffRules(s)[r], i)
  /\ LET node == EffRules(s)[r].nodes[i] IN
     \E nm \in (IF NeedsNm(c, node) /\ s.nm[node] = "?" THEN {"y", "n"} ELSE {s.nm[node]}) :
     \E an \in (IF NeedsAns(c, node, nm) /\ s.ans[node] = "?" THEN Answers ELSE {s.ans[node]}) :
       /\ s' = [s EXCEPT !.nm[node] = nm, !.ans[node] = an]
       /\ c' = Visit(c, node, nm, an)
       /\ i' = i + 1
       /\ UNCHANGED <<pc, r, e, out>>

\* loop left: replication task (real Replicator.HandleTask runs inside the call), next rule
EndRuleStep ==
  /\ pc = "node"
  /\ ~LoopCond(c, EffRules(s)[r], i)
  /\ c' = IF r < Len(EffRules(s)) THEN StartRule(EndRule(c, s.ans, BugMaintRebalance), s, EffRules(s)[r + 1])
                                  ELSE EndRule(c, s.ans, BugMaintRebalance)
  /\ IF r < Len(EffRules(s)) THEN pc' = "node" /\ r' = r + 1 /\ i' = 1
                             ELSE pc' = "decide" /\ UNCHANGED <<r, i>>
  /\ UNCHANGED <<s, e, out>>

DecideStep ==
  /\ pc = "decide"
  /\ \E inm \in (IF s.inNetmap = "?" THEN {"y", "n"} ELSE {s.inNetmap}) :
     \E sh \in (IF s.shards = 0 THEN {1, 2} ELSE {s.shards}) :
       /\ s' = [s EXCEPT !.inNetmap = inm, !.shards = sh]
       /\ LET d == Decide(c, s') IN out' = Out(d.del, d.dedup, c.tasks, c.headok, c.stored, c.kf)
  /\ pc' = "done"
  /\ UNCHANGED <<r, i, c, e>>

EcNodeStep ==
  /\ pc = "ecnode"
  /\ LET ord == EcOrder(s) IN
     IF e.state = "walk" /\ i <= Len(ord)
       THEN LET node == ord[i] IN
            \E an \in (IF node # Local /\ s.ans[node] = "?" THEN Answers ELSE {s.ans[node]}) :
              /\ s' = [s EXCEPT !.ans[node] = an]
              /\ e' = EcVisit(e, node, an)
              /\ i' = i + 1
              /\ UNCHANGED <<pc, r, c, out>>
       ELSE /\ e' = IF e.state = "walk" THEN [e EXCEPT !.state = "end"] ELSE e
            /\ pc' = "ecend"
            /\ UNCHANGED <<s, r, i, c, out>>

EcEndStep ==
  /\ pc = "ecend"
  /\ LET e1 == IF e.state = "end" THEN EcEnd(e, s.ans) ELSE e IN
       /\ e' = e1
       /\ out' = Out(IF e1.state = "drop" THEN "redundant" ELSE "none", FALSE, e1.tasks, e1.headok, e1.stored, FALSE)
  /\ pc' = "done"
  /\ UNCHANGED <<s, r, i, c>>

Next == Start \/ NodeStep \/ EndRuleStep \/ DecideStep \/ EcNodeStep \/ EcEndStep

-----------------------------------------------------------------------------
(* Scenario universe for the exhaustive runs. *)
CONSTANTS RuleShapes,  \* set of <<number of REP rules, max nodes per list>>, e.g. {<<1, 4>>, <<2, 2>>}
          EcLens,      \* lengths of EC node lists
          EcCnrRepLen, \* max nodes of the optional REP rule of an EC container (0 = EC rule only)
          Families     \* scenario families Init enumerates: subset of {"rep", "eccnr", "ecpart"}

RECURSIVE DistinctSeqs(_, _)
DistinctSeqs(S, k) ==            \* sequences of distinct elements of S, length 0..k
  IF k = 0 THEN {<<>>}
  ELSE LET prev == DistinctSeqs(S, k - 1) IN
       prev \cup UNION {{Append(q, x) : x \in S \ Range(q)} : q \in {p \in prev : Len(p) = k - 1}}
NodeLists(k) == DistinctSeqs(Nodes, k) \ {<<>>}
RepRules(k) == UNION {{[nodes |-> q, n |-> n] : n \in 1..Len(q)} : q \in NodeLists(k)}
EcLists == {q \in NodeLists(Cardinality(Nodes)) : Len(q) \in EcLens}

Unres == [n \in Nodes |-> "?"]
Base(typ, rep, ec, attr, part, neterr) ==
  [typ |-> typ, rep |-> rep, ec |-> ec, attr |-> attr, part |-> part, neterr |-> neterr,
   nm |-> Unres, ans |-> Unres, inNetmap |-> "?", shards |-> 0]
NoPart == [rule |-> 0, idx |-> 0]

\* plain REP containers
RepScenarios ==
  UNION {{Base(t, rr, <<>>, "none", NoPart, "none") : t \in Types, rr \in [1..sh[1] -> RepRules(sh[2])]}
         : sh \in RuleShapes}
\* containers with one EC rule holding an object WITHOUT EC attributes (REP rule optional)
EcCnrScenarios ==
  {Base(t, rr, <<[nodes |-> q, d |-> 2, p |-> 1]>>, "none", NoPart, "none") :
     t \in Types, rr \in {<<>>} \cup {<<x>> : x \in RepRules(EcCnrRepLen)}, q \in EcLists}
\* failures before any node is asked
PreScenarios ==
  {Base("REG", <<>>, <<>>, a, NoPart, ne) : a \in {"none", "ok", "bad"}, ne \in {"none", "notfound", "other"}}
\* EC parts
EcPartScenarios ==
  {Base("REG", <<>>, <<[nodes |-> q, d |-> dp[1], p |-> dp[2]]>>, "ok", [rule |-> ri, idx |-> pi], "none") :
     q \in EcLists, dp \in {<<1, 1>>, <<2, 1>>}, ri \in 0..1, pi \in 0..3}

Init ==
  /\ s \in (IF "rep" \in Families THEN RepScenarios ELSE {})
         \cup (IF "eccnr" \in Families THEN EcCnrScenarios \cup PreScenarios ELSE {})
         \cup (IF "ecpart" \in Families THEN EcPartScenarios ELSE {})
  /\ pc = "start" /\ r = 0 /\ i = 0 /\ c = Ctx0 /\ e = ECtx0 /\ out = NoOut

Spec == Init /\ [][Next]_vars

-----------------------------------------------------------------------------
(* Checked on every reachable state. *)
TypeOK == /\ pc \in {"start", "node", "decide", "ecnode", "ecend", "done"}
          /\ c.shortage \in Nat /\ c.unchecked \in Nat

\* The repaired code satisfies C26; the code as found satisfies it except in the named history class.
C26 == pc = "done" => (Prop(s, out.del, out.headok, out.stored) \/ (BugMaintRebalance /\ out.kf))

\* the state machine and the folded function are the same decision
MachineIsF == pc = "done" => out = F(s, BugMaintRebalance)

\* maintenance / unreachable nodes are never among the confirmations (by construction of the monitor)
ConfirmedAreReal == \A n \in c.headok : s.ans[n] = "has" /\ s.nm[n] = "n"
StoredAreReal == \A n \in (c.stored \cup e.stored) : s.ans[n] = "nfOk"

\* the as-found and repaired code differ only inside the named class
KfOnlyWithMaint == c.kf => \E n \in Nodes : s.nm[n] = "y" \/ s.ans[n] = "maint"

\* needLocalCopy is the only thing that protects a container node's copy
LockLinkKept == (pc = "done" /\ s.typ \in {"LOCK", "LINK"} /\ Pre(s) = "rep"
                  /\ \E k \in 1..Len(EffRules(s)) : Local \in Range(EffRules(s)[k].nodes)) => out.del = "none"
=============================================================================
