SPECIFICATION SpecTick
CONSTANTS
  MaxEpoch = 4
INVARIANTS TickRule CounterFollowsChain
CHECK_DEADLOCK FALSE
