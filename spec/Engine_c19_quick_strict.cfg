\* C19 quick: without tombstones (no partially recorded removal) evacuation keeps everything, no exception
SPECIFICATION Spec
CONSTANTS
  NS = 2
  MaxEpoch = 1
  BugH6 = TRUE
  CatSet = "c19l"
  Ops = {"Put", "Bcast", "SetMode", "EvacuateQ"}
  Modes = {"rw", "ro"}
  HealthyLock = FALSE
  MaxInFlight = 1
  Scenario = "none"
INVARIANTS TypeOK C19Strict
VIEW ViewC19
CHECK_DEADLOCK FALSE
