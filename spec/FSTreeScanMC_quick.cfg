SPECIFICATION ScanSpec
CONSTANTS
  BufN = 8
  Pref = 3
  Lens = {1,2,3,4,5,6,7,8,9,10,11,12,13,14,15,16,17,18}
  MaxMembers = 3
  BugRefill = FALSE
  BugPrefixEOF = FALSE
  BugExactLimit = FALSE
INVARIANTS ScanOK PrefixedOK DrainFastOK
CHECK_DEADLOCK FALSE
