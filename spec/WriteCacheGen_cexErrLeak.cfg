SPECIFICATION GenSpec
CONSTANTS
  Addrs = {1, 2, 3, 4}
  Threshold = 2
  MaxCount = 2
  MaxBSize = 100
  MaxCache = 8
  NW = 1
  Procs = {1}
  Ops = {"put", "del"}
  Modes = {"rw"}
  Shard = FALSE
  Markers = TRUE
  MaxFail = 1
  MaxCalls = 3
  BugH3 = FALSE
  BugAlias = FALSE
  BugErrLeak = TRUE
  BugSplit = FALSE
  GenLen = 100
  MaxRounds = 100
VIEW GenView
INVARIANTS CexLeak
CHECK_DEADLOCK FALSE
