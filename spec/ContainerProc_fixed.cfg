SPECIFICATION Spec
CONSTANTS
  BugH13 = FALSE
INVARIANTS PropertyHolds
CHECK_DEADLOCK FALSE
