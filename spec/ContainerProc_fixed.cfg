SPECIFICATION Spec
CONSTANTS
  Full = TRUE
  BugH13 = FALSE
INVARIANTS PropertyHolds
CHECK_DEADLOCK FALSE
