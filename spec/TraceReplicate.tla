--------------------------- MODULE TraceReplicate ---------------------------
(* Record validation for C31: every {in, out} record produced by the real Server.Replicate (real putsvc
   validation, recording local storage) is judged by the reference Accept(in):
     RecOkOnlyIfAccepted      out.ok => Accept(in)
     RecStoredOnlyIfAccepted  (out.stored \/ out.present) => Accept(in)   (write observed at the storage leaf /
                                                                           object present in the engine afterwards)
     RecOkMeansStored         out.ok => out.stored /\ out.present
     RecAcceptedWhenAllChecksPass   Accept(in) => out.ok   (other direction: drift of the reference, not a verdict)
   One step per record, so that a counterexample names the record. *)
EXTENDS Replicate, Json
Recs == ndJsonDeserialize("trace.ndjson")
VARIABLE l
TraceInit == l = 0 /\ in = (CHOOSE i \in Inputs : TRUE) /\ out = Impl(in)
TraceNext == /\ l < Len(Recs)
             /\ l' = l + 1
             /\ in' = Recs[l + 1].in
             /\ out' = Recs[l + 1].out
TraceSpec == TraceInit /\ [][TraceNext]_<<vars, l>>
Cur == l >= 1
RecWellFormed == Cur => in \in Inputs
\* C31 (safety): OK status only for a request that passes all the checks; nothing stored otherwise; OK means stored
RecOkOnlyIfAccepted == Cur => (out.ok => Accept(in))
RecStoredOnlyIfAccepted == Cur => ((out.stored \/ out.present) => Accept(in))
RecOkMeansStored == Cur => (out.ok => (out.stored /\ out.present))
\* not part of the property (a handler that refuses MORE than the reference is not a violation): reported as drift
RecAcceptedWhenAllChecksPass == Cur => (Accept(in) => out.ok)
=============================================================================
