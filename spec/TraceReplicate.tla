--------------------------- MODULE TraceReplicate ---------------------------
(* Record validation for C31 (independent requests): every {in, out} record produced by the real
   Server.Replicate (real putsvc validation, recording local storage) is judged by the reference Accept(in):
     OkOnlyIfAccepted       out.ok => Accept(in)
     StoredOnlyIfAccepted   (out.stored \/ out.present) => Accept(in)   (write observed at the storage leaf /
                                                                         object present in the engine afterwards)
     OkMeansStored          out.ok => out.stored /\ out.present
     AcceptedWhenAllChecksPass   Accept(in) => out.ok   (other direction: drift of the reference, not a verdict)
   One step per record, so that a counterexample names the record. *)
EXTENDS Replicate, Json
Recs == ndJsonDeserialize("trace.ndjson")
VARIABLE l
TraceInit == Init /\ l = 0
TraceNext == /\ l < Len(Recs)
             /\ l' = l + 1
             /\ has' = TRUE
             /\ in' = Recs[l + 1].in
             /\ out' = Recs[l + 1].out
             /\ UNCHANGED <<epoch, curC, prevC, curS, prevS>>
TraceSpec == TraceInit /\ [][TraceNext]_<<vars, l>>
RecWellFormed == has => in \in Inputs
=============================================================================
