SPECIFICATION Spec
CONSTANTS
  Worlds <- MCWorlds
  BugCursorLeak = FALSE
  MaxInt = 1
  MaxNC = 2
  MaxA = 2
  MaxH = 0
  Budgets = {1}
PROPERTIES Termination VersionMonotone
