SPECIFICATION MCSpec
CONSTANTS
  M = 255
  KB = 4
  KN = 4
  MaxDigits <- MaxDigits255
  BugPlusAfterSign = FALSE
  BugMergeNoRange = FALSE
  Alphabet = {48}
  LS = 0
  LS2 = 0
  Mode = "pairs"
INVARIANTS PairsInv
CHECK_DEADLOCK FALSE
