SPECIFICATION Spec
CONSTANTS
  MaxL = 7
  MaxS = 3
  BugV1NoLinkExtra = TRUE
  BugV2NoLinkEmpty = TRUE
  BugECFirstPart = TRUE
  BugECNoDataHeader = TRUE
INVARIANTS DeviatesOnlyInKnownClasses KnownClassesDeviate
CHECK_DEADLOCK FALSE
