------------------------------ MODULE ECMulti ------------------------------
(* C21, last sentence: "Encoding one payload under several rules does not corrupt any of the encodings."
   Implementation-shaped model of putsvc distributedTarget.modifyECParentObject:

       b := getPayload()                               // pooled, cap = PoolCap, stale content
       if cap(b) < payloadLen { b = make([]byte, 0, payloadLen) }
       if cap(b) != payloadLen { b = b[:0:payloadLen] } // <- Guard
       io.Copy(bytes.NewBuffer(b), reader)              // payload into cells 1..L
       for _, rule := range rules { parts, _ := iec.Encode(rule, payload); encoded = append(encoded, parts) }

   iec.Encode -> reedsolomon.Split re-uses (and zeroes) spare capacity of its input; data shards alias the
   payload buffer. CapMode selects the capacity policy: "exact" is the code; "pool" (no trimming) and
   "alignFirst" (rounded up to the first rule's data count) are deviations for which the model MUST have a
   counterexample (later rules overwrite padding/parity of earlier ones; the first one is replayed on the real
   iec.Encode to show that the modelled hazard exists in the library); "any" explores every capacity.       *)
EXTENDS ECCode
CONSTANTS MRules,       \* set of rules <<k, m>>
          MaxRuleSeq,   \* 1..MaxRuleSeq rules per policy
          MaxLen, PoolCap,
          CapMode       \* how the capacity of the buffer handed to the EC library is chosen (see GetBuf)
VARIABLES rules, L, mem, encs, pc
vars == <<rules, L, mem, encs, pc>>

\* rule sets for the cfgs (cfg files cannot contain tuples)
RulesSmall == {<<1, 0>>, <<1, 1>>, <<2, 1>>, <<3, 1>>, <<2, 2>>, <<3, 2>>}
RulesAlign == {<<4, 1>>, <<5, 1>>, <<2, 1>>, <<1, 1>>, <<3, 2>>}
RulesMore == RulesSmall \cup {<<2, 0>>, <<4, 2>>, <<3, 3>>, <<5, 1>>}

RuleSeqs == UNION {[1..n -> MRules] : n \in 1..MaxRuleSeq}

Init == /\ rules \in RuleSeqs /\ L \in 0..MaxLen
        /\ mem = <<>> /\ encs = <<>> /\ pc = "buf"

\* buffer acquisition, capacity trimming and payload copy. The capacity actually handed to the EC library is
\* what matters (spare = cap - L):
\*   "exact"      the code as is: b = b[:0:payloadLen]                                   (spare = 0)
\*   "pool"       no trimming: the pooled buffer's capacity                              (deviation, must break)
\*   "alignFirst" capacity = payload length rounded up to the first rule's data count    (deviation, must break)
\*   "any"        every capacity L..L+PoolCap (parametric in the observed spare capacity)
Caps == CASE CapMode = "exact" -> {L}
          [] CapMode = "pool" -> {IF PoolCap < L THEN L ELSE PoolCap}
          [] CapMode = "alignFirst" -> {CeilDiv(L, rules[1][1]) * rules[1][1]}
          [] CapMode = "any" -> L..(L + PoolCap)
GetBuf ==
  /\ pc = "buf"
  /\ \E cap \in Caps : mem' = [c \in 1..cap |-> IF c <= L THEN D(c) ELSE Junk]
  /\ pc' = "enc"
  /\ UNCHANGED <<rules, L, encs>>

\* one loop iteration: iec.Encode(rule, t.objectPayload)
EncodeNext ==
  /\ pc = "enc"
  /\ Len(encs) < Len(rules)
  /\ LET r == rules[Len(encs) + 1]
         e == Encode(r[1], r[2], L, mem)
     IN mem' = e.mem /\ encs' = Append(encs, e.shards)
  /\ UNCHANGED <<rules, L, pc>>

Next == GetBuf \/ EncodeNext
Spec == Init /\ [][Next]_vars

\* every encoding produced so far still equals the reference encoding of the payload under its rule
NoCrossCorruption ==
  \A e \in 1..Len(encs) :
    LET r == rules[e] IN
    \A i \in 1..(r[1] + r[2]) : Deref(encs[e][i], mem) = RefPart(r[1], r[2], L, i)
\* spare capacity is necessary for corruption, and the one-shot operator used for record validation agrees with
\* the step-by-step machine
Corrupted == {e \in 1..Len(encs) : \E i \in 1..(rules[e][1] + rules[e][2]) :
                 Deref(encs[e][i], mem) # RefPart(rules[e][1], rules[e][2], L, i)}
CorruptionNeedsSpareCapacity == pc = "enc" /\ Len(mem) = L => Corrupted = {}
PredictionAgrees == pc = "enc" /\ Len(encs) = Len(rules) => Corrupted = MultiCorrupted(rules, L, Len(mem) - L)
\* the payload buffer itself is never modified
PayloadIntact == pc = "enc" => \A c \in 1..L : mem[c] = D(c)
\* every encoding decodes with m parts erased (checked on the last parts as a representative erasure)
StillDecodable ==
  \A e \in 1..Len(encs) :
    LET r == rules[e]
        parts == [i \in 1..(r[1] + r[2]) |-> Deref(encs[e][i], mem)]
        d == Decode(r[1], r[2], L, Erase(parts, 1..r[2]))       \* first m parts missing
    IN L > 0 => d.ok /\ d.data = Payload(L)
=============================================================================
