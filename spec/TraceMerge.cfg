SPECIFICATION TraceSpec
CONSTANTS
  KB = 256
  KN = 32
  Chunk = 25
  MaxDigits <- MaxDigitsFull
  BugPlusAfterSign = FALSE
  BugMergeNoRange = FALSE
  BugPrimMulti = FALSE
  BugSplitIDAbsent = FALSE
  BugB58Prefix = FALSE
  BugCursorChecksum = FALSE
  BugAssocMerge = FALSE
  BugAssocAbsent = FALSE
INVARIANTS EvOK PropOK
CHECK_DEADLOCK FALSE
