SPECIFICATION MCSpec
CONSTANTS
  M = 63
  KB = 4
  KN = 3
  MaxDigits <- MaxDigits63
  BugPlusAfterSign = FALSE
  BugMergeNoRange = FALSE
  Alphabet = {48}
  LS = 0
  LS2 = 0
  Mode = "pairs"
INVARIANTS PairsInv
CHECK_DEADLOCK FALSE
