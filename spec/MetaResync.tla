----------------------------- MODULE MetaResync -----------------------------
(* C18 on the model: rebuilding the metadata from a set of blobs gives the same statuses for every
   enumeration order. The rebuilt state depends only on (blob set, epoch), so all blob subsets of the
   catalogue and all epochs are the initial states and the property is an invariant of them.        *)
EXTENDS Metabase, SequencesExt
VARIABLES blobs, ep
Perms(X) == {p \in [1..Cardinality(X) -> X] : \A a, b \in 1..Cardinality(X) : a # b => p[a] # p[b]}
RInit == /\ blobs \in SUBSET Putable /\ ep \in 0..MaxEpoch
         /\ S = S0 /\ epoch = 0 /\ res = "init" /\ processed = 0 /\ lastEv = "Init"
RNext == UNCHANGED <<blobs, ep, S, epoch, res, processed, lastEv>>
RSpec == RInit /\ [][RNext]_<<blobs, ep, S, epoch, res, processed, lastEv>>
St(p) == LET s0 == [S0 EXCEPT !.blob = [i \in IDs |-> i \in blobs]] r == ResyncOp(s0, ep, p) IN
         <<r.res, StatusVec(r.s, ep)>>
\* blob sets that an incremental history of successful puts (at non-decreasing epochs <= ep) can leave behind:
\* a blob only persists if its put was accepted (Shard.Put removes the blob when the metabase refuses the object)
RECURSIVE AllOk(_, _, _)
AllOk(st, p, es) == IF p = <<>> THEN TRUE
                    ELSE LET r == PutOp(st, Head(es), Head(p)) IN r.res = "ok" /\ AllOk(r.s, Tail(p), Tail(es))
Constructible == \E p \in Perms(blobs) : \E es \in [1..Cardinality(blobs) -> 0..ep] :
                    /\ \A k \in 1..(Cardinality(blobs) - 1) : es[k] <= es[k + 1]
                    /\ AllOk(S0, p, es)
Conflict == KF_ResyncConflict([S0 EXCEPT !.blob = [i \in IDs |-> i \in blobs]], ep)
AbortClass == KF_ResyncAbort([S0 EXCEPT !.blob = [i \in IDs |-> i \in blobs]])
OrphanClass == KF_ResyncOrphan([S0 EXCEPT !.blob = [i \in IDs |-> i \in blobs]])
\* order independence outside the listed conflict class (live lock and tombstone of one target both present)
C18_Model_OrderIndependent == (Constructible /\ ~Conflict /\ ~AbortClass /\ ~OrphanClass
                               /\ ~KF_ResyncExpiredParent([S0 EXCEPT !.blob = [i \in IDs |-> i \in blobs]], ep)) => \A p \in Perms(blobs) : St(p) = St(SortedSeq(blobs))
\* the same without the listed exclusion classes: MUST be violated on catalogues containing those classes (anti-vacuity:
\* the classes are real on the model, see checks/C18.py thorough tier)
C18_Model_StrictOrderIndependent == Constructible => \A p \in Perms(blobs) : St(p) = St(SortedSeq(blobs))
\* and the rebuild equals the incremental construction wherever that is defined: no constructible set aborts the resync
C18_Model_NoAbort == (Constructible /\ ~AbortClass) => \A p \in Perms(blobs) : St(p)[1] = "ok"
=============================================================================
