SPECIFICATION Spec
CONSTANTS
  Full = TRUE
  BugH13 = TRUE
INVARIANTS PropertyHoldsExceptH13
CHECK_DEADLOCK FALSE
