SPECIFICATION Spec
CONSTANTS
  BugH13 = TRUE
INVARIANTS PropertyHoldsExceptH13
CHECK_DEADLOCK FALSE
