------------------------------ MODULE FSTreeMC ------------------------------
(* Model-run instantiation of FSTree.tla with scaled buffer constants (BufN = 8, Pref = 3, Thr = 12).
   Stored lengths VLen[a][v] are chosen so that every boundary case of the combined-file scan is
   reachable: 4+3 and 3+3 bytes put the next prefix across the first buffer boundary, 8 = BufN,
   9 = BufN + 1, 30 > Thr is written as a plain file. *)
EXTENDS FSTree
\* address 2 version 1 is stored compressed (3 bytes) and is UZ = 20 > BufLen bytes long when decompressed
ZMemsScaled == {<<2, 1>>}
VLenScaled == << <<4, 30>>, <<3, 9>>, <<8, 3>> >>
VLenQuick == << <<4, 30>>, <<3>>, <<8>> >>
VLenScaled4 == << <<4, 30>>, <<3, 9>>, <<8, 3>>, <<3, 8>> >>
=============================================================================
