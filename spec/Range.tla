------------------------------- MODULE Range -------------------------------
(* C11 - payload range reads.
   pkg/local_object_storage/blobstor/common/storage.go: PayloadRange.Resolve
   pkg/local_object_storage/blobstor/fstree/fstree.go:  shiftPayloadRangeStream

   Ideal        the reference of the property statement: the slice <<off, ln>> of a payload of L bytes that a request
                (mode, a, b) defines, or OOR when it is unsatisfiable (unbounded integers).
   CodeResolve  the code: unsigned arithmetic modulo M (M = 2^64 in the code; TLC checks it exhaustively for a small
                word size, Apalache symbolically for 2^64), result <<off, ln>> where <<0, 0>> means "whole payload".
   Shift        the case analysis of shiftPayloadRangeStream over the P payload bytes buffered with the header and
                the stream of the remaining ones; readers are modelled as <<position, limit>>.
   Agree        Delivered(CodeResolve) = Ideal, Shift delivers exactly the resolved slice.
   Deviation switch BugFromZeroEmpty (TRUE = the code as found): Resolve answers out-of-range for `from 0` on an
   empty payload, while IsFull() - used by ReadObjectParts / ReadObject - treats `from 0` as the whole payload.   *)
EXTENDS Integers, Sequences, TLC

Modes == {"none", "offlen", "bounds", "from", "suffix"}
\* @type: <<Int, Int>>;
OOR == <<-1, -1>>
Min(x, y) == IF x < y THEN x ELSE y

\* @type: (Str, Int, Int, Int) => <<Int, Int>>;
Ideal(mode, a, b, L) ==
  CASE mode = "none" -> <<0, L>>
    [] mode = "offlen" -> IF b = 0 THEN (IF a = 0 THEN <<0, L>> ELSE OOR)
                          ELSE IF a + b <= L THEN <<a, b>> ELSE OOR
    [] mode = "bounds" -> IF a > b \/ a >= L THEN OOR ELSE <<a, Min(b, L - 1) - a + 1>>
    [] mode = "from" -> IF a = 0 THEN <<0, L>> ELSE IF a >= L THEN OOR ELSE <<a, L - a>>
    [] mode = "suffix" -> IF a = 0 THEN OOR ELSE <<L - Min(a, L), Min(a, L)>>

\* unsigned arithmetic of the code, word size M
Sub(M, x, y) == (x - y + M) % M
Add(M, x, y) == (x + y) % M

\* @type: (Int, Bool, Str, Int, Int, Int) => <<Int, Int>>;
CodeResolve(M, bugFromZeroEmpty, mode, a, b, L) ==
  LET r == CASE mode = "none" -> <<0, L>>
             [] mode = "offlen" -> IF b = 0 THEN (IF a # 0 THEN OOR ELSE <<0, L>>) ELSE <<a, b>>
             [] mode = "bounds" -> IF a > b \/ a >= L THEN OOR
                                   ELSE <<a, Add(M, Sub(M, Min(b, Sub(M, L, 1)), a), 1)>>
             [] mode = "from" -> IF a >= L /\ (bugFromZeroEmpty \/ a # 0) THEN OOR ELSE <<a, Sub(M, L, a)>>
             [] mode = "suffix" -> IF a = 0 THEN OOR ELSE <<Sub(M, L, Min(a, L)), Min(a, L)>>
  IN IF r = OOR THEN OOR
     ELSE IF r[2] # 0 /\ (r[1] >= L \/ Sub(M, L, r[1]) < r[2]) THEN OOR
     ELSE r

\* <<0, 0>> is "the whole payload" for every consumer of Resolve
\* @type: (<<Int, Int>>, Int) => <<Int, Int>>;
Delivered(r, L) == IF r = OOR THEN OOR ELSE IF r[1] = 0 /\ r[2] = 0 THEN <<0, L>> ELSE r

(* shiftPayloadRangeStream: P payload bytes are buffered (prefix), hasStream = the rest comes from a stream positioned
   at payload offset P (hasStream = FALSE means the whole payload is buffered, P = L). Result: the payload bytes the
   returned reader yields, as <<first, count>>. *)
\* @type: (Int, Int, Int) => <<Int, Int>>;
FromReader(pos, lim, L) == <<pos, Min(lim, L - pos)>>          \* a limited reader over the payload
\* @type: (<<Int, Int>>, <<Int, Int>>) => <<Int, Int>>;
Cat(x, y) == IF x[2] = 0 THEN y ELSE IF y[2] = 0 THEN x ELSE <<x[1], x[2] + y[2]>>
\* @type: (Int, Bool, Int, Int, Int) => <<Int, Int>>;
Shift(P, hasStream, L, off, ln) ==
  IF off = 0
    THEN IF ln = 0 THEN (IF ~hasStream THEN <<0, P>> ELSE IF P = 0 THEN FromReader(0, L, L) ELSE Cat(<<0, P>>, FromReader(P, L, L)))
         ELSE IF ln <= P THEN <<0, ln>>
         ELSE IF P = 0 THEN FromReader(0, ln, L)
         ELSE Cat(<<0, P>>, FromReader(P, ln - P, L))
  ELSE IF ~hasStream THEN <<off, ln>>                                       \* prefix[off:][:ln]
  ELSE IF off >= P THEN FromReader(off, ln, L)                               \* Seek(off - P), limit ln
  ELSE IF ln <= P - off THEN <<off, ln>>
  ELSE Cat(<<off, P - off>>, FromReader(P, ln - (P - off), L))

\* payload pattern of the harness objects (harness/cmd/fstree/c11.go: C11Byte); equals i for i < 251
Byte(i) == (i + 7 * (i \div 251)) % 256
=============================================================================
