-------------------------- MODULE TraceReplicateHist --------------------------
(* C->M validation of histories replayed on ONE real objectsvc.Server each:
     {"ev":"New"}                                   a fresh server (epoch / membership reset)
     {"ev":"Tick","c":[..],"s":b}                   the fake FS chain moves to the next epoch with this membership
     {"ev":"Req","snd":i,"sig":..,"scheme":..,"obj":..,"cnr":..,"out":{ok,stored,present}}
   The answer of the real handler is judged against the STATELESS reference applied to the membership at the time
   of the request, so server-side memory across requests that changes a verdict falsifies an invariant. *)
EXTENDS Replicate, Json
Trace == ndJsonDeserialize("trace.ndjson")
VARIABLE l
TraceInit == Init /\ l = 1
Reset == /\ epoch' = 0
         /\ curC' = [s \in Senders |-> FALSE] /\ prevC' = [s \in Senders |-> FALSE]
         /\ curS' = FALSE /\ prevS' = FALSE
         /\ has' = FALSE /\ in' = NoIn /\ out' = NoOut
TraceNext == /\ l <= Len(Trace)
             /\ l' = l + 1
             /\ LET e == Trace[l] IN
                  CASE e.ev = "New"  -> Reset
                    [] e.ev = "Tick" -> DoTick(e)
                    [] e.ev = "Req"  -> DoReq(e, e.out)
TraceSpec == TraceInit /\ [][TraceNext]_<<vars, l>>
TraceNotStuck == l <= Len(Trace) => ENABLED TraceNext
=============================================================================
