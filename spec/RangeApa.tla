------------------------------ MODULE RangeApa ------------------------------
(* C11, 64-bit corner - symbolic check (Apalache, unbounded SMT integers) that the code-shaped resolution with
   uint64 wrap-around agrees with the ideal definition for ALL offsets / lengths in 0..2^64-1 and all payload
   lengths a file can have (< 2^63), for every split into buffered prefix and stream, and that a satisfiable
   range never trips checkTooBigRange (off, len <= MaxInt64). *)
EXTENDS Range
CONSTANT
  \* @type: Bool;
  BugFromZeroEmpty
VARIABLES
  \* @type: Str;
  mode,
  \* @type: Int;
  a,
  \* @type: Int;
  b,
  \* @type: Int;
  len,
  \* @type: Int;
  pre,
  \* @type: Bool;
  st
M64 == 18446744073709551616
MaxInt64 == 9223372036854775807
CInit == BugFromZeroEmpty = FALSE
CInitAsIs == BugFromZeroEmpty = TRUE
Init == /\ mode \in Modes /\ a \in 0..(M64 - 1) /\ b \in 0..(M64 - 1) /\ len \in 0..MaxInt64
        /\ pre \in 0..len /\ st \in BOOLEAN /\ (~st => pre = len)
Next == UNCHANGED <<mode, a, b, len, pre, st>>

Agree == Delivered(CodeResolve(M64, BugFromZeroEmpty, mode, a, b, len), len) = Ideal(mode, a, b, len)
ShiftOK == LET r == CodeResolve(M64, BugFromZeroEmpty, mode, a, b, len) IN
           r # OOR => LET d == Shift(pre, st, len, r[1], r[2])
                          w == Delivered(r, len)
                      IN d[2] = w[2] /\ (w[2] > 0 => d[1] = w[1])
NotTooBig == LET r == CodeResolve(M64, BugFromZeroEmpty, mode, a, b, len) IN r # OOR => r[1] <= MaxInt64 /\ r[2] <= MaxInt64
AllOK == Agree /\ ShiftOK /\ NotTooBig
\* record validation clamps offsets above 2^29 (TLC integers are 32-bit): the reference is invariant under it
ClampC == 536870912
ClampLemma == len < 1048576 => Ideal(mode, a, b, len) = Ideal(mode, Min(a, ClampC), Min(b, ClampC), len)
Everything == AllOK /\ ClampLemma
=============================================================================
