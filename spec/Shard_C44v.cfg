SPECIFICATION LiveSpec
CONSTANTS
  Objs = {3, 7, 8}
  WCs = {TRUE}
  Batches = {1}
  MaxEpoch = 3
  Ops = {"Put", "GC", "Epoch", "InhumeCnr", "Quiesce"}
  Faults = {}
  Modes = {}
  BugH9 = TRUE
  BugH10 = TRUE
  BugMetaStale = TRUE
  BugH11 = FALSE
  KRounds = 6
INVARIANTS TypeOK C44Bound
PROPERTIES C44Live C44Stable
CHECK_DEADLOCK FALSE
