-------------------------- MODULE TraceDumpRestore --------------------------
(* C->M record validation for C46: every record is one REAL dump + restore (cmd/shardb dump):
     in  = {n, cuts, corrupt, ignore, eofdata}   (cuts = unit boundaries at which the real reader stopped)
     out = {res, restored, count, fail, extra}   (restored = stream indices of the dumped objects found,
                                                  byte-identical, in the destination shard; extra = number
                                                  of other / altered objects found there)
   The model is run on the same input (hidden steps) and must end with the same output; where the model of
   the code as it is stops predicting ("garbage": framing lost after a short read) any output is accepted.
   A real output different from what C46 demands is printed (PROPFAIL) with the history class. *)
EXTENDS DumpRestore, Json
Cases == ndJsonDeserialize("trace.ndjson")
VARIABLE l
tvars == <<vars, l>>
SetOf(s) == {s[i] : i \in DOMAIN s}
InOf(c) == [cuts |-> SetOf(c.in.cuts), corrupt |-> SetOf(c.in.corrupt), ignore |-> c.in.ignore, eofdata |-> c.in.eofdata]
OutOf(c) == [res |-> c.out.res, restored |-> SetOf(c.out.restored), count |-> c.out.count, fail |-> c.out.fail]

TraceInit == l = 1 /\ Start(InOf(Cases[1]))
Check(c) == /\ c.in.n = NRec
            /\ (res # "garbage" => Got = OutOf(c) /\ c.out.extra = 0)
            /\ ((OutOf(c) # Want \/ c.out.extra # 0) => PrintT(<<"PROPFAIL", l, IF KF_H4 THEN "h4" ELSE "none">>))
TraceNext ==
  /\ l <= Len(Cases)
  /\ IF phase = "end"
     THEN /\ Check(Cases[l]) /\ l' = l + 1
          /\ IF l < Len(Cases) THEN StartNext(InOf(Cases[l + 1]))
             ELSE UNCHANGED vars
     ELSE Next /\ UNCHANGED l
TraceSpec == TraceInit /\ [][TraceNext]_tvars
Accept == l > Len(Cases) => PrintT(<<"ACCEPTED", Len(Cases)>>) /\ TLCSet("exit", TRUE)
ASSUME TLCSet(1, 0)
MaxL == l > TLCGet(1) => TLCSet(1, l) /\ PrintT(<<"MAXL", l>>)
=============================================================================
