SPECIFICATION GenSpec
CONSTANTS
  MaxT = 8
  Durs = {1, 2, 3, 4}
  GenLen = 12
INVARIANTS Emit
CHECK_DEADLOCK FALSE
