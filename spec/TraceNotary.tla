----------------------------- MODULE TraceNotary -----------------------------
(* Record validation for C34: one record per notary request pushed through the real listener pipeline.
   RecProp = the listed property (BugH14 = TRUE tolerates exactly the known class KF_H14);
   RecCode = equality with the code-shaped decision of the configured world.                     *)
(* RecCode never fails: a record on which the real decision differs from the code-shaped one WITHOUT
   breaking the property is printed as <<"DRIFT", index>> (model drift, reported by the check as exit 2);
   this way a property violation later in the file is not masked by an earlier drift.            *)
EXTENDS Notary, Json
Trace == ndJsonDeserialize("trace.ndjson")
VARIABLE l
TraceInit == l = 1 /\ req = [s |-> GoodS, plain |-> TRUE, calls |-> <<GoodCall("remove")>>] /\ out = "none"
TraceNext == l <= Len(Trace) /\ l' = l + 1 /\ UNCHANGED vars
TraceSpec == TraceInit /\ [][TraceNext]_<<vars, l>>
RecProp == \/ l > Len(Trace)
           \/ SignProp(Trace[l].in, Trace[l].out.sign)
           \/ (BugH14 /\ Trace[l].out.sign /\ KF_H14(Trace[l].in))
RecCode == l > Len(Trace) \/ (SignCode(Trace[l].in) = Trace[l].out.sign) \/ PrintT(<<"DRIFT", l>>)
=============================================================================
