SPECIFICATION Spec
CONSTANTS
  MRules <- RulesMore
  MaxRuleSeq = 3
  MaxLen = 9
  PoolCap = 6
  CapMode = "exact"
INVARIANTS NoCrossCorruption PayloadIntact StillDecodable
CHECK_DEADLOCK FALSE
