SPECIFICATION TraceSpec
CONSTANTS
  NA = 320
INVARIANTS CrashSafeT PropOK ExitOK BlameOK AffectedOK FSOK PredOK
CHECK_DEADLOCK FALSE
