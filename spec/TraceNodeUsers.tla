---------------------------- MODULE TraceNodeUsers ----------------------------
(* C22, the USERS of the node order: the node list the policer hands to the replicator for a recreated EC part
   (recreateECPart) and the node list the PUT service uses to place a part (ecNodesForPart), recorded from the real
   code as sequences of node indexes. The property is evaluated on what the users really apply; CodeIsSpec: it is
   the iterator's order.                                                                                        *)
EXTENDS NodeSeq, Json
Recs == ndJsonDeserialize("trace.ndjson")
VARIABLES l, drift
Prop(r) == /\ IsPermutation(r.seq, r.n)
           /\ r.n >= r.t => Len(r.seq) > 0 /\ r.seq[1] = r.p          \* the part starts at the node with its own index
SpecEq(r) == r.seq = NodeSeq(r.p, r.t, r.n)
TraceInit == l = 1 /\ drift = 0 /\ t = 0 /\ n = -1 /\ seqs = <<>>
TraceNext == /\ l <= Len(Recs) /\ l' = l + 1 /\ UNCHANGED <<t, n, seqs>>
             /\ drift' = IF drift = 0 /\ ~SpecEq(Recs[l]) THEN l ELSE drift
TraceSpec == TraceInit /\ [][TraceNext]_<<l, drift, t, n, seqs>>
PropOnRecords == l > Len(Recs) \/ Prop(Recs[l])
CodeIsSpec    == l <= Len(Recs) \/ drift = 0
=============================================================================
