SPECIFICATION Spec
CONSTANTS
  NA = 4
  Size <- SizeU
  ProgChoices <- ProgsCrash
  CountLimit = 2
  SizeLimit = 3
  NoSync = FALSE
  MaxFaults = 0
  FaultCalls = {}
  RetryOn = TRUE
  CrashOn = TRUE
  BugPrecedence = FALSE
  BugLockLeak = FALSE
INVARIANTS TypeOK CrashSafe TmpHidden NoPanic NoDoubleClose Unaffected
CHECK_DEADLOCK TRUE
