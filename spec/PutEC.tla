-------------------------------- MODULE PutEC --------------------------------
(* C25, pkg/services/object/put/ec.go: applyECRule places the d+p part objects of one EC rule concurrently,
   one goroutine per part (distributeECPart). Each part walks NodeSequenceForPart(part, d+p, n); shared
   ecProgress: takenNodes (canTryNode, under the mutex), failedPuts / stop (submitNodeFailure, under the
   mutex). One action per critical section: Pick = canTryNode of the next node, Answer = the node's reply
   followed by submitSuccess / submitNodeFailure. TLC explores every interleaving and every set of
   accepting nodes and checks the summary used by PutPolicy.tla:
     the rule succeeds  <=>  at least d+p nodes of the list accept,
     on success every part sits on its own accepting node of the list.                                *)
EXTENDS Integers, Sequences, FiniteSets, TLC

CONSTANTS N, D, P          \* nodes 0..N-1 in the rule's list, data / parity parts
T == D + P
Parts == 0..(T - 1)

RECURSIVE SeqShift(_, _, _)
SeqShift(st, n, acc) == IF st >= n THEN acc ELSE SeqShift(st + T, n, Append(acc, st))
RECURSIVE NodeSeqFrom(_, _)
NodeSeqFrom(pi, sh) == IF sh > T - 1 THEN <<>> ELSE SeqShift((pi + sh) % T, N, <<>>) \o NodeSeqFrom(pi, sh + 1)
NodeSeq(pi) == NodeSeqFrom(pi, 0)

VARIABLES good,      \* nodes that accept (chosen initially, any subset)
          taken, failed, stop,
          pc, pos, cur, placed
vars == <<good, taken, failed, stop, pc, pos, cur, placed>>

Init == /\ good \in SUBSET (0..(N - 1))
        /\ taken = {} /\ failed = 0 /\ stop = FALSE
        /\ pc = [i \in Parts |-> "walk"] /\ pos = [i \in Parts |-> 1]
        /\ cur = [i \in Parts |-> -1] /\ placed = [i \in Parts |-> -1]

\* for i := range NodeSequenceForPart: if !prog.canTryNode(i) { continue }
Pick(i) ==
  /\ pc[i] = "walk"
  /\ IF pos[i] > Len(NodeSeq(i))
       THEN pc' = [pc EXCEPT ![i] = "fail"] /\ UNCHANGED <<taken, pos, cur>>      \* errIncompletePut
       ELSE LET node == NodeSeq(i)[pos[i]] IN
            IF stop \/ node \in taken
              THEN pos' = [pos EXCEPT ![i] = @ + 1] /\ UNCHANGED <<taken, pc, cur>>
              ELSE /\ taken' = taken \cup {node}
                   /\ pc' = [pc EXCEPT ![i] = "try"]
                   /\ cur' = [cur EXCEPT ![i] = node]
                   /\ UNCHANGED pos
  /\ UNCHANGED <<good, failed, stop, placed>>

\* saveECPartOnNode returned; submitSuccess / submitNodeFailure
Answer(i) ==
  /\ pc[i] = "try"
  /\ IF cur[i] \in good
       THEN /\ placed' = [placed EXCEPT ![i] = cur[i]]
            /\ pc' = [pc EXCEPT ![i] = "done"]
            /\ UNCHANGED <<failed, stop, pos>>
       ELSE IF stop
              THEN pc' = [pc EXCEPT ![i] = "fail"] /\ UNCHANGED <<failed, stop, pos, placed>>
              ELSE /\ failed' = failed + 1
                   /\ stop' = (N - (failed + 1) < D)
                   /\ IF N - (failed + 1) < D
                        THEN pc' = [pc EXCEPT ![i] = "fail"] /\ UNCHANGED pos
                        ELSE pc' = [pc EXCEPT ![i] = "walk"] /\ pos' = [pos EXCEPT ![i] = @ + 1]
                   /\ UNCHANGED placed
  /\ UNCHANGED <<good, taken, cur>>

Next == \E i \in Parts : Pick(i) \/ Answer(i)
Spec == Init /\ [][Next]_vars

Finished == \A i \in Parts : pc[i] \in {"done", "fail"}
Success == \A i \in Parts : pc[i] = "done"

SuccessIffEnoughNodes == Finished => (Success <=> Cardinality(good) >= T)
DistinctAcceptingNodes == \A i, j \in Parts : (pc[i] = "done" /\ pc[j] = "done" /\ i # j) => placed[i] # placed[j]
PlacedOnAccepting == \A i \in Parts : pc[i] = "done" => placed[i] \in good
OneTryPerNode == \A i, j \in Parts : (pc[i] = "try" /\ pc[j] = "try" /\ i # j) => cur[i] # cur[j]
=============================================================================
