SPECIFICATION Spec
CONSTANTS
  NRec = 3
  MaxCuts = 5
  BugH4 = FALSE
INVARIANTS TypeOK RestoreExact
CHECK_DEADLOCK FALSE
