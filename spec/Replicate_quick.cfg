SPECIFICATION Spec
CONSTANTS
  MaxEpoch = 2
  NSenders = 1
  RSigs = {"ok", "bad"}
  RSchemes = {"sha512", "n3"}
  RObjs = {"valid", "badheader"}
  RCnrs = {"known", "unknown"}
INVARIANTS OkOnlyIfAccepted StoredOnlyIfAccepted OkMeansStored AcceptedWhenAllChecksPass AllRequestsAgree
CHECK_DEADLOCK FALSE
