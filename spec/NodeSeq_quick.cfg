SPECIFICATION Spec
CONSTANTS
  MaxParts = 32
  MaxNodes = 128
INVARIANTS Permutation OwnStart DistinctStarts
CHECK_DEADLOCK FALSE
