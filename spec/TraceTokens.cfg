SPECIFICATION TraceSpec
CONSTANTS
  Epochs = {1}
  Big = FALSE
  ListBad = FALSE
INVARIANTS RecOK
CHECK_DEADLOCK FALSE
