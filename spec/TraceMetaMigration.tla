------------------------- MODULE TraceMetaMigration -------------------------
(* C->M validation of runs of the real upgrade code recorded by harness/cmd/metamig.

   TraceSpec (strict): every recorded event must be the spec's action in the spec's state, and wherever the
   harness could observe the file (obs) the abstract state projected from the file with raw bbolt reads
   must EQUAL the model state: version, old counter keys, frame condition, per container the number of
   associations in the old / new format (both key directions agreeing), the number lost or duplicated
   (bad), the first association still in the old format, the homomorphic index keys in both directions,
   counters = recount.  At Finish (and at every later Open) the comparison of the full view taken through
   the public API with the one recorded before the upgrade must be what the model predicts; a failed
   initialisation must be the cancellation.

   A trace rejected here is classified by TraceMetaMigrationObs.tla (the property formulas evaluated on
   the recorded states alone). *)
EXTENDS MetaMigration, Json

Trace == ndJsonDeserialize("trace.ndjson")
VARIABLE l

ToSet(t) == {t[i] : i \in DOMAIN t}
WorldOf(e) == [nc |-> e.w.nc, nA |-> e.w.nA, nH |-> e.w.nH, budget |-> e.w.budget, ver0 |-> e.w.ver0,
               drift |-> e.w.drift, gone0 |-> ToSet(e.w.gone0)]

InClass(c, f) == LET T(a) == aAI[c][a] = {f} /\ aIA[c][a] = {f} IN SelectSeq([i \in 1..w.nA[c] |-> i], T)
ProjC(c) == LET o == InClass(c, "old")
                n == InClass(c, "new")
            IN [old |-> Len(o), new |-> Len(n), bad |-> w.nA[c] - Len(o) - Len(n),
                first |-> IF Len(o) = 0 THEN 0 ELSE o[1],
                hAI |-> hAI[c], hIA |-> hIA[c], drift |-> drift[c]]
Proj == [ver |-> ver, oldCtr |-> oldCtr, other |-> other, cn |-> [c \in Cnrs |-> ProjC(c)]]

ViewOK(c) == Migrated(c) /\ ~drift[c]

Reset(ww) ==
  /\ w' = ww /\ ver' = ww.ver0 /\ oldCtr' = (ww.ver0 = 9) /\ drift' = ww.drift
  /\ hAI' = ww.nH /\ hIA' = ww.nH
  /\ aAI' = [c \in 1..ww.nc |-> [a \in 1..ww.nA[c] |-> {"old"}]]
  /\ aIA' = [c \in 1..ww.nc |-> [a \in 1..ww.nA[c] |-> {"old"}]]
  /\ other' = TRUE /\ gone' = ww.gone0
  /\ pc' = "closed" /\ cancelled' = FALSE /\ fromBkt' = 0 /\ afterObj' = 0 /\ ints' = 0 /\ leaked' = FALSE

HasView(e) == e.ev = "Finish" \/ (e.ev = "Open" /\ e.obs)

Observed(e) ==
  /\ e.obs => Proj' = e.proj
  /\ e.ev = "Fail" => e.res = "canceled"
  /\ HasView(e) => /\ e.ctrEq = (\A c \in Cnrs : ~drift'[c])
                   /\ \A c \in Cnrs \ gone' : e.viewEq[c] = ViewOK(c)'

TraceInit == InitWorld(WorldOf(Trace[1])) /\ l = 1
TraceNext ==
  /\ l <= Len(Trace)
  /\ l' = l + 1
  /\ LET e == Trace[l] IN
       /\ IF e.ev = "Init" THEN Reset(WorldOf(e)) ELSE Step(e)
       /\ Observed(e)
TraceSpec == TraceInit /\ [][TraceNext]_<<vars, l>>
TraceNotStuck == l <= Len(Trace) => ENABLED TraceNext
(* acceptance without ENABLED, also right for the nondeterministic as-is model: SOME branch consumed the
   whole trace; otherwise the diameter is the index of the first event no branch could take *)
TraceAccepted == /\ PrintT(<<"DEPTH", TLCGet("stats").diameter, Len(Trace)>>)
                 /\ TLCGet("stats").diameter - 1 = Len(Trace)
(* how counterexample states are printed (the association functions have thousands of entries) *)
Compact == [l |-> l, pc |-> pc, cancelled |-> cancelled, fromBkt |-> fromBkt, afterObj |-> afterObj, gone |-> gone,
            leaked |-> leaked, proj |-> Proj]
(* the as-is model took the cursor-leak branch while explaining this trace *)
KnownFindings == leaked => PrintT("KF C42-cursor-leak-after-container-removal")

=============================================================================
