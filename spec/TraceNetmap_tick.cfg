SPECIFICATION TraceSpecTick
CONSTANTS
  MaxEpoch = 1000000
INVARIANTS TraceNotStuck TickRule CounterFollowsChain
CHECK_DEADLOCK FALSE
