SPECIFICATION TraceSpec
CONSTANTS
  Strict = FALSE
  MSigs = {"ok"}
  MToks = {"none"}
INVARIANTS C29_NoEffectForFailingRequest C29_ChecksPrecedeEffects C29_HeaderEACLBeforeData C29_ErrorStatusForFailingRequest TraceNotStuck
CHECK_DEADLOCK FALSE
