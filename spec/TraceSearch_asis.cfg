SPECIFICATION TraceSpec
CONSTANTS
  KB = 256
  KN = 32
  Chunk = 25
  MaxDigits <- MaxDigitsFull
  BugPlusAfterSign = TRUE
  BugMergeNoRange = TRUE
  BugPrimMulti = TRUE
  BugSplitIDAbsent = TRUE
  BugB58Prefix = TRUE
INVARIANTS EvOK PropOK
CHECK_DEADLOCK FALSE
