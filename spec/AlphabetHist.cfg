SPECIFICATION HSpec
CONSTANTS
  N = 4
  ClientChecksMembership = TRUE
INVARIANTS HistProp CacheSound
CHECK_DEADLOCK FALSE
