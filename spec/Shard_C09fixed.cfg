SPECIFICATION Spec
CONSTANTS
  Objs = {1, 3}
  WCs = {FALSE, TRUE}
  Batches = {2}
  MaxEpoch = 3
  Ops = {"Put", "GC", "Flush", "Epoch", "MarkDef", "Resync"}
  Faults = {"crash"}
  Modes = {}
  BugH9 = FALSE
  BugH10 = TRUE
  BugMetaStale = TRUE
  BugH11 = FALSE
  KRounds = 12
INVARIANTS TypeOK C09Strict C15ModKF
VIEW ExhView
CHECK_DEADLOCK FALSE
