SPECIFICATION GenSpec
CONSTANTS
  Objs = {1, 3}
  WCs = {FALSE, TRUE}
  Batches = {1, 2}
  MaxEpoch = 3
  Ops = {"Put", "GC", "Flush", "Epoch", "MarkDef", "Resync", "Restart", "Delete", "FlushRace"}
  Faults = {"crash"}
  Modes = {}
  BugH9 = TRUE
  BugH10 = TRUE
  BugMetaStale = TRUE
  BugH11 = FALSE
  KRounds = 12
  MaxSets = 4
  GenLen = 12
  Crashes = {0, 0, 1, 2, 3, 4}
  Fails = {0, 0, 0, 1}
INVARIANTS Emit
CHECK_DEADLOCK FALSE
