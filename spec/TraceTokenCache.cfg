SPECIFICATION TraceSpec
CONSTANTS
  MaxT = 1000
  MaxE = 1000
INVARIANTS TraceNotStuck CacheTransparent
CHECK_DEADLOCK FALSE
