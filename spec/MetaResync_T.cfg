SPECIFICATION RSpec
CONSTANTS
  CatName = "T"
  MaxEpoch = 3
  MarkPairs = FALSE
INVARIANTS C18_Model_OrderIndependent C18_Model_NoAbort
CHECK_DEADLOCK FALSE
