SPECIFICATION Spec
CONSTANTS
  Full = FALSE
  BugH13 = FALSE
INVARIANTS PropertyHolds
CHECK_DEADLOCK FALSE
