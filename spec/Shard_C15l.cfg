SPECIFICATION Spec
CONSTANTS
  Objs = {2, 4}
  WCs = {FALSE, TRUE}
  Batches = {1}
  MaxEpoch = 3
  Ops = {"Put", "Delete", "GC", "Flush", "Epoch", "MarkDef"}
  Faults = {"crash"}
  Modes = {}
  BugH9 = TRUE
  BugH10 = TRUE
  BugMetaStale = TRUE
  BugH11 = FALSE
  KRounds = 12
INVARIANTS TypeOK C15ModKF
VIEW ExhView
CHECK_DEADLOCK FALSE
