SPECIFICATION Spec
CONSTANTS
  NS = 3
  NO = 3
INVARIANTS C06_EnginePageMatchesUnion
CHECK_DEADLOCK FALSE
