---------------------------- MODULE TraceNodeSeq ----------------------------
(* C22 record validation: one record per (totalParts, nodes) pair holding the sequences yielded by the
   REAL iec.NodeSequenceForPart for every part index. State is just the record index l, so a
   counterexample names the failing record.
     PropOnRecords : the C22 property itself evaluated on the recorded sequences      (=> VIOLATION)
     CodeIsSpec    : recorded sequences = the spec function (binds the model check to the code;
                     a mismatch with the property intact means the model is out of date => exit 2) *)
EXTENDS NodeSeq, Json
Recs == ndJsonDeserialize("trace.ndjson")
VARIABLES l, drift     \* drift = index of the first record that differs from the spec function (0 = none)
SpecEq(r) == r.seqs = AllSeqs(r.t, r.n)
TraceInit == l = 1 /\ drift = 0 /\ t = 0 /\ n = -1 /\ seqs = <<>>
TraceNext == /\ l <= Len(Recs) /\ l' = l + 1 /\ UNCHANGED <<t, n, seqs>>
             /\ drift' = IF drift = 0 /\ ~SpecEq(Recs[l]) THEN l ELSE drift
TraceSpec == TraceInit /\ [][TraceNext]_<<l, drift, t, n, seqs>>

Shape(r) == /\ r.t \in 1..MaxParts /\ r.n \in 0..MaxNodes /\ Len(r.seqs) = r.t
WellFormed    == l > Len(Recs) \/ Shape(Recs[l])
PropOnRecords == l > Len(Recs) \/ LET r == Recs[l] IN
                   /\ P1_Permutation(r.seqs, r.t, r.n)
                   /\ P2_OwnStart(r.seqs, r.t, r.n)
                   /\ P2_DistinctStarts(r.seqs, r.t, r.n)
\* decided only after ALL records passed the property (so that a property violation is never masked)
CodeIsSpec    == l <= Len(Recs) \/ drift = 0
=============================================================================
