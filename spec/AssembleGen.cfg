SPECIFICATION GenSpec
CONSTANTS
  MaxL = 12
  MaxS = 4
  GenReads = 8
  BugV1NoLinkExtra = FALSE
  BugV2NoLinkEmpty = FALSE
  BugECFirstPart = FALSE
  BugECNoDataHeader = FALSE
INVARIANTS EmitCase
CHECK_DEADLOCK FALSE
