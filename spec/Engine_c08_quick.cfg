\* C08 quick, code as is: every reachable violation falls into a listed known-finding class
SPECIFICATION Spec
CONSTANTS
  NS = 2
  MaxEpoch = 1
  BugH6 = TRUE
  CatSet = "c08"
  Ops = {"Put", "Bcast", "GC", "SetMode"}
  Modes = {"rw", "ro"}
  HealthyLock = FALSE
  MaxInFlight = 2
  Scenario = "none"
INVARIANTS TypeOK C08Classified
VIEW ViewNoRes
CHECK_DEADLOCK FALSE
