-------------------------------- MODULE ACL --------------------------------
(* C28 - object access decision = basic ACL + sticky bit + eACL + bearer rules.

   Anchors: pkg/services/object/acl/acl.go (Checker.CheckBasicACL / StickyBitCheck / CheckEACL),
            pkg/services/object/acl/v2/service.go (findRequestInfo, verifyBearerTokenAgainstRequest,
            PutRequestToInfo), classifier.go (senderClassifier.classify),
            pkg/services/object/server.go (composition of the checks in every handler).

   The decision is a pure function of an ABSTRACT request description `i` (a record, the same
   shape the Go harness emits as JSON):
     op        RPC: "get" "head" "put" "delete" "search" "range" "hash"
     tomb      (put) the object is a TOMBSTONE  -> checked as a delete, except replication
     ttl1      meta header TTL = 1
     split, srvIn  (put) object has a split header / this node belongs to the container
     isOwner, inIR, inCnr   requester = container owner / key in the Inner Ring list / key of a
               container node in the last two epochs
     acl       op -> [o, c, t, b]: owner / container / others / bearer bit of the basic ACL word
     fin, sticky            FINAL and STICKY bits
     ownerMatch             (put) object owner = requester
     bearer    [present, valid, issuerOwner, cnr, usr, recs]; cnr/usr \in {"unset","same","other"}
     ctab      [present, recs] - eACL table stored for the container
     recs      sequence of [act, opm, tgt, flt]: action, operation matches, some target matches,
               filters: "match" | "nomatch" | "nohdr" (headers of a filter cannot be obtained)

   `Decide` is implementation-shaped (the order of the early returns of the server pipeline);
   `Served` is the declarative reading of the property statement.  TLC checks on every abstract
   input of the universe below that they agree, plus a few consequences.                      *)
EXTENDS Integers, Sequences, FiniteSets, TLC

Ops == {"get", "head", "put", "delete", "search", "range", "hash"}
ReplicationOps == {"get", "head", "put", "search", "hash"}   \* acl.isReplicationOp
AuditOps == {"get", "head", "hash", "search"}                \* Inner Ring: data audit only

-----------------------------------------------------------------------------
(* senderClassifier.classify: first matching class wins *)
Role(i) == IF i.isOwner THEN "owner"
           ELSE IF i.inIR THEN "ir"
           ELSE IF i.inCnr THEN "container"
           ELSE "others"

(* Server.Put: a tombstone is checked as "delete" unless it is intra-container replication
   (PutRequestToInfo switches the operation back to "put" for a container node with TTL 1) *)
EffOp(i) == IF i.op = "put" /\ i.tomb
              THEN (IF Role(i) = "container" /\ i.ttl1 THEN "put" ELSE "delete")
              ELSE i.op

(* acl.Basic.IsOpAllowed *)
BasicAllows(bits, op, role) ==
  CASE role = "owner"     -> bits.o
    [] role = "others"    -> bits.t
    [] role = "container" -> op \in ReplicationOps \/ bits.c
    [] role = "ir"        -> op \in AuditOps

(* Checker.StickyBitCheck (the requester key is always known after findRequestInfo) *)
StickyOK(i, role) == role = "container" \/ ~i.sticky \/ i.ownerMatch

(* eacl.Validator.CalculateAction + Checker.CheckEACL result classes:
   "allow" (nil), "deny" (errEACLDeniedByRule), "notmatched" (ErrNotMatched -> follow basic ACL) *)
RECURSIVE Scan(_, _)
Scan(recs, k) ==
  IF k > Len(recs) THEN "allow"
  ELSE LET r == recs[k] IN
       IF ~r.opm \/ ~r.tgt THEN Scan(recs, k + 1)
       ELSE CASE r.flt = "nohdr" -> "notmatched"
              [] r.flt = "match" -> r.act
              [] OTHER           -> Scan(recs, k + 1)
TableVerdict(recs) == Scan(recs, 1)

(* verifyBearerTokenAgainstRequest *)
BearerRelOK(b) == b.issuerOwner /\ b.cnr \in {"unset", "same"} /\ b.usr \in {"unset", "same"}

(* Checker.CheckEACL *)
EACLDenies(i, role, bits) ==
  /\ ~i.fin
  /\ role \in {"owner", "others"}          \* system roles are controlled by the basic ACL only
  /\ LET useBearer == i.bearer.present /\ bits.b
         recs == IF useBearer THEN i.bearer.recs
                 ELSE IF i.ctab.present THEN i.ctab.recs ELSE << >>
     IN TableVerdict(recs) = "deny"

(* the pipeline of every object handler of pkg/services/object/server.go *)
Decide(i) ==
  LET role == Role(i)
      eff  == EffOp(i)
      bits == i.acl[eff]
      put  == i.op = "put"
  IN IF i.bearer.present /\ ~i.bearer.valid THEN "deny"            \* handleRequestMetaHeader
     ELSE IF put /\ i.split /\ ~i.srvIn THEN "skip"                 \* PutRequestToInfo: ErrSkipRequest
     ELSE IF i.bearer.present /\ ~BearerRelOK(i.bearer) THEN "deny"  \* findRequestInfo
     ELSE IF ~BasicAllows(bits, eff, role) THEN "deny"
     ELSE IF put /\ ~StickyOK(i, role) THEN "deny"
     ELSE IF EACLDenies(i, role, bits) THEN "deny"
     ELSE "allow"

-----------------------------------------------------------------------------
(* Declarative reference: the property statement *)
Min(S) == CHOOSE x \in S : \A y \in S : x <= y
Deciding(recs) == {k \in 1..Len(recs) : recs[k].opm /\ recs[k].tgt /\ recs[k].flt # "nomatch"}
RefTableDenies(recs) ==
  /\ Deciding(recs) # {}
  /\ LET r == recs[Min(Deciding(recs))] IN r.flt = "match" /\ r.act = "deny"

BearerHonoured(i) == i.bearer.present /\ i.bearer.valid /\ BearerRelOK(i.bearer)
ApplicableTable(i) ==
  IF BearerHonoured(i) /\ i.acl[EffOp(i)].b THEN i.bearer.recs
  ELSE IF i.ctab.present THEN i.ctab.recs ELSE << >>

Skipped(i) == i.op = "put" /\ i.split /\ ~i.srvIn /\ (i.bearer.present => i.bearer.valid)

Served(i) ==
  LET role == Role(i) eff == EffOp(i) IN
  /\ BasicAllows(i.acl[eff], eff, role)
  /\ (i.op = "put" /\ i.sticky /\ role # "container") => i.ownerMatch
  /\ (~i.fin /\ role \in {"owner", "others"}) => ~RefTableDenies(ApplicableTable(i))
  \* the code is stricter than the statement here: a token that is not honoured is not ignored,
  \* the request is refused ("served only if" still holds)
  /\ i.bearer.present => BearerHonoured(i)

(* properties of one abstract input *)
PDecideIsServed(i) == /\ (Decide(i) = "skip") = Skipped(i)
                      /\ ~Skipped(i) => ((Decide(i) = "allow") = Served(i))
PTypeOK(i) == Decide(i) \in {"allow", "deny", "skip"}

NoRecs == << >>
DenyAll == << [act |-> "deny", opm |-> TRUE, tgt |-> TRUE, flt |-> "match"] >>
\* system roles and FINAL containers never depend on any eACL table
PSystemIgnoresEACL(i) ==
  (Role(i) \in {"ir", "container"} \/ i.fin) =>
     \A t1, t2 \in {NoRecs, DenyAll} :
        Decide([i EXCEPT !.ctab = [present |-> TRUE, recs |-> t1], !.bearer.recs = t2]) = Decide(i)
\* clearing the basic bit the requester relies on always refuses
ClearBits(i) == [i EXCEPT !.acl = [op \in Ops |-> [o |-> FALSE, c |-> FALSE, t |-> FALSE, b |-> i.acl[op].b]]]
PNoBitNoAccess(i) ==
  LET j == ClearBits(i) IN
  Decide(j) = "allow" => (Role(j) = "container" /\ EffOp(j) \in ReplicationOps) \/ (Role(j) = "ir" /\ EffOp(j) \in AuditOps)
\* a bearer token can only matter through its table when bearer rules are allowed for the operation
PBearerBitGuards(i) ==
  (i.bearer.present /\ ~i.acl[EffOp(i)].b) =>
     \A t \in {NoRecs, DenyAll} : Decide([i EXCEPT !.bearer.recs = t]) = Decide(i)
\* inner ring never writes, whatever the bits
PIRReadOnly(i) == (Role(i) = "ir" /\ EffOp(i) \in {"put", "delete", "range"}) => Decide(i) # "allow"

-----------------------------------------------------------------------------
(* The model: a universe of abstract inputs explored exhaustively.  To let the TLC workers share
   the enumeration, initial states are "seeds" (operation variant x classification flags) and one
   step expands a seed into every completion.                                               *)
CONSTANTS OpsU,      \* operations of the universe
          TabLen,      \* eACL tables of up to TabLen (2 or 3) records in the ASSUME below
          CheckTables, \* TRUE: evaluate the eACL table ASSUME below (switched off for record validation)
          Sliced     \* TRUE (quick): union of two slices instead of the full product (see Expand)

VARIABLES inp, ph
vars == <<inp, ph>>

BitsSet == [o : BOOLEAN, c : BOOLEAN, t : BOOLEAN, b : BOOLEAN]
Zero == [o |-> FALSE, c |-> FALSE, t |-> FALSE, b |-> FALSE]
Ones == [o |-> TRUE, c |-> TRUE, t |-> TRUE, b |-> TRUE]
MkACL(op1, b1, op2, b2) == [op \in Ops |-> IF op = op1 THEN b1 ELSE IF op = op2 THEN b2 ELSE Zero]

Rec(a, f) == [act |-> a, opm |-> TRUE, tgt |-> TRUE, flt |-> f]
\* representative tables, one per verdict class (TableVerdict itself is checked over ALL tables below)
TAllow == <<Rec("allow", "match")>>
TNoHdr == <<Rec("deny", "nohdr")>>
CtabU == {[present |-> FALSE, recs |-> << >>]} \cup {[present |-> TRUE, recs |-> t] : t \in {TAllow, DenyAll, TNoHdr}}
CtabSmall == {[present |-> FALSE, recs |-> << >>], [present |-> TRUE, recs |-> DenyAll]}
NoBearer == [present |-> FALSE, valid |-> FALSE, issuerOwner |-> FALSE, cnr |-> "unset", usr |-> "unset", recs |-> << >>]
\* every combination of the bearer validity components with a denying table, and the honoured
\* combinations with an allowing / empty table as well
BearerU == {NoBearer}
           \cup [present : {TRUE}, valid : BOOLEAN, issuerOwner : BOOLEAN, cnr : {"unset", "same", "other"},
                 usr : {"unset", "same", "other"}, recs : {DenyAll}]
           \cup [present : {TRUE}, valid : {TRUE}, issuerOwner : {TRUE}, cnr : {"unset", "same"},
                 usr : {"unset", "same"}, recs : {<< >>, TAllow}]
BearerSmall == {NoBearer, [present |-> TRUE, valid |-> TRUE, issuerOwner |-> TRUE, cnr |-> "same", usr |-> "same", recs |-> DenyAll]}

\* (split, srvIn): quick leaves out the combination (FALSE, FALSE), equivalent to (FALSE, TRUE) in Decide
SplitU == IF Sliced THEN {<<FALSE, TRUE>>, <<TRUE, FALSE>>, <<TRUE, TRUE>>} ELSE BOOLEAN \X BOOLEAN
Variants == [op : OpsU \ {"put"}, tomb : {FALSE}, ttl1 : {FALSE}, split : {FALSE}, srvIn : {FALSE}]
            \cup (IF "put" \in OpsU
                    THEN {v \in {[op |-> "put", tomb |-> tb, ttl1 |-> t1, split |-> ss[1], srvIn |-> ss[2]] :
                                     tb \in BOOLEAN, t1 \in BOOLEAN, ss \in SplitU} :
                             \* quick: tombstone variants without the (split, node in container) combination
                             ~(Sliced /\ v.tomb /\ v.split /\ v.srvIn)}
                    ELSE {})

Seed(v, io, ir, ic) ==
  [op |-> v.op, tomb |-> v.tomb, ttl1 |-> v.ttl1, split |-> v.split, srvIn |-> v.srvIn,
   isOwner |-> io, inIR |-> ir, inCnr |-> ic, acl |-> MkACL("get", Zero, "get", Zero),
   fin |-> FALSE, sticky |-> FALSE, ownerMatch |-> FALSE, bearer |-> NoBearer,
   ctab |-> [present |-> FALSE, recs |-> << >>], cred |-> "sig"]
Seeds == {Seed(v, io, ir, ic) : v \in Variants, io \in BOOLEAN, ir \in BOOLEAN, ic \in BOOLEAN}

\* a tombstone put reads the bits of "put" or of "delete" depending on the role: both vary
ACLsOf(s) ==
  IF s.op = "put" /\ s.tomb
    THEN LET Other == IF Sliced THEN {Zero} ELSE {Zero, Ones} IN
         {MkACL("put", b1, "delete", b2) : b1 \in BitsSet, b2 \in Other}
         \cup {MkACL("put", b1, "delete", b2) : b1 \in Other, b2 \in BitsSet}
    ELSE {MkACL(s.op, b1, s.op, b1) : b1 \in BitsSet}

Complete(s, BU, CU, StU, OmU) ==
  {[s EXCEPT !.acl = a, !.fin = f, !.sticky = st, !.ownerMatch = om, !.bearer = br, !.ctab = ct] :
      a \in ACLsOf(s), f \in BOOLEAN, st \in StU, om \in OmU, br \in BU, ct \in CU}

\* quick: slice A = every variant/role/bit/FINAL/STICKY/owner combination with two bearer and two
\* container-table states; slice B = the full bearer x table product for the plain variants.
\* thorough: the full product.
Plain(s) == /\ ~s.tomb /\ ~s.ttl1 /\ (s.op = "put" => ~s.split /\ s.srvIn)
            /\ Cardinality({f \in {"o", "i", "c"} : (f = "o" /\ s.isOwner) \/ (f = "i" /\ s.inIR) \/ (f = "c" /\ s.inCnr)}) <= 1
Expand(s) ==
  IF Sliced
    THEN Complete(s, BearerSmall, CtabSmall, IF s.op = "put" THEN BOOLEAN ELSE {FALSE}, IF s.op = "put" THEN BOOLEAN ELSE {FALSE})
         \cup (IF Plain(s) THEN Complete(s, BearerU, CtabU, {FALSE}, {TRUE}) ELSE {})
    ELSE Complete(s, BearerU, CtabU, BOOLEAN, BOOLEAN)

Init == ph = 0 /\ inp \in Seeds
Next == ph = 0 /\ ph' = 1 /\ inp' \in Expand(inp)
Spec == Init /\ [][Next]_vars

InvServed          == PDecideIsServed(inp) /\ PTypeOK(inp)
InvSystemIgnores   == PSystemIgnoresEACL(inp)
InvNoBitNoAccess   == PNoBitNoAccess(inp)
InvBearerBitGuards == PBearerBitGuards(inp)
InvIRReadOnly      == PIRReadOnly(inp)

(* eACL table evaluation: the scan equals "the first applicable record decides", for ALL tables of
   up to 3 records (13 * 13 * 13 + ... combinations of flags) *)
RecU == [act : {"allow", "deny"}, opm : BOOLEAN, tgt : BOOLEAN, flt : {"match", "nomatch", "nohdr"}]
TablesU == {<< >>} \cup {<<a>> : a \in RecU} \cup {<<a, b>> : a \in RecU, b \in RecU}
           \cup (IF TabLen >= 3 THEN {<<a, b, c>> : a \in RecU, b \in RecU, c \in RecU} ELSE {})
ASSUME TableScanIsFirstApplicable ==
  CheckTables => \A t \in TablesU : /\ (TableVerdict(t) = "deny") = RefTableDenies(t)
                     /\ TableVerdict(t) \in {"allow", "deny", "notmatched"}
                     \* an allow record placed first shields from every later deny
                     /\ (Len(t) > 0 /\ t[1] = Rec("allow", "match")) => TableVerdict(t) = "allow"
=============================================================================
