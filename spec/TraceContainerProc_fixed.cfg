SPECIFICATION TraceSpec
CONSTANTS
  BugH13 = FALSE
INVARIANTS RecProp RecCode
CHECK_DEADLOCK FALSE
