SPECIFICATION TraceSpec
CONSTANTS
  Full = TRUE
  BugH13 = FALSE
INVARIANTS RecProp RecCode
CHECK_DEADLOCK FALSE
