SPECIFICATION GenSpec
CONSTANTS
  Objs = {1, 2, 3, 4, 5, 6, 7, 8}
  WCs = {FALSE, TRUE}
  Batches = {1, 2}
  MaxEpoch = 3
  Ops = {"Put", "Delete", "GC", "Flush", "Epoch", "MarkDef", "MarkRed", "InhumeCnr"}
  Faults = {}
  Modes = {}
  BugH9 = TRUE
  BugH10 = TRUE
  BugMetaStale = TRUE
  BugH11 = FALSE
  KRounds = 12
  MaxSets = 4
  GenLen = 9
  Crashes = {0}
  Fails = {0}
INVARIANTS Emit
CHECK_DEADLOCK FALSE
