SPECIFICATION Spec
CONSTANTS
  BugH14 = TRUE
INVARIANTS PropertyHoldsExceptH14
CHECK_DEADLOCK FALSE
