SPECIFICATION Spec
CONSTANTS
  NA = 4
  Size <- SizeU
  ProgChoices <- ProgsFaultC
  CountLimit = 2
  SizeLimit = 3
  NoSync = FALSE
  MaxFaults = 2
  FaultCalls = {"open", "write", "short", "link", "sync", "close", "rename", "unlink"}
  RetryOn = FALSE
  CrashOn = FALSE
  BugPrecedence = FALSE
  BugLockLeak = FALSE
INVARIANTS TypeOK CrashSafe NoPanic NoDoubleClose Unaffected AffectedFail
CHECK_DEADLOCK TRUE
