--------------------------- MODULE WriteCacheGen ---------------------------
(* Behaviour generator for the M->C replay of WriteCache: the same actions, plus a log of the steps
   taken (name, process/worker, address, extra) that the Go harness (cmd/shardb) uses to steer the real
   write-cache / shard through the same schedule: which call starts when, which gate is released when,
   which main-storage put fails.  MaxRounds bounds the scheduler rounds (one real round = 1 s). *)
EXTENDS WriteCache, Json
CONSTANTS GenLen, MaxRounds
VARIABLES log, rounds
gvars == <<vars, log, rounds>>

L(s, p, a, x, b) == [s |-> s, p |-> p, a |-> a, x |-> x, b |-> b]
Lg(s, p, a, x) == log' = Append(log, L(s, p, a, x, <<>>)) /\ UNCHANGED rounds
B(ok) == IF ok THEN "ok" ELSE "fail"

Calls == [op : {"put", "del", "get"} \cap Ops, a : Addrs, m : {""}]
         \cup [op : {"setmode"} \cap Ops, a : {0}, m : Modes]
         \cup [op : {"flush", "reopen"} \cap Ops, a : {0}, m : {""}]

GenNext ==
  \/ \E p \in Procs, c \in Calls : /\ Begin(p, c.op, c.a, c.m) /\ Lg("Begin", p, c.a, c.op \o ":" \o c.m)
                                    \* steer the random walk towards histories with something to flush
                                    /\ (c.op \in {"del", "get"} => (file[c.a] \/ cmap[c.a] \/ blob[c.a]))
                                    /\ (c.op \in {"flush"} => Files # {})
  \/ \E p \in Procs :
       \/ Ret(p) /\ Lg("Ret", p, 0, "")
       \/ PutAdmit(p) /\ Lg("PutAdmit", p, 0, "")
       \/ PutFS(p) /\ Lg("PutFS", p, 0, "")
       \/ PutCount(p) /\ Lg("PutCount", p, 0, "")
       \/ MetaPut(p) /\ Lg("MetaPut", p, 0, "")
       \/ DelFS(p) /\ Lg("DelFS", p, 0, "")
       \/ DelCount(p) /\ Lg("DelCount", p, 0, "")
       \/ MetaDel(p) /\ Lg("MetaDel", p, 0, "")
       \/ BlobDel(p) /\ Lg("BlobDel", p, 0, "")
       \/ GetMeta(p) /\ Lg("GetMeta", p, 0, "")
       \/ GetHas(p) /\ Lg("GetHas", p, 0, "")
       \/ GetRead(p) /\ Lg("GetRead", p, 0, "")
       \/ BlobRead(p) /\ Lg("BlobRead", p, 0, "")
       \/ FlushStart(p) /\ Lg("FlushStart", p, 0, "")
       \/ SetModeStart(p) /\ Lg("SetModeStart", p, 0, "")
       \/ \E a \in Addrs : FlushPick(p, a) /\ Lg("FlushPick", p, a, "")
       \/ FlushDelFS(p) /\ Lg("FlushDelFS", p, 0, "")
       \/ FlushDelCount(p) /\ Lg("FlushDelCount", p, 0, "")
       \/ FlushEnd(p) /\ Lg("FlushEnd", p, 0, "")
       \/ ReopenClose(p) /\ Lg("ReopenClose", p, 0, "")
       \/ ReopenDo(p) /\ Lg("ReopenDo", p, 0, "")
       \/ \E ok \in BOOLEAN : BlobPutC(p, ok) /\ Lg("BlobPutC", p, cl[p].a, B(ok))
       \/ \E ok \in BOOLEAN : BlobPutF(p, ok) /\ Lg("BlobPutF", p, cl[p].a, B(ok))
  \/ \E c \in BOOLEAN : /\ rounds < MaxRounds /\ SchedWake(c) /\ rounds' = rounds + 1
                        /\ (CMap # {} \/ errq)
                        /\ log' = Append(log, L("SchedWake", 0, 0, "", <<>>))
  \/ SchedSnap /\ Lg("SchedSnap", 0, 0, "")
  \/ SchedSendErr /\ Lg("SchedSendErr", 0, 0, "")
  \/ RoundMark /\ Lg("RoundMark", 0, 0, "")
  \/ SentMark /\ Lg("SentMark", 0, 0, "")
  \/ \E w \in Workers :
       \/ SchedSend(w) /\ Lg("SchedSend", w, 0, "")
       \/ WRead(w) /\ Lg("WRead", w, 0, "")
       \/ \E ok \in BOOLEAN : /\ BlobPutW(w, ok) /\ UNCHANGED rounds
                              /\ log' = Append(log, L("BlobPutW", w, 0, B(ok), Sorted(wk[w].objs)))
       \/ \E a \in Addrs : WDelFS(w, a) /\ Lg("WDelFS", w, a, "")
       \/ WDelCount(w) /\ Lg("WDelCount", w, 0, "")
       \/ WFin(w) /\ Lg("WFin", w, 0, "")
       \/ DoneMark(w) /\ Lg("DoneMark", w, 0, "")
  \/ ClientsIdle /\ UNCHANGED vars /\ Lg("Nop", 0, 0, "")

GenInit == Init /\ log = <<>> /\ rounds = 0
GenSpec == GenInit /\ [][GenNext]_gvars
Emit == Len(log) = GenLen => PrintT(<<"BEH", ToJson([steps |-> log])>>)

\* counterexample extraction: the strict property is checked on the generator; when it fails the
\* steps taken so far are printed (used to derive the real-code probes of the known findings)
CexSize == SizeExact \/ ~PrintT(<<"BEH", ToJson([steps |-> log])>>)
CexLeak == NoLeak \/ ~PrintT(<<"BEH", ToJson([steps |-> log])>>)
CexDurable == Durable \/ ~PrintT(<<"BEH", ToJson([steps |-> log])>>)
\* with this VIEW the breadth-first search ignores the log, so the log printed for a violating state is a
\* shortest path to it
GenView == <<vars, rounds>>
=============================================================================
