----------------------------- MODULE FSTreeGen -----------------------------
(* Behaviour generator for M->C replay (C10): call sequences that are valid for the abstract map
   (the bytes of a present address never change). Only `store` is tracked - which combined files the
   real tree builds is read back from the disk by the harness. *)
EXTENDS FSTreeMC, Json
CONSTANT GenLen
VARIABLE hist
GenEvents ==
  [ev : {"Put"}, m : AllMems, w : 1..2] \cup [ev : {"Delete"}, a : Addrs, w : 1..8] \cup [ev : {"PutEmpty"}, a : Addrs]
  \cup UNION {[ev : {"PutBatch"}, file : {SetToSeq(s)}] : s \in ItemSets}
  \cup UNION {[ev : {"ParPut"}, items : {SetToSeq(s)}, groups : {<<>>}] : s \in {t \in ItemSets : Cardinality(t) >= 2}}
  \cup [ev : {"Read"}, a : Addrs, api : APIs] \cup [ev : {"Iterate"}]
GenInit == Init /\ hist = <<>>
GenNext == \E e \in GenEvents :
             /\ Valid(store, e)
             /\ store' = NextStore(store, e)
             /\ hist' = Append(hist, e)
             /\ UNCHANGED <<loc, cnt, thr, writer>>
GenSpec == GenInit /\ [][GenNext]_<<vars, hist>>
Emit == Len(hist) = GenLen => PrintT(<<"BEH", ToJson([steps |-> hist])>>)
=============================================================================
