------------------------------ MODULE RangeMC ------------------------------
(* C11 - exhaustive check of Range.tla for a small word size: every mode, every (a, b, L) in 0..M-1 (so that every
   wrap-around of the unsigned arithmetic is exercised), every split of the payload into buffered prefix and stream. *)
EXTENDS Range
CONSTANTS M, BugFromZeroEmpty
VARIABLES mode, a, b, len, pre, st
vars == <<mode, a, b, len, pre, st>>
Init == /\ mode \in Modes /\ a \in 0..(M - 1) /\ b \in 0..(M - 1) /\ len \in 0..(M - 1)
        /\ pre \in 0..len /\ st \in BOOLEAN /\ (~st => pre = len)
Next == UNCHANGED vars
Spec == Init /\ [][Next]_vars

Agree == Delivered(CodeResolve(M, BugFromZeroEmpty, mode, a, b, len), len) = Ideal(mode, a, b, len)
ShiftOK == LET r == CodeResolve(M, BugFromZeroEmpty, mode, a, b, len) IN
           r # OOR => LET d == Shift(pre, st, len, r[1], r[2])
                          w == Delivered(r, len)
                      IN d[2] = w[2] /\ (w[2] > 0 => d[1] = w[1])
Sane == LET i == Ideal(mode, a, b, len) IN i # OOR => i[1] >= 0 /\ i[2] >= 0 /\ i[1] + i[2] <= len
=============================================================================
