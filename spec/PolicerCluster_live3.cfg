SPECIFICATION Live
CONSTANTS
  Nodes = {1, 2, 3}
  Local = 1
  BugMaintRebalance = FALSE
  RuleShapes = {}
  EcCnrRepLen = 0
  EcLens = {}
  Families = {}
  N = 3
  Reps = {1, 2, 3}
  RuleCounts = {1}
  ListLens = {1, 2, 3}
  MaxRounds = 9
INVARIANTS NeverEmpty TaskOK
PROPERTIES EventuallyConvergedForever
CHECK_DEADLOCK FALSE
