SPECIFICATION TraceSpec
CONSTANTS
  KB = 256
  KN = 32
  Chunk = 40
  MaxDigits <- MaxDigitsFull
  BugPlusAfterSign = TRUE
  BugMergeNoRange = TRUE
INVARIANTS RecOK
CHECK_DEADLOCK FALSE
