--------------------------- MODULE TraceObjectRPC ---------------------------
(* C->M trace validation for ObjectRPC: the events recorded under the real objectsvc.Server, one call after
   another (each call starts with Recv). With Strict = TRUE the trace must be a behaviour of the
   implementation model; with Strict = FALSE only the property invariants judge it. *)
EXTENDS ObjectRPC, Json
Trace == ndJsonDeserialize("trace.ndjson")
VARIABLE l
TraceInit == Init /\ l = 1
TraceNext == /\ l <= Len(Trace)
             /\ Step(Trace[l])
             /\ l' = l + 1
TraceSpec == TraceInit /\ [][TraceNext]_<<vars, l>>
TraceNotStuck == l <= Len(Trace) => ENABLED TraceNext
=============================================================================
