\* C08 with evacuations, code as is (one broadcast at a time)
SPECIFICATION Spec
CONSTANTS
  NS = 2
  MaxEpoch = 1
  BugH6 = TRUE
  CatSet = "c08"
  Ops = {"Put", "Bcast", "GC", "SetMode", "EvacuateQ"}
  Modes = {"rw", "ro"}
  HealthyLock = FALSE
  MaxInFlight = 1
  Scenario = "none"
INVARIANTS TypeOK C08Classified
VIEW ViewNoRes
CHECK_DEADLOCK FALSE
