SPECIFICATION Spec
CONSTANTS
  Objs = {1, 3}
  WCs = {FALSE, TRUE}
  Batches = {2}
  MaxEpoch = 1
  Ops = {"Put", "GC", "Flush", "Epoch", "MarkDef", "InhumeCnr", "SetMode"}
  Faults = {}
  Modes = {"RW", "RO", "DEGRO"}
  BugH9 = TRUE
  BugH10 = TRUE
  BugMetaStale = TRUE
  BugH11 = FALSE
  KRounds = 12
INVARIANTS TypeOK C14Rejects C14ReadsRO C14ReadsDEGRO
PROPERTIES C14Unchanged C43Keeps
VIEW ExhView
CHECK_DEADLOCK FALSE
