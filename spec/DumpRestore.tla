----------------------------- MODULE DumpRestore -----------------------------
(* C46 - pkg/local_object_storage/shard/{dump,restore}.go (engine/{dump,restore}.go are thin wrappers).

   The dump is the byte stream   magic(4)  ++  ( len(4, little endian) ++ data(len) )*  .
   Restore reads it through an io.Reader that may return short reads: the reader contract only promises
   0 < n <= len(p) bytes per call (and may return the last bytes together with io.EOF).

   Abstract stream: every segment is cut into units at the places that matter: magic = 2 units (2+2 bytes),
   len = 2 units (2+2 bytes), data = 3 units (first byte, middle, last byte), so that all chunkings "at
   record granularity +- 1 byte" are enumerated: Cuts is the set of unit boundaries at which the reader
   stops a Read call.  A Read(k) at position pos returns the units up to the next cut, at most k.

   Restore is modelled as the Go code is written (one action per Read call / per record decision):
     ReadMagic   io.ReadFull(r, m[:]) (error ignored), compare with "NEOF"
     ReadLen     io.ReadFull(r, size[:]): io.EOF at a record boundary ends the restore, other errors abort
     ReadData    BugH4 = TRUE : ONE r.Read(data) call - a short read leaves the tail of the buffer stale and the
                               stream position inside the record; (n, io.EOF) aborts with io.EOF
                 BugH4 = FALSE: io.ReadFull(r, data)
     Decode      obj.Unmarshal: fails for a corrupted (or incompletely read) record: counted and skipped
                 with ignoreErrors, otherwise the restore aborts; then Shard.Put, count++
   After a short data read the framing is lost: what the code does next depends on the object bytes that
   are taken for a length ("garbage"), the model stops predicting.                                        *)
EXTENDS Integers, Sequences, FiniteSets, TLC

CONSTANTS NRec,          \* number of records in the dump
          MaxCuts,       \* the reader stops at at most MaxCuts places (bounds the enumeration only)
          BugH4          \* TRUE: the code as it is (single Read), FALSE: io.ReadFull

MagicU == 2
LenU   == 2
DataU  == 3
RecU   == LenU + DataU
Total  == MagicU + NRec * RecU
Recs   == 1..NRec

RecStart(r) == MagicU + (r - 1) * RecU + 1        \* first unit of record r's len field
DataStart(r) == RecStart(r) + LenU

VARIABLES cuts, corrupt, ignore, eofdata,     \* input: reader chunking, corrupted records, flag, reader style
          pos,                                \* next unit the reader will deliver (1..Total+1)
          phase,                              \* "magic" | "len" | "data" | "decode" | "end"
          cur,                                \* record being restored
          got,                                \* units obtained for the current ReadFull
          short,                              \* the data buffer of cur was not filled completely
          restored, count, fail,              \* effect and counters
          res                                 \* "run" | "ok" | "err" | "garbage"
vars == <<cuts, corrupt, ignore, eofdata, pos, phase, cur, got, short, restored, count, fail, res>>


Start(in) == /\ cuts = in.cuts /\ corrupt = in.corrupt /\ ignore = in.ignore /\ eofdata = in.eofdata
             /\ pos = 1 /\ phase = "magic" /\ cur = 0 /\ got = 0 /\ short = FALSE
             /\ restored = {} /\ count = 0 /\ fail = 0 /\ res = "run"
StartNext(in) == /\ cuts' = in.cuts /\ corrupt' = in.corrupt /\ ignore' = in.ignore /\ eofdata' = in.eofdata
                 /\ pos' = 1 /\ phase' = "magic" /\ cur' = 0 /\ got' = 0 /\ short' = FALSE
                 /\ restored' = {} /\ count' = 0 /\ fail' = 0 /\ res' = "run"
Init == \E c \in SUBSET (1..Total - 1), k \in SUBSET Recs, ig \in BOOLEAN, ed \in BOOLEAN :
          /\ Cardinality(c) <= MaxCuts
          /\ Start([cuts |-> c, corrupt |-> k, ignore |-> ig, eofdata |-> ed])

\* one Read call asking for k units: number of units returned (0 = nothing left) and whether io.EOF comes with it
Avail == Total - pos + 1
NextCut == LET c == {x \in cuts : x >= pos} IN IF c = {} THEN Total ELSE CHOOSE x \in c : \A y \in c : x <= y
ReadN(k) == IF Avail = 0 THEN 0 ELSE LET n == NextCut - pos + 1 IN IF n < k THEN n ELSE k
EofWith(n) == n = 0 \/ (eofdata /\ pos + n > Total)

Finish(r) == /\ res' = r /\ phase' = "end"
             /\ UNCHANGED <<cuts, corrupt, ignore, eofdata, pos, cur, got, short, restored, count, fail>>

\* one Read call inside an io.ReadFull(need): accumulates; EOF with nothing read at all = io.EOF,
\* EOF after a part = io.ErrUnexpectedEOF
FullStep(need, onFull(_), onEOF, onPartial) ==
  LET n == ReadN(need - got) IN
  IF n = 0 THEN (IF got = 0 THEN onEOF ELSE onPartial)
  ELSE IF got + n = need THEN onFull(n)
  ELSE /\ pos' = pos + n /\ got' = got + n
       /\ UNCHANGED <<cuts, corrupt, ignore, eofdata, phase, cur, short, restored, count, fail, res>>

ReadMagic ==
  /\ phase = "magic"
  /\ FullStep(MagicU,
       LAMBDA n : /\ pos' = pos + n /\ got' = 0 /\ phase' = "len" /\ cur' = 1
                  /\ UNCHANGED <<cuts, corrupt, ignore, eofdata, short, restored, count, fail, res>>,
       Finish("err"), Finish("err"))          \* invalid magic

ReadLen ==
  /\ phase = "len"
  /\ FullStep(LenU,
       LAMBDA n : /\ pos' = pos + n /\ got' = 0 /\ phase' = "data"
                  /\ UNCHANGED <<cuts, corrupt, ignore, eofdata, cur, short, restored, count, fail, res>>,
       Finish("ok"),                          \* io.EOF exactly at a record boundary: the dump is over
       Finish("err"))                         \* io.ErrUnexpectedEOF

ReadData ==
  /\ phase = "data"
  /\ IF BugH4
     THEN LET n == ReadN(DataU) IN
          IF n = 0 \/ EofWith(n) THEN Finish("err")                     \* err != nil => return
          ELSE /\ pos' = pos + n /\ short' = (n < DataU) /\ phase' = "decode"
               /\ UNCHANGED <<cuts, corrupt, ignore, eofdata, cur, got, restored, count, fail, res>>
     ELSE FullStep(DataU,
            LAMBDA n : /\ pos' = pos + n /\ got' = 0 /\ short' = FALSE /\ phase' = "decode"
                       /\ UNCHANGED <<cuts, corrupt, ignore, eofdata, cur, restored, count, fail, res>>,
            Finish("err"), Finish("err"))

Decode ==
  /\ phase = "decode"
  /\ IF short
     THEN \* stale tail: the object does not decode (or decodes to something else), and the next "length" is
          \* taken from the middle of this record
          Finish("garbage")
     ELSE IF cur \in corrupt
          THEN IF ignore
               THEN /\ fail' = fail + 1 /\ phase' = "len" /\ cur' = cur + 1
                    /\ UNCHANGED <<cuts, corrupt, ignore, eofdata, pos, got, short, restored, count, res>>
               ELSE Finish("err")
          ELSE /\ restored' = restored \cup {cur} /\ count' = count + 1 /\ phase' = "len" /\ cur' = cur + 1
               /\ UNCHANGED <<cuts, corrupt, ignore, eofdata, pos, got, short, fail, res>>

Next == ReadMagic \/ ReadLen \/ ReadData \/ Decode
Spec == Init /\ [][Next]_vars

-----------------------------------------------------------------------------
(* C46: what a restore must return, whatever the chunking *)
FirstCorrupt == CHOOSE r \in corrupt : \A q \in corrupt : r <= q
Want == IF corrupt = {} THEN [res |-> "ok", restored |-> Recs, count |-> NRec, fail |-> 0]
        ELSE IF ignore THEN [res |-> "ok", restored |-> Recs \ corrupt, count |-> NRec - Cardinality(corrupt),
                             fail |-> Cardinality(corrupt)]
        ELSE [res |-> "err", restored |-> 1..(FirstCorrupt - 1), count |-> FirstCorrupt - 1, fail |-> 0]
Got == [res |-> res, restored |-> restored, count |-> count, fail |-> fail]

RestoreExact == phase = "end" => Got = Want

\* known history class (H4): a Read boundary strictly inside the data of a record that is reached, or the
\* last bytes delivered together with io.EOF
CutInData == \E r \in Recs : \E c \in cuts : DataStart(r) <= c /\ c < DataStart(r) + DataU - 1
KF_H4 == BugH4 /\ (CutInData \/ eofdata)
RestoreExactKF == RestoreExact \/ KF_H4

TypeOK == pos \in 1..Total + 1 /\ res \in {"run", "ok", "err", "garbage"} /\ count + fail <= NRec
Terminates == <>(phase = "end")
=============================================================================
