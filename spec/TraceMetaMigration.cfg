SPECIFICATION TraceSpec
CONSTANTS
  Worlds = {}
  BugCursorLeak = FALSE
  MaxInt = 1000000
INVARIANTS TraceNotStuck ExactlyOneFormat HomoPaired OtherUntouched Upgraded ReadyIsCurrent
CHECK_DEADLOCK FALSE
