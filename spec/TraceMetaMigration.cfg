SPECIFICATION TraceSpec
CONSTANTS
  Worlds = {}
  BugCursorLeak = FALSE
  MaxInt = 1000000
INVARIANTS ExactlyOneFormat HomoPaired OtherUntouched Upgraded ReadyIsCurrent
POSTCONDITION TraceAccepted
CHECK_DEADLOCK FALSE
ALIAS Compact
