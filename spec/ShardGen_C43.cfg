SPECIFICATION GenSpec
CONSTANTS
  Objs = {1, 2, 3}
  WCs = {FALSE, TRUE}
  Batches = {2}
  MaxEpoch = 1
  Ops = {"Put", "Delete", "GC", "Flush", "MarkDef", "SetMode"}
  Faults = {"wc", "blob", "meta"}
  Modes = {"RW", "RO", "DEGRO"}
  BugH9 = TRUE
  BugH10 = TRUE
  BugMetaStale = TRUE
  BugH11 = FALSE
  KRounds = 12
  MaxSets = 4
  GenLen = 9
  Crashes = {0}
  Fails = {0}
INVARIANTS Emit
CHECK_DEADLOCK FALSE
