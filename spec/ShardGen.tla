------------------------------ MODULE ShardGen ------------------------------
(* Operation-level behaviour generator for the Go harness (M->C): the same Shard.tla functions, one
   action = one whole operation, optionally cut by a crash after `crash` observable step boundaries and
   with the `fail`-th blobstor call (blob delete / flush put) failing.  `hist` is the script.          *)
EXTENDS Shard, Json
CONSTANTS GenLen, Crashes, Fails, MaxSets
VARIABLE hist

Visible(h) == h.k \in {"putdata", "delwc", "delmeta", "delblob"} \/ (h.k = "flushloop" /\ h.ids # <<>>)
Faultable(h) == h.k = "delblob" \/ (h.k = "flushloop" /\ h.ids # <<>>)

\* run operation o from idle s: stop (and crash) after o.crash visible steps, fail the o.fail-th faultable one
RunOp(s0, o) ==
  LET RECURSIVE Go(_, _, _)
      Go(s, vis, flt) ==
        IF s.pc = <<>> THEN s
        ELSE IF o.crash > 0 /\ vis = o.crash THEN DoCrash(s)
        ELSE LET h == Head(s.pc)
                 f == IF Faultable(h) THEN flt + 1 ELSE flt
                 ch == [a |-> 0, ok |-> ~(Faultable(h) /\ f = o.fail)]
             IN Go(StepCh(s, ch), IF Visible(h) THEN vis + 1 ELSE vis, f)
  IN Go(StartOp(s0, o), 0, 0)

GenOps ==
  {[op |-> "Put", a |-> a, c |-> 0, ids |-> <<>>, crash |-> k, fail |-> 0] : a \in Objs, k \in Crashes \cap 0..1}
  \cup {[op |-> "Delete", a |-> 0, c |-> Cat[a].c, ids |-> <<a>>, crash |-> k, fail |-> f] : a \in Objs, k \in Crashes \cap 0..3, f \in Fails \cap 0..1}
  \cup {[op |-> "GC", a |-> 0, c |-> 0, ids |-> <<>>, crash |-> k, fail |-> f] : k \in Crashes, f \in Fails}
  \cup {[op |-> "Flush", a |-> 0, c |-> 0, ids |-> <<>>, crash |-> k, fail |-> f] : k \in Crashes \cap 0..2, f \in Fails \cap 0..1}

\* keep generated behaviours dense: variants with crash points / faults only where the operation has work to do
HasWork(o) ==
  CASE o.op = "Put"    -> ~S.m.stored[o.a] \/ S.m.garb[o.a] # "none"
    [] o.op = "Delete" -> \E a \in Range(o.ids) : S.m.stored[a] \/ S.blob[a] \/ S.wc[a] \/ S.m.garb[a] # "none"
    [] o.op = "GC"     -> \/ \E a \in Ids : S.m.garb[a] # "none" \/ (S.m.stored[a] /\ Cat[a].exp > 0 /\ Cat[a].exp < S.gcEpoch)
                          \/ \E c \in Cnrs : S.m.cnr[c] = "dead"
    [] o.op = "Flush"  -> \E a \in Ids : S.wc[a]
    [] OTHER -> TRUE
Useful(o) == HasWork(o) \/ (o.op \in {"Put", "GC"} /\ o.crash = 0 /\ o.fail = 0)

ModeOK(o) == o.op = "SetMode" => /\ (o.fault \in {"wc", "meta"} => ~NoMeta(o.m))
                                  /\ (o.fault = "wc" => S.hasWC)
                                  /\ Cardinality({i \in 1..Len(hist) : hist[i].op = "SetMode"}) < MaxSets
\* while an explicit flush is paused only requests that may run concurrently with it are generated, without crashes
HoldOK(o) == S.hold # 0 => /\ o.op \in {"Put", "Delete", "GC", "Mark", "Epoch", "FlushRelease"}
                           /\ (o.op \in {"Put", "Delete", "GC"} => o.crash = 0)
GenStep(o) ==
  /\ Useful(o) /\ ModeOK(o) /\ HoldOK(o)
  /\ hist' = Append(hist, o)
  /\ CASE o.op \in {"Put", "Delete", "GC", "Flush"} -> o.op \in Ops /\ (o.op = "Flush" => S.hasWC) /\ S' = RunOp(S, o)
       [] o.op = "Epoch"     -> S.epoch < MaxEpoch /\ S' = DoEpoch(S, S.epoch + 1)
       [] o.op = "Mark"      -> S' = DoMark(S, o.c, Range(o.ids), o.mk)
       [] o.op = "InhumeCnr" -> S' = DoInhumeCnr(S, o.c)
       [] o.op = "Resync"    -> S' = DoResync(S, AscSeq({a \in Ids : S.blob[a]}))
       [] o.op = "Restart"   -> S' = DoCrash(S)
       [] o.op = "SetMode"   -> S' = DoSetMode(S, o.m, o.fault)
       [] o.op = "FlushHold" -> CanHold(S, o.a) /\ S' = DoFlushHold(S, o.a, {})
       [] o.op = "FlushRelease" -> S.hold # 0 /\ S' = DoFlushRelease(S, {x \in Ids : S.wc[x] /\ x # S.hold})

GenAtomic ==
  (IF "Epoch" \in Ops THEN {[op |-> "Epoch"]} ELSE {})
  \cup (IF "MarkDef" \in Ops THEN {[op |-> "Mark", c |-> Cat[a].c, ids |-> <<a>>, mk |-> "def"] : a \in Objs} ELSE {})
  \cup (IF "MarkRed" \in Ops THEN {[op |-> "Mark", c |-> Cat[a].c, ids |-> <<a>>, mk |-> "red"] : a \in Objs} ELSE {})
  \cup (IF "InhumeCnr" \in Ops THEN {[op |-> "InhumeCnr", c |-> c] : c \in {Cat[a].c : a \in Objs}} ELSE {})
  \cup (IF "Resync" \in Ops THEN {[op |-> "Resync"]} ELSE {})
  \cup (IF "Restart" \in Ops THEN {[op |-> "Restart"]} ELSE {})
  \cup (IF "FlushRace" \in Ops THEN {[op |-> "FlushHold", a |-> a] : a \in Objs} \cup {[op |-> "FlushRelease"]} ELSE {})
  \cup (IF "SetMode" \in Ops THEN {[op |-> "SetMode", m |-> m, fault |-> f] : m \in Modes, f \in {"none"} \cup (Faults \cap {"wc", "blob", "meta"})} ELSE {})

GenInit == Init /\ hist = <<>>
GenNext == \E o \in GenOps \cup GenAtomic : GenStep(o)
GenSpec == GenInit /\ [][GenNext]_<<S, hist>>

Script == [wc |-> S.hasWC, batch |-> S.batch, steps |-> hist]
Emit == Len(hist) = GenLen => PrintT(<<"BEH", ToJson(Script)>>)
\* breadth-first search for a shortest operation-level counterexample of C09Strict (H9): printed, then reported
CexC09 == C09Strict \/ (PrintT(<<"BEH", ToJson(Script)>>) /\ FALSE)
CexC43 == C43AfterOK \/ (PrintT(<<"BEH", ToJson(Script)>>) /\ FALSE)
Bounded == Len(hist) <= GenLen
GenView == S     \* cex search: states are compared without the script, the first script reaching a state is kept
=============================================================================
