SPECIFICATION RSpec
CONSTANTS
  CatName = "R2"
  MaxEpoch = 3
  MarkPairs = FALSE
INVARIANTS C18_Model_StrictOrderIndependent
CHECK_DEADLOCK FALSE
