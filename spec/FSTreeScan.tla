----------------------------- MODULE FSTreeScan -----------------------------
(* C10 - pkg/local_object_storage/blobstor/fstree/head.go: FSTree.readHeader, the buffered scan of
   a combined file used by Head / GetStream / ReadObject / ReadHeader / GetRangeStream.

   A combined file is a sequence of members  <prefix of Pref bytes: 0x7f 0 OID len> <len data bytes>.
   The reader owns a buffer of BufLen = 2*BufN bytes (the documented minimum), reads BufN bytes, walks
   over the prefixes and refills the buffer when fewer than Pref bytes of the next prefix are buffered.
   The arithmetic below is the code's (n = bytes in the buffer, off = offset of the current member's
   data in the buffer, pos = file position consumed so far).  Two boolean parameters select the
   behaviour of the code as found (TRUE) or as repaired (FALSE):
     bugRefill     refill reads BufN MORE bytes after the kept remainder (buf[n:n+BufN]) instead of
                   filling the first BufN bytes (buf[n:BufN]); off can then exceed BufN and
                   off + BufN overflows the buffer: slice bounds out of range => panic
     bugExactLimit the payload stream is limited to the member only when len > buffered; a member of
                   exactly BufN bytes is returned with the unlimited file, i.e. followed by the bytes
                   of the next members.
     bugPrefixEOF  (util.go, prefixedReadSeekCloser.Read) after copying from the buffered prefix the
                   reader ALWAYS calls rest.Read on the remaining - possibly empty - slice and returns
                   its error; a rest that reports EOF for an empty slice (nopReadCloser, an exhausted
                   bytes.Reader, a limitedFileReader with limit 0) ends the stream while the prefix
                   still holds bytes (ReadObject of an object that was decompressed in memory and is
                   longer than the caller's buffer).
   The reference definition (what a correct scan returns) is stated next to it; ScanOK says that they
   agree for every member of every file. *)
EXTENDS Integers, Sequences, FiniteSets, TLC

CONSTANTS BufN,     \* objectwire.NonPayloadFieldsBufferLength (20480; scaled down for exhaustive runs)
          Pref      \* combinedDataOff (38)

BufLen == 2 * BufN
Min(x, y) == IF x < y THEN x ELSE y

RECURSIVE SumTo(_, _)
SumTo(ls, k) == IF k = 0 THEN 0 ELSE SumTo(ls, k - 1) + Pref + ls[k]
FileSize(ls) == SumTo(ls, Len(ls))
DataStart(ls, k) == SumTo(ls, k - 1) + Pref        \* reference: file offset of member k's data

ScanRes(r, s, b, lim) == [res |-> r, start |-> s, buffered |-> b, limit |-> lim]

RECURSIVE ScanFrom(_, _, _, _, _, _, _, _, _)
ScanFrom(bugRefill, bugExactLimit, ls, k, F, i, n, off, pos) ==
  LET l == ls[i] IN
  IF i = k
    THEN LET size == Min(off + l, off + BufN)
             buffered == size - off
         IN IF size > BufLen
              THEN ScanRes("panic", 0, 0, 0)                 \* buf[n:size] / buf[off:size] beyond capacity
              ELSE ScanRes("ok", (pos - n) + off, buffered,
                           IF l > buffered \/ ~bugExactLimit THEN l - buffered ELSE -1)
    ELSE LET off1 == off + l IN
         IF n - off1 < Pref
           THEN LET pos1 == IF off1 > n THEN pos + (off1 - n) ELSE pos      \* Seek over unbuffered data
                    rem  == n - Min(off1, n)                                  \* kept bytes of a cut prefix
                    want == IF bugRefill THEN BufN ELSE BufN - rem
                    got  == Min(want, F - pos1)
                IN IF got <= 0 THEN ScanRes("notinfile", 0, 0, 0)
                   ELSE IF rem + got < Pref THEN ScanRes("malformed", 0, 0, 0)
                   ELSE ScanFrom(bugRefill, bugExactLimit, ls, k, F, i + 1, rem + got, Pref, pos1 + got)
           ELSE ScanFrom(bugRefill, bugExactLimit, ls, k, F, i + 1, n, off1 + Pref, pos)

Scan(bugRefill, bugExactLimit, ls, k) ==
  LET F == FileSize(ls) IN ScanFrom(bugRefill, bugExactLimit, ls, k, F, 1, Min(BufN, F), Pref, Min(BufN, F))

(* Observable outcome of a header+stream read of member k (closeOnly = the caller drops the stream: Head,
   ReadHeader): "ok" = exactly the member's bytes, "bad" = other bytes, "panic", "err". *)
Outcome(bugRefill, bugExactLimit, ls, k, closeOnly) ==
  LET s == Scan(bugRefill, bugExactLimit, ls, k) IN
  CASE s.res = "panic" -> "panic"
    [] s.res # "ok" -> "err"
    [] s.start # DataStart(ls, k) \/ s.buffered # Min(ls[k], BufN) -> "bad"
    [] closeOnly \/ ls[k] < BufN -> "ok"                                   \* whole member buffered, stream dropped
    [] s.limit = -1 -> IF k < Len(ls) THEN "bad" ELSE "ok"                  \* unlimited file: next members follow
    [] OTHER -> IF s.limit = ls[k] - s.buffered THEN "ok" ELSE "bad"

-----------------------------------------------------------------------------
(* prefixedReadSeekCloser: bytes delivered to a consumer that reads chunks of c bytes until EOF, from a
   prefix of p buffered bytes followed by a rest holding q bytes. Kinds of rest: "file" (an empty read
   is (0, nil)), "eof0" (an exhausted reader answers (0, EOF) even to an empty slice).
   Reference: p + q. *)
RestRead(kind, q, k) ==        \* <<bytes read, EOF reported>> for a read into k free bytes
  IF kind = "file" /\ k = 0 THEN <<0, FALSE>>
  ELSE IF q = 0 THEN <<0, TRUE>>
  ELSE <<Min(k, q), FALSE>>

RECURSIVE Drain(_, _, _, _, _)
Drain(bugPrefixEOF, p, q, kind, c) ==
  IF bugPrefixEOF
    THEN LET k  == Min(c, p)
             rr == RestRead(kind, q, c - k)
         IN IF rr[2] THEN k + rr[1]
            ELSE IF k + rr[1] = 0 THEN 0      \* cannot happen: c > 0
            ELSE k + rr[1] + Drain(bugPrefixEOF, p - k, q - rr[1], kind, c)
    ELSE IF p > 0 THEN Min(c, p) + Drain(bugPrefixEOF, p - Min(c, p), q, kind, c)
         ELSE LET rr == RestRead(kind, q, c)
              IN IF rr[2] THEN 0 ELSE rr[1] + Drain(bugPrefixEOF, 0, q - rr[1], kind, c)

\* closed form of Drain (FSTreeScanMC checks DrainFast = Drain): bytes are lost exactly when the rest is
\* empty, reports EOF for an empty slice and the prefix is longer than one read of the consumer
DrainFast(bugPrefixEOF, p, q, kind, c) ==
  IF bugPrefixEOF /\ kind = "eof0" /\ q = 0 /\ p > c THEN c ELSE p + q
=============================================================================
