SPECIFICATION TraceSpec
CONSTANTS
  Strict = TRUE
INVARIANTS C32_NoSideEffectUnlessAuthorised C32_RejectedUnlessAuthorised GroundTruthConsistent TraceNotStuck
CHECK_DEADLOCK FALSE
