------------------------- MODULE TraceContainerProc -------------------------
(* Record validation for C37: one record per container request driven through the real container
   processor. RecProp = the listed property (with BugH13 = TRUE the known H13 class is tolerated so that
   the remaining records are still checked); RecCode = equality with the code-shaped decision of the
   configured world (drift detector, and the detector of "which world is this tree").           *)
(* RecCode never fails: a record on which the real decision differs from the code-shaped one WITHOUT
   breaking the property is printed as <<"DRIFT", index>> (model drift, reported by the check as exit 2);
   this way a property violation later in the file is not masked by an earlier drift.            *)
EXTENDS ContainerProc, Json
Trace == ndJsonDeserialize("trace.ndjson")
VARIABLE l
TraceInit == l = 1 /\ in = Base /\ out = "none"
TraceNext == l <= Len(Trace) /\ l' = l + 1 /\ UNCHANGED vars
TraceSpec == TraceInit /\ [][TraceNext]_<<vars, l>>
RecProp == \/ l > Len(Trace)
           \/ ApproveProp(Trace[l].in, Trace[l].out.approve)
           \/ (BugH13 /\ Trace[l].out.approve /\ KF_H13(Trace[l].in))
RecCode == l > Len(Trace) \/ (ApproveCode(Trace[l].in) = Trace[l].out.approve) \/ PrintT(<<"DRIFT", l>>)
=============================================================================
