\* C20 quick: with every shard read-write (read faults allowed) reads agree with the reference without exception
SPECIFICATION Spec
CONSTANTS
  NS = 2
  MaxEpoch = 1
  BugH6 = TRUE
  CatSet = "c20s"
  Ops = {"Put", "Bcast", "Delete", "Drop", "GC", "SetMode", "FailGet"}
  Modes = {"rw"}
  HealthyLock = FALSE
  MaxInFlight = 1
  Scenario = "none"
INVARIANTS TypeOK C20Strict
VIEW ViewNoRes
CHECK_DEADLOCK FALSE
