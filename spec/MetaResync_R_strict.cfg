SPECIFICATION RSpec
CONSTANTS
  CatName = "R"
  MaxEpoch = 3
  MarkPairs = FALSE
INVARIANTS C18_Model_StrictOrderIndependent
CHECK_DEADLOCK FALSE
