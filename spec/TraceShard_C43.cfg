SPECIFICATION TraceSpec
CONSTANTS
  Objs = {}
  WCs = {}
  Batches = {}
  MaxEpoch = 1000
  Ops = {}
  Faults = {}
  Modes = {}
  BugH9 = TRUE
  BugH10 = TRUE
  BugMetaStale = TRUE
  BugH11 = FALSE
  KRounds = 12
INVARIANTS TraceNotStuck C43Note
PROPERTIES C43Keeps
CHECK_DEADLOCK FALSE
