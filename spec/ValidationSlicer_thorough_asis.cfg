SPECIFICATION SSpec
CONSTANTS
  BugWriteErrorSwallowed = TRUE
  MaxDecl = 3
  MaxChunk = 3
  MaxChunks = 5
  NetMax = 2
  MaxLen = 10
  SliceMax = 3
INVARIANTS PiecesReassembleKF SlicerIsAccept
CHECK_DEADLOCK FALSE
