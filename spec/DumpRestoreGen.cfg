SPECIFICATION Spec
CONSTANTS
  NRec = 3
  MaxCuts = 5
  BugH4 = TRUE
INVARIANTS Emit
CHECK_DEADLOCK FALSE
