SPECIFICATION Spec
CONSTANTS
  NRec = 3
  MaxCuts = 3
  BugH4 = TRUE
INVARIANTS Emit
CHECK_DEADLOCK FALSE
