------------------------------- MODULE ECCode -------------------------------
(* C21 - internal/ec/ec.go (Encode / Decode / ConcatDataParts / DecodeRange / DecodeIndexes) and the
   multi-rule encoding from one buffer in pkg/services/object/put/distributed.go (modifyECParentObject).

   This module has no variables: it defines
     * an abstract MDS code over symbolic payloads (GF arithmetic is NOT modelled: a parity symbol is the
       term <<"P", j, column>>; k consistent symbols of a column determine the whole column, fewer do not);
     * implementation-shaped operators: Split/Encode on a memory model with capacity (the reedsolomon
       library re-uses spare capacity of the input slice and zeroes it), ReconstructSome, Decode,
       DecodeRange, DecodeIndexes with the early returns of the library/our wrappers;
     * a declarative reference (RefParts, closed forms DecodeDefined / ReconDefined) used both by the model
       check (ECCodeMC.tla, ECMulti.tla) and by record validation of the real code (TraceECCode.tla).   *)
EXTENDS Integers, Sequences, FiniteSets, TLC

CeilDiv(a, b) == (a + b - 1) \div b
PartLen(k, L) == IF L = 0 THEN 0 ELSE CeilDiv(L, k)

\* symbols: data <<"D", v>> (v = 0 is zero padding), parity <<"P", j, col>>, garbage <<"X">>, junk <<"J">>
D(v) == <<"D", v>>
Zero == D(0)
Par(j, col) == <<"P", j, col>>
Garbage == <<"X">>
Junk == <<"J">>
Payload(L) == [i \in 1..L |-> D(i)]

-----------------------------------------------------------------------------
(* Declarative reference: what the parts of rule k/m for a payload of length L must be. *)
RefSym(k, L, i, o) == IF (i - 1) * PartLen(k, L) + o <= L THEN D((i - 1) * PartLen(k, L) + o) ELSE Zero
RefData(k, L, i) == [o \in 1..PartLen(k, L) |-> RefSym(k, L, i, o)]
RefCol(k, L, o) == [i \in 1..k |-> RefSym(k, L, i, o)]
RefPart(k, m, L, i) == IF i <= k THEN RefData(k, L, i)
                       ELSE [o \in 1..PartLen(k, L) |-> Par(i - k, RefCol(k, L, o))]
RefParts(k, m, L) == [i \in 1..(k + m) |-> RefPart(k, m, L, i)]

\* closed forms (the "spec function" compared with records of the real code)
DecodeDefined(k, m, L, E) == L > 0 /\ (E \cap (1..k) = {} \/ Cardinality(E) <= m)
ReconDefined(k, m, L, E, req) == L > 0 /\ E # 1..(k + m) /\ (req \cap E = {} \/ Cardinality(E) <= m)

-----------------------------------------------------------------------------
(* Memory model of encoding. mem = cells of the input slice up to its CAPACITY, cells 1..L hold the payload.
   A shard is either a view into mem or an own allocation.                                               *)
View(off, len) == [own |-> FALSE, off |-> off, len |-> len, cells |-> <<>>]
Own(cells) == [own |-> TRUE, off |-> 0, len |-> Len(cells), cells |-> cells]
Deref(sh, mem) == IF sh.own THEN sh.cells ELSE [o \in 1..sh.len |-> mem[sh.off + o]]

\* reedsolomon.Split(data) for total shards t > 1 and len(data) = L >= 1
Split(k, m, L, mem) ==
  LET t == k + m
      cap == Len(mem)
      P == CeilDiv(L, k)
      need == t * P
      ext == IF cap > L THEN (IF cap > need THEN need ELSE cap) ELSE L      \* data = data[:needTotal] / data[:cap]
      mem1 == [c \in 1..cap |-> IF c > L /\ c <= ext THEN Zero ELSE mem[c]]  \* clear(data[dataLen:])
      views == IF ext < need THEN ext \div P ELSE t                          \* shards sliced from data
      rem == IF L > P * views THEN [x \in 1..(L - P * views) |-> mem1[P * views + x]] ELSE <<>>   \* partial shard copy
      PadCells(j) == [o \in 1..P |-> IF (j - 1) * P + o <= Len(rem) THEN rem[(j - 1) * P + o] ELSE Zero]
  IN [mem |-> mem1,
      shards |-> [i \in 1..t |-> IF i <= views THEN View((i - 1) * P, P) ELSE Own(PadCells(i - views))]]

\* iec.Encode(rule, data): returns the new memory and the shards
Encode(k, m, L, mem) ==
  IF L = 0 THEN [mem |-> mem, shards |-> [i \in 1..(k + m) |-> Own(<<>>)]]
  ELSE IF k + m = 1 THEN [mem |-> mem, shards |-> <<View(0, L)>>]            \* Split returns [][]byte{data}
  ELSE
  LET s == Split(k, m, L, mem)
      P == CeilDiv(L, k)
      Cell(i, o) == IF s.shards[i].own THEN s.shards[i].cells[o] ELSE s.mem[s.shards[i].off + o]   \* data shard i, offset o
      Col(o) == [i \in 1..k |-> Cell(i, o)]
      ParCells(j) == [o \in 1..P |-> Par(j - k, Col(o))]
      \* view shards are contiguous from the start of the buffer: cell c lies in shard ((c-1) div P) + 1
      ShardOf(c) == ((c - 1) \div P) + 1
      IsParityView(c) == LET i == ShardOf(c) IN i > k /\ i <= k + m /\ ~s.shards[i].own
      mem2 == [c \in 1..Len(s.mem) |-> IF IsParityView(c)
                                       THEN Par(ShardOf(c) - k, Col(c - (ShardOf(c) - 1) * P))   \* parity written into the buffer
                                       ELSE s.mem[c]]
  IN [mem |-> mem2,
      shards |-> [i \in 1..(k + m) |-> IF i > k /\ s.shards[i].own THEN Own(ParCells(i)) ELSE s.shards[i]]]

\* encoding of a private buffer without spare capacity
FreshMem(L) == Payload(L)
EncodeFresh(k, m, L) == LET e == Encode(k, m, L, FreshMem(L)) IN [i \in 1..(k + m) |-> Deref(e.shards[i], e.mem)]

-----------------------------------------------------------------------------
(* Decoding. parts = sequence of k+m symbol sequences, <<>> = missing (nil). *)
Erase(parts, E) == [i \in 1..Len(parts) |-> IF i \in E THEN <<>> ELSE parts[i]]
Present(parts) == {i \in 1..Len(parts) : Len(parts[i]) # 0}
ShardSize(parts) == IF Present(parts) = {} THEN 0
                    ELSE Len(parts[CHOOSE i \in Present(parts) : \A j \in Present(parts) : i <= j])
SetMin(S) == CHOOSE x \in S : \A y \in S : x <= y
RECURSIVE FirstN(_, _)
FirstN(S, n) == IF n = 0 \/ S = {} THEN {} ELSE {SetMin(S)} \cup FirstN(S \ {SetMin(S)}, n - 1)

\* reedsolomon.ReconstructSome(parts, required); req = set of required indexes (1-based)
Reconstruct(k, m, parts, req) ==
  LET t == k + m
      size == ShardSize(parts)
      pres == Present(parts)
      missReq == req \ pres
      Fail == [ok |-> FALSE, parts |-> parts]
  IN IF size = 0 THEN Fail                                                   \* ErrShardNoData
     ELSE IF \E i \in pres : Len(parts[i]) # size THEN Fail                  \* ErrShardSize
     ELSE IF missReq = {} THEN [ok |-> TRUE, parts |-> parts]                \* nothing to do
     ELSE IF Cardinality(pres) < k THEN Fail                                 \* ErrTooFewShards
     ELSE
     LET valid == FirstN(pres, k)
         parIn == {j \in valid : j > k}
         ColAt(o) == IF parIn = {} THEN [i \in 1..k |-> parts[i][o]]
                     ELSE LET s == parts[SetMin(parIn)][o] IN IF Len(s) = 3 THEN s[3] ELSE <<>>
         Consistent(o) == LET c == ColAt(o) IN
                          /\ Len(c) = k
                          /\ \A i \in valid : parts[i][o] = (IF i <= k THEN c[i] ELSE Par(i - k, c))
         Sym(i, o) == IF Consistent(o) THEN (IF i <= k THEN ColAt(o)[i] ELSE Par(i - k, ColAt(o))) ELSE Garbage
     IN [ok |-> TRUE,
         parts |-> [i \in 1..t |-> IF i \in missReq THEN [o \in 1..size |-> Sym(i, o)] ELSE parts[i]]]

RECURSIVE ConcatN(_, _)
ConcatN(parts, n) == IF n = 0 THEN <<>> ELSE ConcatN(parts, n - 1) \o parts[n]

\* iec.Decode(rule, dataLen, parts)
Decode(k, m, L, parts) ==
  LET r == Reconstruct(k, m, parts, 1..k) IN
  IF ~r.ok THEN [ok |-> FALSE, data |-> <<>>]
  ELSE LET all == ConcatN(r.parts, k) IN
       IF Len(all) < L THEN [ok |-> FALSE, data |-> <<>>]
       ELSE [ok |-> TRUE, data |-> SubSeq(all, 1, L)]                        \* ConcatDataParts: [:dataLen]

-----------------------------------------------------------------------------
(* Several rules encoded in order from ONE buffer whose capacity exceeds the payload length by `slack` cells
   (spare capacity is what reedsolomon.Split re-uses and zeroes). rules = sequence of <<k, m>>.               *)
BufferWithSlack(L, slack) == [c \in 1..(L + slack) |-> IF c <= L THEN D(c) ELSE Junk]
RECURSIVE EncodeAll(_, _, _, _)
EncodeAll(rules, L, mem, encs) ==        \* returns [mem, encs] after encoding rules[Len(encs)+1 ..]
  IF Len(encs) = Len(rules) THEN [mem |-> mem, encs |-> encs]
  ELSE LET r == rules[Len(encs) + 1]
           e == Encode(r[1], r[2], L, mem)
       IN EncodeAll(rules, L, e.mem, Append(encs, e.shards))
\* indexes of the rules whose parts, read AFTER all rules were encoded, differ from their reference encoding
MultiCorrupted(rules, L, slack) ==
  IF slack = 0 \/ L = 0 THEN {}          \* no spare capacity: data shards alias the payload read-only, the rest is allocated
  ELSE IF \A e \in 1..Len(rules) : ((L + slack) \div PartLen(rules[e][1], L)) * PartLen(rules[e][1], L) <= L
       THEN {}                           \* no shard of any rule reaches into the spare capacity: nothing there is ever read
  ELSE LET fin == EncodeAll(rules, L, BufferWithSlack(L, slack), <<>>) IN
       {e \in 1..Len(rules) : \E i \in 1..(rules[e][1] + rules[e][2]) :
            Deref(fin.encs[e][i], fin.mem) # RefPart(rules[e][1], rules[e][2], L, i)}

DecodeRange(k, m, from, to, parts) == Reconstruct(k, m, parts, from..to)
DecodeIndexes(k, m, parts, idxs) == Reconstruct(k, m, parts, idxs)
=============================================================================
