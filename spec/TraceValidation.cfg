SPECIFICATION TraceSpec
CONSTANTS
  BugWriteErrorSwallowed = FALSE
  MaxDecl = 1
  MaxChunk = 1
  MaxChunks = 1
  NetMax = 1
  Chunk = 500
  NRecs = 1
INVARIANTS AllRead
CHECK_DEADLOCK FALSE
