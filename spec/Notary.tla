------------------------------- MODULE Notary -------------------------------
(* C34 - the inner ring co-signs only notary requests whose calls it fully validated.
   pkg/morph/event/notary_preparator.go (Prepare: structure of main/fallback transaction, every call of
   the script must be a plain contract call, filter by the FIRST call), listener.go (parser/handler looked
   up by the first call; acceptOnlySingleCall for unary parsers), container/notary_requests.go
   (RestoreCreateContainerV2Request: optional second call), container processor (validation, signing).

   Abstract request:
     s      structure facts (all TRUE = well-formed): wit (3 or 4 witnesses), signersMatch (as many signers
            as witnesses), alphaSigner, attrsOK (exactly one NotaryAssisted attribute with the right NKeys),
            proxyEmpty, alphaVerif, invokerWit, placeholder (witness rules), fbAttrs (fallback has its 3
            attributes incl. NotValidBefore), fbFresh (chain height < NotValidBefore), notLocal (not this node's
            own request), first (not delivered before)
     plain  the script is nothing but contract calls
     calls  1..3 calls: target  "createV2" | "putEACL" | "remove"   registered (contract, method) pairs
                                 "unregMethod"   unknown method of the Container contract
                                 "unregContract" method of a contract nobody registered
                        args    the argument list has the shape the parser (that gets the call) expects
                        valid   the content passes the handler's validation (owner authorisation etc., C37)
   BugH14 = TRUE models RestoreCreateContainerV2Request as it is: the second call is handed to
   RestorePutContainerEACLRequest which looks at the arguments only - contract and method of that call are
   never compared with (Container, putEACL). FALSE models the repaired parser.                    *)
EXTENDS Integers, Sequences, FiniteSets, TLC

CONSTANT BugH14

Targets == {"createV2", "putEACL", "remove", "unregMethod", "unregContract"}
Registered == {"createV2", "putEACL", "remove"}
Calls == [target : Targets, args : BOOLEAN, valid : BOOLEAN]

SFields == {"wit", "signersMatch", "alphaSigner", "attrsOK", "proxyEmpty", "alphaVerif", "invokerWit",
            "placeholder", "fbAttrs", "fbFresh", "notLocal", "first"}
GoodS == [f \in SFields |-> TRUE]
StructureOK(s) == \A f \in SFields : s[f]

\* preparator.Prepare
PrepareOK(r) ==
  /\ StructureOK(r.s)                                  \* cache, witness/signer/attribute/fallback checks
  /\ r.plain                                           \* every instruction sequence is a contract call
  /\ Len(r.calls) >= 1
  /\ r.calls[1].target \in Registered                  \* allowedEvents: filter by the first call only

\* listener: parser chosen by the first call; handler validation; signature
SignCode(r) ==
  /\ PrepareOK(r)
  /\ LET c == r.calls IN
       IF c[1].target = "createV2"
         THEN /\ Len(c) \in {1, 2}                                        \* RestoreCreateContainerV2Request
              /\ c[1].args /\ c[1].valid
              /\ (Len(c) = 2 => /\ c[2].args                               \*   RestorePutContainerEACLRequest(contractCalls[1])
                                /\ (BugH14 \/ c[2].target = "putEACL")     \*   contract/method of call #2 not looked at (H14)
                                /\ c[2].valid)                             \*   checkSetEACL
         ELSE Len(c) = 1 /\ c[1].args /\ c[1].valid                        \* acceptOnlySingleCall + unary parser + handler

\* C34: signature only if the structure is right and EVERY call is an expected call that was validated
Expected(c, i) == IF i = 1 THEN c[1].target \in Registered
                  ELSE i = 2 /\ c[1].target = "createV2" /\ c[2].target = "putEACL"
SignProp(r, sign) ==
  sign => /\ StructureOK(r.s) /\ r.plain
          /\ \A i \in 1..Len(r.calls) : Expected(r.calls, i) /\ r.calls[i].args /\ r.calls[i].valid

\* the known deviation: createV2 followed by a validated eACL-shaped call that is NOT (Container, putEACL)
KF_H14(r) ==
  /\ Len(r.calls) = 2 /\ r.calls[1].target = "createV2" /\ r.calls[2].target # "putEACL"
  /\ SignProp([r EXCEPT !.calls[2].target = "putEACL"], TRUE)

-----------------------------------------------------------------------------
VARIABLES req, out
vars == <<req, out>>
SeqsUpTo3 == {<<a>> : a \in Calls} \cup {<<a, b>> : a, b \in Calls} \cup {<<a, b, c>> : a, b, c \in Calls}
GoodCall(t) == [target |-> t, args |-> TRUE, valid |-> TRUE]
FewScripts == {<<GoodCall("createV2")>>, <<GoodCall("remove")>>, <<GoodCall("createV2"), GoodCall("putEACL")>>,
               <<GoodCall("createV2"), GoodCall("unregContract")>>}
InitReq ==
  \/ \E cs \in SeqsUpTo3, p \in BOOLEAN : req = [s |-> GoodS, plain |-> p, calls |-> cs]
  \/ \E s \in [SFields -> BOOLEAN], cs \in FewScripts : req = [s |-> s, plain |-> TRUE, calls |-> cs]
Init == InitReq /\ out = "none"
Next == out = "none" /\ out' = (IF SignCode(req) THEN "yes" ELSE "no") /\ UNCHANGED req
Spec == Init /\ [][Next]_vars
PropertyHolds == out # "none" => SignProp(req, out = "yes")
PropertyHoldsExceptH14 == out # "none" => (SignProp(req, out = "yes") \/ (out = "yes" /\ KF_H14(req)))
=============================================================================
