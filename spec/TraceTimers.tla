---------------------------- MODULE TraceTimers ----------------------------
(* C->M trace validation for Timers: every recorded call of the real EpochTimers must be the spec's
   action with the same arguments AND the same list of fired handlers; all C40 invariants are
   evaluated at every recorded step. *)
EXTENDS Timers, Json
Trace == ndJsonDeserialize("trace.ndjson")
VARIABLE l
TraceInit == Init /\ l = 1
TraceNext ==
  /\ l <= Len(Trace)
  /\ l' = l + 1
  /\ LET e == Trace[l] IN
       IF e.ev = "Init" THEN SetAll(InitVals)
       ELSE Step(e) /\ fired' = e.fired
TraceSpec == TraceInit /\ [][TraceNext]_<<vars, l>>
TraceNotStuck == l <= Len(Trace) => ENABLED TraceNext
=============================================================================
