SPECIFICATION Spec
CONSTANTS
  MaxFields = 4
INVARIANTS ObjCanonicalComplete ObjCanonicalTruncated ObjNeverOutOfBuffer ObjUnorderedIsError HdrValues HdrParent HdrNeverOutOfBuffer
CHECK_DEADLOCK FALSE
