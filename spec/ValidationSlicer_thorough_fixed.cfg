SPECIFICATION SSpec
CONSTANTS
  BugWriteErrorSwallowed = FALSE
  MaxDecl = 3
  MaxChunk = 3
  MaxChunks = 5
  NetMax = 2
  MaxLen = 10
  SliceMax = 3
INVARIANTS PiecesReassemble NeverBroken SlicerIsAccept
CHECK_DEADLOCK FALSE
