SPECIFICATION Spec
CONSTANTS
  MaxEpoch = 10
  MaxUnpaid = 12
  HistLens = {1}
  BugEpochWrap = FALSE
INVARIANTS PropertyHolds KFExact DiscardsWhenDue
CHECK_DEADLOCK FALSE
