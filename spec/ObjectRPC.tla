------------------------------ MODULE ObjectRPC ------------------------------
(* C29 / C45 - pkg/services/object/server.go: the per-request pipeline of every object RPC

     Recv -> (signatures) -> Maint -> (body) -> Tok* -> Info -> Basic -> [Sticky] -> EACL(req)
          -> Eff* -> [EACL(hdr)] -> Data* -> Reply

   One call = one behaviour segment that starts with Recv(m, cls). `cls` is the harness's GROUND TRUTH
   about the request (how it was built): signature state, maintenance flag, body state, token state,
   basic-ACL verdict, eACL verdict on the request and on the object header. The other events are what the
   recording leaves under the REAL objectsvc.Server observed:
     Maint(ok)            FSChain.LocalNodeUnderMaintenance() returned ok
     Tok(ok)              a session/bearer token was verified by the real ACL service, result
     Info(ok)             request classification (role, container) by the real ACL service
     Basic(ok) Sticky(ok) real checker verdicts
     EACLBegin(a) EACL(a,res)   a in {req,hdr}: eACL evaluation on the request / on the object header
     Eff(a)               a in {handler,read,write,conn,remote}: internal handler entered, local object
                          storage read/written, connection to another node requested, RPC sent to it
     Data(a)              a in {hdr,chunk,result}: object data sent to the client
     Reply(code,grpc)     final NeoFS status code / transport error of the call
     Flip                 the harness switched the node to maintenance at this point of the call

   Strict = TRUE : the actions are guarded by the implementation's order (the model that TLC explores
                   exhaustively over all classes and all admissible event orders; the property invariants
                   below are proved on it).
   Strict = FALSE: only structural guards; the monitor variables are still maintained, so that a recorded
                   trace of the real server is judged by the SAME invariants (a false invariant on a
                   recorded trace = the real code broke the property).                               *)
EXTENDS Integers, Sequences, FiniteSets, TLC

CONSTANT Strict,
         MSigs, MToks      \* universe of the exhaustive run (signature / token classes)

Methods   == {"Get", "Head", "GetRange", "Put", "Delete", "SearchV2", "Search", "GetRangeHash"}
ClientOps == {"Get", "Head", "GetRange", "Put", "Delete", "SearchV2"}   \* C45: client operations
Legacy    == {"Search", "GetRangeHash"}                                 \* kept in the descriptor, refused
HdrOps    == {"Get", "Head"}                                            \* ops with a header-time eACL stage

MaintCode == 1027     \* apistatus.NodeUnderMaintenance

\* ---- ground truth predicates over the request class
\* "exempt" = no verification header, admissible: the peer is authenticated by the TLS handshake and TTL = 1;
\* every other value but "ok" (none, bad, forged = header present but invalid, ...) fails the verification
SigInitOK(c) == c.sig \in {"ok", "exempt", "chunkbad", "chunknone"}   \* first message of the stream verifies
SigAllOK(c)  == c.sig \in {"ok", "exempt"}                            \* every message verifies
HasTok(c)    == c.tok # "none"
TokOK(c)     == c.tok \in {"none", "ok", "bearer_ok"}
\* request passes every request-time check: only such a request may cause effects
\* (maintenance is handled separately: it may be switched on in the middle of a PUT stream, see Flip)
Passes(mm, c)   == /\ mm \notin Legacy /\ SigAllOK(c) /\ c.body = "ok" /\ TokOK(c) /\ c.basic
                   /\ c.ereq # "deny"
NeedsHdr(mm, c) == mm \in HdrOps /\ c.ereq = "nm"
\* ... and the header-time check too: only such a request may receive object data / an OK status
PassesAll(mm, c) == Passes(mm, c) /\ (NeedsHdr(mm, c) => c.ehdr # "deny")

ReqChecks(mm, c) == {"maint", "info", "basic", "eacl"}
                    \cup (IF HasTok(c) THEN {"tok"} ELSE {})
                    \cup (IF mm = "Put" THEN {"sticky"} ELSE {})

VARIABLES pc,        \* "idle" | "run" | "done"
          m, cls,    \* method and class of the current call
          passed,    \* checks observed with a passing result
          failed,    \* a check was observed with a failing result
          inE,       \* "none" | "req" | "hdr": inside an eACL evaluation
          hdr,       \* "none" | "ok" | "deny": result of the latest header-time evaluation
          mnt,       \* the node is under maintenance NOW (cls.maint at Recv; Flip switches it on in mid-stream)
          touchedM,  \* an ACL-component event / effect / object data happened while the node was under maintenance
          \* monitors (property side)
          eff, data, lookup, aclEv,     \* an effect / object data to client / storage read inside eACL / any ACL-component event happened
          effOK, dataOK, lookupOK,      \* ... and each of them happened only after the checks it needs
          code, grpc                    \* final reply
vars == <<pc, m, cls, passed, failed, inE, hdr, mnt, touchedM, eff, data, lookup, aclEv, effOK, dataOK, lookupOK, code, grpc>>

NoClass == [sig |-> "ok", maint |-> FALSE, body |-> "ok", tok |-> "none", basic |-> TRUE, ereq |-> "allow", ehdr |-> "na"]

Init == /\ pc = "idle" /\ m = "Get" /\ cls = NoClass /\ passed = {} /\ failed = FALSE /\ inE = "none" /\ hdr = "none"
        /\ mnt = FALSE /\ touchedM = FALSE
        /\ eff = FALSE /\ data = FALSE /\ lookup = FALSE /\ aclEv = FALSE
        /\ effOK = TRUE /\ dataOK = TRUE /\ lookupOK = TRUE /\ code = 0 /\ grpc = ""

IsOK(c, g) == c < 1024 /\ g = ""

G(guard) == Strict => guard      \* implementation-order guard, dropped when judging recorded traces

ChecksDone == ReqChecks(m, cls) \subseteq passed /\ ~failed
PreEACL    == {"maint", "info", "basic"} \subseteq passed /\ (HasTok(cls) => "tok" \in passed) /\ ~failed

Pass(name, ok) == /\ passed' = IF ok THEN passed \cup {name} ELSE passed
                  /\ failed' = (failed \/ ~ok)

Recv(e) ==
  /\ pc \in {"idle", "done"}
  /\ pc' = "run" /\ m' = e.m /\ cls' = e.cls
  /\ passed' = {} /\ failed' = FALSE /\ inE' = "none" /\ hdr' = "none"
  /\ mnt' = e.cls.maint /\ touchedM' = FALSE
  /\ eff' = FALSE /\ data' = FALSE /\ lookup' = FALSE /\ aclEv' = FALSE
  /\ effOK' = TRUE /\ dataOK' = TRUE /\ lookupOK' = TRUE /\ code' = 0 /\ grpc' = ""

\* s.fsChain.LocalNodeUnderMaintenance(): consulted once per request message
Maint(e) ==
  /\ pc = "run" /\ inE = "none"
  /\ G(m \notin Legacy /\ SigInitOK(cls) /\ ~failed /\ e.ok = mnt)
  /\ Pass("maint", ~e.ok)
  /\ UNCHANGED <<pc, m, cls, inE, hdr, mnt, touchedM, eff, data, lookup, aclEv, effOK, dataOK, lookupOK, code, grpc>>

\* handleRequestMetaHeader: Verify{Session,SessionV1,Bearer}TokenMessage
Tok(e) ==
  /\ pc = "run" /\ inE = "none"
  /\ G("maint" \in passed /\ ~failed /\ HasTok(cls) /\ e.ok = TokOK(cls) /\ ~mnt)
  /\ Pass("tok", e.ok) /\ aclEv' = TRUE /\ touchedM' = (touchedM \/ mnt)
  /\ UNCHANGED <<pc, m, cls, inE, hdr, mnt, eff, data, lookup, effOK, dataOK, lookupOK, code, grpc>>

\* reqInfoProc.<Op>RequestToInfo
Info(e) ==
  /\ pc = "run" /\ inE = "none"
  /\ G("maint" \in passed /\ ~failed /\ (HasTok(cls) => "tok" \in passed) /\ ~mnt)
  /\ Pass("info", e.ok) /\ aclEv' = TRUE /\ touchedM' = (touchedM \/ mnt)
  /\ UNCHANGED <<pc, m, cls, inE, hdr, mnt, eff, data, lookup, effOK, dataOK, lookupOK, code, grpc>>

Basic(e) ==
  /\ pc = "run" /\ inE = "none"
  /\ G("info" \in passed /\ ~failed /\ e.ok = cls.basic /\ ~mnt)
  /\ Pass("basic", e.ok) /\ aclEv' = TRUE /\ touchedM' = (touchedM \/ mnt)
  /\ UNCHANGED <<pc, m, cls, inE, hdr, mnt, eff, data, lookup, effOK, dataOK, lookupOK, code, grpc>>

Sticky(e) ==
  /\ pc = "run" /\ inE = "none"
  /\ G(m = "Put" /\ "basic" \in passed /\ ~failed /\ ~mnt)
  /\ Pass("sticky", e.ok) /\ aclEv' = TRUE /\ touchedM' = (touchedM \/ mnt)
  /\ UNCHANGED <<pc, m, cls, inE, hdr, mnt, eff, data, lookup, effOK, dataOK, lookupOK, code, grpc>>

\* aclChecker.CheckEACL on the request (a = "req") or on the object's header (a = "hdr")
EACLBegin(e) ==
  /\ pc = "run" /\ inE = "none"
  /\ G(~mnt /\ IF e.a = "req" THEN PreEACL /\ "eacl" \notin passed
                              ELSE NeedsHdr(m, cls) /\ ChecksDone /\ eff)
  /\ inE' = e.a /\ aclEv' = TRUE /\ touchedM' = (touchedM \/ mnt)
  /\ UNCHANGED <<pc, m, cls, passed, failed, hdr, mnt, eff, data, lookup, effOK, dataOK, lookupOK, code, grpc>>

EACLEnd(e) ==
  /\ pc = "run" /\ inE = e.a
  /\ G(e.res = IF e.a = "req" THEN cls.ereq ELSE cls.ehdr)
  /\ inE' = "none"
  /\ IF e.a = "req"
       THEN Pass("eacl", e.res # "deny") /\ hdr' = hdr
       ELSE hdr' = (IF e.res = "deny" THEN "deny" ELSE "ok") /\ UNCHANGED <<passed, failed>>
  /\ UNCHANGED <<pc, m, cls, mnt, touchedM, eff, data, lookup, aclEv, effOK, dataOK, lookupOK, code, grpc>>

\* internal handler entered / local storage touched / another node contacted
Eff(e) ==
  /\ pc = "run"
  /\ IF inE # "none" /\ e.a = "read"
       THEN \* the eACL evaluation looks the object header up in the local storage
            /\ G(PreEACL)
            /\ lookup' = TRUE /\ lookupOK' = (lookupOK /\ PreEACL)
            /\ UNCHANGED <<eff, effOK>>
       ELSE /\ G(inE = "none" /\ Passes(m, cls) /\ ChecksDone /\ ~mnt)
            /\ eff' = TRUE /\ effOK' = (effOK /\ ChecksDone /\ inE = "none")
            /\ UNCHANGED <<lookup, lookupOK>>
  /\ touchedM' = (touchedM \/ mnt)
  /\ UNCHANGED <<pc, m, cls, passed, failed, inE, hdr, mnt, data, aclEv, dataOK, code, grpc>>

DataGuard == ChecksDone /\ inE = "none" /\ (NeedsHdr(m, cls) => hdr = "ok")

\* object header / payload bytes / search result sent to the client
Data(e) ==
  /\ pc = "run"
  /\ G(PassesAll(m, cls) /\ DataGuard /\ ~mnt)
  /\ data' = TRUE /\ dataOK' = (dataOK /\ DataGuard) /\ touchedM' = (touchedM \/ mnt)
  /\ UNCHANGED <<pc, m, cls, passed, failed, inE, hdr, mnt, eff, lookup, aclEv, effOK, lookupOK, code, grpc>>

Reply(e) ==
  /\ pc = "run"
  /\ G(/\ inE = "none"
       /\ IsOK(e.code, e.grpc) => PassesAll(m, cls) /\ ChecksDone /\ (NeedsHdr(m, cls) => hdr = "ok") /\ ~mnt
       /\ (mnt /\ SigInitOK(cls) /\ m \in ClientOps) => (e.code = MaintCode /\ e.grpc = "")
       /\ m \in Legacy => e.grpc # "")
  /\ pc' = "done" /\ code' = e.code /\ grpc' = e.grpc
  /\ UNCHANGED <<m, cls, passed, failed, inE, hdr, mnt, touchedM, eff, data, lookup, aclEv, effOK, dataOK, lookupOK>>

\* the node is switched to maintenance while the call is in progress (between two messages of a PUT stream)
Flip(e) ==
  /\ pc = "run" /\ inE = "none" /\ ~mnt
  /\ mnt' = TRUE
  /\ UNCHANGED <<pc, m, cls, passed, failed, inE, hdr, touchedM, eff, data, lookup, aclEv, effOK, dataOK, lookupOK, code, grpc>>

Step(e) == CASE e.ev = "Recv"      -> Recv(e)
             [] e.ev = "Flip"      -> Flip(e)
             [] e.ev = "Maint"     -> Maint(e)
             [] e.ev = "Tok"       -> Tok(e)
             [] e.ev = "Info"      -> Info(e)
             [] e.ev = "Basic"     -> Basic(e)
             [] e.ev = "Sticky"    -> Sticky(e)
             [] e.ev = "EACLBegin" -> EACLBegin(e)
             [] e.ev = "EACL"      -> EACLEnd(e)
             [] e.ev = "Eff"       -> Eff(e)
             [] e.ev = "Data"      -> Data(e)
             [] e.ev = "Reply"     -> Reply(e)

\* ---- the exhaustive universe
Classes == {c \in [sig : MSigs, maint : BOOLEAN, body : {"ok", "missing"},
                   tok : MToks, basic : BOOLEAN, ereq : {"allow", "deny", "nm"},
                   ehdr : {"allow", "deny", "na"}] :
              (c.ehdr = "na") <=> (c.ereq # "nm")}
Codes == {0, 1026, MaintCode, 2048}
RecvEvents == [ev : {"Recv"}, m : Methods, cls : Classes]
RunEvents ==   [ev : {"Maint", "Tok", "Info", "Basic", "Sticky"}, ok : BOOLEAN]
          \cup [ev : {"EACLBegin"}, a : {"req", "hdr"}]
          \cup [ev : {"EACL"}, a : {"req", "hdr"}, res : {"allow", "deny", "nm"}]
          \cup [ev : {"Eff"}, a : {"handler", "read", "write", "conn", "remote"}]
          \cup [ev : {"Data"}, a : {"hdr", "chunk", "result"}]
          \cup [ev : {"Reply"}, code : Codes, grpc : {"", "Unimplemented"}]
          \cup {[ev |-> "Flip"]}

\* one call per behaviour is enough for the exhaustive run (a second Recv resets every variable)
Events == RecvEvents \cup RunEvents
Next == \/ pc = "idle" /\ \E e \in RecvEvents : Step(e)
        \/ pc = "run" /\ \E e \in RunEvents : Step(e)
Spec == Init /\ [][Next]_vars

-----------------------------------------------------------------------------
(* The properties, stated over the monitors and the ground truth. *)

\* C29: a request that fails a request-time check causes no storage / network effect and gets no object data
C29_NoEffectForFailingRequest == (eff \/ data) => Passes(m, cls)
\* C29: every effect is preceded by all the checks (and the eACL's own header lookup by all the cheaper ones)
C29_ChecksPrecedeEffects == effOK /\ lookupOK
\* C29: no object data (header, payload byte, search result) leaves before the checks, and - when the
\*      request-time eACL could not decide - before the eACL has been evaluated against the object's header
C29_HeaderEACLBeforeData == dataOK /\ (data => PassesAll(m, cls))
\* C29: a failing request gets an error status
C29_ErrorStatusForFailingRequest == (pc = "done" /\ ~PassesAll(m, cls)) => ~IsOK(code, grpc)
\* (a request refused only because of maintenance is judged by C45)
\* C45: a valid client operation on a node in maintenance is refused with the maintenance status and touches
\*      neither the ACL components, nor the local storage, nor other nodes - from the moment the node is under
\*      maintenance (the whole call if it was so at Recv; the rest of the stream if it was switched on in between)
C45_MaintenanceRefusal ==
  (pc # "idle" /\ SigInitOK(cls) /\ m \in ClientOps) =>
     /\ ~touchedM
     /\ cls.maint => (~eff /\ ~data /\ ~lookup /\ ~aclEv)
     /\ (pc = "done" /\ mnt) => (code = MaintCode /\ grpc = "")

TypeOK == /\ pc \in {"idle", "run", "done"} /\ m \in Methods /\ passed \subseteq {"maint", "tok", "info", "basic", "sticky", "eacl"}
          /\ inE \in {"none", "req", "hdr"} /\ hdr \in {"none", "ok", "deny"}
=============================================================================
