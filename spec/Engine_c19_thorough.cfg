\* C19 thorough: 3 shards, plain object + lock + EC part + tombstone of the EC part, put faults, degraded sources
SPECIFICATION Spec
CONSTANTS
  NS = 3
  MaxEpoch = 1
  BugH6 = TRUE
  CatSet = "c19"
  Ops = {"Put", "Bcast", "SetMode", "FailPut", "Evacuate"}
  Modes = {"rw", "ro"}
  HealthyLock = FALSE
  MaxInFlight = 1
  Scenario = "none"
INVARIANTS TypeOK C19Classified
VIEW ViewC19
CHECK_DEADLOCK FALSE
