\* C19 thorough: 3 shards, object + lock + tombstone, put faults
SPECIFICATION Spec
CONSTANTS
  NS = 3
  MaxEpoch = 1
  BugH6 = TRUE
  CatSet = "c19t"
  Ops = {"Put", "Bcast", "SetMode", "Evacuate"}
  Modes = {"rw", "ro"}
  HealthyLock = FALSE
  MaxInFlight = 1
  Scenario = "none"
INVARIANTS TypeOK C19Classified
VIEW ViewC19
CHECK_DEADLOCK FALSE
