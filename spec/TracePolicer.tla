---------------------------- MODULE TracePolicer ----------------------------
(* C26, record validation: every record {in: scenario, out: observation} written by the harness after
   running the REAL Policer.processObject (real RemoteHeader, real Replicator) is classified:

     ok        out = F(in) of the repaired code and the property holds on the observations
     kfBenign  out = F(in) of the code as found (deviation switch on), inside the known history class,
               the property still holds on the observations (e.g. the replication succeeded)
     kfViol    same, and the property is FALSE on the observations: the known finding, reproduced
     propviol  out = F(in) but the property is false on the observations (model out of its proven range)
     bad       out is not what either model computes: the code is not the specified function

   Everything except "ok" is printed as <<"REC", index, class>>; checks/C26.py turns the classes into
   verdicts. "Same" compares what was deleted / deduplicated, the replication tasks (quantity, candidate
   list, nodes that stored) - not the order or number of HEAD requests.                                *)
EXTENDS Policer, Json

Recs == ndJsonDeserialize("trace.ndjson")
VARIABLE l

\* Objects the storage policy does not apply to (undecodable / foreign EC attributes, missing container):
\* only "removed or not" is compared - what else the code does with such garbage is not C26's business.
Governed(sIn) == Pre(sIn) = "rep" \/ (Pre(sIn) = "ecpart" /\ EcPre(sIn) = "walk")
Same(sIn, o, f) ==
  IF Governed(sIn) THEN /\ o.del = f.del
                        /\ o.dedup = f.dedup
                        /\ o.tasks = f.tasks
                        /\ Range(o.stored) = f.stored
                   ELSE (o.del = "none") = (f.del = "none")

Class(rec) ==
  LET sIn == rec.in
      o == rec.out
      holds == Prop(sIn, o.del, Range(o.headok), Range(o.stored))
      fx == F(sIn, FALSE)
  IN IF Same(sIn, o, fx) THEN (IF holds THEN "ok" ELSE "propviol")
     ELSE LET as == F(sIn, TRUE) IN
          IF Same(sIn, o, as) /\ as.kf THEN (IF holds THEN "kfBenign" ELSE "kfViol") ELSE "bad"

\* Records are independent: the file is cut into chunks that TLC workers walk in parallel.
\* (NRecs is passed by the check: evaluating Len(Recs) in Init makes TLC parse the file once per initial state)
CONSTANTS Chunk, NRecs
TraceInit == /\ l \in {1 + k * Chunk : k \in 0..((NRecs - 1) \div Chunk)}
             /\ s = 0 /\ pc = "trace" /\ r = 0 /\ i = 0 /\ c = 0 /\ e = 0 /\ out = 0
TraceNext ==
  /\ l > 0 /\ l <= NRecs
  /\ LET cl == Class(Recs[l]) IN IF cl = "ok" THEN TRUE ELSE PrintT(<<"REC", l, cl>>)
  /\ l' = IF l % Chunk = 0 \/ l = NRecs THEN 0 ELSE l + 1
  /\ UNCHANGED vars
\* the file has exactly the announced number of records (checked once, at the last one)
AllRead == l = NRecs => Len(Recs) = NRecs
TraceSpec == TraceInit /\ [][TraceNext]_<<vars, l>>
=============================================================================
