SPECIFICATION Spec
CONSTANTS
  MaxLayers = 3
  MaxSteps = 3
INVARIANTS InvLegacyAcceptIffHonest InvNewAcceptIffOuterCovers InvSignedPartsCovered
CHECK_DEADLOCK FALSE
