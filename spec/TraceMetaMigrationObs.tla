----------------------- MODULE TraceMetaMigrationObs -----------------------
(* Free observation spec for C42: the states the real upgrade code produced (projected from the file with
   raw bbolt reads, and the comparison of the public-API view with the pre-upgrade one), with NO model step.
   The property formulas are evaluated on them.  checks/C42.py uses it to classify a trace that the strict
   TraceMetaMigration spec rejects: a formula false here = the real code broke the property. *)
EXTENDS Integers, Sequences, FiniteSets, TLC, Json

Trace == ndJsonDeserialize("trace.ndjson")
ToSet(t) == {t[i] : i \in DOMAIN t}
WorldOf(e) == [nc |-> e.w.nc, nA |-> e.w.nA, nH |-> e.w.nH, budget |-> e.w.budget, ver0 |-> e.w.ver0,
               drift |-> e.w.drift, gone0 |-> ToSet(e.w.gone0)]
HasView(e) == e.ev = "Finish" \/ (e.ev = "Open" /\ e.obs)
(* o = the last recorded event, og = containers reported gone so far, ow = world,
   ov = highest version seen. *)
VARIABLES l, o, og, ow, ov
ObsInit == l = 1 /\ o = [ev |-> "none", obs |-> FALSE] /\ og = {} /\ ow = WorldOf(Trace[1]) /\ ov = 0
ObsNext ==
  /\ l <= Len(Trace) /\ l' = l + 1
  /\ LET e == Trace[l] IN
       /\ o' = e
       /\ ow' = IF e.ev = "Init" THEN WorldOf(e) ELSE ow
       /\ og' = IF e.ev = "Init" THEN ToSet(e.w.gone0) ELSE IF e.ev = "Gone" THEN og \cup {e.c} ELSE og
       /\ ov' = IF e.ev = "Init" THEN e.proj.ver ELSE IF e.obs /\ e.proj.ver > ov THEN e.proj.ver ELSE ov
ObsSpec == ObsInit /\ [][ObsNext]_<<l, o, og, ow, ov>>

OCn == 1..ow.nc
(* nothing lost, nothing duplicated, nothing else touched - at every observed state *)
ObsExactlyOneFormat ==
  o.obs => /\ o.proj.other
           /\ \A c \in OCn : o.proj.cn[c].bad = 0 /\ o.proj.cn[c].old + o.proj.cn[c].new = ow.nA[c]
                              /\ o.proj.cn[c].hAI = o.proj.cn[c].hIA
(* once the version is current everything that still exists is in the current format, counters = recount *)
ObsUpgraded ==
  (o.obs /\ o.proj.ver = 11) =>
      /\ ~o.proj.oldCtr
      /\ \A c \in OCn : ~o.proj.cn[c].drift
      /\ \A c \in OCn \ og : o.proj.cn[c].old = 0 /\ o.proj.cn[c].hAI = 0 /\ o.proj.cn[c].hIA = 0
(* availability, attributes, search results, counters are what they were before the upgrade *)
ObsViewPreserved ==
  HasView(o) => o.ctrEq /\ \A c \in OCn \ og : o.viewEq[c]
ObsResumable == (o.ev = "Fail" => o.res = "canceled") /\ (o.obs => o.proj.ver >= ov)
=============================================================================
