------------------------------ MODULE ECCodeMC ------------------------------
(* C21 model check of the single-rule part: every rule k/m, every abstract length L (divisible or not
   by k, shorter than k, empty) and every erasure set E with |E| <= m + 1 (so that both sides of
   "decodable iff enough parts" are reached). One state per (k, m, L, E).                          *)
EXTENDS ECCode
CONSTANTS MaxK, MaxM, MaxLen,
          RangeK        \* DecodeRange / DecodeIndexes are enumerated for rules with k + m <= RangeK
VARIABLES k, m, L, E, pc
vars == <<k, m, L, E, pc>>

Init == k = 0 /\ m = 0 /\ L = 0 /\ E = {} /\ pc = "rule"
PickRule == pc = "rule" /\ \E kk \in 1..MaxK, mm \in 0..MaxM : k' = kk /\ m' = mm /\ pc' = "len" /\ UNCHANGED <<L, E>>
PickLen == pc = "len" /\ \E ll \in 0..MaxLen : L' = ll /\ pc' = "erase" /\ UNCHANGED <<k, m, E>>
PickErase == pc = "erase" /\ \E ee \in SUBSET (1..(k + m)) :
                 /\ Cardinality(ee) <= m + 1
                 /\ E' = ee /\ pc' = "done" /\ UNCHANGED <<k, m, L>>
Next == PickRule \/ PickLen \/ PickErase
Spec == Init /\ [][Next]_vars

Done == pc = "done"
T == k + m
AtLen == pc = "erase"          \* exactly one such state per (k, m, L)

\* implementation-shaped Encode (library Split on a buffer without spare capacity) = declarative reference
EncodeIsRef == AtLen => EncodeFresh(k, m, L) = RefParts(k, m, L)
\* all parts have equal length ceil(L/k)
EqualLengths == AtLen => LET e == EncodeFresh(k, m, L) IN \A i \in 1..T : Len(e[i]) = PartLen(k, L)
\* data parts concatenated and truncated give the payload (ConcatDataParts)
ConcatTruncates == AtLen => SubSeq(ConcatN(RefParts(k, m, L), k), 1, L) = Payload(L)

\* the property: any erasure of at most m parts decodes to exactly the payload
DecodeFromAnySufficientSubset ==
  Done /\ L > 0 /\ Cardinality(E) <= m =>
    LET d == Decode(k, m, L, Erase(RefParts(k, m, L), E)) IN d.ok /\ d.data = Payload(L)
\* operational Decode agrees with the closed form used for record validation, and never returns wrong data
DecodeClosedForm ==
  Done => LET d == Decode(k, m, L, Erase(RefParts(k, m, L), E)) IN
          /\ d.ok = DecodeDefined(k, m, L, E)
          /\ d.ok => d.data = Payload(L)

ReconOK(ref, er, req) ==
  LET r == Reconstruct(k, m, er, req) IN
  /\ r.ok = ReconDefined(k, m, L, E, req)
  /\ r.ok => /\ \A i \in req : r.parts[i] = ref[i]                 \* requested parts restored exactly
             /\ \A i \in (1..T) \ E : r.parts[i] = ref[i]          \* present parts untouched
             /\ \A i \in E \ req : r.parts[i] = <<>>               \* nothing else is touched
PartialRange == Done /\ T <= RangeK =>
                  LET ref == RefParts(k, m, L)
                      er == Erase(ref, E)
                  IN \A from \in 1..T : \A to \in from..T : ReconOK(ref, er, from..to)
PartialIndexes == Done /\ T <= RangeK =>
                    LET ref == RefParts(k, m, L)
                        er == Erase(ref, E)
                    IN /\ \A a, b \in 1..T : ReconOK(ref, er, {a, b})
                       /\ E # {} => ReconOK(ref, er, E)
=============================================================================
