SPECIFICATION Spec
CONSTANTS
  MaxL = 9
  MaxS = 4
  BugV1NoLinkExtra = FALSE
  BugV2NoLinkEmpty = FALSE
  BugECFirstPart = FALSE
  BugECNoDataHeader = FALSE
INVARIANTS ReadsExactlyTheRange
CHECK_DEADLOCK FALSE
