-------------------------- MODULE MetaMigrationGenW --------------------------
(* Worlds for schedule generation (M->C).  checks/C42.py overwrites this module in its scratch copy with the
   worlds of the tier; counts are in UNITS of 1000/budget real index keys (the real budget is 1000). *)
EXTENDS Integers
GenWorlds ==
  { [nc |-> 2, nA |-> <<3, 1>>, nH |-> <<1, 1>>, budget |-> 2, ver0 |-> v, drift |-> <<v = 9 \/ d, v = 9>>, gone0 |-> {}] :
      v \in {9, 10}, d \in BOOLEAN }
=============================================================================
