--------------------------- MODULE TracePutPolicy ---------------------------
(* C25: one walk over records {in: scenario, out: observation of the REAL putsvc pipeline}. For every record
   (a) model check: the repaired model satisfies the property on this scenario, and the model of the code as
       found satisfies it unless a named deviation shaped the run (printed as <<"MODEL", index, what>>; the
       check treats any such line as a model problem, never as a verdict);
   (b) conformance: the observation equals F(in) of the repaired code and the property holds on the
       acknowledgements that were really observed. Classes printed as <<"REC", index, class>>:
         kfBenign / kfViol  observation = F of the code as found inside a named deviation class
                            (ecindex | dupec); Viol: property false on the observations or the node panicked
         propviol           observation = F but property false on observations
         bad                observation is not what either model computes                              *)
EXTENDS PutPolicy, Json

Recs == ndJsonDeserialize("trace.ndjson")
CONSTANTS Chunk, NRecs
VARIABLE l

PartsOf(o, j) == {x \in Range(o.parts) : x.rule = j - 1}
Complete(s, o, j) == \A i \in 0..(Parts(s.ec[j]) - 1) : \E x \in PartsOf(o, j) : x.idx = i
DistinctNodes(o, j) == \A x, y \in PartsOf(o, j) : x # y => x.node # y.node
InOwnList(s, o, j) == \A x \in PartsOf(o, j) : x.node \in Range(s.ec[j].nodes)
ObsEcAt(s, o) == {<<j, IF InOwnList(s, o, j) THEN NRep(s) + j ELSE 0>> :
                    j \in {z \in 1..NEc(s) : Complete(s, o, z) /\ DistinctNodes(o, z)}}
ObsApplied(s, o) == {j \in 1..NEc(s) : Complete(s, o, j)}

Same(s, o, f) == /\ o.res = f.res
                 /\ (o.res # "panic" => Range(o.main) = f.main /\ ObsApplied(s, o) = f.applied)

Class(rec) ==
  LET s == rec.in
      o == rec.out
      holds == /\ o.res # "panic"
               /\ Prop(s, o.res, Range(o.main), ObsEcAt(s, o))
               /\ Stored(o.res, Range(o.main), ObsEcAt(s, o))
      fx == F(s, Repaired)
      as == F(s, AsFound)
  IN IF Same(s, o, fx) /\ holds THEN "ok"
     ELSE IF (as.res = "any" \/ Same(s, o, as)) /\ Deviation(s) # ""
       THEN (IF holds THEN "kfBenign" ELSE "kfViol") \o "_" \o Deviation(s)
     ELSE IF Same(s, o, fx) THEN "propviol" ELSE "bad"

\* model checking of the spec function on the scenario of record k: a failure is a MODEL problem (exit 2)
ModelClass(s) == IF FProp(s) THEN "ok" ELSE "repairedModelViolatesProperty"

TraceInit == l \in {1 + k * Chunk : k \in 0..((NRecs - 1) \div Chunk)}
TraceNext ==
  /\ l > 0 /\ l <= NRecs
  /\ LET m == ModelClass(Recs[l].in) IN IF m = "ok" THEN TRUE ELSE PrintT(<<"MODEL", l, m>>)
  /\ LET cl == Class(Recs[l]) IN IF cl = "ok" THEN TRUE ELSE PrintT(<<"REC", l, cl>>)
  /\ l' = IF l % Chunk = 0 \/ l = NRecs THEN 0 ELSE l + 1
TraceSpec == TraceInit /\ [][TraceNext]_l

AllRead == l = NRecs => Len(Recs) = NRecs
=============================================================================
