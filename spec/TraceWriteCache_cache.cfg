SPECIFICATION TraceSpec
CONSTANTS
  Addrs = {1, 2, 3, 4}
  Threshold = 2
  MaxCount = 2
  MaxBSize = 100
  MaxCache = 8
  NW = 2
  Procs = {1, 2, 3}
  Ops = {"put", "del", "get", "flush", "setmode", "reopen"}
  Modes = {"rw", "ro", "deg"}
  Shard = FALSE
  Markers = TRUE
  MaxFail = 1000000
  MaxCalls = 1000000
  BugH3 = TRUE
  BugAlias = TRUE
  BugErrLeak = TRUE
  BugSplit = TRUE
  LiveK = 2
INVARIANTS Accept
CHECK_DEADLOCK FALSE
