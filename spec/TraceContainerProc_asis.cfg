SPECIFICATION TraceSpec
CONSTANTS
  Full = TRUE
  BugH13 = TRUE
INVARIANTS RecProp RecCode
CHECK_DEADLOCK FALSE
