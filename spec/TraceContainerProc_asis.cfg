SPECIFICATION TraceSpec
CONSTANTS
  BugH13 = TRUE
INVARIANTS RecProp RecCode
CHECK_DEADLOCK FALSE
