------------------------------ MODULE MergeGen ------------------------------
(* C04 - M->C: behaviours of MergeMC (a corpus with its distribution over two shards, then a query) printed as
   JSON for replay on a real two-shard StorageEngine (tlc -simulate, depth 3: {} -> corpus -> query).       *)
EXTENDS MergeMC, Json
SeqOf(S) == LET RECURSIVE F(_)
                F(T) == IF T = {} THEN <<>> ELSE LET x == CHOOSE y \in T : TRUE IN <<x>> \o F(T \ {x})
            IN F(S)
Emit == q # NoQ => PrintT(<<"BEH", ToJson([objs |-> {[id |-> o.id, avail |-> o.avail, attrs |-> o.attrs, shards |-> SeqOf(o.shards)] : o \in corpus}, q |-> q])>>)
=============================================================================
