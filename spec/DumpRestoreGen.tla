--------------------------- MODULE DumpRestoreGen ---------------------------
(* Generator for the M->C replay of DumpRestore: TLC picks the input (where the reader cuts the stream,
   which records are corrupted, the flags), runs the model and prints the case when the restore ends. *)
EXTENDS DumpRestore, Json
SetToSeq(S) == LET RECURSIVE F(_) F(T) == IF T = {} THEN <<>> ELSE LET m == CHOOSE x \in T : \A y \in T : x <= y IN <<m>> \o F(T \ {m}) IN F(S)
Emit == phase = "end" => PrintT(<<"BEH", ToJson([n |-> NRec, cuts |-> SetToSeq(cuts), corrupt |-> SetToSeq(corrupt),
                                                 ignore |-> ignore, eofdata |-> eofdata])>>)
=============================================================================
