\* C20 quick, code as is: every reachable disagreement between engine reads and the reference
\* "stored on a readable shard and not removed" falls into a listed known-finding class
SPECIFICATION Spec
CONSTANTS
  NS = 2
  MaxEpoch = 1
  BugH6 = TRUE
  CatSet = "c20s"
  Ops = {"Put", "Bcast", "Delete", "Drop", "GC", "SetMode", "FailGet", "FailPut"}
  Modes = {"rw", "ro", "dro"}
  HealthyLock = FALSE
  MaxInFlight = 1
  Scenario = "none"
INVARIANTS TypeOK C20Classified
VIEW ViewNoRes
CHECK_DEADLOCK FALSE
