-------------------------- MODULE ValidationSlicer --------------------------
(* C24, part 2: the node slices a raw object itself (trusted path): validatingTarget(unprepared) -> slicer ->
   distributedTarget -> local storage that refuses the fail-th object. Chunks arrive, the slicer keeps up to max
   bytes, writes a child when more data arrives, writes the last child and the link object on Close.
   `broken` = the slicer went on after a failed child (only possible when the error was swallowed).     *)
EXTENDS Validation

CONSTANTS MaxLen, SliceMax
VARIABLES sv, si, buf, sent, pieces, puts, sres, broken
svars == <<sv, si, buf, sent, pieces, puts, sres, broken>>
\* pieces: payload sizes of the children accepted by the storage, in order; puts: objects handed to the storage

SliceScenarios ==
  {[path |-> "trusted", mut |-> "none", len |-> Sum(c), decl |-> 0, chunks |-> c, max |-> SliceMax, fail |-> f] :
     c \in {x \in UNION {[1..n -> 1..MaxChunk] : n \in 0..MaxChunks} : Sum(x) <= MaxLen}, f \in 0..5}

SInit == /\ sv \in SliceScenarios /\ si = 1 /\ buf = 0 /\ sent = 0 /\ pieces = <<>> /\ puts = 0
         /\ sres = "pending" /\ broken = FALSE
         /\ v = sv /\ ph = "slicer" /\ k = 0 /\ written = 0 /\ hashed = TRUE /\ res = "pending" /\ stored = FALSE

\* hand one object (child with n payload bytes, or the link: n = -1) to the storage
Refused == puts + 1 = sv.fail
\* one chunk: every time the buffer is full and more data is there, a child is flushed
RECURSIVE Feed(_, _, _, _, _)
\* returns [buf, pieces, puts, failed]
Feed(b, n, pcs, pt, failAt) ==
  IF n = 0 THEN [buf |-> b, pieces |-> pcs, puts |-> pt, failed |-> FALSE]
  ELSE IF b = sv.max
    THEN IF pt + 1 = failAt THEN [buf |-> b, pieces |-> pcs, puts |-> pt + 1, failed |-> TRUE]
         ELSE Feed(0, n, Append(pcs, b), pt + 1, failAt)
    ELSE LET take == IF n < sv.max - b THEN n ELSE sv.max - b IN Feed(b + take, n - take, pcs, pt, failAt)

SChunk == /\ sres = "pending" /\ si <= Len(sv.chunks)
          /\ LET f == Feed(buf, sv.chunks[si], pieces, puts, sv.fail) IN
             /\ buf' = f.buf /\ pieces' = f.pieces /\ puts' = f.puts
             /\ sent' = sent + sv.chunks[si]
             /\ IF f.failed
                  THEN IF BugWriteErrorSwallowed THEN broken' = TRUE /\ UNCHANGED sres   \* client is told to go on
                                                 ELSE sres' = "error" /\ UNCHANGED broken
                  ELSE UNCHANGED <<sres, broken>>
          /\ si' = si + 1
          /\ UNCHANGED <<sv, vars>>

SClose == /\ sres = "pending" /\ si > Len(sv.chunks)
          /\ LET split == Len(pieces) > 0
                 lastRefused == puts + 1 = sv.fail
                 linkRefused == split /\ puts + 2 = sv.fail IN
             IF lastRefused THEN sres' = "error" /\ puts' = puts + 1 /\ UNCHANGED pieces
             ELSE IF linkRefused THEN sres' = "error" /\ puts' = puts + 2 /\ pieces' = Append(pieces, buf)
             ELSE sres' = "ok" /\ puts' = puts + (IF split THEN 2 ELSE 1) /\ pieces' = Append(pieces, buf)
          /\ UNCHANGED <<sv, si, buf, sent, broken, vars>>
SNext == SChunk \/ SClose
SSpec == SInit /\ [][SNext]_<<svars, vars>>

\* success => the stored pieces reassemble to exactly what was streamed, and the slicer never went on broken
PiecesReassemble == sres = "ok" => (Sum(pieces) = sent /\ sent = sv.len /\ ~broken)
NeverBroken == ~broken
\* code as found: success with missing / wrong pieces only after the slicer went on broken (the named class)
PiecesReassembleKF == sres = "ok" => (broken \/ (Sum(pieces) = sent /\ sent = sv.len))
SlicerIsAccept == (sres # "pending" /\ ~broken) =>
                    LET a == Accept(sv, BugWriteErrorSwallowed) IN
                    a.any \/ (a.res = sres /\ a.stored = Len(pieces) + (IF sres = "ok" /\ Len(pieces) > 1 THEN 1 ELSE 0))
=============================================================================
