SPECIFICATION RSpec
CONSTANTS
  CatName = "R2"
  MaxEpoch = 3
  MarkPairs = FALSE
INVARIANTS C18_Model_OrderIndependent C18_Model_NoAbort
CHECK_DEADLOCK FALSE
