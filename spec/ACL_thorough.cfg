SPECIFICATION Spec
CONSTANTS
  OpsU = {"get", "head", "put", "delete", "search", "range", "hash"}
  Sliced = FALSE
  TabLen = 3
  CheckTables = TRUE
INVARIANTS InvServed InvSystemIgnores InvNoBitNoAccess InvBearerBitGuards InvIRReadOnly
CHECK_DEADLOCK FALSE
