--------------------------- MODULE WriteCacheLive ---------------------------
(* Where the bound K of the real-code form of C17's liveness half comes from.
   `clean` is computed exactly as TraceWriteCache computes it from a log: -1, or the number of scheduler
   rounds started since a quiescent observation without a pending error token, with no client call and
   no storage failure since.  In the repaired model, a quiescent read-write cache that has seen LiveK such
   rounds is empty (LiveBound); TLC checks it on all reachable states, so "after LiveK fault-free rounds
   the real cache is empty" is the bounded form the harness observes. *)
EXTENDS WriteCache
CONSTANT LiveK
VARIABLE clean
lvars == <<vars, clean>>
Bump == IF clean >= 0 /\ clean < LiveK THEN clean + 1 ELSE clean
HiddenNoWake == \/ \E p \in Procs : ClientHidden(p)
                \/ sch.pc # "wait" /\ SchedHidden
                \/ \E w \in Workers : WorkerHidden(w)
LInit == Init /\ clean = -1
LNext == \/ (AnyBegin \/ AnyRet \/ AnyBlobPut(FALSE)) /\ clean' = -1
         \/ (SchedWake(TRUE) \/ SchedWake(FALSE)) /\ clean' = Bump        \* Markers = FALSE: the round record
         \/ (HiddenNoWake \/ AnyBlobPut(TRUE) \/ AnyBlobOther) /\ UNCHANGED clean
         \/ Quiescent /\ ~errq /\ clean' = 0 /\ UNCHANGED vars              \* observation
LSpec == LInit /\ [][LNext]_lvars
LiveBound == (clean >= LiveK /\ Quiescent /\ mode = "rw") => Files = {}
=============================================================================
