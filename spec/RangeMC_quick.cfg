SPECIFICATION Spec
CONSTANTS
  M = 16
  BugFromZeroEmpty = FALSE
INVARIANTS Agree ShiftOK Sane
CHECK_DEADLOCK FALSE
