SPECIFICATION TraceSpec
CONSTANTS
  MaxEpoch = 10
  MaxUnpaid = 12
  HistLens = {1}
  BugEpochWrap = FALSE
INVARIANTS RecOK RecProp
CHECK_DEADLOCK FALSE
