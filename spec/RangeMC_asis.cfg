SPECIFICATION Spec
CONSTANTS
  M = 16
  BugFromZeroEmpty = TRUE
INVARIANTS Agree
CHECK_DEADLOCK FALSE
