SPECIFICATION TraceSpec
CONSTANTS
  MaxEpoch = 1000
  NSenders = 2
  RSigs = {"ok"}
  RSchemes = {"sha512"}
  RObjs = {"valid"}
  RCnrs = {"known"}
INVARIANTS StoredOnlyIfAccepted OkOnlyIfAccepted OkMeansStored AcceptedWhenAllChecksPass TraceNotStuck
CHECK_DEADLOCK FALSE
