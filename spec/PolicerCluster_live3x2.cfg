SPECIFICATION Live
CONSTANTS
  Nodes = {1, 2, 3}
  Local = 1
  BugMaintRebalance = FALSE
  RuleShapes = {}
  EcCnrRepLen = 0
  EcLens = {}
  Families = {}
  N = 3
  Reps = {1, 2}
  RuleCounts = {2}
  ListLens = {1, 2}
  MaxRounds = 9
INVARIANTS NeverEmpty TaskOK
PROPERTIES EventuallyConvergedForever
CHECK_DEADLOCK FALSE
