SPECIFICATION TraceSpec
CONSTANTS
  BugV1NoLinkExtra = FALSE
  BugV2NoLinkEmpty = FALSE
  BugECFirstPart = FALSE
  BugECNoDataHeader = FALSE
INVARIANTS RecWellFormed RecOK
CHECK_DEADLOCK FALSE
