SPECIFICATION TraceSpec
CONSTANTS
  N = 4
  ClientChecksMembership = TRUE
INVARIANTS TraceNotStuck HistProp NoRepeats
CHECK_DEADLOCK FALSE
