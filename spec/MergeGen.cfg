SPECIFICATION MCSpec
CONSTANTS
  KB = 256
  KN = 32
  MaxDigits <- MaxDigitsMC
  BugPlusAfterSign = FALSE
  BugMergeNoRange = FALSE
  BugPrimMulti = FALSE
  BugSplitIDAbsent = FALSE
  BugB58Prefix = FALSE
  BugCursorChecksum = FALSE
  BugAssocMerge = FALSE
  BugAssocAbsent = FALSE
  NObj = 3
  SmallVals = FALSE
  NMax = 3
INVARIANTS Emit
CHECK_DEADLOCK FALSE
