SPECIFICATION TraceSpec
CONSTANTS
  Objs = {}
  WCs = {}
  Batches = {}
  MaxEpoch = 1000
  Ops = {}
  Faults = {}
  Modes = {}
  BugH9 = FALSE
  BugH10 = TRUE
  BugMetaStale = TRUE
  BugH11 = FALSE
  KRounds = 12
INVARIANTS TraceNotStuck C09StrictT
CHECK_DEADLOCK FALSE
