--------------------------- MODULE MetaMigration ---------------------------
(* C42 - upgrade of a metadata database written by a supported older format (9, 10) to the current
   format (11): pkg/local_object_storage/metabase/version.go.

   Implementation-shaped: ONE ACTION = ONE bbolt TRANSACTION of the upgrade (or one control event of the
   process: open, context cancellation, failure return, crash, container removal).

     checkVersion:            Open      (reads version; 11 -> nothing to do)
     migrateFrom9Version:     Mig9      (one tx: drop volume bucket, resync counters, drop old counter keys, version 10)
     migrateFrom10Version:    HomoTx*   (updateContainersInterruptable(dropHomomorphicIndexes), <= budget keys per tx)
                              AssocTx*  (updateContainersInterruptable(migrateAssociatedObjectValueToIDBytes))
                              Finish    (one tx: resync counters, version 11)
     db.initCtx:              Cancel  - observed ONLY at the top of the loop of updateContainersInterruptable,
                                        i.e. before every HomoTx / AssocTx, never before Mig9 / Finish
                              Fail    - Init returns the context's cause; the process closes the database
     process death:           Crash   - the file keeps the last committed transaction (bbolt atomicity)
     Containers.Exists:       Gone(c) - the container source stops reporting c (monotone)

   Persistent state (the file): version, old counter keys (format 9), per container: number of remaining
   homomorphic-hash index keys in both directions, per association (object with __NEOFS__ASSOCIATE, i.e.
   every TOMBSTONE and LOCK) the set of formats in which its attr->id key and its id->attr key are present
   ("old" = base58 string value, "new" = raw 32-byte id), whether the counters differ from a recount.
   Volatile state (the process): pc, cancelled, and the resume cursor (fromBkt, afterObj) of
   updateContainersInterruptable, which lives in local variables and is LOST on restart.

   Associations of a container are numbered 1..nA[c] in the byte order of their OLD attr->id keys (the
   order in which the bucket cursor meets them); the key of association a is at position 2a, so that
   "Seek(afterObj), skip if equal" = "positions > afterObj". New-format keys met by the scan are skipped
   without consuming budget (oid.DecodeBytes succeeds): in the model the candidates are the old-format keys
   only.  Every other key of the database is untouched by every action (frame condition, variable other).

   Deviation switch BugCursorLeak (TRUE = code as it is): iterateContainerBuckets does not reset afterObj
   when it skips a bucket whose container no longer exists.  If the container of the cursor bucket is
   removed between two transactions of the association pass, the cursor key of THAT bucket is applied to
   the next bucket and every old-format key of the next bucket that sorts before it is never migrated,
   although the version becomes 11.  The position of a foreign key inside another bucket's key space is
   not modelled: it is any position p (parameter of AssocTx).  FALSE = repaired (afterObj = nil on skip). *)
EXTENDS Integers, Sequences, FiniteSets, TLC

CONSTANTS
  Worlds,          \* set of initial worlds: [nc, nA, nH, budget, ver0, drift, gone0]
  BugCursorLeak,   \* deviation switch, see above
  MaxInt           \* number of interrupts (Cancel, Crash, Open with a cancelled context) - finitely many

VARIABLES
  w,                                               \* the world (never changes)
  ver, oldCtr, drift, hAI, hIA, aAI, aIA, other,   \* the file
  gone,                                            \* the container source
  pc, cancelled, fromBkt, afterObj,                \* the process
  ints, leaked                                     \* bookkeeping: interrupts used; the leak branch was taken

vars == <<w, ver, oldCtr, drift, hAI, hIA, aAI, aIA, other, gone, pc, cancelled, fromBkt, afterObj, ints, leaked>>
file == <<ver, oldCtr, drift, hAI, hIA, aAI, aIA, other>>

Cnrs == 1..w.nc
Assocs(c) == 1..w.nA[c]
Min(a, b) == IF a < b THEN a ELSE b
Max(a, b) == IF a > b THEN a ELSE b
MaxPos == 2 * (IF w.nc = 0 THEN 0 ELSE CHOOSE m \in {w.nA[c] : c \in Cnrs} : \A c \in Cnrs : w.nA[c] <= m) + 1

(* Where a foreign cursor key (of the removed container fromBkt) may fall among the keys of the bucket it
   leaks to = the first bucket after fromBkt whose container still exists: before key 1, or right after key a. *)
LeakTarget == LET cs == {c \in Cnrs : c > fromBkt /\ c \notin gone}
              IN IF cs = {} THEN 0 ELSE CHOOSE c \in cs : \A d \in cs : c <= d
LeakPos == IF LeakTarget = 0 THEN {0} ELSE {2 * a : a \in 0..w.nA[LeakTarget]}

InitWorld(ww) ==
  /\ w = ww
  /\ ver = ww.ver0
  /\ oldCtr = (ww.ver0 = 9)
  /\ drift = ww.drift
  /\ hAI = ww.nH /\ hIA = ww.nH
  /\ aAI = [c \in 1..ww.nc |-> [a \in 1..ww.nA[c] |-> {"old"}]]
  /\ aIA = [c \in 1..ww.nc |-> [a \in 1..ww.nA[c] |-> {"old"}]]
  /\ other = TRUE
  /\ gone = ww.gone0
  /\ pc = "closed" /\ cancelled = FALSE /\ fromBkt = 0 /\ afterObj = 0
  /\ ints = 0 /\ leaked = FALSE

Init == \E ww \in Worlds : InitWorld(ww)

-----------------------------------------------------------------------------
(* iterateContainerBuckets + dropHomomorphicIndexes: one transaction.  h = remaining attr->id keys. *)
RECURSIVE HomoWalk(_, _, _)
HomoWalk(c, rem, h) ==
  IF c > w.nc THEN [name |-> 0, h |-> h]
  ELSE IF c \in gone THEN HomoWalk(c + 1, rem, h)                       \* "container no longer exists, ignoring"
  ELSE LET k == Min(rem, h[c]) IN
       IF k = rem THEN [name |-> c, h |-> [h EXCEPT ![c] = @ - k]]      \* done == rem: break
       ELSE HomoWalk(c + 1, rem - k, [h EXCEPT ![c] = @ - k])

(* iterateContainerBuckets + migrateAssociatedObjectValueToIDBytes: one transaction. *)
OldAfter(c, ai, after) ==
  LET T(a) == "old" \in ai[c][a] /\ 2 * a > after
  IN SelectSeq([i \in 1..w.nA[c] |-> i], T)

RECURSIVE AssocWalk(_, _, _, _, _)
AssocWalk(c, rem, after, ai, ia) ==
  IF c > w.nc THEN [name |-> 0, after |-> 0, ai |-> ai, ia |-> ia]
  ELSE IF c \in gone THEN AssocWalk(c + 1, rem, after, ai, ia)          \* skip; 'after' is what the caller decided
  ELSE LET cand == TLCEval(OldAfter(c, ai, after))   \* TLCEval: evaluate once (thousands of keys in recorded runs)
           k == Min(rem, Len(cand))
           last == IF k = 0 THEN 0 ELSE cand[k]
           InBatch(a) == a <= last /\ 2 * a > after /\ "old" \in ai[c][a]       \* the first k candidates
           Mig(f) == [a \in 1..w.nA[c] |-> IF InBatch(a) THEN (f[a] \ {"old"}) \cup {"new"} ELSE f[a]]
           ai2 == TLCEval([ai EXCEPT ![c] = Mig(@)])
           ia2 == TLCEval([ia EXCEPT ![c] = Mig(@)])
       IN IF k = rem THEN [name |-> c, after |-> 2 * last, ai |-> ai2, ia |-> ia2]      \* scanned == rem: break
          ELSE AssocWalk(c + 1, rem - k, 0, ai2, ia2)                                  \* nextKey = nil

-----------------------------------------------------------------------------
Running == pc \in {"mig9", "homo", "assoc", "finish"}

Open(cc) ==
  /\ pc = "closed"
  /\ cc => ints < MaxInt
  /\ ints' = IF cc THEN ints + 1 ELSE ints
  /\ cancelled' = cc /\ fromBkt' = 0 /\ afterObj' = 0
  /\ pc' = CASE ver = 11 -> "ready" [] ver = 9 -> "mig9" [] OTHER -> "homo"
  /\ UNCHANGED <<w, file, gone, leaked>>

Mig9 ==
  /\ pc = "mig9"
  /\ ver' = 10 /\ oldCtr' = FALSE /\ drift' = [c \in Cnrs |-> FALSE]
  /\ pc' = "homo"
  /\ UNCHANGED <<w, hAI, hIA, aAI, aIA, other, gone, cancelled, fromBkt, afterObj, ints, leaked>>

HomoTx ==
  /\ pc = "homo" /\ ~cancelled
  /\ LET r == HomoWalk(IF fromBkt = 0 THEN 1 ELSE fromBkt, w.budget, hAI) IN
       /\ hAI' = r.h
       /\ hIA' = [c \in Cnrs |-> Max(0, hIA[c] - (hAI[c] - r.h[c]))]
       /\ fromBkt' = r.name
       /\ pc' = IF r.name = 0 THEN "assoc" ELSE "homo"
  /\ afterObj' = 0
  /\ UNCHANGED <<w, ver, oldCtr, drift, aAI, aIA, other, gone, cancelled, ints, leaked>>

AssocTx(p) ==
  /\ pc = "assoc" /\ ~cancelled
  /\ LET leak == fromBkt # 0 /\ fromBkt \in gone /\ afterObj # 0
         after0 == IF leak THEN (IF BugCursorLeak THEN p ELSE 0) ELSE afterObj
     IN /\ p \in (IF leak /\ BugCursorLeak THEN LeakPos ELSE {0})
        /\ \E r \in {AssocWalk(IF fromBkt = 0 THEN 1 ELSE fromBkt, w.budget, after0, aAI, aIA)} :   \* (evaluated once)
             /\ aAI' = r.ai /\ aIA' = r.ia
             /\ fromBkt' = r.name /\ afterObj' = r.after
             /\ pc' = IF r.name = 0 THEN "finish" ELSE "assoc"
        /\ leaked' = (leaked \/ (leak /\ BugCursorLeak /\ LeakTarget # 0 /\     \* keys of the next bucket were skipped
                                  \E a \in Assocs(LeakTarget) : "old" \in aAI[LeakTarget][a] /\ 2 * a <= p))
  /\ UNCHANGED <<w, ver, oldCtr, drift, hAI, hIA, other, gone, cancelled, ints>>

Finish ==
  /\ pc = "finish"
  /\ ver' = 11 /\ drift' = [c \in Cnrs |-> FALSE]
  /\ pc' = "ready"
  /\ UNCHANGED <<w, oldCtr, hAI, hIA, aAI, aIA, other, gone, cancelled, fromBkt, afterObj, ints, leaked>>

Cancel ==
  /\ Running /\ ~cancelled /\ ints < MaxInt
  /\ cancelled' = TRUE /\ ints' = ints + 1
  /\ UNCHANGED <<w, file, gone, pc, fromBkt, afterObj, leaked>>

Fail ==
  /\ pc \in {"homo", "assoc"} /\ cancelled
  /\ pc' = "closed"
  /\ UNCHANGED <<w, file, gone, cancelled, fromBkt, afterObj, ints, leaked>>

Crash ==
  /\ Running /\ ints < MaxInt
  /\ pc' = "closed" /\ ints' = ints + 1
  /\ UNCHANGED <<w, file, gone, cancelled, fromBkt, afterObj, leaked>>

Gone(c) ==
  /\ c \in Cnrs \ gone
  /\ gone' = gone \cup {c}
  /\ UNCHANGED <<w, file, pc, cancelled, fromBkt, afterObj, ints, leaked>>

Close ==
  /\ pc = "ready"
  /\ pc' = "closed"
  /\ UNCHANGED <<w, file, gone, cancelled, fromBkt, afterObj, ints, leaked>>

(* Event dispatcher (generation of schedules and validation of recorded runs). *)
Step(e) ==
  CASE e.ev = "Open"   -> Open(e.cc)
    [] e.ev = "Mig9"   -> Mig9
    [] e.ev = "Tx"     -> (HomoTx \/ \E p \in LeakPos : AssocTx(p))
    [] e.ev = "Finish" -> Finish
    [] e.ev = "Cancel" -> Cancel
    [] e.ev = "Fail"   -> Fail
    [] e.ev = "Crash"  -> Crash
    [] e.ev = "Gone"   -> Gone(e.c)
    [] e.ev = "Close"  -> Close
    [] OTHER           -> FALSE

Progress == Open(FALSE) \/ Mig9 \/ HomoTx \/ (\E p \in LeakPos : AssocTx(p)) \/ Fail \/ Finish

Next ==
  \/ Progress \/ Open(TRUE) \/ Cancel \/ Crash \/ Close
  \/ \E c \in Cnrs : Gone(c)

Spec == Init /\ [][Next]_vars /\ WF_vars(Progress)

-----------------------------------------------------------------------------
(* The property. *)
TypeOK ==
  /\ ver \in {9, 10, 11} /\ oldCtr \in BOOLEAN /\ other \in BOOLEAN
  /\ pc \in {"closed", "mig9", "homo", "assoc", "finish", "ready"}
  /\ fromBkt \in 0..w.nc /\ afterObj \in 0..MaxPos /\ gone \subseteq Cnrs
  /\ \A c \in Cnrs : hAI[c] \in 0..w.nH[c] /\ hIA[c] \in 0..w.nH[c] /\ drift[c] \in BOOLEAN
  /\ \A c \in Cnrs : \A a \in Assocs(c) : aAI[c][a] \subseteq {"old", "new"} /\ aIA[c][a] \subseteq {"old", "new"}

(* Nothing is ever lost or duplicated, whatever the interrupt schedule: at EVERY state (in particular at
   every state in which the process may die) every association is present in exactly one format, the same
   in both key directions; the two directions of the homomorphic index go together. *)
ExactlyOneFormat ==
  \A c \in Cnrs : \A a \in Assocs(c) : aAI[c][a] = aIA[c][a] /\ Cardinality(aAI[c][a]) = 1
HomoPaired == \A c \in Cnrs : hAI[c] = hIA[c]
OtherUntouched == other

(* What a reader of format v finds: the old code looks associations up by base58 string, the new one by raw id. *)
Visible(v, c) == {a \in Assocs(c) : (IF v = 11 THEN "new" ELSE "old") \in aAI[c][a] /\ (IF v = 11 THEN "new" ELSE "old") \in aIA[c][a]}
Migrated(c) == Visible(11, c) = Assocs(c) /\ hAI[c] = 0 /\ hIA[c] = 0

(* After the upgrade the derived lookups (who is tombstoned / locked by whom) equal the pre-upgrade ones
   (before: every association visible to the old reader) for every container that still exists; counters
   are the recount everywhere; the old counter keys are gone. *)
Upgraded ==
  ver = 11 => /\ ~oldCtr
              /\ \A c \in Cnrs : ~drift[c]
              /\ \A c \in Cnrs \ gone : Migrated(c)
(* Before the upgrade completes an old reader still finds everything that has not been migrated yet and
   a container skipped because it is gone keeps its entries as they were. *)
ReadyIsCurrent == pc = "ready" => ver = 11
VersionMonotone == [][ver' >= ver]_vars
(* Every schedule with finitely many interrupts reaches the current version. *)
Termination == <>(ver = 11)
=============================================================================
