SPECIFICATION MCSpec
CONSTANTS
  KB = 256
  KN = 32
  MaxDigits <- MaxDigitsMC
  BugPlusAfterSign = TRUE
  BugMergeNoRange = TRUE
  BugPrimMulti = TRUE
  BugSplitIDAbsent = TRUE
  BugB58Prefix = TRUE
  Profile = "multi"
  NMax = 2
  Big = FALSE
INVARIANTS PagesAreExpected RefIsSound
CHECK_DEADLOCK FALSE
