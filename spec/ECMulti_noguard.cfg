SPECIFICATION Spec
CONSTANTS
  MRules <- RulesSmall
  MaxRuleSeq = 2
  MaxLen = 3
  PoolCap = 5
  CapMode = "pool"
INVARIANTS NoCrossCorruption PayloadIntact StillDecodable
CHECK_DEADLOCK FALSE
