SPECIFICATION GenSpec
CONSTANTS
  MaxEpoch = 9
  NSenders = 2
  RSigs = {"ok", "bad"}
  RSchemes = {"sha512", "rfc6979", "n3"}
  RObjs = {"valid", "badheader"}
  RCnrs = {"known"}
  GenLen = 9
  GenServer = {TRUE, FALSE}
INVARIANTS Emit
CHECK_DEADLOCK FALSE
