SPECIFICATION TraceSpecAdm
CONSTANTS
  MaxEpoch = 1
INVARIANTS RecProp RecCode
CHECK_DEADLOCK FALSE
