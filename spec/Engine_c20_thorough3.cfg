\* C20 thorough: 3 shards, one object and its tombstone
SPECIFICATION Spec
CONSTANTS
  NS = 3
  MaxEpoch = 1
  BugH6 = TRUE
  CatSet = "c20s"
  Ops = {"Put", "Bcast", "Delete", "Drop", "GC", "SetMode", "FailGet"}
  Modes = {"rw", "ro", "dro"}
  HealthyLock = FALSE
  MaxInFlight = 1
  Scenario = "none"
INVARIANTS TypeOK C20Classified
VIEW ViewNoRes
CHECK_DEADLOCK FALSE
