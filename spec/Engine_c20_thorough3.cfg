\* C20 thorough: 3 shards, object + tombstone
SPECIFICATION Spec
CONSTANTS
  NS = 3
  MaxEpoch = 1
  BugH6 = TRUE
  CatSet = "c20s"
  Ops = {"Put", "Bcast", "Delete", "GC", "SetMode", "FailGet"}
  Modes = {"rw", "dro"}
  HealthyLock = FALSE
  MaxInFlight = 1
  Scenario = "none"
INVARIANTS TypeOK C20Classified
VIEW ViewNoRes
CHECK_DEADLOCK FALSE
