----------------------------- MODULE NetmapGen -----------------------------
(* Behaviour generator for M->C replay of C38 epoch histories: Netmap + the history of events. *)
EXTENDS Netmap, Json
CONSTANT GenLen
VARIABLE hist
GenInit == InitTick /\ hist = <<[ev |-> "Init", e |-> counter, a |-> alpha]>>
GenNext == (\E e \in TickEvents : Step(e) /\ hist' = Append(hist, e)) /\ UNCHANGED <<ain, aout>>
GenSpec == GenInit /\ [][GenNext]_<<vars, hist>>
Emit == Len(hist) = GenLen => PrintT(<<"BEH", ToJson([steps |-> hist])>>)
=============================================================================
