SPECIFICATION GenSpec
CONSTANTS
  MaxT = 3
  MaxE = 3
  GenLen = 10
INVARIANTS Emit
CHECK_DEADLOCK FALSE
