SPECIFICATION GenSpec
CONSTANTS
  BufN = 8
  Pref = 3
  NA = 4
  VLen <- VLenScaled4
  Thrs = {12}
  CountLimits = {3}
  Writers = {"linux"}
  MaxItems = 3
  ZMems <- ZMemsScaled
  UZ = 20
  Chunk = 2
  BugPrefixEOF = FALSE
  BugRefill = FALSE
  BugExactLimit = FALSE
  GenLen = 24
INVARIANTS Emit
CHECK_DEADLOCK FALSE
