----------------------------- MODULE FSTreeSysMC -----------------------------
(* Model-run instantiations of FSTreeSys.tla: programs of the writer threads. *)
EXTENDS FSTreeSys
P(k, as) == [k |-> k, as |-> as]
SizeU == <<1, 2, 2, 1>>
\* A Delete never races with a Put of the same address in another thread: the monitor `acked` (an
\* acknowledged Put stays readable) is only meaningful for addresses nobody is deleting concurrently.
\* C12 (crash at any point, no faults): two writers
ProgsCrash ==
  { << <<P("putc", <<1>>), P("del", <<1>>)>>,            <<P("putc", <<2>>), P("putc", <<3>>)>> >>,
    << <<P("putc", <<1>>), P("putc", <<2>>)>>,           <<P("putc", <<1>>), P("putf", <<4>>)>> >>,
    << <<P("batch", <<1, 2, 3>>), P("del", <<2>>)>>,     <<P("putf", <<3>>), P("putf", <<4>>)>> >>,
    << <<P("putg", <<1>>), P("putg", <<3>>), P("del", <<3>>)>>,  <<P("putg", <<1>>), P("putg", <<2>>)>> >>,
    << <<P("putc", <<1>>), P("putf", <<2>>)>>,           <<P("batch", <<2, 1>>)>> >> }
\* C12 with a restart and a retry of every Put after the crash (quick: generic writer leftovers + one linux program)
ProgsRetry ==
  { << <<P("putg", <<1>>), P("putg", <<3>>), P("del", <<3>>)>>,  <<P("putg", <<1>>), P("putg", <<2>>)>> >>,
    << <<P("putf", <<1>>)>>,           <<P("batch", <<2, 1>>)>> >> }
\* C13 (failing calls): combined writes crossing the count / size limit, batch, file, generic, delete
ProgsFaultC ==
  { << <<P("putc", <<1>>), P("putc", <<3>>)>>, <<P("putc", <<2>>)>> >>,
    << <<P("putc", <<2>>)>>, <<P("putc", <<3>>), P("putc", <<1>>)>> >> }
ProgsFaultC3 ==
  { << <<P("putc", <<1>>)>>, <<P("putc", <<2>>)>>, <<P("putc", <<3>>)>> >> }
ProgsFaultO ==
  { << <<P("batch", <<1, 2>>), P("putf", <<3>>)>>, <<P("putf", <<4>>), P("del", <<4>>)>> >>,
    << <<P("putg", <<1>>), P("putg", <<2>>)>>, <<P("putg", <<1>>), P("putg", <<3>>), P("del", <<3>>)>> >> }
=============================================================================
