SPECIFICATION Spec
CONSTANTS
  Worlds <- MCWorlds
  BugCursorLeak = FALSE
  MaxInt = 3
  MaxNC = 2
  MaxA = 3
  MaxH = 2
  Budgets = {1, 2, 3}
INVARIANTS TypeOK ExactlyOneFormat HomoPaired OtherUntouched Upgraded ReadyIsCurrent
