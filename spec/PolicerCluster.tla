--------------------------- MODULE PolicerCluster ---------------------------
(* C27 - repeated policer cycles restore the required replicas.

   A cluster of nodes 1..N, one object (objects are independent), a policy of one or more REP rules
   (`rules`: sequence of [nodes |-> container nodes sorted for the object, n |-> copies]; lists may overlap and
   need not contain all nodes: a node outside every list may still hold a copy). `holders` = nodes that store the object. One action = one policy check of the object by one
   of its holders: exactly the decision function F of Policer.tla (module extended here, so the C27 model and
   the C26 model cannot drift apart), evaluated with the answers the other nodes would give right now:
   "has" for a holder, 404 + successful replication for a reachable non-holder, unreachable for a node in
   `down`, 404 + refused replication for a node in `refuse`. The result moves replicas: holders' = (holders + nodes that stored) - (the node itself if it
   removed its copy).  Replication inside a check is synchronous in the code (HandleTask runs in the calling
   goroutine), so a check is one step; checks of different nodes interleave arbitrarily.

   Liveness (stable netmap, all nodes reachable, weak fairness on every node's check):
       <>[] Converged,   Converged == primaries hold the object /\ no holder's check issues a replication task.
   Bounded form used on the real code: nodes check in rounds (every holder once per round, any order); after
   MaxRounds rounds every initial distribution is converged (invariant ConvergedInTime, found by TLC).
   Safety of the replicator: reported successes <= requested, only for nodes that stored (TaskOK).       *)
EXTENDS Policer

CONSTANTS N,          \* cluster size
          Reps,       \* REP values explored
          RuleCounts, \* numbers of REP rules explored, e.g. {1} or {2}
          ListLens,   \* lengths of node lists explored
          MaxRounds   \* bound of the bounded-convergence invariant

Cluster == 1..N
\* the decision function is written for the local node `Local`: rename node n <-> Local
Swap(n, x) == IF x = n THEN Local ELSE IF x = Local THEN n ELSE x

VARIABLES rules,            \* the policy (constant during a behaviour)
          holders,          \* who stores the object
          ran, round,       \* round bookkeeping for the bounded form
          last              \* observation of the last check: [node, down, del, tasks, stored]
cvars == <<rules, holders, ran, round, last>>

Scn(n, hs, down, refuse) ==
  [typ |-> "REG",
   rep |-> [kx \in 1..Len(rules) |-> [nodes |-> [ix \in 1..Len(rules[kx].nodes) |-> Swap(n, rules[kx].nodes[ix])],
                                      n |-> rules[kx].n]],
   ec |-> <<>>,
   attr |-> "none", part |-> [rule |-> 0, idx |-> 0], neterr |-> "none", inNetmap |-> "y", shards |-> 1,
   nm |-> [x \in Nodes |-> "n"],
   ans |-> [x \in Nodes |-> IF Swap(n, x) \in down THEN "err" ELSE IF Swap(n, x) \in hs THEN "has"
                            ELSE IF Swap(n, x) \in refuse THEN "nfFail" ELSE "nfOk"]]

MapSeq(n, q) == [ix \in 1..Len(q) |-> Swap(n, q[ix])]
\* decision of node n, node names translated back
Decide27(n, hs, down, refuse) ==
  LET f == F(Scn(n, hs, down, refuse), FALSE) IN
  [node |-> n, down |-> down, del |-> f.del,
   tasks |-> [k \in 1..Len(f.tasks) |-> [q |-> f.tasks[k].q, nodes |-> MapSeq(n, f.tasks[k].nodes), ok |-> MapSeq(n, f.tasks[k].ok)]],
   stored |-> {Swap(n, x) : x \in f.stored}]
After(hs, d) == (hs \cup d.stored) \ (IF d.del # "none" THEN {d.node} ELSE {})

\* one policy check by holder n while the nodes in down are unreachable and the nodes in refuse answer HEAD but
\* do not accept replicas
Check(n, down, refuse) ==
  /\ n \in holders /\ n \notin down
  /\ LET d == Decide27(n, holders, down, refuse) IN
       /\ last' = d
       /\ holders' = After(holders, d)
  /\ UNCHANGED rules

\* unordered checks (liveness) ...
Run(n) == Check(n, {}, {}) /\ UNCHANGED <<ran, round>>
\* ... and the round discipline of the bounded form: every current holder checks once per round
RoundRun(n) == /\ n \notin ran
               /\ round <= MaxRounds               \* (bounds the counter; one more round is watched)
               /\ Check(n, {}, {})
               /\ LET ran1 == ran \cup {n} IN
                  IF holders' \subseteq ran1 THEN ran' = {} /\ round' = round + 1
                                            ELSE ran' = ran1 /\ UNCHANGED round

CLists == {q \in DistinctSeqs(Cluster, N) : Len(q) \in ListLens}
CRules == UNION {{[nodes |-> q, n |-> n] : n \in {x \in Reps : x <= Len(q)}} : q \in CLists}
NoLast == [node |-> 0, down |-> {}, del |-> "none", tasks |-> <<>>, stored |-> {}]
CInit == /\ rules \in UNION {[1..m -> CRules] : m \in RuleCounts}
         /\ holders \in (SUBSET Cluster) \ {{}}
         /\ ran = {} /\ round = 0 /\ last = NoLast
         /\ s = 0 /\ pc = "cluster" /\ r = 0 /\ i = 0 /\ c = 0 /\ e = 0 /\ out = 0

\* a replication task that carries the object (post-placement replication, re-created EC part): the replicator of
\* node n works through `nodes` in order until q of them stored; the local node stores directly
RECURSIVE ReplT(_, _, _, _, _, _)
ReplT(n, nodes, j, q, bad, acc) ==
  IF j > Len(nodes) \/ q = 0 THEN acc
  ELSE IF nodes[j] = n \/ nodes[j] \notin bad THEN ReplT(n, nodes, j + 1, q - 1, bad, Append(acc, nodes[j]))
  ELSE ReplT(n, nodes, j + 1, q, bad, acc)
PutTask(n, nodes, q, down, refuse) ==
  /\ n \notin down
  /\ LET ok == ReplT(n, nodes, 1, q, down \cup refuse, <<>>) IN
       /\ last' = [node |-> n, down |-> down, del |-> "none", tasks |-> <<[q |-> q, nodes |-> nodes, ok |-> ok]>>,
                   stored |-> Range(ok)]
       /\ holders' = holders \cup Range(ok)
  /\ UNCHANGED rules

Live == CInit /\ [][\E n \in Cluster : Run(n) /\ UNCHANGED vars]_<<cvars, vars>>
             /\ \A n \in Cluster : WF_<<cvars, vars>>(Run(n) /\ UNCHANGED vars)
Rounds == CInit /\ [][\E n \in Cluster : RoundRun(n) /\ UNCHANGED vars]_<<cvars, vars>>

-----------------------------------------------------------------------------
Primaries == UNION {{rules[kx].nodes[j] : j \in 1..rules[kx].n} : kx \in 1..Len(rules)}
\* a check "replicates" when it hands the replicator a task with at least one candidate node. (With overlapping
\* rules the code as found keeps calling the replicator with an EMPTY candidate list: a holder remembered from
\* an earlier rule does not lower the shortage of a later rule - a phantom shortage that copies nothing.)
Replicates(d) == \E k \in 1..Len(d.tasks) : Len(d.tasks[k].nodes) > 0
Quiet(hs) == \A n \in hs : LET d == Decide27(n, hs, {}, {}) IN ~Replicates(d) /\ d.del = "none"
NoTasks(hs) == \A n \in hs : ~Replicates(Decide27(n, hs, {}, {}))
Converged == Primaries \subseteq holders /\ NoTasks(holders)

\* C27, temporal form
EventuallyConvergedForever == <>[]Converged
\* C27, bounded form
ConvergedInTime == round >= MaxRounds => Converged /\ Quiet(holders)
\* copies are never lost altogether by policing alone
NeverEmpty == holders # {}
\* replicator accounting as seen in the last check
TaskOK == \A k \in 1..Len(last.tasks) :
            /\ Len(last.tasks[k].ok) <= last.tasks[k].q
            /\ Range(last.tasks[k].ok) \subseteq Range(last.tasks[k].nodes)
            /\ Range(last.tasks[k].ok) \subseteq last.stored
=============================================================================
