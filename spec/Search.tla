------------------------------- MODULE Search -------------------------------
(* C03 / C04 - object search over the metadata indexes.

   pkg/core/object/metadata.go        PreprocessSearchQuery, MetaDataKVHandler, MergeSearchResults, CalculateCursor
   pkg/local_object_storage/metabase  DB.Search = searchTx / searchUnfiltered over the bbolt meta bucket
   pkg/local_object_storage/engine    StorageEngine.Search (merge over shards)

   Values are sequences of byte codes; every attribute of an object has an index form `db` (binary for owner,
   checksum, split ID, parent, first, associate; the string itself otherwise) and an API form `str`.
   Objects: [id, avail, attrs : Seq([k, db, str])], id = rank of the OID in byte order.
   Filters: [k, op, val, hasbin, bin, primok, primdb, nonattr, b58]
     op in EQ NE PREFIX NOT_PRESENT GT GE LT LE FLAG ; hasbin/bin: the value read as a typed value (full-length
     Base58 / hex / UUID); primdb: bytes PreprocessSearchQuery puts into the seek key; primok: those exist;
     b58: the attribute is shown in Base58 (owner, parent, first, associate); nonattr: "$Object:..." property.

   REFERENCE (declarative, the property): Matches, Expected, ItemVals, RefPages.
   IMPLEMENTATION-SHAPED: Index, SeekPos, PrimEval, ScanPage, ImplPages - one page = one bbolt View
   transaction walking the primary index with the early-stop rules of MetaDataKVHandler.
   SearchMC.tla lets TLC compare both on all small corpora/queries; TraceSearch.tla validates real pages.

   Deviation switches (TRUE = code as found):
     BugPrimMulti      second and further filters on the primary attribute are evaluated inside the index walk:
                       a mismatch stops the walk (although the matching range may start later) and numeric/string
                       matchers are applied to index bytes of the other kind.
     BugB58Prefix      COMMON_PREFIX on a Base58-shown primary attribute: the seek key is the Base58-DECODED
                       prefix (a small number, not a byte prefix of the stored IDs) and the walk stops at the
                       first entry that does not match, so matching objects further on are never reached.
     BugSplitIDAbsent  a requested (non-primary) "$Object:split.splitID" attribute of a matching object that has
                       no split ID makes the whole search fail instead of returning an empty value.           *)
EXTENDS IntStr, FiniteSets, TLC

CONSTANTS BugPrimMulti, BugSplitIDAbsent, BugB58Prefix

FlagAttrs == {"$Object:ROOT", "$Object:PHY"}
SplitIDAttr == "$Object:split.splitID"
NumOps == {"GT", "GE", "LT", "LE"}

IsPrefixSeq(p, s) == Len(p) <= Len(s) /\ SubSeq(s, 1, Len(p)) = p
EffOp(f) == IF f.k \in FlagAttrs THEN "EQ" ELSE f.op             \* convertFilterValue
EffVal(f) == IF f.k \in FlagAttrs THEN <<49>> ELSE f.val
CmpOp(op, c) == CASE op = "GT" -> c > 0 [] op = "GE" -> c >= 0 [] op = "LT" -> c < 0 [] op = "LE" -> c <= 0

HasAttr(o, k) == \E i \in 1..Len(o.attrs) : o.attrs[i].k = k
AttrOf(o, k) == o.attrs[CHOOSE i \in 1..Len(o.attrs) : o.attrs[i].k = k]

\* "a value counts as an integer only if it is an optionally signed decimal number" (in range); the reader that
\* decides it for stored values is signed256.ParseDecimal (IntStr!ImplParseDecimal carries its deviation switch)
\* impl = TRUE: as the code reads it; impl = FALSE: the reference rule (IntStr!IsInt / Norm)
ValIsInt(v, impl) == IF impl THEN ImplParseDecimal(v).ok ELSE IsInt(v)
ValNum(v, impl) == IF impl THEN Val(ImplParseDecimal(v)) ELSE Norm(v)
FltNum(f) == Val(ImplFilterValue(f.val))

-----------------------------------------------------------------------------
(* REFERENCE *)
MatchStr(at, f) ==
  LET l == IF f.hasbin THEN at.db ELSE at.str
      r == IF f.hasbin THEN f.bin ELSE EffVal(f)
      op == EffOp(f)
  IN CASE op = "EQ" -> l = r
       [] op = "NE" -> l # r
       [] op = "PREFIX" -> IsPrefixSeq(r, l)
       [] OTHER -> FALSE
MatchNum(at, f, impl) == ValIsInt(at.db, impl) /\ CmpOp(f.op, CmpNum(ValNum(at.db, impl), FltNum(f)))
Matches(o, f, impl) ==
  IF EffOp(f) = "NOT_PRESENT" THEN ~HasAttr(o, f.k)
  ELSE HasAttr(o, f.k) /\ (IF f.op \in NumOps THEN MatchNum(AttrOf(o, f.k), f, impl) ELSE MatchStr(AttrOf(o, f.k), f))

NumInvalid(q) == \E i \in 1..Len(q.fs) : q.fs[i].op \in NumOps /\ ~ImplFilterValue(q.fs[i].val).ok
\* absence of a "$Object:" property never matches (blindlyProcess)
Unreachable(q) == \E i \in 1..Len(q.fs) : q.fs[i].op = "NOT_PRESENT" /\ q.fs[i].nonattr
OidSorted(q) == Len(q.attrs) = 0 \/ Len(q.fs) = 0 \/ EffOp(q.fs[1]) = "NOT_PRESENT"
IntSorted(q) == ~OidSorted(q) /\ q.fs[1].op \in NumOps
\* the seek key of a typed primary attribute cannot be built from an undecodable value: the query is rejected
PrimUndecodable(q) == ~OidSorted(q) /\ EffOp(q.fs[1]) \in {"EQ", "PREFIX"} /\ ~q.fs[1].primok

MatchAll(o, q) == o.avail /\ \A i \in 1..Len(q.fs) : Matches(o, q.fs[i], FALSE)
Hits(C, q) == IF Unreachable(q) THEN {} ELSE {o \in C : MatchAll(o, q)}

\* order: first requested attribute in index order (numeric for numeric primary matchers), then OID
Before(o1, o2, q) ==
  IF OidSorted(q) THEN o1.id < o2.id
  ELSE LET c == IF IntSorted(q) THEN CmpNum(ValNum(AttrOf(o1, q.attrs[1]).db, FALSE), ValNum(AttrOf(o2, q.attrs[1]).db, FALSE))
                ELSE BytesCmp(AttrOf(o1, q.attrs[1]).db, AttrOf(o2, q.attrs[1]).db)
       IN c < 0 \/ (c = 0 /\ o1.id < o2.id)
SortBy(S, q) == [i \in 1..Cardinality(S) |-> CHOOSE o \in S : Cardinality({p \in S : Before(p, o, q)}) = i - 1]

ItemVals(o, q, impl) ==
  [i \in 1..Len(q.attrs) |->
     IF ~HasAttr(o, q.attrs[i]) THEN <<>>
     ELSE IF i = 1 /\ IntSorted(q) THEN PrintNum(ValNum(AttrOf(o, q.attrs[1]).db, impl))   \* canonical decimal
     ELSE AttrOf(o, q.attrs[i]).str]
Item(o, q, impl) == [id |-> o.id, vals |-> ItemVals(o, q, impl)]
Expected(C, q) == LET srt == SortBy(Hits(C, q), q) IN [i \in 1..Len(srt) |-> Item(srt[i], q, FALSE)]

Min2(x, y) == IF x < y THEN x ELSE y
\* pages of size n over a result list: sequence of item sequences (at least one, possibly empty, page)
RECURSIVE Chop(_, _)
Chop(lst, n) == IF Len(lst) <= n THEN <<lst>> ELSE <<SubSeq(lst, 1, n)>> \o Chop(SubSeq(lst, n + 1, Len(lst)), n)

-----------------------------------------------------------------------------
(* IMPLEMENTATION-SHAPED *)
\* attribute -> ID index of attribute k: every stored object having k (available or not); the numeric index
\* holds the objects whose value parses as an integer. Sorted as the bbolt keys attr 0x00 VAL [0x00] OID.
IdxSet(C, k, int) == {o \in C : HasAttr(o, k) /\ (~int \/ ValIsInt(AttrOf(o, k).db, TRUE))}
IdxBefore(o1, o2, k, int) ==
  LET c == IF int THEN CmpNum(ValNum(AttrOf(o1, k).db, TRUE), ValNum(AttrOf(o2, k).db, TRUE))
           ELSE BytesCmp(AttrOf(o1, k).db, AttrOf(o2, k).db)
  IN c < 0 \/ (c = 0 /\ o1.id < o2.id)
Index(C, k, int) == LET S == IdxSet(C, k, int)
                    IN [i \in 1..Cardinality(S) |-> CHOOSE o \in S : Cardinality({p \in S : IdxBefore(p, o, k, int)}) = i - 1]
IdIndex(C) == [i \in 1..Cardinality(C) |-> CHOOSE o \in C : Cardinality({p \in C : p.id < o.id}) = i - 1]

AutoMatch(f) == LET v == FltNum(f) IN v.mag = MaxDigits /\ ((f.op = "LE" /\ ~v.neg) \/ (f.op = "GE" /\ v.neg))
NumUnreachable(q) == \E i \in 1..Len(q.fs) : q.fs[i].op \in NumOps /\
                        LET v == FltNum(q.fs[i]) IN v.mag = MaxDigits /\ ((q.fs[i].op = "GT" /\ ~v.neg) \/ (q.fs[i].op = "LT" /\ v.neg))

\* position of the first index entry at or after the seek key built by PreprocessSearchQuery (no cursor)
RECURSIVE FirstGEBytes(_, _, _, _)
FirstGEBytes(idx, i, k, seek) ==                                    \* key = VAL 0x00 OID against the seek bytes
  IF i > Len(idx) THEN i
  ELSE IF BytesCmp(AttrOf(idx[i], k).db \o <<0>>, seek) >= 0 THEN i
  ELSE FirstGEBytes(idx, i + 1, k, seek)
RECURSIVE FirstGENum(_, _, _, _)
FirstGENum(idx, i, k, v) ==
  IF i > Len(idx) THEN i
  ELSE IF CmpNum(ValNum(AttrOf(idx[i], k).db, TRUE), v) >= 0 THEN i
  ELSE FirstGENum(idx, i + 1, k, v)
\* a Base58 prefix is a prefix of the shown string, not of the stored bytes
B58Prefix(f) == f.b58 /\ EffOp(f) = "PREFIX" /\ ~f.hasbin
SeekPos(idx, q) ==
  LET f == q.fs[1]
      op == EffOp(f)
  IN IF B58Prefix(f) /\ ~BugB58Prefix THEN 1                              \* repaired: walk the whole attribute
     ELSE IF op \in {"EQ", "PREFIX"} THEN FirstGEBytes(idx, 1, f.k, IF f.k \in FlagAttrs THEN <<49>> ELSE f.primdb)
     ELSE IF op \in {"GE", "GT"} /\ ~AutoMatch(f) THEN FirstGENum(idx, 1, f.k, FltNum(f))
     ELSE 1

\* one filter applied to the primary index entry (bytes of the key), as MetaDataKVHandler does it
PrimMatch(o, f, i, q) ==
  LET k == q.fs[1].k
      at == AttrOf(o, k)
      int == IntSorted(q)
  IN IF f.op \in NumOps
       THEN IF int THEN AutoMatch(f) \/ CmpOp(f.op, CmpNum(ValNum(at.db, TRUE), FltNum(f)))   \* intBytesMatch(key bytes, Raw)
            ELSE IF i = 1 THEN FALSE                                                     \* unreachable: int is TRUE then
            ELSE AutoMatch(f) \/ CmpOp(f.op, BytesCmp(at.db, <<>>))                      \* Raw is only prepared for numeric primaries
     ELSE IF int THEN MatchStr([db |-> Key(ValNum(at.db, TRUE)), str |-> Key(ValNum(at.db, TRUE))], [f EXCEPT !.hasbin = FALSE])  \* string matcher on the 33 key bytes
     ELSE MatchStr(at, f)

\* walk over the filters of the primary attribute for one entry: "match" | "skip" | "stop" | "panic", and the
\* new wasPrimMatch flag
RECURSIVE PrimEval(_, _, _, _)
PrimEval(o, q, i, was) ==
  IF i > Len(q.fs) THEN [r |-> "match", was |-> was]
  ELSE IF i > 1 /\ q.fs[i].k # q.fs[1].k THEN PrimEval(o, q, i + 1, was)
  ELSE IF i > 1 /\ ~BugPrimMulti
    THEN (IF Matches(o, q.fs[i], TRUE) THEN PrimEval(o, q, i + 1, was) ELSE [r |-> "skip", was |-> was])  \* repaired: judged by value, never stops
  ELSE IF i > 1 /\ EffOp(q.fs[i]) = "NOT_PRESENT" THEN [r |-> "panic", was |-> was]                 \* matchValues panics on this matcher
  ELSE IF PrimMatch(o, q.fs[i], i, q) THEN PrimEval(o, q, i + 1, TRUE)
  ELSE IF i = 1 /\ B58Prefix(q.fs[1]) /\ ~BugB58Prefix THEN [r |-> "skip", was |-> was]
  ELSE IF EffOp(q.fs[i]) # "NE" /\ (was \/ EffOp(q.fs[i]) # "GT") THEN [r |-> "stop", was |-> was]
  ELSE [r |-> "skip", was |-> was]

\* filters on the other attributes are read through the ID -> attribute index: value semantics
OthersOK(o, q, idIter) ==
  \A i \in 1..Len(q.fs) : (~idIter /\ q.fs[i].k = q.fs[1].k) \/ Matches(o, q.fs[i], TRUE)

SplitIDFails(o, q) == BugSplitIDAbsent /\ \E i \in 2..Len(q.attrs) : q.attrs[i] = SplitIDAttr /\ ~HasAttr(o, SplitIDAttr)

Page(items, more, last, err) == [items |-> items, more |-> more, last |-> last, err |-> err]
\* one page: [items, more, last (index position of the last collected entry), err : "" | "error" | "panic"]
RECURSIVE Walk(_, _, _, _, _, _, _)
Walk(idx, pos, q, n, idIter, acc, was) ==
  IF pos > Len(idx) THEN Page(acc.items, FALSE, acc.last, "")
  ELSE LET o == idx[pos]
           pe == IF idIter THEN [r |-> "match", was |-> was] ELSE PrimEval(o, q, 1, was)
       IN IF pe.r = "panic" THEN Page(<<>>, FALSE, 0, "panic")
          ELSE IF pe.r = "stop" THEN Page(acc.items, FALSE, acc.last, "")
          ELSE IF pe.r = "skip" \/ ~OthersOK(o, q, idIter) \/ ~o.avail THEN Walk(idx, pos + 1, q, n, idIter, acc, pe.was)
          ELSE IF Len(acc.items) = n THEN Page(acc.items, TRUE, acc.last, "")
          ELSE IF SplitIDFails(o, q) THEN Page(<<>>, FALSE, 0, "error")
          ELSE Walk(idx, pos + 1, q, n, idIter, [items |-> Append(acc.items, Item(o, q, TRUE)), last |-> pos], pe.was)

\* searchUnfiltered: the cursor is set as soon as ANY further ID key exists after a full page
RECURSIVE WalkAll(_, _, _, _)
WalkAll(idx, pos, n, acc) ==
  IF pos > Len(idx) THEN Page(acc.items, FALSE, acc.last, "")
  ELSE IF Len(acc.items) = n THEN Page(acc.items, TRUE, acc.last, "")
  ELSE IF ~idx[pos].avail THEN WalkAll(idx, pos + 1, n, acc)
  ELSE WalkAll(idx, pos + 1, n, [items |-> Append(acc.items, [id |-> idx[pos].id, vals |-> <<>>]), last |-> pos])

\* all pages of a query: follow the cursor (= key of the last returned entry) until none is returned
RECURSIVE Follow(_, _, _, _, _, _)
Follow(idx, start, q, n, idIter, fuel) ==
  LET pg == IF Len(q.fs) = 0 THEN WalkAll(idx, start, n, [items |-> <<>>, last |-> 0])
            ELSE Walk(idx, start, q, n, idIter, [items |-> <<>>, last |-> 0], FALSE)
  IN IF pg.err # "" \/ ~pg.more \/ fuel = 0 THEN <<pg>>
     ELSE <<pg>> \o Follow(idx, pg.last + 1, q, n, idIter, fuel - 1)

\* result of the whole paging session: [res : "ok" | "invalid" | "error" | "panic", pages : Seq(Seq(item))]
ImplPages(C, q, n) ==
  IF NumInvalid(q) THEN [res |-> "invalid", pages |-> <<>>]
  ELSE IF Unreachable(q) \/ NumUnreachable(q) THEN [res |-> "ok", pages |-> <<<<>>>>]
  ELSE LET idIter == OidSorted(q)
           idx == IF idIter THEN IdIndex(C) ELSE Index(C, q.fs[1].k, IntSorted(q))
           start == IF idIter THEN 1 ELSE SeekPos(idx, q)
           pgs == Follow(idx, start, q, n, idIter, Cardinality(C) + 2)
           lastErr == pgs[Len(pgs)].err
       IN [res |-> IF lastErr # "" THEN lastErr ELSE "ok",
           pages |-> [i \in 1..(IF lastErr # "" THEN Len(pgs) - 1 ELSE Len(pgs)) |-> pgs[i].items]]

RefPages(C, q, n) ==
  IF NumInvalid(q) THEN [res |-> "invalid", pages |-> <<>>]
  ELSE [res |-> "ok", pages |-> Chop(Expected(C, q), n)]

\* comparison modulo empty pages (an empty trailing page is not a property matter)
RECURSIVE NonEmpty(_)
NonEmpty(ps) == IF ps = <<>> THEN <<>> ELSE (IF Head(ps) = <<>> THEN <<>> ELSE <<Head(ps)>>) \o NonEmpty(Tail(ps))
SamePages(x, y) == x.res = y.res /\ NonEmpty(x.pages) = NonEmpty(y.pages)

\* the query classes of the known findings
MultiPrimClass(q) == ~OidSorted(q) /\ \E i \in 2..Len(q.fs) : q.fs[i].k = q.fs[1].k
SplitIDClass(q) == \E i \in 2..Len(q.attrs) : q.attrs[i] = SplitIDAttr
B58PrefixClass(q) == ~OidSorted(q) /\ B58Prefix(q.fs[1])
PlusSignCorpus(C) == \E o \in C : \E i \in 1..Len(o.attrs) : PlusAfterSignClass(o.attrs[i].db)
=============================================================================
