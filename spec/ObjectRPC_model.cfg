SPECIFICATION Spec
CONSTANTS
  Strict = TRUE
  MSigs = {"ok", "exempt", "none", "bad", "forged", "chunkbad", "chunknone"}
  MToks = {"none", "ok", "expired", "bearer_ok", "bearer_expired"}
INVARIANTS TypeOK C29_NoEffectForFailingRequest C29_ChecksPrecedeEffects C29_HeaderEACLBeforeData C29_ErrorStatusForFailingRequest C45_MaintenanceRefusal
CHECK_DEADLOCK FALSE
