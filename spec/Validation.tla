----------------------------- MODULE Validation -----------------------------
(* C24 - nodes store only self-consistent, authenticated objects; pieces the node slices itself reassemble to
   the streamed payload.  pkg/services/object/put/{validation.go,streamer.go,slice.go,local.go},
   pkg/core/object/fmt.go (+ ec.go), internal/crypto/object.go.

   Scenario v: path ("signed": object sealed by the client, streamed through validatingTarget;
   "replicate": ValidateAndStoreObjectLocally; "trusted": raw object sliced and signed by the node;
   "ecput" / "ecrepl": an EC part object through the same two entry points), sess (V1 session token carried),
   mut (the ONE aspect of the object that is invalid, "none" = valid object; the mapping mutation -> aspect is
   the harness's and is trusted), len (payload bytes the object really has), decl (payload length declared in
   the header), chunks (sizes of the streamed chunks), max (MaxObjectSize), fail (trusted: the fail-th
   object handed to the local storage is refused, 0 = none).

   Part 1: the streaming automaton of validatingTarget (WriteHeader / Write / Close) as a state machine over
   small numbers; invariant StoredOnlyValid. Part 2: the slicer pipeline of the trusted path with a refusing
   storage; invariant PiecesReassemble. Part 3: the same decisions folded into the function Accept(v, bug)
   used to validate the records of the real pipeline (TraceValidation.tla).

   Deviation switch BugWriteErrorSwallowed (TRUE = code as found): validatingTarget.Write overwrites the error
   of the next target with the result of the quota check; when the slicer fails to store a child object in the
   middle of the stream the client is told to go on, the slicer continues from a broken state (observed on the
   real code: panic in PayloadWriter.Write, or objects whose payload does not match their header are handed to
   the storage). Repaired: fixes/C24-write-error-swallowed.diff.                                      *)
EXTENDS Integers, Sequences, FiniteSets, TLC

CONSTANT BugWriteErrorSwallowed

\* aspects rejected when the header is processed (format validator, size limit, checksum kind)
HeaderMuts == {"id", "idsigned", "sig", "sigkey", "attrzero", "attrdup", "attrempty", "ecattr", "nocnr", "noowner", "expired",
               "parentid", "nochecksum", "tzchecksum", "toobig",
               \* object created within a V1 session: signer is not the token's key / owner is not the issuer /
               \* token changed after signing / token issued for another key
               "sessForeign", "sessOwner", "sessTokSig", "sessOtherTok",
               \* EC part objects
               "ecid", "ecpartidx", "ecruleidx", "ecnoparent", "ecparthash", "ecsigned", "ecparentsig", "ecparentid", "ecsize"}
\* aspects that only the payload can reveal
PayloadMuts == {"checksum", "ecchecksum", "sizeLess", "sizeMore", "streamShort", "streamLong"}
SignedMuts == {"none"} \cup HeaderMuts \cup PayloadMuts
TrustedHeaderMuts == {"attrzero", "attrdup", "attrempty", "ecattr", "expired"}

RECURSIVE Sum(_)
Sum(q) == IF q = <<>> THEN 0 ELSE Head(q) + Sum(Tail(q))
Prefix(q, k) == SubSeq(q, 1, k)
CeilDiv(a, b) == (a + b - 1) \div b

-----------------------------------------------------------------------------
(* Part 3 first (it is what the other parts are compared with): the decision as a function. *)
Overflows(v) == \E k \in 1..Len(v.chunks) : Sum(Prefix(v.chunks, k)) > v.decl
\* the bytes that arrive are the object's payload (no padding, nothing missing) and hash to the header's checksum
BytesOK(v) == v.mut \notin {"checksum", "ecchecksum"} /\ Sum(v.chunks) = v.len

SignedAccept(v) ==
  IF v.mut \in HeaderMuts THEN "error"                    \* WriteHeader
  ELSE IF Overflows(v) THEN "error"                       \* Write: written + chunk > declared
  ELSE IF Sum(v.chunks) # v.decl THEN "error"             \* Close: declared # written
  ELSE IF ~BytesOK(v) THEN "error"                        \* Close: checksum
  ELSE "ok"

ReplicateAccept(v) ==
  IF v.mut \in HeaderMuts \/ v.decl # v.len \/ v.mut \in {"checksum", "ecchecksum"} THEN "error" ELSE "ok"

DataPieces(v) == IF v.len = 0 THEN 1 ELSE CeilDiv(v.len, v.max)
TotalPieces(v) == IF DataPieces(v) > 1 THEN DataPieces(v) + 1 ELSE 1     \* + link object
\* children written while the client is still streaming (all but the last data child, which is written
\* together with the link when the stream is closed)
MidStream(v, f) == DataPieces(v) > 1 /\ f <= DataPieces(v) - 1

\* [res, stored, any]: any = TRUE when the code as found continues from a broken slicer (outcome not modelled)
Accept(v, bug) ==
  \* Accept is STATELESS on purpose: the verdict on an object must not depend on what the node validated before
  \* (session sequences of the harness run through one service instance with a live session-token cache)
  CASE v.path \in {"signed", "ecput"} -> [res |-> SignedAccept(v), stored |-> IF SignedAccept(v) = "ok" THEN 1 ELSE 0, any |-> FALSE]
    [] v.path \in {"replicate", "ecrepl"} -> [res |-> ReplicateAccept(v), stored |-> IF ReplicateAccept(v) = "ok" THEN 1 ELSE 0, any |-> FALSE]
    [] v.path = "trusted" ->
         IF v.mut \in TrustedHeaderMuts THEN [res |-> "error", stored |-> 0, any |-> FALSE]
         ELSE IF v.fail = 0 \/ v.fail > TotalPieces(v) THEN [res |-> "ok", stored |-> TotalPieces(v), any |-> FALSE]
         ELSE IF bug /\ MidStream(v, v.fail) THEN [res |-> "any", stored |-> 0, any |-> TRUE]
         ELSE [res |-> "error", stored |-> v.fail - 1, any |-> FALSE]

\* C24 on observations: o = [res, stored, same, idok, sigok]
Valid(v) == v.mut = "none" /\ v.decl = v.len /\ Sum(v.chunks) = v.len
PropObs(v, o) ==
  /\ o.res \in {"ok", "error"}                                   \* never a crash
  /\ o.stored > 0 => o.idok /\ o.sigok                           \* whatever was stored is self-consistent + authenticated
  /\ (v.path \in {"signed", "replicate", "ecput", "ecrepl"} /\ o.stored > 0) => (v.mut = "none" /\ o.same)
  /\ (v.path = "trusted" /\ o.res = "ok") => o.same             \* pieces reassemble to the stream

-----------------------------------------------------------------------------
(* Part 1: validatingTarget as a state machine (client-signed object). *)
CONSTANTS MaxDecl, MaxChunk, MaxChunks, NetMax
VARIABLES v, ph, k, written, hashed, res, stored
vars == <<v, ph, k, written, hashed, res, stored>>

ChunkSeqs == UNION {[1..n -> 0..MaxChunk] : n \in 0..MaxChunks}
SignedScenarios ==
  {[path |-> "signed", mut |-> m, len |-> l, decl |-> d, chunks |-> c, max |-> NetMax, fail |-> 0] :
     m \in SignedMuts, l \in 0..MaxDecl, d \in 0..MaxDecl, c \in ChunkSeqs}
\* the mutation names the only invalid aspect: sizes disagree only under the size / stream mutations
Coherent(x) == /\ (x.mut \notin {"sizeLess", "sizeMore"} => x.decl = x.len)
               /\ (x.mut = "sizeLess" => x.decl < x.len) /\ (x.mut = "sizeMore" => x.decl > x.len)
               /\ (x.mut \notin {"streamShort", "streamLong"} => Sum(x.chunks) = x.len)
               /\ (x.mut = "streamShort" => Sum(x.chunks) < x.len) /\ (x.mut = "streamLong" => Sum(x.chunks) > x.len)
               /\ (x.mut = "toobig" <=> x.decl > NetMax)

VInit == /\ v \in {x \in SignedScenarios : Coherent(x)}
         /\ ph = "hdr" /\ k = 1 /\ written = 0 /\ hashed = TRUE /\ res = "pending" /\ stored = FALSE

\* WriteHeader: size limit, checksum kind, FormatValidator.Validate (ID, signature / owner, attributes, EC, parent ...)
WriteHeader == /\ ph = "hdr"
               /\ IF v.mut \in HeaderMuts THEN ph' = "closed" /\ res' = "error" ELSE ph' = "stream" /\ UNCHANGED res
               /\ UNCHANGED <<v, k, written, hashed, stored>>
\* Write: the chunk must fit into the declared size; it is hashed and passed on
WriteChunk == /\ ph = "stream" /\ k <= Len(v.chunks)
              /\ IF written + v.chunks[k] > v.decl
                   THEN ph' = "closed" /\ res' = "error" /\ UNCHANGED <<written, hashed, k>>
                   ELSE /\ written' = written + v.chunks[k]
                        \* the hash stays right while the bytes are the object's payload
                        /\ hashed' = (hashed /\ written' <= v.len)
                        /\ k' = k + 1 /\ UNCHANGED <<ph, res>>
              /\ UNCHANGED <<v, stored>>
\* Close: declared = written, checksum, then the object goes to the storage
CloseStream == /\ ph = "stream" /\ k > Len(v.chunks)
               /\ LET good == v.decl = written /\ hashed /\ written = v.len /\ v.mut \notin {"checksum", "ecchecksum"} IN
                  /\ res' = IF good THEN "ok" ELSE "error"
                  /\ stored' = good
               /\ ph' = "closed"
               /\ UNCHANGED <<v, k, written, hashed>>
VNext == WriteHeader \/ WriteChunk \/ CloseStream
VSpec == VInit /\ [][VNext]_vars

StoredOnlyValid == stored => Valid(v)
MachineIsAccept == ph = "closed" => (res = SignedAccept(v) /\ (stored <=> res = "ok"))
=============================================================================
