------------------------------- MODULE Merge -------------------------------
(* C04 - search merged over several shards (StorageEngine.Search) or nodes (Server.ProcessSearch):
   every shard/node answers one page from the same cursor, objectcore.MergeSearchResults merges the pages
   (k-way merge by first attribute then OID, duplicates dropped), objectcore.CalculateCursor rebuilds the
   index key of the last merged item, and the next request decodes it (PreprocessSearchQuery) for all shards.

   Objects additionally carry `shards` (set of shard numbers holding a copy). The reference is Search!RefPages
   over the whole corpus (the union).  Implementation-shaped: ShardPage (Search!Walk on the shard's index from
   the abstract cursor [v, id]), MergeImpl (the algorithm of MergeSearchResults, literally), MergedPages.

   Deviation switches (TRUE = code as found):
     BugCursorChecksum  CalculateCursor for "$Object:payloadHash" advances the offset by 1 instead of len+1: the
                        OID overwrites the hash, the cursor is malformed and the next request is rejected.
     BugAssocMerge      "__NEOFS__ASSOCIATE": MergeSearchResults compares the Base58 strings (not the decoded
                        IDs) and CalculateCursor puts the Base58 string into the key: order, duplicates and
                        omissions of the merged result are unspecified (havoc in the as-is model).
     BugAssocAbsent     (introduced by the repair of the previous one) primary filter "__NEOFS__ASSOCIATE NOT_PRESENT"
                        with attributes requested: the first attribute of every item is empty, MergeSearchResults
                        tries to Base58-decode it and the merged search fails (havoc in the as-is model).      *)
EXTENDS Search

CONSTANTS BugCursorChecksum, BugAssocMerge, BugAssocAbsent

ChecksumAttr == "$Object:payloadHash"
AssocAttr == "__NEOFS__ASSOCIATE"

ShardCorpus(C, s) == {o \in C : s \in o.shards}
ObjByID(C, id) == CHOOSE o \in C : o.id = id

\* position of the first entry strictly after the cursor (the key of the last merged item, which this shard may
\* not hold): bbolt Seek + "skip if equal"
RECURSIVE After(_, _, _, _, _)
After(idx, i, q, cur, C) ==
  IF i > Len(idx) THEN i
  ELSE LET o == idx[i]
           gt == IF OidSorted(q) THEN o.id > cur.id
                 ELSE LET k == q.fs[1].k
                          c == IF IntSorted(q) THEN CmpNum(ValNum(AttrOf(o, k).db, TRUE), ValNum(cur.v, TRUE))
                               ELSE BytesCmp(AttrOf(o, k).db, cur.v)
                      IN c > 0 \/ (c = 0 /\ o.id > cur.id)
       IN IF gt THEN i ELSE After(idx, i + 1, q, cur, C)

\* one page of one shard
ShardPage(Cs, q, n, cur, C) ==
  LET idIter == OidSorted(q)
      idx == IF idIter THEN IdIndex(Cs) ELSE Index(Cs, q.fs[1].k, IntSorted(q))
      start == IF cur.id = 0 THEN (IF idIter THEN 1 ELSE SeekPos(idx, q)) ELSE After(idx, 1, q, cur, C)
  IN IF Len(q.fs) = 0 THEN WalkAll(idx, start, n, [items |-> <<>>, last |-> 0])
     ELSE Walk(idx, start, q, n, idIter, [items |-> <<>>, last |-> 0], FALSE)

-----------------------------------------------------------------------------
(* objectcore.MergeSearchResults *)
HasID(set, id) == \E j \in 1..Len(set) : set[j].id = id
FirstIdx(set, id) == CHOOSE j \in 1..Len(set) : set[j].id = id /\ \A k \in 1..(j - 1) : set[k].id # id

\* calcMaxUniqueSearchResults
UniqueIDs(sets) == UNION {{sets[i][j].id : j \in 1..Len(sets[i])} : i \in 1..Len(sets)}
CalcMax(lim, sets) == IF Len(sets[1]) >= lim THEN lim ELSE Min2(lim, Cardinality(UniqueIDs(sets)))

\* comparison of the first attribute of two items (by the stored value of the object; numeric for numeric matchers)
AttrCmp(it1, it2, q, C, withAttr) ==
  IF ~withAttr THEN 0
  ELSE LET k == q.fs[1].k
           a1 == AttrOf(ObjByID(C, it1.id), k)
           a2 == AttrOf(ObjByID(C, it2.id), k)
       IN IF IntSorted(q) THEN CmpNum(ValNum(a1.db, TRUE), ValNum(a2.db, TRUE)) ELSE BytesCmp(a1.db, a2.db)

\* index of the set whose head is the minimum, scanning the sets in order (0 = all empty)
RECURSIVE MinInd(_, _, _, _, _, _)
MinInd(sets, i, cur, q, C, withAttr) ==
  IF i > Len(sets) THEN cur
  ELSE IF Len(sets[i]) = 0 THEN MinInd(sets, i + 1, cur, q, C, withAttr)
  ELSE IF cur = 0 THEN MinInd(sets, i + 1, i, q, C, withAttr)
  ELSE LET x == sets[i][1]
           m == sets[cur][1]
       IN IF x.id = m.id THEN MinInd(sets, i + 1, cur, q, C, withAttr)
          ELSE LET ca == AttrCmp(x, m, q, C, withAttr)
               IN IF ca # 0 THEN MinInd(sets, i + 1, IF ca < 0 THEN i ELSE cur, q, C, withAttr)
                  ELSE MinInd(sets, i + 1, IF x.id < m.id THEN i ELSE cur, q, C, withAttr)

RECURSIVE MergeLoop(_, _, _, _, _, _, _)
MergeLoop(res, sets, lim, anyMore, q, C, withAttr) ==
  LET mi == MinInd(sets, 1, 0, q, C, withAttr)
  IN IF mi = 0 THEN [items |-> res, more |-> FALSE]
     ELSE LET it == sets[mi][1]
              res2 == Append(res, it)
          IN IF Len(res2) = lim
               THEN [items |-> res2,
                     more |-> Len(sets[mi]) > 1 \/ anyMore
                              \/ \E i \in 1..Len(sets) : i # mi /\ \E j \in 1..Len(sets[i]) : sets[i][j].id # it.id]
             ELSE MergeLoop(res2,
                            [i \in 1..Len(sets) |->
                               IF i = mi THEN Tail(sets[i])
                               ELSE IF HasID(sets[i], it.id) THEN SubSeq(sets[i], FirstIdx(sets[i], it.id) + 1, Len(sets[i]))
                               ELSE sets[i]],
                            lim, anyMore, q, C, withAttr)

MergeImpl(lim, sets, mores, q, C, withAttr) ==
  LET anyMore == \E i \in 1..Len(mores) : mores[i]
  IN IF lim = 0 \/ Len(sets) = 0 THEN [items |-> <<>>, more |-> FALSE]
     ELSE IF Len(sets) = 1
       THEN [items |-> SubSeq(sets[1], 1, Min2(Len(sets[1]), lim)),
             more |-> Len(sets[1]) > lim \/ (Len(sets[1]) = lim /\ anyMore)]
     ELSE MergeLoop(<<>>, sets, CalcMax(lim, sets), anyMore, q, C, withAttr)

-----------------------------------------------------------------------------
(* the whole paging session over NS shards; mode "engine": one shard => its own page and cursor;
   mode "nodes" (Server.ProcessSearch): the first attribute is not compared for STRING_EQUAL primaries *)
CursorOf(it, q, C) ==
  IF OidSorted(q) THEN [id |-> it.id, v |-> <<>>]
  ELSE [id |-> it.id, v |-> AttrOf(ObjByID(C, it.id), q.fs[1].k).db]

NoCursor == [id |-> 0, v |-> <<>>]

\* the recomputed cursor is malformed for this attribute (as-is): the next request is rejected
CursorBroken(q) == BugCursorChecksum /\ ~OidSorted(q) /\ q.fs[1].k = ChecksumAttr

RECURSIVE MSession(_, _, _, _, _, _, _)
MSession(C, NS, q, n, cur, mode, fuel) ==
  LET pgs == [s \in 1..NS |-> ShardPage(ShardCorpus(C, s), q, n, cur, C)]
      err == IF \E s \in 1..NS : pgs[s].err = "panic" THEN "panic" ELSE IF \E s \in 1..NS : pgs[s].err # "" THEN "error" ELSE ""
      \* values of an absent (NOT_PRESENT) primary are all empty, i.e. equal
      withAttr == ~OidSorted(q) /\ ~(mode = "nodes" /\ EffOp(q.fs[1]) = "EQ" /\ q.fs[1].k \notin FlagAttrs)
      mg == IF NS = 1 /\ mode = "engine" THEN [items |-> pgs[1].items, more |-> pgs[1].more]
            ELSE MergeImpl(n, [s \in 1..NS |-> pgs[s].items], [s \in 1..NS |-> pgs[s].more], q, C, withAttr)
  IN IF err # "" THEN [res |-> err, pages |-> <<>>]
     ELSE IF ~mg.more \/ fuel = 0 THEN [res |-> "ok", pages |-> <<mg.items>>]
     ELSE IF CursorBroken(q) /\ ~(NS = 1 /\ mode = "engine") THEN [res |-> "badcursor", pages |-> <<mg.items>>]
     ELSE LET rest == MSession(C, NS, q, n, CursorOf(mg.items[Len(mg.items)], q, C), mode, fuel - 1)
          IN [res |-> rest.res, pages |-> <<mg.items>> \o rest.pages]

MergedPages(C, NS, q, n, mode) ==
  IF NumInvalid(q) THEN [res |-> "invalid", pages |-> <<>>]
  ELSE IF Unreachable(q) \/ NumUnreachable(q) THEN [res |-> "ok", pages |-> <<<<>>>>]
  ELSE MSession(C, NS, q, n, NoCursor, mode, Cardinality(C) + 2)

AssocClass(q) == ~OidSorted(q) /\ q.fs[1].k = AssocAttr
ChecksumClass(q) == ~OidSorted(q) /\ q.fs[1].k = ChecksumAttr
AssocAbsentClass(q) == Len(q.attrs) > 0 /\ Len(q.fs) > 0 /\ q.fs[1].k = AssocAttr /\ EffOp(q.fs[1]) = "NOT_PRESENT"
=============================================================================
