SPECIFICATION Spec
CONSTANTS
  NKeys = 8
  CurSizes = {1, 2, 3, 4, 5, 6, 7}
  MaxExtra = 2
  BugIRDup = TRUE
INVARIANTS PropertyHolds RawListNoDup KFExact
CHECK_DEADLOCK FALSE
