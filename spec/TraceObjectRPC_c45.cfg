SPECIFICATION TraceSpec
CONSTANTS
  Strict = FALSE
  MSigs = {"ok"}
  MToks = {"none"}
INVARIANTS C45_MaintenanceRefusal TraceNotStuck
CHECK_DEADLOCK FALSE
