SPECIFICATION Spec
CONSTANTS
  Full = FALSE
  BugH13 = TRUE
INVARIANTS PropertyHoldsExceptH13
CHECK_DEADLOCK FALSE
