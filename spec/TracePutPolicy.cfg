SPECIFICATION TraceSpec
CONSTANTS
  Nodes = {1, 2, 3, 4, 5, 6, 7, 8}
  Local = 1
  Chunk = 500
  NRecs = 1
INVARIANTS AllRead
CHECK_DEADLOCK FALSE
