----------------------------- MODULE PolicerMC -----------------------------
(* Model-checking wrapper of Policer: nodes are model values so that TLC can use the symmetry of the
   remote nodes (the decision does not depend on their names).                                         *)
EXTENDS Policer
CONSTANTS L, n1, n2, n3, n4, n5
Sym2 == Permutations({n1, n2})
Sym3 == Permutations({n1, n2, n3})
Sym4 == Permutations({n1, n2, n3, n4})
Sym5 == Permutations({n1, n2, n3, n4, n5})
ShapesQuick == {<<1, 3>>}
ShapesOne5 == {<<1, 5>>}
ShapesTwo3 == {<<2, 3>>}
ShapesOne4 == {<<1, 4>>}
=============================================================================
